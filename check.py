#!/usr/bin/env python3
"""check.py -- one entry point for every covfie property check.

  check.py <Cnn> [--tier quick|thorough]     run the check of one property
  check.py --setup                            build everything once (MANIFEST.setup_cmd)
  check.py <Cnn> --replay <file>              re-run the cases of a replay file

Environment: VERIF_SEED (int, default 1), VERIF_TIER (quick|thorough)."""
import importlib, os, sys

sys.path.insert(0, os.path.dirname(os.path.abspath(__file__)))


def main():
    args = sys.argv[1:]
    if not args:
        print(__doc__)
        return 2
    if args[0] == '--setup':
        from vlib import setup
        return setup.main()
    pid = args[0]
    if '--tier' in args:
        os.environ['VERIF_TIER'] = args[args.index('--tier') + 1]
    replay = args[args.index('--replay') + 1] if '--replay' in args else None
    mod = importlib.import_module('props.' + pid.lower())
    return mod.run(replay=replay)


if __name__ == '__main__':
    sys.exit(main())
