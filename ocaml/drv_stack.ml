(* drv_stack.ml -- runs stack cases on the extracted model (Stack.v / BinIO.v / FloatOps.v).
   Case: <id> <stack> <op> args ... [ | <op> args ... ]*      answers joined with " | " *)
open Zutil
module S = Stack
let sl = Stdlib.String.split_on_char
let cat = Stdlib.String.concat
let sty_of = function
  | "f32" -> S.F32 | "f64" -> S.F64 | "i32" -> S.I32 | "u32" -> S.U32 | "i64" -> S.I64 | "u64" -> S.U64
  | s -> failwith ("sty " ^ s)
let nat s = nat_of_int (int_of_string s)
let parse_stack (name : string) : S.stack =
  let parts = Stdlib.List.map (sl '.') (sl '/' name) in
  let rec go = function
    | [] -> failwith "empty stack"
    | [p] ->
        let prim = (match p with
          | ["array"; m; t] -> S.PArray (nat m, sty_of t)
          | ["constant"; n; tc; m; tv] -> S.PConstant (nat n, sty_of tc, nat m, sty_of tv)
          | ["identity"; n; t] -> S.PIdentity (nat n, sty_of t)
          | ["probe"; n; tc; m; tv] -> S.PProbe (nat n, sty_of tc, nat m, sty_of tv)
          | _ -> failwith "prim") in
        ([], prim)
    | l :: rest ->
        let (ls, prim) = go rest in
        let layer = (match l with
          | ["strided"; n; tc] -> S.LStrided (nat n, sty_of tc)
          | ["morton"; n; tc; f] -> S.LMorton (nat n, sty_of tc, f = "b")
          | ["hilbert"; tc] -> S.LHilbert (sty_of tc)
          | ["clamp"] -> S.LClamp | ["backup"] -> S.LBackup | ["affine"] -> S.LAffine | ["deref"] -> S.LDeref
          | ["cast"; t] -> S.LCast (sty_of t)
          | ["shuffle"; p] -> S.LShuffle (Stdlib.List.map nat (sl '-' p))
          | ["linear"; tc] -> S.LLinear (sty_of tc)
          | ["nearest"; tc] -> S.LNearest (sty_of tc)
          | _ -> failwith "layer") in
        (layer :: ls, prim) in
  go parts

let hexdigit c = if c <= '9' then Char.code c - 48 else (Char.code c lor 32) - 87
let unhex (h : string) : BinNums.coq_Z list =
  if h = "-" then [] else
  Stdlib.List.init (Stdlib.String.length h / 2) (fun i -> z_of_zarith (Z.of_int (hexdigit h.[2*i] * 16 + hexdigit h.[2*i+1])))
let hex (bs : BinNums.coq_Z list) : string =
  if bs = [] then "-" else
  cat "" (Stdlib.List.map (fun b -> Printf.sprintf "%02x" (Z.to_int (zarith_of_z b))) bs)
let rec take n l = if n <= 0 then [] else match l with [] -> [] | x :: r -> x :: take (n - 1) r
let zs = Stdlib.List.map z_of_string
let show l = cat "" (Stdlib.List.map (fun z -> " " ^ string_of_z z) l)

let split_bar args =
  let rec go acc cur = function
    | [] -> Stdlib.List.rev (Stdlib.List.rev cur :: acc)
    | "|" :: r -> go (Stdlib.List.rev cur :: acc) [] r
    | x :: r -> go acc (x :: cur) r in
  go [] [] args

let handle (stack : string) (args : string list) : string =
  let st0 = parse_stack stack in
  (* slots are per stack type, as in the harness *)
  let tbl : (string, S.fld option array) Hashtbl.t = Hashtbl.create 4 in
  let slots_of name = (match Hashtbl.find_opt tbl name with Some a -> a | None -> let a = Array.make 8 None in Hashtbl.add tbl name a; a) in
  let rec one_on (name : string) (st : S.stack) (part : string list) : string =
    let slots = slots_of name in
    let get s = match slots.(int_of_string s) with Some f -> f | None -> failwith "empty slot" in
    match part with
    | "on" :: other :: rest -> one_on other (parse_stack other) rest
    | "conv" :: target :: d :: s :: _ ->
        let tst = parse_stack target in
        (match Convert.convert st tst (get s) with
         | Some f -> (slots_of target).(int_of_string d) <- Some f; "OK"
         | None -> "MODEL_NO_CONVERSION")
    | "new" :: s :: toks ->
        (match StackGlue.parse_fld st (zs toks) with
         | Some f -> slots.(int_of_string s) <- Some f; "OK"
         | None -> "MODEL_BAD_TOKENS")
    | "newp" :: s :: toks ->
        (* configurations only: an array primitive gets its length, and zero-initialised storage *)
        let toks = (match snd st, Stdlib.List.rev toks with
          | S.PArray (m, _), len :: _ ->
              toks @ Stdlib.List.init (int_of_string len * int_of_nat m) (fun _ -> "0")
          | _ -> toks) in
        (match StackGlue.parse_fld st (zs toks) with
         | Some f -> slots.(int_of_string s) <- Some f; "OK"
         | None -> "MODEL_BAD_TOKENS")
    | ("at" | "atv") :: s :: coords ->
        (match Extract_stack.m_eval st (get s) (zs coords) with
         | Some (_, v) -> "V" ^ show v
         | None -> "DOMAIN")
    | ["fp"; s] -> "BAD_OP"
    | "fp" :: s :: coords ->
        (match Extract_stack.m_eval st (get s) (zs coords) with
         | Some (t, _) -> "T" ^ show t
         | None -> "DOMAIN")
    | ("par" | "parw") :: s :: _ :: _ :: coords ->
        (* the sequential meaning of the concurrent lookups / disjoint writes (theorem schedule_irrelevant) *)
        let n = (match S.kind_of st with Some k -> int_of_nat k.S.k_n | None -> failwith "kind") in
        let m = (match S.kind_of st with Some k -> int_of_nat k.S.k_m | None -> failwith "kind") in
        let tv = (match S.kind_of st with Some k -> k.S.k_tv | None -> failwith "kind") in
        let rec chunks l = (match l with [] -> [] | _ -> take n l :: chunks (Stdlib.List.filteri (fun i _ -> i >= n) l)) in
        let cs = chunks (zs coords) in
        if Stdlib.List.hd part = "par" then
          "P ok" ^ cat "" (Stdlib.List.map (fun c -> match Extract_stack.m_eval st (get s) c with
                                                    | Some (_, v) -> " ;" ^ show v | None -> " ;DOMAIN") cs)
        else
          "W ok" ^ cat "" (Stdlib.List.mapi (fun j c -> match Extract_stack.m_eval st (get s) c with
              | Some _ -> " ;" ^ show (Stdlib.List.init m (fun q -> FloatOps.fofZ tv (z_of_zarith (Z.of_int (1000 + 10 * j + q)))))
              | None -> " ;DOMAIN") cs)
    | "wr" :: s :: toks ->
        let n = (match S.kind_of st with Some k -> int_of_nat k.S.k_n | None -> failwith "kind") in
        let z = zs toks in
        let c = take n z in
        let v = Stdlib.List.filteri (fun i _ -> i >= n) z in
        (match Extract_stack.m_write st (get s) c v with
         | Some f -> slots.(int_of_string s) <- Some f; "OK"
         | None -> "NOT_WRITABLE")
    | ["cfg"; s] ->
        "C" ^ cat "" (Stdlib.List.map (fun g -> " ;" ^ show g) (StackGlue.fld_cfg_groups (get s)))
    | ["sto"; s] ->
        (match StackGlue.fld_storage (get s) with Some l -> "S" ^ show l | None -> "S -")
    | ["dump"; s] ->
        (match BinIO.dump st (get s) with Some b -> "B " ^ hex b | None -> "NOT_SERIALISABLE")
    | "load" :: s :: h :: rest ->
        let bytes = unhex h in
        let bytes = (match rest with lim :: _ -> take (int_of_string lim) bytes | _ -> bytes) in   (* a 2nd extra token: stream exception mask *)
        (match Extract_stack.m_load st bytes with
         | BinIO.Good (f, _) -> slots.(int_of_string s) <- Some f; "LOADED"
         | BinIO.Bad _ -> "EXCEPTION")
    | "truncs" :: h :: ([] | [_]) ->   (* an optional stream exception mask: no meaning for the model reader *)
        let bytes = unhex h in
        let n = Stdlib.List.length bytes in
        let b = Buffer.create n in
        for k = 0 to n - 1 do
          (match Extract_stack.m_load st (take k bytes) with
           | BinIO.Good _ -> Buffer.add_char b 'L'
           | BinIO.Bad _ -> Buffer.add_char b 'X')
        done;
        "T " ^ (if n = 0 then "-" else Buffer.contents b)
    | ["segs"; s] ->
        (* offsets of the magic / tag words (T) and of the width word (W) in the dump *)
        (match BinIOFlip.dump_segs st (get s) with
         | None -> "NOT_SERIALISABLE"
         | Some sg ->
             let off = ref 0 in
             let out = Buffer.create 64 in
             Stdlib.List.iter (fun g ->
               (match g with
                | BinIOFlip.Tag _ -> Buffer.add_string out (Printf.sprintf " T%d" !off)
                | BinIOFlip.Wid _ -> Buffer.add_string out (Printf.sprintf " W%d" !off)
                | BinIOFlip.Dat _ -> ());
               off := !off + Stdlib.List.length (BinIOFlip.seg_bytes g)) sg;
             "G" ^ Buffer.contents out ^ Printf.sprintf " E%d" !off)
    | ["wf"; s] -> if BinIOProofs.wf_fld st (get s) then "WF" else "NOT_WF"
    | ["copy"; d; s] -> slots.(int_of_string d) <- Some (get s); "OK"
    | ["cassign"; d; s] -> slots.(int_of_string d) <- Some (get s); "OK"   (* the destination may be a moved-from field *)
    | ["move"; d; s] -> let v = get s in slots.(int_of_string d) <- Some v; slots.(int_of_string s) <- None; "OK"
    | ["massign"; d; s] -> ignore (get d); let v = get s in
        if d <> s then (slots.(int_of_string d) <- Some v; slots.(int_of_string s) <- None); "OK"
    | ["del"; d] -> slots.(int_of_string d) <- None; "OK"
    | _ -> "BAD_OP" in
  cat " | " (Stdlib.List.map (fun p -> try one_on stack st0 p with Failure m -> "MODEL_FAIL " ^ m) (split_bar args))

let () = main_loop handle
