(* zutil.ml -- glue between text and the extracted Coq numbers (BinNums.positive / z / n, nat).
   Uses zarith only to parse and print decimal / hex strings; all model arithmetic is the
   extracted Coq code. *)
open BinNums
open Datatypes

let rec pos_of_zarith (x : Z.t) : positive =
  if Z.equal x Z.one then Coq_xH
  else if Z.testbit x 0 then Coq_xI (pos_of_zarith (Z.shift_right x 1))
  else Coq_xO (pos_of_zarith (Z.shift_right x 1))

let z_of_zarith (x : Z.t) : coq_Z =
  if Z.sign x = 0 then Z0 else if Z.sign x > 0 then Zpos (pos_of_zarith x) else Zneg (pos_of_zarith (Z.neg x))

let rec zarith_of_pos (p : positive) : Z.t =
  match p with
  | Coq_xH -> Z.one
  | Coq_xO q -> Z.shift_left (zarith_of_pos q) 1
  | Coq_xI q -> Z.succ (Z.shift_left (zarith_of_pos q) 1)

let zarith_of_z (z : coq_Z) : Z.t =
  match z with Z0 -> Z.zero | Zpos p -> zarith_of_pos p | Zneg p -> Z.neg (zarith_of_pos p)

let z_of_string s = z_of_zarith (Z.of_string s)
let string_of_z z = Z.to_string (zarith_of_z z)
let hex_of_z z = Z.format "%x" (zarith_of_z z)

let n_of_zarith (x : Z.t) : coq_N = if Z.sign x = 0 then N0 else Npos (pos_of_zarith x)
let zarith_of_n (n : coq_N) : Z.t = match n with N0 -> Z.zero | Npos p -> zarith_of_pos p
let n_of_string s = n_of_zarith (Z.of_string s)
let string_of_n n = Z.to_string (zarith_of_n n)

let rec nat_of_int (i : int) : nat = if i <= 0 then O else S (nat_of_int (i - 1))
let rec int_of_nat (n : nat) : int = match n with O -> 0 | S m -> 1 + int_of_nat m

let split_ws (s : string) : string list =
  Stdlib.List.filter (fun x -> x <> "") (Stdlib.String.split_on_char ' ' (Stdlib.String.trim s))

(* main loop: one case per line on stdin, "<id> <kind> <args...>"; [f kind args] returns the
   canonical answer, printed as "<id> <answer>" *)
let main_loop (f : string -> string list -> string) : unit =
  (try
     while true do
       let line = input_line stdin in
       match split_ws line with
       | id :: kind :: args ->
           let ans = (try f kind args with e -> "MODEL_EXCEPTION " ^ Printexc.to_string e) in
           print_string id; print_char ' '; print_string ans; print_char '\n'
       | _ -> ()
     done
   with End_of_file -> ());
  flush stdout
