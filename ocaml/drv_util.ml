(* drv_util.ml -- cases for nd_map and static_permutation *)
open Zutil
let nat_list args = Stdlib.List.map (fun s -> nat_of_int (int_of_string s)) args
let show_tuple t = Stdlib.String.concat "," (Stdlib.List.map (fun n -> string_of_int (int_of_nat n)) t)
let n_list args = Stdlib.List.map n_of_string args
let show_ntuple t = Stdlib.String.concat "," (Stdlib.List.map string_of_n t)
let split_bar args =
  let rec go acc cur = function
    | [] -> Stdlib.List.rev (Stdlib.List.rev cur :: acc)
    | "|" :: r -> go (Stdlib.List.rev cur :: acc) [] r
    | x :: r -> go acc (x :: cur) r in
  go [] [] args
let handle kind args =
  match kind with
  | "ndmap" ->
      let s = nat_list (Stdlib.List.tl args) in
      let ts = NdMap.nd_map s in
      if ts = [] then "-" else Stdlib.String.concat ";" (Stdlib.List.map show_tuple ts)
  | "sort" -> let r = StaticPerm.sort (n_list args) in if r = [] then "-" else show_ntuple r
  | "isperm" ->
      (match split_bar args with
       | [a; b] -> if StaticPerm.is_perm (n_list a) (n_list b) then "1" else "0"
       | _ -> "BAD_CASE")
  | _ -> "BAD_CASE"
let () = main_loop handle
