(* drv_layout.ml -- cases for the storage-order layers *)
open Zutil
let z = z_of_string
let zs = Stdlib.List.map z_of_string
let rec take n l = if n <= 0 then [] else match l with [] -> [] | x :: r -> x :: take (n - 1) r
let rec drop n l = if n <= 0 then l else match l with [] -> [] | _ :: r -> drop (n - 1) r
let ty_of = function
  | "u64" -> (false, z "64") | "u32" -> (false, z "32") | "i32" -> (true, z "32") | "i64" -> (true, z "64")
  | _ -> failwith "type"
let cat = Stdlib.String.concat
let handle kind args =
  match kind, args with
  | "sidx", ty :: n :: rest ->
      let n = int_of_string n in
      let (sg, w) = ty_of ty in
      let sizes = zs (take n rest) and c = zs (take n (drop n rest)) in
      cat " " [ string_of_z (Extract_layout.run_strided_at sg w false sizes c);
                string_of_z (Extract_layout.run_strided_at sg w true sizes c);
                string_of_z (Extract_layout.run_strided_copy_index sg w sizes c);
                string_of_z (Extract_layout.spec_rowmajor sizes c) ]
  | "midx", flag :: n :: rest ->
      let c = zs rest in
      cat " " [ string_of_z (Extract_layout.run_morton_index c);
                string_of_z (Extract_layout.run_morton_index_bmi2 (flag = "b") c);
                string_of_z (Extract_layout.spec_morton c) ]
  | "hidx", [sx; sy; x; y] ->
      cat " " [ string_of_z (Extract_layout.run_hilbert_index [z sx; z sy] (z x) (z y));
                string_of_z (Extract_layout.spec_hilbert [z sx; z sy] (z x) (z y)) ]
  | "rw", lay :: ty :: n :: m :: rest ->
      let sizes = zs rest in
      let coords = Extract_layout.znd_map sizes in
      let (cap, idx) =
        match lay with
        | "strided" -> (Layout.zprod sizes, (fun c -> Extract_layout.spec_rowmajor sizes c))
        | "mortonb" | "mortonp" -> (Extract_layout.spec_curve_cap sizes, Extract_layout.spec_morton)
        | "hilbert" -> (Extract_layout.spec_curve_cap sizes,
                        (fun c -> match c with [x; y] -> Extract_layout.spec_hilbert sizes x y | _ -> failwith "dim"))
        | _ -> failwith "layout" in
      let pos = Stdlib.List.map (fun c -> string_of_z (idx c)) coords in
      "OK cap=" ^ string_of_z cap ^ " pos=" ^ (if pos = [] then "-" else cat "," pos)
  | _ -> "BAD_CASE"
let () = main_loop handle
