(* drv_numeric.ml -- cases for utility/numeric.hpp *)
open Zutil
let z = z_of_string
let handle kind args =
  match kind, args with
  | "rp2", [w; i] -> string_of_z (Extract_numeric.run_round_pow2 (z w) (z i))
  | "rp2spec", [w; i] -> string_of_z (Extract_numeric.spec_round_pow2 (z w) (z i))
  | "ipow", [w; b; e] -> string_of_z (Extract_numeric.run_ipow (z w) (z b) (z e))
  | "ipowspec", [w; b; e] -> string_of_z (Extract_numeric.spec_ipow (z w) (z b) (z e))
  | _ -> "BAD_CASE"
let () = main_loop handle
