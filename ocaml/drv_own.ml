(* drv_own.ml -- runs operation histories on the extracted ownership model (Ownership.v), CONCRETE level
   (heap, allocator, unique_ptr discipline), and prints what each slot holds after every operation.
     <id> hist <nslots> op ; op ; ...      ops:  C d v1 .. vn | W s i v | K d s | M d s | A d s | B d s | D s
   answer: one group per operation, separated by " | ":  slot states "-" (empty) "H<n>" (hollow) "F v1,v2,.." ,
   or ERR when the concrete level fails (double free / use after free), or REJ when the history leaves the contract. *)
open Zutil
module O = Ownership
let nat i = nat_of_int i
let split_semis toks =
  let rec go acc cur = function
    | [] -> Stdlib.List.rev (Stdlib.List.rev cur :: acc)
    | ";" :: r -> go (Stdlib.List.rev cur :: acc) [] r
    | x :: r -> go acc (x :: cur) r in
  go [] [] toks
let parse_op = function
  | "C" :: d :: vs -> O.Construct (nat (int_of_string d), Stdlib.List.map z_of_string vs)
  | ["W"; s; i; v] -> O.Write (nat (int_of_string s), nat (int_of_string i), z_of_string v)
  | ["K"; d; s] -> O.CopyCtor (nat (int_of_string d), nat (int_of_string s))
  | ["M"; d; s] -> O.MoveCtor (nat (int_of_string d), nat (int_of_string s))
  | ["A"; d; s] -> O.CopyAssign (nat (int_of_string d), nat (int_of_string s))
  | ["B"; d; s] -> O.MoveAssign (nat (int_of_string d), nat (int_of_string s))
  | ["D"; s] -> O.Destroy (nat (int_of_string s))
  | _ -> failwith "op"
let show_slot v = match v with
  | None -> "-"
  | Some (O.Hollow n) -> "H" ^ string_of_int (int_of_nat n)
  | Some (O.Full l) -> "F" ^ Stdlib.String.concat "," (Stdlib.List.map string_of_z l)
let handle (kind : string) (args : string list) : string =
  match kind, args with
  | "hist", n :: toks ->
      let n = int_of_string n in
      let ops = Stdlib.List.map parse_op (Stdlib.List.filter (fun l -> l <> []) (split_semis toks)) in
      let out = Buffer.create 256 in
      let rec go (s : O.st) (a : O.ast) ops first =
        match ops with
        | [] -> ()
        | o :: r ->
            if not first then Buffer.add_string out " | ";
            (match O.astep a o with
             | None -> Buffer.add_string out "REJ"
             | Some a' ->
                 (match O.step s o with
                  | None -> Buffer.add_string out "ERR"
                  | Some s' ->
                      let cs = Stdlib.List.init n (fun k -> show_slot (O.absf s' (nat k))) in
                      let asl = Stdlib.List.init n (fun k -> show_slot (a' (nat k))) in
                      if cs <> asl then Buffer.add_string out ("MODEL_LEVELS_DIFFER " ^ Stdlib.String.concat " " cs ^ " vs " ^ Stdlib.String.concat " " asl)
                      else Buffer.add_string out (Stdlib.String.concat " " cs);
                      go s' a' r false)) in
      go O.init O.ainit ops true;
      Buffer.contents out
  | _ -> "BAD_CASE"
let () = main_loop handle
