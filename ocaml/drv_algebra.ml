(* drv_algebra.ml -- runs covfie::algebra cases on the extracted model (AlgebraCore + FloatOps).
   scalars are IEEE bit patterns in decimal.
     <id> apply <t> <N> A[N*(N+1)] v[N]             -> V r[N]
     <id> compose <t> <N> A[..] B[..]               -> M (A*B)[N*(N+1)]
     <id> chain <t> <N> <k> A1 .. Ak v              -> V (((A1*A2)*..)*Ak) v
     <id> translation|scaling <t> <N> a[N] v[N]     -> M matrix | V applied to v
     <id> identity <t> <N> v[N]
     <id> matmul <t> <n> <m> <p> A[n*m] B[m*p]      -> M (A*B)[n*p] *)
open Zutil
module S = Stack
let sty_of = function "f32" -> S.F32 | "f64" -> S.F64 | s -> failwith ("sty " ^ s)
let rec take n l = if n <= 0 then [] else match l with [] -> failwith "tokens" | x :: r -> x :: take (n - 1) r
let rec drop n l = if n <= 0 then l else match l with [] -> failwith "tokens" | _ :: r -> drop (n - 1) r
let rec rows n w l = if n <= 0 then [] else take w l :: rows (n - 1) w (drop w l)
let show l = Stdlib.String.concat "" (Stdlib.List.map (fun z -> " " ^ string_of_z z) l)
let showm m = show (Stdlib.List.concat m)
let handle (op : string) (args : string list) : string =
  match args with
  | t :: rest ->
      let t = sty_of t in
      (match op, rest with
       | "apply", n :: toks ->
           let n = int_of_string n in let z = Stdlib.List.map z_of_string toks in
           "V" ^ show (Extract_algebra.alg_apply t (rows n (n + 1) z) (take n (drop (n * (n + 1)) z)))
       | "compose", n :: toks ->
           let n = int_of_string n in let z = Stdlib.List.map z_of_string toks in
           let a = rows n (n + 1) z in let b = rows n (n + 1) (drop (n * (n + 1)) z) in
           "M" ^ showm (Extract_algebra.alg_compose t (nat_of_int n) a b)
       | "chain", n :: k :: toks ->
           let n = int_of_string n in let k = int_of_string k in let z = Stdlib.List.map z_of_string toks in
           let sz = n * (n + 1) in
           let mats = Stdlib.List.init k (fun i -> rows n (n + 1) (drop (i * sz) z)) in
           let v = take n (drop (k * sz) z) in
           let prod = (match mats with [] -> Extract_algebra.alg_identity t (nat_of_int n)
                                     | m :: ms -> Stdlib.List.fold_left (fun acc x -> Extract_algebra.alg_compose t (nat_of_int n) acc x) m ms) in
           "V" ^ show (Extract_algebra.alg_apply t prod v)
       | ("translation" | "scaling"), n :: toks ->
           let n = int_of_string n in let z = Stdlib.List.map z_of_string toks in
           let a = take n z in let v = take n (drop n z) in
           let m = if op = "translation" then Extract_algebra.alg_translation t a else Extract_algebra.alg_scaling t a in
           "M" ^ showm m ^ " V" ^ show (Extract_algebra.alg_apply t m v)
       | "identity", n :: toks ->
           let n = int_of_string n in let z = Stdlib.List.map z_of_string toks in
           let m = Extract_algebra.alg_identity t (nat_of_int n) in
           "M" ^ showm m ^ " V" ^ show (Extract_algebra.alg_apply t m (take n z))
       | "matmul", n :: m :: p :: toks ->
           let n = int_of_string n in let m = int_of_string m in let p = int_of_string p in
           let z = Stdlib.List.map z_of_string toks in
           "M" ^ showm (Extract_algebra.alg_matmul t (nat_of_int p) (rows n m z) (rows m p (drop (n * m) z)))
       | _ -> "BAD_OP")
  | _ -> "BAD_CASE"
let () = main_loop handle
