// vh_io.hpp -- case reader shared by the harness programs: one case per line on stdin,
// "<id> <kind> <args...>", answer "<id> <canonical result>" on stdout.
#pragma once
#include <cstdint>
#include <cstdio>
#include <cstdlib>
#include <cstring>
#include <iostream>
#include <sstream>
#include <string>
#include <vector>

namespace vh {
inline std::vector<std::string> split(const std::string & s)
{
    std::vector<std::string> out;
    std::istringstream is(s);
    std::string t;
    while (is >> t) out.push_back(t);
    return out;
}
inline unsigned long long u64(const std::string & s) { return std::strtoull(s.c_str(), nullptr, 10); }
inline long long i64(const std::string & s) { return std::strtoll(s.c_str(), nullptr, 10); }

template <typename F>
int main_loop(F f)
{
    std::ios::sync_with_stdio(false);
    std::string line;
    while (std::getline(std::cin, line)) {
        auto t = split(line);
        if (t.size() < 2) continue;
        std::string id = t[0], kind = t[1];
        t.erase(t.begin(), t.begin() + 2);
        std::string ans;
        try {
            ans = f(kind, t);
        } catch (const std::exception & e) {
            ans = std::string("EXCEPTION ") + e.what();
        }
        std::cout << id << ' ' << ans << '\n';
        std::cout.flush();   // a crash in a later case must not swallow the answers already given
    }
    std::cout.flush();
    return 0;
}
}
