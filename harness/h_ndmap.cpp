// h_ndmap.cpp -- records the tuples covfie::utility::nd_map passes to its callback
#include <covfie/core/utility/nd_map.hpp>
#include <covfie/core/utility/nd_size.hpp>
#include "vh_io.hpp"

template <std::size_t N>
static std::string run(const std::vector<std::string> & a)
{
    covfie::utility::nd_size<N> s;
    for (std::size_t i = 0; i < N; ++i) s[i] = vh::u64(a[1 + i]);
    std::string out;
    covfie::utility::nd_map<covfie::utility::nd_size<N>>(
        [&out](covfie::utility::nd_size<N> t) {
            if (!out.empty()) out += ';';
            for (std::size_t i = 0; i < N; ++i) {
                if (i) out += ',';
                out += std::to_string(t[i]);
            }
        },
        s
    );
    return out.empty() ? "-" : out;
}

int main()
{
    return vh::main_loop([](const std::string & kind, const std::vector<std::string> & a) -> std::string {
        if (kind != "ndmap") return "BAD_CASE";
        switch (std::stoi(a[0])) {
        case 1: return run<1>(a);
        case 2: return run<2>(a);
        case 3: return run<3>(a);
        case 4: return run<4>(a);
        case 5: return run<5>(a);
        }
        return "BAD_CASE";
    });
}
