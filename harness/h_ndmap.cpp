// h_ndmap.cpp -- records the tuples covfie::utility::nd_map passes to its callback
#include <covfie/core/utility/nd_map.hpp>
#include <covfie/core/utility/nd_size.hpp>
#include <cstdint>
#include "vh_io.hpp"

// T: the index type of the extent tuple (the library's own callers use std::size_t; the template takes any)
template <typename T, std::size_t N>
static std::string run(const std::vector<std::string> & a)
{
    using tuple_t = covfie::array::array<T, N>;
    tuple_t s;
    for (std::size_t i = 0; i < N; ++i) s[i] = static_cast<T>(vh::u64(a[1 + i]));
    std::string out;
    covfie::utility::nd_map<tuple_t>(
        [&out](tuple_t t) {
            if (!out.empty()) out += ';';
            for (std::size_t i = 0; i < N; ++i) {
                if (i) out += ',';
                out += std::to_string(static_cast<unsigned long long>(t[i]));
            }
        },
        s
    );
    return out.empty() ? "-" : out;
}

template <typename T>
static std::string run_n(const std::vector<std::string> & a)
{
    switch (std::stoi(a[0])) {
    case 1: return run<T, 1>(a);
    case 2: return run<T, 2>(a);
    case 3: return run<T, 3>(a);
    case 4: return run<T, 4>(a);
    case 5: return run<T, 5>(a);
    }
    return "BAD_CASE";
}

int main()
{
    return vh::main_loop([](const std::string & kind, const std::vector<std::string> & a) -> std::string {
        if (kind == "ndmap") return run_n<std::size_t>(a);
        if (kind == "ndmap8") return run_n<std::uint8_t>(a);
        if (kind == "ndmap16") return run_n<std::uint16_t>(a);
        if (kind == "ndmap32") return run_n<std::uint32_t>(a);
        return "BAD_CASE";
    });
}
