// vh_stack.hpp -- generic correspondence harness over arbitrary covfie stacks.
// A stack type B is driven through text operations; per-layer knowledge (how to parse and print a
// configuration) lives in the partial specialisations of vh::L.  Scalars travel as decimal
// integers: integer types as their value, float/double as the unsigned value of their IEEE bit
// pattern (so "moved" values compare bit-exactly).
#pragma once
#include <cstring>
#include <functional>
#include <map>
#include <memory>
#include <optional>
#include <sstream>
#include <streambuf>
#include <thread>
#include <tuple>
#include <type_traits>
#include <variant>

#include <covfie/core/backend/primitive/array.hpp>
#include <covfie/core/backend/primitive/constant.hpp>
#include <covfie/core/backend/primitive/identity.hpp>
#include <covfie/core/backend/transformer/affine.hpp>
#include <covfie/core/backend/transformer/backup.hpp>
#include <covfie/core/backend/transformer/clamp.hpp>
#include <covfie/core/backend/transformer/covariant_cast.hpp>
#include <covfie/core/backend/transformer/dereference.hpp>
#include <covfie/core/backend/transformer/hilbert.hpp>
#include <covfie/core/backend/transformer/linear.hpp>
#include <covfie/core/backend/transformer/morton.hpp>
#include <covfie/core/backend/transformer/nearest_neighbour.hpp>
#include <covfie/core/backend/transformer/shuffle.hpp>
#include <covfie/core/backend/transformer/strided.hpp>
#include <covfie/core/field.hpp>
#include <covfie/core/field_view.hpp>
#include <covfie/core/parameter_pack.hpp>

#include "vh_io.hpp"

namespace vh {
namespace cb = covfie::backend;
namespace cv = covfie::vector;

struct Cur {
    const std::vector<std::string> & t;
    std::size_t p;
    const std::string & next()
    {
        if (p >= t.size()) throw std::runtime_error("HARNESS: out of tokens");
        return t[p++];
    }
    bool more() const { return p < t.size(); }
};

// ------------------------------------------------------------------ scalars
template <typename T>
T parse_scalar(const std::string & s)
{
    if constexpr (std::is_same_v<T, float>) {
        uint32_t b = static_cast<uint32_t>(std::strtoull(s.c_str(), nullptr, 10));
        float f;
        std::memcpy(&f, &b, 4);
        return f;
    } else if constexpr (std::is_same_v<T, double>) {
        uint64_t b = std::strtoull(s.c_str(), nullptr, 10);
        double f;
        std::memcpy(&f, &b, 8);
        return f;
    } else if constexpr (std::is_signed_v<T>) {
        return static_cast<T>(std::strtoll(s.c_str(), nullptr, 10));
    } else {
        return static_cast<T>(std::strtoull(s.c_str(), nullptr, 10));
    }
}
template <typename T>
std::string show_scalar(T v)
{
    if constexpr (std::is_same_v<T, float>) {
        uint32_t b;
        std::memcpy(&b, &v, 4);
        return std::to_string(b);
    } else if constexpr (std::is_same_v<T, double>) {
        uint64_t b;
        std::memcpy(&b, &v, 8);
        return std::to_string(b);
    } else if constexpr (std::is_signed_v<T>) {
        return std::to_string(static_cast<long long>(v));
    } else {
        return std::to_string(static_cast<unsigned long long>(v));
    }
}
template <typename V>
V parse_vec(Cur & c)
{
    if constexpr (std::is_scalar_v<V>) {
        return parse_scalar<V>(c.next());
    } else {
        V v;
        for (std::size_t i = 0; i < V::dimensions; ++i) v[i] = parse_scalar<typename V::scalar_t>(c.next());
        return v;
    }
}
template <typename V>
void show_vec(std::ostream & os, const V & v)
{
    if constexpr (std::is_scalar_v<V>) {
        os << ' ' << show_scalar(v);
    } else {
        for (std::size_t i = 0; i < V::dimensions; ++i) os << ' ' << show_scalar(v[i]);
    }
}

// ------------------------------------------------------------------ probe backend
// records every coordinate it is asked for (as the case files carry scalars) and returns a small
// hash of it; mirrors Stack.v probe_at / probe_hash
inline std::vector<std::string> & probe_log()
{
    static std::vector<std::string> log;
    return log;
}
template <typename T>
__int128 as_Z(T v)
{
    if constexpr (std::is_same_v<T, float>) {
        uint32_t b;
        std::memcpy(&b, &v, 4);
        return b;
    } else if constexpr (std::is_same_v<T, double>) {
        uint64_t b;
        std::memcpy(&b, &v, 8);
        return b;
    } else {
        return static_cast<__int128>(v);
    }
}
template <typename I, typename O>
struct probe {
    using this_t = probe<I, O>;
    static constexpr bool is_initial = true;
    using contravariant_input_t = covfie::vector::array_vector_d<I>;
    using covariant_output_t = covfie::vector::array_vector_d<O>;
    using configuration_t = std::monostate;
    static constexpr uint32_t IO_MAGIC_HEADER = 0xAB01FFFF;
    struct owning_data_t {
        using parent_t = this_t;
        explicit owning_data_t() {}
        explicit owning_data_t(configuration_t) {}
        explicit owning_data_t(covfie::parameter_pack<configuration_t> &&) {}
        explicit owning_data_t(covfie::parameter_pack<owning_data_t> &&) {}
        configuration_t get_configuration() const { return {}; }
        static owning_data_t read_binary(std::istream &) { throw std::runtime_error("probe is not serialisable"); }
        static void write_binary(std::ostream &, const owning_data_t &) { throw std::runtime_error("probe is not serialisable"); }
    };
    struct non_owning_data_t {
        using parent_t = this_t;
        non_owning_data_t(const owning_data_t &) {}
        typename covariant_output_t::vector_t at(typename contravariant_input_t::vector_t c) const
        {
            __int128 h = 0;
            for (std::size_t k = 0; k < contravariant_input_t::dimensions; ++k) {
                probe_log().push_back(show_scalar(c[k]));
                __int128 x = as_Z(c[k]) % 1009;
                if (x < 0) x += 1009;
                h += x * static_cast<__int128>(2 * k + 7);
            }
            typename covariant_output_t::vector_t rv;
            for (std::size_t j = 0; j < covariant_output_t::dimensions; ++j)
                rv[j] = static_cast<typename covariant_output_t::scalar_t>(static_cast<long long>((h + 5 * static_cast<__int128>(j)) % 97));
            return rv;
        }
    };
};

// ------------------------------------------------------------------ per-layer configuration IO
template <typename B>
struct L {
    // default: layers without configuration (std::monostate)
    static typename B::configuration_t parse(Cur &) { return {}; }
    static void show(std::ostream &, const typename B::configuration_t &) {}
};
template <typename B>
struct LSizes {
    static typename B::configuration_t parse(Cur & c)
    {
        typename B::configuration_t s;
        for (std::size_t i = 0; i < s.size(); ++i) s[i] = u64(c.next());
        return s;
    }
    static void show(std::ostream & os, const typename B::configuration_t & s)
    {
        for (std::size_t i = 0; i < s.size(); ++i) os << ' ' << s[i];
    }
};
template <typename V, typename S>
struct L<cb::strided<V, S>> : LSizes<cb::strided<V, S>> {
};
template <typename V, typename S, bool U>
struct L<cb::morton<V, S, U>> : LSizes<cb::morton<V, S, U>> {
};
template <typename V, typename S>
struct L<cb::hilbert<V, S>> : LSizes<cb::hilbert<V, S>> {
};
template <typename X>
struct L<cb::clamp<X>> {
    using B = cb::clamp<X>;
    using vec = typename B::contravariant_input_t::vector_t;
    static typename B::configuration_t parse(Cur & c)
    {
        vec lo = parse_vec<vec>(c);
        vec hi = parse_vec<vec>(c);
        return {lo, hi};
    }
    static void show(std::ostream & os, const typename B::configuration_t & g)
    {
        show_vec(os, g.min);
        show_vec(os, g.max);
    }
};
template <typename X>
struct L<cb::backup<X>> {
    using B = cb::backup<X>;
    using vec = typename B::contravariant_input_t::vector_t;
    using ovec = typename B::covariant_output_t::vector_t;
    static typename B::configuration_t parse(Cur & c)
    {
        vec lo = parse_vec<vec>(c);
        vec hi = parse_vec<vec>(c);
        ovec d = parse_vec<ovec>(c);
        return {lo, hi, d};
    }
    static void show(std::ostream & os, const typename B::configuration_t & g)
    {
        show_vec(os, g.min);
        show_vec(os, g.max);
        show_vec(os, g.default_value);
    }
};
template <typename X>
struct L<cb::affine<X>> {
    using B = cb::affine<X>;
    static constexpr std::size_t N = B::contravariant_input_t::dimensions;
    using S = typename B::contravariant_input_t::scalar_t;
    static typename B::configuration_t parse(Cur & c)
    {
        covfie::algebra::matrix<N, N + 1, S> m;
        for (std::size_t i = 0; i < N; ++i)
            for (std::size_t j = 0; j < N + 1; ++j) m(i, j) = parse_scalar<S>(c.next());
        return typename B::configuration_t(m);
    }
    static void show(std::ostream & os, const typename B::configuration_t & m)
    {
        for (std::size_t i = 0; i < N; ++i)
            for (std::size_t j = 0; j < N + 1; ++j) os << ' ' << show_scalar<S>(m(i, j));
    }
};
template <typename I, typename O>
struct L<cb::constant<I, O>> {
    using B = cb::constant<I, O>;
    static typename B::configuration_t parse(Cur & c) { return parse_vec<typename B::configuration_t>(c); }
    static void show(std::ostream & os, const typename B::configuration_t & v) { show_vec(os, v); }
};

// ------------------------------------------------------------------ building owning data
template <typename B>
typename B::owning_data_t build(Cur & c)
{
    if constexpr (B::is_initial) {
        if constexpr (requires { typename B::vector_t; B::owning_data_t::read_binary; } && requires(typename B::owning_data_t o) { o.m_ptr; }) {
            // array: length, then length * M scalars in storage order
            std::size_t n = u64(c.next());
            typename B::owning_data_t o(n);
            using vec = typename B::vector_t;
            for (std::size_t i = 0; i < n; ++i)
                for (std::size_t j = 0; j < vec::dimensions; ++j) o.m_ptr[i][j] = parse_scalar<typename vec::scalar_t>(c.next());
            return o;
        } else if constexpr (std::is_same_v<typename B::configuration_t, std::monostate>) {
            return typename B::owning_data_t();
        } else {
            return typename B::owning_data_t(L<B>::parse(c));
        }
    } else {
        auto cfg = L<B>::parse(c);
        auto inner = build<typename B::backend_t>(c);
        return typename B::owning_data_t(cfg, std::move(inner));
    }
}

// the per-layer configurations alone, outermost first, as a tuple (for make_parameter_pack_for)
template <typename B>
auto parse_cfg_tuple(Cur & c)
{
    if constexpr (B::is_initial) {
        if constexpr (requires(typename B::owning_data_t o) { o.m_ptr; }) {
            typename B::configuration_t cfg{u64(c.next())};
            return std::make_tuple(cfg);
        } else if constexpr (std::is_same_v<typename B::configuration_t, std::monostate>) {
            return std::make_tuple(std::monostate{});
        } else {
            return std::make_tuple(L<B>::parse(c));
        }
    } else {
        auto cfg = L<B>::parse(c);
        return std::tuple_cat(std::make_tuple(cfg), parse_cfg_tuple<typename B::backend_t>(c));
    }
}

// configurations, outermost first, one ';'-separated group per layer
template <typename B>
void show_configs(std::ostream & os, const typename B::owning_data_t & o)
{
    os << " ;";
    if constexpr (B::is_initial) {
        if constexpr (requires { o.m_ptr; }) {
            os << ' ' << o.get_configuration()[0];
        } else {
            L<B>::show(os, o.get_configuration());
        }
    } else {
        L<B>::show(os, o.get_configuration());
        show_configs<typename B::backend_t>(os, o.get_backend());
    }
}
// innermost storage
template <typename B>
void show_storage(std::ostream & os, const typename B::owning_data_t & o)
{
    if constexpr (B::is_initial) {
        if constexpr (requires { o.m_ptr; }) {
            using vec = typename B::vector_t;
            std::size_t n = o.get_configuration()[0];
            os << ' ' << n;
            for (std::size_t i = 0; i < n; ++i)
                for (std::size_t j = 0; j < vec::dimensions; ++j) os << ' ' << show_scalar(o.m_ptr[i][j]);
        } else {
            os << " -";
        }
    } else {
        show_storage<typename B::backend_t>(os, o.get_backend());
    }
}

// ------------------------------------------------------------------ fault-injecting input stream
// serves the first `limit` bytes of a buffer, then reports end of file
struct LimitBuf : std::streambuf {
    std::string data;
    explicit LimitBuf(std::string d, std::size_t limit)
        : data(std::move(d))
    {
        if (limit < data.size()) data.resize(limit);
        setg(data.data(), data.data(), data.data() + data.size());
    }
};
inline std::string unhex(const std::string & h)
{
    std::string out;
    if (h == "-") return out;
    auto val = [](char c) { return c <= '9' ? c - '0' : (c | 32) - 'a' + 10; };
    for (std::size_t i = 0; i + 1 < h.size(); i += 2) out.push_back(static_cast<char>(val(h[i]) * 16 + val(h[i + 1])));
    return out;
}
inline std::string hex(const std::string & b)
{
    static const char * d = "0123456789abcdef";
    std::string out;
    for (unsigned char c : b) {
        out.push_back(d[c >> 4]);
        out.push_back(d[c & 15]);
    }
    return out.empty() ? "-" : out;
}

// ------------------------------------------------------------------ handlers
struct Handler {
    virtual ~Handler() = default;
    virtual std::string op(const std::string & name, Cur & c) = 0;
    virtual void reset() = 0;
};

template <typename B>
struct H : Handler {
    using field_t = covfie::field<B>;
    using view_t = covfie::field_view<B>;
    static_assert(covfie::concepts::field_backend<B>, "the stack must satisfy the backend concept");
    static_assert(std::is_trivially_copyable_v<view_t>, "a field view must be trivially copyable");
    using coord_t = typename B::contravariant_input_t::vector_t;
    static constexpr std::size_t N = B::contravariant_input_t::dimensions;
    static constexpr std::size_t M = B::covariant_output_t::dimensions;
    using out_t = typename B::covariant_output_t::vector_t;
    std::vector<std::optional<field_t>> slots{8};

    void reset() override
    {
        for (auto & s : slots) s.reset();
    }

    field_t & get(Cur & c)
    {
        std::size_t s = u64(c.next());
        if (s >= slots.size() || !slots[s]) throw std::runtime_error("HARNESS: empty slot");
        return *slots[s];
    }

    template <std::size_t... Is>
    static decltype(auto) at_variadic(const view_t & v, const coord_t & c, std::index_sequence<Is...>)
    {
        return v.at(c[Is]...);
    }

    std::string op(const std::string & name, Cur & c) override
    {
        std::ostringstream os;
        if (name == "new") {
            std::size_t s = u64(c.next());
            slots[s].emplace(covfie::make_parameter_pack(build<B>(c)));
            return "OK";
        }
        if (name == "newp") {
            // construct from the positional configurations through make_parameter_pack_for
            std::size_t s = u64(c.next());
            auto tup = parse_cfg_tuple<B>(c);
            std::apply(
                [&](auto... a) { slots[s].emplace(covfie::make_parameter_pack_for<field_t>(std::move(a)...)); }, tup
            );
            return "OK";
        }
        if (name == "at" || name == "atv") {
            field_t & f = get(c);
            view_t v(f);
            coord_t x = parse_vec<coord_t>(c);
            os << "V";
            if constexpr (std::is_scalar_v<coord_t>) {
                show_vec(os, std::decay_t<out_t>(v.at(x)));
            } else {
                if (name == "atv")
                    show_vec(os, std::decay_t<out_t>(at_variadic(v, x, std::make_index_sequence<N>())));
                else
                    show_vec(os, std::decay_t<out_t>(v.at(x)));
            }
            return os.str();
        }
        if (name == "fp") {
            // the coordinates the probe backend is asked for during one lookup
            field_t & f = get(c);
            view_t v(f);
            coord_t x = parse_vec<coord_t>(c);
            probe_log().clear();
            if constexpr (std::is_scalar_v<coord_t>) {
                (void)v.at(x);
            } else {
                (void)v.at(x);
            }
            os << "T";
            for (auto & e : probe_log()) os << ' ' << e;
            return os.str();
        }
        if (name == "wr") {
            if constexpr (std::is_lvalue_reference_v<out_t>) {
                field_t & f = get(c);
                view_t v(f);
                coord_t x = parse_vec<coord_t>(c);
                auto val = parse_vec<std::decay_t<out_t>>(c);
                v.at(x) = val;
                return "OK";
            } else {
                return "NOT_WRITABLE";
            }
        }
        if (name == "par" || name == "parw") {
            // par  <slot> <threads> <shared|own> coords... : every thread looks up every coordinate (3 rounds, rotated start)
            // parw <slot> <threads> <shared|own> coords... : thread t WRITES the coordinates number j = t (mod threads), then reads them back
            field_t & f = get(c);
            std::size_t T = u64(c.next());
            bool own = c.next() == "own";
            std::vector<coord_t> xs;
            while (c.more()) xs.push_back(parse_vec<coord_t>(c));
            view_t shared(f);
            auto show_at = [](const view_t & v, const coord_t & x) {
                std::ostringstream o;
                show_vec(o, std::decay_t<out_t>(v.at(x)));
                return o.str();
            };
            std::vector<std::string> seq(xs.size());
            if (name == "par") {
                for (std::size_t j = 0; j < xs.size(); ++j) seq[j] = show_at(shared, xs[j]);
                std::vector<std::string> bad(T);
                std::vector<std::thread> th;
                for (std::size_t t = 0; t < T; ++t)
                    th.emplace_back([&, t]() {
                        std::optional<view_t> mine;
                        if (own) mine.emplace(f);
                        const view_t & v = own ? *mine : shared;
                        for (int round = 0; round < 3; ++round)
                            for (std::size_t q = 0; q < xs.size(); ++q) {
                                std::size_t j = (q + t) % xs.size();
                                if (show_at(v, xs[j]) != seq[j] && bad[t].empty()) bad[t] = "thread " + std::to_string(t) + " coordinate #" + std::to_string(j);
                            }
                    });
                for (auto & x : th) x.join();
                for (auto & b : bad)
                    if (!b.empty()) return "P MISMATCH " + b;
                os << "P ok";
                for (auto & s : seq) os << " ;" << s;
                return os.str();
            } else {
                if constexpr (std::is_lvalue_reference_v<out_t>) {
                    using val_t = std::decay_t<out_t>;
                    auto value = [](std::size_t j) {
                        val_t v;
                        for (std::size_t q = 0; q < M; ++q) v[q] = static_cast<typename val_t::value_type>(1000 + 10 * j + q);
                        return v;
                    };
                    std::vector<std::string> bad(T);
                    std::vector<std::thread> th;
                    for (std::size_t t = 0; t < T; ++t)
                        th.emplace_back([&, t]() {
                            std::optional<view_t> mine;
                            if (own) mine.emplace(f);
                            const view_t & v = own ? *mine : shared;
                            for (std::size_t j = t; j < xs.size(); j += T) v.at(xs[j]) = value(j);
                            for (std::size_t j = t; j < xs.size(); j += T) {
                                std::ostringstream o;
                                show_vec(o, value(j));
                                if (show_at(v, xs[j]) != o.str() && bad[t].empty()) bad[t] = "thread " + std::to_string(t) + " coordinate #" + std::to_string(j);
                            }
                        });
                    for (auto & x : th) x.join();
                    for (auto & b : bad)
                        if (!b.empty()) return "W MISMATCH " + b;
                    os << "W ok";
                    for (std::size_t j = 0; j < xs.size(); ++j) os << " ;" << show_at(shared, xs[j]);
                    return os.str();
                } else {
                    return "NOT_WRITABLE";
                }
            }
        }
        if (name == "cfg") {
            field_t & f = get(c);
            os << "C";
            show_configs<B>(os, f.backend());
            return os.str();
        }
        if (name == "sto") {
            field_t & f = get(c);
            os << "S";
            show_storage<B>(os, f.backend());
            return os.str();
        }
        if (name == "dump") {
            field_t & f = get(c);
            std::ostringstream bs;
            f.dump(bs);
            return "B " + hex(bs.str());
        }
        if (name == "load") {
            // load <slot> <hex bytes> [limit]
            std::size_t s = u64(c.next());
            std::string bytes = unhex(c.next());
            std::size_t limit = c.more() ? u64(c.next()) : bytes.size();
            int mask = c.more() ? static_cast<int>(u64(c.next())) : 0;
            LimitBuf lb(bytes, limit);
            std::istream is(&lb);
            if (mask == 1) is.exceptions(std::ios::failbit | std::ios::badbit);
            if (mask == 2) is.exceptions(std::ios::eofbit);
            if (mask == 3) is.exceptions(std::ios::badbit);
            try {
                slots[s].emplace(is);
            } catch (const std::bad_alloc &) {
                return "EXCEPTION bad_alloc";
            } catch (const std::length_error &) {
                return "EXCEPTION length_error";
            } catch (const std::runtime_error & e) {
                return "EXCEPTION runtime_error";
            } catch (const std::exception & e) {
                return "EXCEPTION other";
            }
            return "LOADED";
        }
        if (name == "truncs") {
            // truncs <hex bytes> [mask]: load every proper prefix; one letter per length (X exception, L loaded);
            // mask: the caller's stream has an exception mask (1 failbit|badbit, 2 eofbit, 3 badbit), so the stream itself throws
            std::string bytes = unhex(c.next());
            int mask = c.more() ? static_cast<int>(u64(c.next())) : 0;
            std::string out;
            for (std::size_t k = 0; k < bytes.size(); ++k) {
                LimitBuf lb(bytes, k);
                std::istream is(&lb);
                if (mask == 1) is.exceptions(std::ios::failbit | std::ios::badbit);
                if (mask == 2) is.exceptions(std::ios::eofbit);
                if (mask == 3) is.exceptions(std::ios::badbit);
                try {
                    field_t f(is);
                    out.push_back('L');
                } catch (const std::exception &) {
                    out.push_back('X');
                }
            }
            return "T " + (out.empty() ? std::string("-") : out);
        }
        if (name == "reload") {   // reload <dst> <src>: dst is constructed from a dump of src
            std::size_t d = u64(c.next());
            field_t & f = get(c);
            std::stringstream ss;
            f.dump(ss);
            slots[d].emplace(ss);
            return "OK";
        }
        if (name == "copy") {   // copy construct: dst src
            std::size_t d = u64(c.next());
            field_t & f = get(c);
            if (&f == (slots[d] ? &*slots[d] : nullptr)) return "SKIP";
            slots[d].emplace(f);
            return "OK";
        }
        if (name == "move") {   // move construct: dst src ; the source slot stays engaged (moved-from)
            std::size_t d = u64(c.next());
            field_t & f = get(c);
            if (&f == (slots[d] ? &*slots[d] : nullptr)) return "SKIP";
            slots[d].emplace(std::move(f));
            return "OK";
        }
        if (name == "cassign") {
            field_t & d = get(c);
            field_t & s = get(c);
            d = s;
            return "OK";
        }
        if (name == "massign") {
            field_t & d = get(c);
            field_t & s = get(c);
            d = std::move(s);
            return "OK";
        }
        if (name == "del") {
            std::size_t d = u64(c.next());
            slots[d].reset();
            return "OK";
        }
        if (name == "live") {
            std::size_t d = u64(c.next());
            return slots[d] ? "1" : "0";
        }
        return "BAD_OP";
    }
};

// registry: stack name -> handler; conversions: "A>B" -> function
struct Registry {
    std::map<std::string, std::unique_ptr<Handler>> handlers;
    std::map<std::string, std::function<std::string(Cur &)>> conversions;
    template <typename B>
    void add(const std::string & name)
    {
        handlers[name] = std::make_unique<H<B>>();
    }
    // conv <dst slot> <src slot> [move]
    template <typename A, typename B>
    void add_conv(const std::string & a, const std::string & b)
    {
        conversions[a + ">" + b] = [this, a, b](Cur & c) -> std::string {
            auto * ha = static_cast<H<A> *>(handlers.at(a).get());
            auto * hb = static_cast<H<B> *>(handlers.at(b).get());
            std::size_t d = u64(c.next());
            std::size_t s = u64(c.next());
            bool mv = c.more() && c.next() == "move";
            if (!ha->slots.at(s)) throw std::runtime_error("HARNESS: empty slot");
            if (mv)
                hb->slots.at(d).emplace(std::move(*ha->slots[s]));
            else
                hb->slots.at(d).emplace(*ha->slots[s]);
            return "OK";
        };
    }
    int run()
    {
        // case: <id> <stack> <op> args...   |   <id> <A>B> conv <dst> <src> [move]
        // a case may hold several operations separated by "|"; the answer joins theirs with " | "
        return main_loop([this](const std::string & stack, const std::vector<std::string> & a) -> std::string {
            std::string out;
            std::size_t start = 0;
            for (auto & h : handlers) h.second->reset();
            while (start <= a.size()) {
                std::size_t end = start;
                while (end < a.size() && a[end] != "|") ++end;
                std::vector<std::string> part(a.begin() + start, a.begin() + end);
                std::string r;
                try {
                    if (part.empty()) {
                        r = "BAD_CASE";
                    } else {
                        // "on <stack> <op> ..." addresses another stack type of this translation unit
                        std::string cur = stack;
                        std::size_t first = 0;
                        if (part[0] == "on" && part.size() >= 3) {
                            cur = part[1];
                            first = 2;
                        }
                        std::string opname = part[first];
                        Cur c{part, first + 1};
                        if (opname == "conv") {
                            std::string target = c.next();
                            auto it = conversions.find(cur + ">" + target);
                            r = it == conversions.end() ? "NO_SUCH_CONVERSION" : it->second(c);
                        } else {
                            auto it = handlers.find(cur);
                            r = it == handlers.end() ? "NO_SUCH_STACK" : it->second->op(opname, c);
                        }
                    }
                } catch (const std::exception & e) {
                    r = std::string("EXCEPTION ") + e.what();
                }
                if (!out.empty()) out += " | ";
                out += r;
                start = end + 1;
                if (end >= a.size()) break;
            }
            return out;
        });
    }
};
}
