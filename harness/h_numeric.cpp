// h_numeric.cpp -- runs covfie::utility::round_pow2 / ipow at several widths
#include <covfie/core/utility/numeric.hpp>
#include "vh_io.hpp"

template <typename T>
static std::string rp2(const std::string & a)
{
    return std::to_string(static_cast<unsigned long long>(covfie::utility::round_pow2<T>(static_cast<T>(vh::u64(a)))));
}
template <typename T>
static std::string ipw(const std::string & a, const std::string & b)
{
    return std::to_string(static_cast<unsigned long long>(
        covfie::utility::ipow<T>(static_cast<T>(vh::u64(a)), static_cast<T>(vh::u64(b)))));
}

int main()
{
    return vh::main_loop([](const std::string & kind, const std::vector<std::string> & a) -> std::string {
        if (kind == "rp2") {
            int w = std::stoi(a[0]);
            if (w == 8) return rp2<uint8_t>(a[1]);
            if (w == 16) return rp2<uint16_t>(a[1]);
            if (w == 32) return rp2<uint32_t>(a[1]);
            if (w == 64) return rp2<uint64_t>(a[1]);
        }
        if (kind == "ipow") {
            int w = std::stoi(a[0]);
            if (w == 8) return ipw<uint8_t>(a[1], a[2]);
            if (w == 16) return ipw<uint16_t>(a[1], a[2]);
            if (w == 32) return ipw<uint32_t>(a[1], a[2]);
            if (w == 64) return ipw<uint64_t>(a[1], a[2]);
        }
        if (kind == "rp2rle") {
            // the graph of round_pow2<uint32_t> on [lo, hi] as runs "start:value" (every input is evaluated)
            uint64_t lo = vh::u64(a[0]), hi = vh::u64(a[1]);
            std::string out;
            uint32_t last = 0;
            bool first = true;
            for (uint64_t i = lo; i <= hi; ++i) {
                uint32_t v = covfie::utility::round_pow2<uint32_t>(static_cast<uint32_t>(i));
                if (first || v != last) {
                    out += (first ? "" : " ") + std::to_string(i) + ":" + std::to_string(v);
                    last = v;
                    first = false;
                }
            }
            return out;
        }
        return "BAD_CASE";
    });
}
