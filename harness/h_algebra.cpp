// h_algebra.cpp -- correspondence harness for covfie::algebra (matrix.hpp, affine.hpp, vector.hpp):
// the same text cases as ocaml/drv_algebra.ml, executed by the real operators.
#include <cstring>
#include <covfie/core/algebra/affine.hpp>
#include <covfie/core/algebra/matrix.hpp>
#include <covfie/core/algebra/vector.hpp>
#include "vh_io.hpp"

namespace ca = covfie::algebra;
template <typename T>
T parse(const std::string & s)
{
    if constexpr (sizeof(T) == 4) { uint32_t b = static_cast<uint32_t>(std::strtoull(s.c_str(), nullptr, 10)); T f; std::memcpy(&f, &b, 4); return f; }
    else { uint64_t b = std::strtoull(s.c_str(), nullptr, 10); T f; std::memcpy(&f, &b, 8); return f; }
}
template <typename T>
std::string show(T v)
{
    if constexpr (sizeof(T) == 4) { uint32_t b; std::memcpy(&b, &v, 4); return std::to_string(b); }
    else { uint64_t b; std::memcpy(&b, &v, 8); return std::to_string(b); }
}
template <std::size_t N, typename T>
ca::affine<N, T> read_affine(const std::vector<std::string> & a, std::size_t & p)
{
    ca::matrix<N, N + 1, T> m;
    for (std::size_t i = 0; i < N; ++i)
        for (std::size_t j = 0; j < N + 1; ++j) m(i, j) = parse<T>(a.at(p++));
    return ca::affine<N, T>(m);
}
template <std::size_t N, typename T>
ca::vector<N, T> read_vec(const std::vector<std::string> & a, std::size_t & p)
{
    ca::vector<N, T> v;
    for (std::size_t i = 0; i < N; ++i) v(i) = parse<T>(a.at(p++));
    return v;
}
template <std::size_t N, std::size_t M, typename T>
std::string show_mat(const ca::matrix<N, M, T> & m)
{
    std::string out;
    for (std::size_t i = 0; i < N; ++i)
        for (std::size_t j = 0; j < M; ++j) out += " " + show<T>(m(i, j));
    return out;
}
template <std::size_t N, typename T>
std::string show_vecN(const ca::vector<N, T> & v)
{
    std::string out;
    for (std::size_t i = 0; i < N; ++i) out += " " + show<T>(v(i));
    return out;
}
template <std::size_t N, typename T, std::size_t... Is>
ca::affine<N, T> mk(bool tr, const ca::vector<N, T> & a, std::index_sequence<Is...>)
{
    return tr ? ca::affine<N, T>::translation(a(Is)...) : ca::affine<N, T>::scaling(a(Is)...);
}
template <std::size_t N, typename T>
std::string run(const std::string & op, const std::vector<std::string> & a, std::size_t p)
{
    if (op == "apply") {
        auto A = read_affine<N, T>(a, p);
        auto v = read_vec<N, T>(a, p);
        return "V" + show_vecN<N, T>(A * v);
    }
    if (op == "compose") {
        auto A = read_affine<N, T>(a, p);
        auto B = read_affine<N, T>(a, p);
        ca::affine<N, T> C = A * B;
        return "M" + show_mat<N, N + 1, T>(C);
    }
    if (op == "chain") {
        std::size_t k = vh::u64(a.at(p++));
        ca::affine<N, T> prod = ca::affine<N, T>(ca::matrix<N, N + 1, T>::identity());
        for (std::size_t i = 0; i < k; ++i) {
            auto A = read_affine<N, T>(a, p);
            prod = (i == 0) ? A : ca::affine<N, T>(prod * A);
        }
        auto v = read_vec<N, T>(a, p);
        return "V" + show_vecN<N, T>(prod * v);
    }
    if (op == "translation" || op == "scaling") {
        auto s = read_vec<N, T>(a, p);
        auto v = read_vec<N, T>(a, p);
        ca::affine<N, T> m = mk<N, T>(op == "translation", s, std::make_index_sequence<N>());
        return "M" + show_mat<N, N + 1, T>(m) + " V" + show_vecN<N, T>(m * v);
    }
    if (op == "identity") {
        auto v = read_vec<N, T>(a, p);
        ca::affine<N, T> m = ca::affine<N, T>(ca::matrix<N, N + 1, T>::identity());
        return "M" + show_mat<N, N + 1, T>(m) + " V" + show_vecN<N, T>(m * v);
    }
    return "BAD_OP";
}
template <typename T>
std::string matmul(const std::vector<std::string> & a, std::size_t p)
{
    std::size_t n = vh::u64(a.at(p++)), m = vh::u64(a.at(p++)), q = vh::u64(a.at(p++));
    auto go = [&]<std::size_t N, std::size_t M, std::size_t P>() {
        ca::matrix<N, M, T> A;
        ca::matrix<M, P, T> B;
        for (std::size_t i = 0; i < N; ++i) for (std::size_t j = 0; j < M; ++j) A(i, j) = parse<T>(a.at(p++));
        for (std::size_t i = 0; i < M; ++i) for (std::size_t j = 0; j < P; ++j) B(i, j) = parse<T>(a.at(p++));
        return "M" + show_mat<N, P, T>(A * B);
    };
    if (n == 1 && m == 1 && q == 1) return go.template operator()<1, 1, 1>();
    if (n == 2 && m == 2 && q == 2) return go.template operator()<2, 2, 2>();
    if (n == 3 && m == 2 && q == 4) return go.template operator()<3, 2, 4>();
    if (n == 3 && m == 3 && q == 3) return go.template operator()<3, 3, 3>();
    if (n == 2 && m == 4 && q == 3) return go.template operator()<2, 4, 3>();
    if (n == 4 && m == 1 && q == 2) return go.template operator()<4, 1, 2>();
    return "BAD_SHAPE";
}
int main()
{
    return vh::main_loop([](const std::string & op, const std::vector<std::string> & a) -> std::string {
        std::size_t p = 0;
        std::string t = a.at(p++);
        if (op == "matmul") return t == "f32" ? matmul<float>(a, p) : matmul<double>(a, p);
        std::size_t n = vh::u64(a.at(p++));
        if (t == "f32") {
            if (n == 1) return run<1, float>(op, a, p);
            if (n == 2) return run<2, float>(op, a, p);
            if (n == 3) return run<3, float>(op, a, p);
            if (n == 4) return run<4, float>(op, a, p);
        } else {
            if (n == 1) return run<1, double>(op, a, p);
            if (n == 2) return run<2, double>(op, a, p);
            if (n == 3) return run<3, double>(op, a, p);
            if (n == 4) return run<4, double>(op, a, p);
        }
        return "BAD_N";
    });
}
