// h_layout.cpp -- storage-order layers: index functions (C14), N-dimensional array behaviour
// over real array storage (C01), storage sizing (C18), re-layout conversions (C05).
#include <covfie/core/backend/primitive/array.hpp>
#include <covfie/core/backend/primitive/identity.hpp>
#include <covfie/core/backend/transformer/hilbert.hpp>
#include <covfie/core/backend/transformer/morton.hpp>
#include <covfie/core/backend/transformer/strided.hpp>
#include <covfie/core/field.hpp>
#include <covfie/core/field_view.hpp>
#include <covfie/core/parameter_pack.hpp>
#include <covfie/core/utility/nd_map.hpp>
#include "vh_io.hpp"

namespace cb = covfie::backend;
namespace cv = covfie::vector;
using vh::u64;

// ---- index functions through the layer over the identity backend (returns the flat position)
template <typename Tc, std::size_t N>
static std::string sidx(const std::vector<std::string> & a, std::size_t p)
{
    using B = cb::strided<cv::vector_d<Tc, N>, cb::identity<cv::vector_d<Tc, 1>>>;
    covfie::utility::nd_size<N> sizes;
    for (std::size_t i = 0; i < N; ++i) sizes[i] = u64(a[p + i]);
    typename B::owning_data_t o(sizes, typename cb::identity<cv::vector_d<Tc, 1>>::owning_data_t());
    typename B::non_owning_data_t v(o);
    typename B::contravariant_input_t::vector_t c;
    for (std::size_t i = 0; i < N; ++i) c[i] = static_cast<Tc>(u64(a[p + N + i]));
    auto r = v.at(c);
    return std::to_string(static_cast<unsigned long long>(r[0]));
}
template <typename Tc>
static std::string sidx_n(std::size_t n, const std::vector<std::string> & a, std::size_t p)
{
    switch (n) {
    case 1: return sidx<Tc, 1>(a, p);
    case 2: return sidx<Tc, 2>(a, p);
    case 3: return sidx<Tc, 3>(a, p);
    case 4: return sidx<Tc, 4>(a, p);
    }
    return "BAD_CASE";
}

// Tc: the coordinate scalar (the storage index of the array beneath stays size_t)
template <typename Tc, std::size_t N, bool BMI>
static std::string midx(const std::vector<std::string> & a, std::size_t p)
{
    using B = cb::morton<cv::vector_d<Tc, N>, cb::array<cv::float1>, BMI>;
    typename B::contravariant_input_t::vector_t c;
    for (std::size_t i = 0; i < N; ++i) c[i] = static_cast<Tc>(u64(a[p + i]));
    return std::to_string(static_cast<unsigned long long>(B::calculate_index(c)));
}
template <typename Tc, bool BMI>
static std::string midx_n(std::size_t n, const std::vector<std::string> & a, std::size_t p)
{
    switch (n) {
    case 1: return midx<Tc, 1, BMI>(a, p);
    case 2: return midx<Tc, 2, BMI>(a, p);
    case 3: return midx<Tc, 3, BMI>(a, p);
    case 4: return midx<Tc, 4, BMI>(a, p);
    }
    return "BAD_CASE";
}

static std::string hidx(const std::vector<std::string> & a)
{
    using B = cb::hilbert<cv::size2, cb::array<cv::float1>>;
    covfie::utility::nd_size<2> sizes{u64(a[0]), u64(a[1])};
    typename B::coordinate_t c{u64(a[2]), u64(a[3])};
    return std::to_string(static_cast<unsigned long long>(B::calculate_index(c, sizes)));
}

// ---- read/write behaviour over array storage
// builds a row-major field, fills it with distinct tags, converts it to layout L (re-layout copy),
// then on the converted field: checks the copied values (C05), writes new tags at every coordinate,
// reads everything back after every write (read-own-write + frame), and reports the flat position of
// every coordinate relative to the storage base together with the storage length.
template <typename L, typename R, std::size_t N, std::size_t M, typename F>
static std::string rw(const std::vector<std::string> & a, std::size_t p)
{
    using sizes_t = covfie::utility::nd_size<N>;
    sizes_t sizes;
    std::size_t total = 1;
    for (std::size_t i = 0; i < N; ++i) {
        sizes[i] = u64(a[p + i]);
        total *= sizes[i];
    }
    covfie::field<R> rf(covfie::make_parameter_pack(
        typename R::configuration_t(sizes), typename R::backend_t::configuration_t{total}
    ));
    {
        covfie::field_view<R> rv(rf);
        std::size_t tag = 1;
        covfie::utility::nd_map<sizes_t>(
            [&](sizes_t t) {
                typename R::contravariant_input_t::vector_t c;
                for (std::size_t i = 0; i < N; ++i) c[i] = static_cast<typename R::contravariant_input_t::scalar_t>(t[i]);
                for (std::size_t q = 0; q < M; ++q) rv.at(c)[q] = static_cast<F>(tag * 8 + q);
                ++tag;
            },
            sizes
        );
    }
    covfie::field<L> lf(rf);
    covfie::field_view<L> lv(lf);
    covfie::field_view<R> rv(rf);
    std::ostringstream out;
    // configuration preserved
    auto conf = lf.backend().get_configuration();
    for (std::size_t i = 0; i < N; ++i)
        if (conf[i] != sizes[i]) return "FAIL config differs after conversion";
    const auto & arr = lf.backend().get_backend();
    std::size_t cap = arr.get_configuration()[0];
    auto * base = arr.m_ptr.get();
    std::vector<sizes_t> coords;
    covfie::utility::nd_map<sizes_t>([&](sizes_t t) { coords.push_back(t); }, sizes);
    auto mk = [](sizes_t t) {
        typename L::contravariant_input_t::vector_t c;
        for (std::size_t i = 0; i < N; ++i) c[i] = static_cast<typename L::contravariant_input_t::scalar_t>(t[i]);
        return c;
    };
    auto mkr = [](sizes_t t) {
        typename R::contravariant_input_t::vector_t c;
        for (std::size_t i = 0; i < N; ++i) c[i] = static_cast<typename R::contravariant_input_t::scalar_t>(t[i]);
        return c;
    };
    // C05: values preserved at every lattice coordinate, source unchanged
    std::size_t tag = 1;
    for (auto & t : coords) {
        for (std::size_t q = 0; q < M; ++q) {
            if (lv.at(mk(t))[q] != static_cast<F>(tag * 8 + q)) return "FAIL converted value differs at coordinate #" + std::to_string(tag - 1);
            if (rv.at(mkr(t))[q] != static_cast<F>(tag * 8 + q)) return "FAIL source changed at coordinate #" + std::to_string(tag - 1);
        }
        ++tag;
    }
    // flat positions
    std::vector<std::size_t> pos;
    for (auto & t : coords) {
        std::size_t d = static_cast<std::size_t>(&lv.at(mk(t)) - base);
        if (d >= cap) return "FAIL position " + std::to_string(d) + " outside storage of " + std::to_string(cap) + " cells at coordinate #" + std::to_string(pos.size());
        pos.push_back(d);
    }
    // C01: write a new tag at one coordinate, everything else unchanged
    std::vector<F> shadow(coords.size() * M);
    for (std::size_t k = 0; k < coords.size(); ++k)
        for (std::size_t q = 0; q < M; ++q) shadow[k * M + q] = lv.at(mk(coords[k]))[q];
    bool full = coords.size() <= 64;
    for (std::size_t k = 0; k < coords.size(); ++k) {
        for (std::size_t q = 0; q < M; ++q) {
            F nv = static_cast<F>(1000000 + k * 8 + q);
            lv.at(mk(coords[k]))[q] = nv;
            shadow[k * M + q] = nv;
        }
        if (lv.at(mk(coords[k]))[0] != shadow[k * M]) return "FAIL read-own-write at coordinate #" + std::to_string(k);
        if (full || k + 1 == coords.size()) {
            for (std::size_t j = 0; j < coords.size(); ++j)
                for (std::size_t q = 0; q < M; ++q)
                    if (lv.at(mk(coords[j]))[q] != shadow[j * M + q])
                        return "FAIL write at coordinate #" + std::to_string(k) + " changed coordinate #" + std::to_string(j);
        }
    }
    out << "OK cap=" << cap << " pos=";
    for (std::size_t k = 0; k < pos.size(); ++k) out << (k ? "," : "") << pos[k];
    if (pos.empty()) out << "-";
    return out.str();
}

template <typename Tc, std::size_t N, std::size_t M, typename F>
static std::string rw_layout(const std::string & lay, const std::vector<std::string> & a, std::size_t p)
{
    using A = cb::array<cv::vector_d<F, M>>;
    using R = cb::strided<cv::vector_d<Tc, N>, A>;
    if (lay == "strided") return rw<R, R, N, M, F>(a, p);
    if (lay == "mortonb") return rw<cb::morton<cv::vector_d<Tc, N>, A, true>, R, N, M, F>(a, p);
#ifndef VH_NO_MORTON_PORTABLE_CONVERT
    if (lay == "mortonp") return rw<cb::morton<cv::vector_d<Tc, N>, A, false>, R, N, M, F>(a, p);
#endif
    if constexpr (N == 2) {
#ifndef VH_NO_HILBERT_LOOKUP
        if (lay == "hilbert") return rw<cb::hilbert<cv::vector_d<Tc, N>, A>, R, N, M, F>(a, p);
#endif
    }
    return "UNSUPPORTED";
}

template <typename Tc>
static std::string rw_t(const std::string & lay, std::size_t n, std::size_t m, const std::vector<std::string> & a, std::size_t p)
{
    if (m == 1) {
        switch (n) {
        case 1: return rw_layout<Tc, 1, 1, float>(lay, a, p);
        case 2: return rw_layout<Tc, 2, 1, float>(lay, a, p);
        case 3: return rw_layout<Tc, 3, 1, float>(lay, a, p);
        case 4: return rw_layout<Tc, 4, 1, float>(lay, a, p);
        }
    }
    if (m == 3) {
        switch (n) {
        case 1: return rw_layout<Tc, 1, 3, double>(lay, a, p);
        case 2: return rw_layout<Tc, 2, 3, double>(lay, a, p);
        case 3: return rw_layout<Tc, 3, 3, double>(lay, a, p);
        }
    }
    return "BAD_CASE";
}

int main()
{
    return vh::main_loop([](const std::string & kind, const std::vector<std::string> & a) -> std::string {
        if (kind == "sidx") {
            std::size_t n = u64(a[1]);
            if (a[0] == "u64") return sidx_n<std::size_t>(n, a, 2);
            if (a[0] == "u32") return sidx_n<unsigned int>(n, a, 2);
            if (a[0] == "i32") return sidx_n<int>(n, a, 2);
            if (a[0] == "i64") return sidx_n<long>(n, a, 2);
        }
        if (kind == "midx") {
            std::size_t n = u64(a[1]);
            return a[0] == "b" ? midx_n<std::size_t, true>(n, a, 2) : midx_n<std::size_t, false>(n, a, 2);
        }
        if (kind == "midx32") {   // unsigned int coordinates
            std::size_t n = u64(a[1]);
            return a[0] == "b" ? midx_n<unsigned int, true>(n, a, 2) : midx_n<unsigned int, false>(n, a, 2);
        }
#ifndef VH_NO_HILBERT_INDEX
        if (kind == "hidx") return hidx(a);
#endif
        if (kind == "rw") {
            // rw <layout> <Tc> <N> <M> sizes...
            std::size_t n = u64(a[2]), m = u64(a[3]);
            if (a[1] == "u64") return rw_t<std::size_t>(a[0], n, m, a, 4);
            if (a[1] == "u32" && n <= 3 && m == 1) return rw_t<unsigned int>(a[0], n, m, a, 4);
            if (a[1] == "i32" && n <= 3 && m == 1) return rw_t<int>(a[0], n, m, a, 4);
        }
        return "BAD_CASE";
    });
}
