"""C13 -- every well-kinded composition supports the whole field API (partial: observed by compilation)."""
import concurrent.futures, hashlib, json, os, re
from vlib import core, stacks
from props import stack_common as sc

LAYERS_INT = ['clamp', 'backup', 'deref', 'cast.f64', 'cast.i32', 'shuffle']
ILL = [
    # (name, C++ type, stated kind it violates)
    ('hilbert-3d', 'cb::hilbert<cv::vector_d<std::size_t, 3>, cb::array<cv::vector_d<float, 1>>>', 'hilbert: number of input dimensions must be exactly two'),
    ('linear-int-coordinate', 'cb::linear<cb::strided<cv::vector_d<std::size_t, 2>, cb::array<cv::vector_d<float, 1>>>, cv::vector_d<int, 2>>', 'linear: contravariant input must be floating point'),
    ('linear-int-stored', 'cb::linear<cb::strided<cv::vector_d<std::size_t, 2>, cb::array<cv::vector_d<int, 1>>>, cv::vector_d<float, 2>>', 'linear: covariant input must be floating point'),
    ('linear-dimension-mismatch', 'cb::linear<cb::strided<cv::vector_d<std::size_t, 2>, cb::array<cv::vector_d<float, 1>>>, cv::vector_d<float, 3>>', 'linear: input size must equal the backend input size'),
    ('nearest-int-coordinate', 'cb::nearest_neighbour<cb::strided<cv::vector_d<std::size_t, 2>, cb::array<cv::vector_d<float, 1>>>, cv::vector_d<long, 2>>', 'nearest_neighbour: contravariant input must be floating point'),
    ('nearest-dimension-mismatch', 'cb::nearest_neighbour<cb::strided<cv::vector_d<std::size_t, 3>, cb::array<cv::vector_d<float, 1>>>, cv::vector_d<float, 2>>', 'nearest_neighbour: input size must equal the backend input size'),
    ('clamp-over-non-backend', 'cb::clamp<int>', 'clamp: the wrapped type must satisfy concepts::field_backend'),
    ('strided-over-non-backend', 'cb::strided<cv::vector_d<std::size_t, 2>, float>', 'strided: the storage type must satisfy concepts::field_backend'),
    ('strided-bad-descriptor', 'cb::strided<float, cb::array<cv::vector_d<float, 1>>>', 'strided: the input type must satisfy concepts::vector_descriptor'),
    ('view-too-large', 'cb::affine<cb::affine<cb::affine<cb::identity<cv::vector_d<double, 3>>>>>', 'field_view: non-owning data must be at most 256 bytes'),
]
ILL_CONTROL = ('control-well-kinded', 'cb::linear<cb::strided<cv::vector_d<std::size_t, 2>, cb::array<cv::vector_d<float, 1>>>, cv::vector_d<float, 2>>', '')


def enumerate_stacks(r, thorough):
    """pairwise layer adjacency: every ordered pair of layer kinds that may be adjacent occurs in some stack, over each kind of
    primitive and storage order; plus the catalogue and seeded random stacks up to depth 5"""
    out = []
    int_bases = ['strided.2.u64/array.1.f32', 'strided.3.i32/array.3.f64', 'strided.1.u32/array.2.f32', 'morton.2.u64.b/array.1.f32', 'morton.3.u64.p/array.2.f64',
                 'morton.1.u32.p/array.1.f32', 'hilbert.u64/array.1.f32', 'hilbert.i32/array.3.f64', 'identity.2.u64', 'identity.3.i32', 'constant.2.u32.3.f32', 'constant.1.u64.1.f64']
    flt_bases = ['identity.2.f32', 'identity.3.f64', 'constant.1.f32.2.f32', 'constant.3.f64.1.i32']
    prims = ['array.1.f32', 'array.4.f64', 'constant.2.f32.2.f32', 'identity.1.f64']
    out += prims + int_bases + flt_bases

    def wrap(l, b):
        k = stacks.kind_of(b)
        if l == 'shuffle':
            return 'shuffle.' + '-'.join(str((i + 1) % k.n) for i in range(k.n)) + '/' + b
        return l + '/' + b
    lvl1 = []
    for b in int_bases:
        for l in LAYERS_INT + ['linear.f32', 'nearest.f64', 'nearest.f32', 'linear.f64']:
            lvl1.append(wrap(l, b))
    for b in flt_bases:
        for l in LAYERS_INT + ['affine']:
            lvl1.append(wrap(l, b))
    lvl1 = [s for s in lvl1 if stacks.kind_of(s) is not None]
    out += lvl1
    # second wrapper over a sample of the first level so that every ordered pair of layer kinds occurs
    seen_pairs = set()
    for s in r.shuffle(lvl1):
        k = stacks.kind_of(s)
        inner = s.split('/')[0].split('.')[0]
        opts = LAYERS_INT + (['affine'] if k.tc in ('f32', 'f64') else ['linear.f32', 'nearest.f64'])
        for l in opts:
            key = (l.split('.')[0], inner, k.tc in ('f32', 'f64'))
            if key in seen_pairs and not thorough:
                continue
            t = wrap(l, s)
            if stacks.kind_of(t) is not None:
                seen_pairs.add(key)
                out.append(t)
    out += [n for n in sc.BASE_STACKS]
    for _ in range(60 if thorough else 16):
        out.append(sc.random_stack(r, max_depth=5))
    return [s for s in dict.fromkeys(out) if stacks.kind_of(s) is not None]


def conv_pairs(names):
    """compatible conversions: storage order changes and interpolator changes over the same geometry"""
    pairs = []
    geo = {}
    for n in names:
        ls = stacks.parse(n)
        key = []
        for l in ls:
            if l[0] in ('strided', 'morton'):
                key.append(('order', l[1], l[2]))
            elif l[0] == 'hilbert':
                key.append(('order', '2', l[1]))
            elif l[0] in ('linear', 'nearest'):
                key.append(('interp', l[1]))
            elif l[0] == 'array':
                key.append(('array', l[1]))      # the stored scalar type may differ: conversions copy component by component
            else:
                key.append(tuple(l))
        # the layers that implement a converting constructor: storage orders, interpolators, affine
        if any(k[0] == 'order' for k in key) and all(k[0] in ('order', 'interp', 'affine', 'array') for k in key):
            geo.setdefault(tuple(key), []).append(n)
    for key, group in geo.items():
        for a in group:
            for b in group:
                if a != b:
                    pairs.append((a, b))
    return pairs


def run(replay=None):
    chk = core.Check('C13', 'proof')
    thorough = chk.tier == 'thorough'
    chk.cov['rule'] = (
        'well-kinded side: stacks from the layer grammar with pairwise layer-adjacency coverage (every ordered pair of layer kinds that may be adjacent, over every kind of primitive and storage order), the catalogue and seeded '
        'random stacks to depth 5; for each the generic harness instantiates THE WHOLE API in one translation unit (construction from a parameter pack of owning data and through make_parameter_pack_for, field_view, at() in both forms, '
        'write through the view where the output is a reference, get_configuration / get_backend chain, dump, load, copy / move construction and assignment, destruction, static_assert that the view is trivially copyable and that the '
        'stack satisfies concepts::field_backend) and compatible-stack conversions in copying and moving form (also across stored precision); g++ -std=c++20 must accept it whenever the model says kind_of = Some and the view fits the stated 256-byte bound (measured with sizeof). '
        'Ill-kinded side: a catalogue of compositions violating each STATED kind (static_asserts and concept constraints of the layers and of field_view) must be rejected, with a well-kinded control through the same translation-unit template. '
        'A case = one (stack or conversion, API) instantiation; non-trivial = at least one transformer layer; distinct by stack name.')
    with core.Lock('coq'):
        rep, tlog = core.translate()
    for u in rep['untranslatable']:
        if u['group'] == 'Asserts':
            chk.obligation_broken('reading of ' + u['name'], u['why'])
    chk.cov['kind_asserts_in_source'] = len(rep.get('asserts', {}).get('asserts', [])) if isinstance(rep.get('asserts'), dict) else None
    chk.prove('Properties_C13.v')
    r = chk.rng
    names = enumerate_stacks(r, thorough)
    if replay:
        rp = json.load(open(replay)).get('replay', {})
        if rp.get('stack'):
            names = [rp['stack']]
    # 1. sizeof of the view of every candidate
    gdir = os.path.join(core.BUILD, 'gen_stacks')
    os.makedirs(gdir, exist_ok=True)
    src = '#include "vh_stack.hpp"\nnamespace cb = covfie::backend; namespace cv = covfie::vector;\nint main() {\n'
    for i, n in enumerate(names):
        src += f'  std::printf("%d %zu\\n", {i}, sizeof(typename {stacks.cxx_type(n)}::non_owning_data_t));\n'
    src += '}\n'
    h = hashlib.sha256(src.encode()).hexdigest()[:12]
    sp = os.path.join(gdir, f'sz_{h}.cpp')
    open(sp, 'w').write(src)
    sizes = {}
    with core.Lock('harness'):
        exe, log = core.build_harness(f'sz_{h}', sp, 'relplain', deps=[os.path.join(core.VERIF, 'harness', 'vh_stack.hpp')])
    if not exe:
        chk.obligation_broken('sizeof probe does not compile', log[-2000:])
    else:
        rc, out, err = core.run_exe(exe, '')
        for line in out.split('\n'):
            if line.strip():
                i, z = line.split()
                sizes[names[int(i)]] = int(z)
    fits = [n for n in names if sizes.get(n, 0) <= 256]
    toolarge = [n for n in names if sizes.get(n, 0) > 256]
    chk.cov['view_too_large_excluded'] = len(toolarge)
    # 2. the whole API, syntax-only, sharded; then conversions
    convs = conv_pairs(fits)
    if not thorough:
        convs = r.shuffle(convs)[:40]
    # conversions that also change the stored precision (component-wise copy with a float <-> double conversion), both directions
    XPREC = [('strided.2.u64/array.2.f32', 'morton.2.u64.p/array.2.f64'), ('morton.2.u64.b/array.1.f64', 'strided.2.u64/array.1.f32'),
             ('strided.2.u64/array.3.f32', 'hilbert.u64/array.3.f64'), ('hilbert.u64/array.1.f32', 'morton.2.u64.p/array.1.f64'),
             ('linear.f32/strided.3.u64/array.2.f32', 'nearest.f32/morton.3.u64.p/array.2.f64'), ('affine/linear.f32/strided.2.u64/array.1.f64', 'affine/linear.f32/morton.2.u64.b/array.1.f32')]
    for a_, b_ in XPREC:
        if stacks.kind_of(a_) is not None and stacks.kind_of(b_) is not None:
            convs += [(a_, b_), (b_, a_)]
    convs = list(dict.fromkeys(convs))
    with core.Lock('harness'):
        exes, failed = stacks.build_stack_harness('api', fits, 'syntax', shard_size=6)
        bad = {}
        if failed:
            suspects = [s for sh, log in failed for s in sh]
            _, f1 = stacks.build_stack_harness('apix', suspects, 'syntax', shard_size=1)
            for sh, log in f1:
                bad[sh[0]] = log
            if not bad:
                for sh, log in failed:
                    for s in sh:
                        bad[s] = log
        cgood = [(a, b) for a, b in convs if a not in bad and b not in bad]
        _, cfailed = stacks.build_stack_harness('apic', [], 'syntax', conversions=cgood, shard_size=1, one_conv_per_shard=True)
    for n in fits:
        chk.count_case(n, '/' in n)
        if n in bad:
            lay = '/'.join(l.split('.')[0] for l in n.split('/'))
            chk.violation('stack does not compile: ' + lay, f'{n} is well-kinded (kind_of = {stacks.kind_of(n)}, view {sizes.get(n)} bytes) but the whole-API instantiation is rejected: {sc.first_error(bad[n])}',
                          {'stack': n, 'compiler_output': bad[n][-3000:]})
    for sh, log in cfailed:
        a, b = (sh + sh)[:2]
        chk.violation('conversion does not compile: ' + a.split('/')[0].split('.')[0] + ' -> ' + b.split('/')[0].split('.')[0],
                      f'constructing {b} from {a} (compatible stacks) is rejected: {sc.first_error(log)}', {'from': a, 'into': b, 'compiler_output': log[-3000:]})
    for a, b in cgood:
        chk.count_case(('conv', a, b), True)
    # 3. the ill-kinded catalogue
    def ill_tu(item):
        name, ty, why = item
        txt = ('#include "vh_stack.hpp"\nnamespace cb = covfie::backend; namespace cv = covfie::vector;\n'
               f'using S = {ty};\nint main() {{ vh::Registry r; r.add<S>("x"); return r.run(); }}\n')
        hh = hashlib.sha256(txt.encode()).hexdigest()[:12]
        p = os.path.join(gdir, f'ill_{hh}.cpp')
        open(p, 'w').write(txt)
        rc, out = core.sh([core.CXX] + core.BASE_FLAGS + ['-fsyntax-only'] + core.include_flags() + [p], timeout=300)
        return name, rc, out
    with concurrent.futures.ThreadPoolExecutor(max_workers=core.NCPU) as ex:
        res = list(ex.map(ill_tu, ILL + [ILL_CONTROL]))
    ill_log = {}
    for (name, ty, why), (_, rc, out) in zip(ILL + [ILL_CONTROL], res):
        chk.count_case(('ill', name), True)
        first = sc.first_error(out) if rc else ''
        ill_log[name] = first[:200]
        if name == ILL_CONTROL[0]:
            if rc != 0:
                chk.obligation_broken('ill-kinded catalogue: the well-kinded control is rejected', out[-2000:])
        elif rc == 0:
            chk.violation('ill-kinded composition accepted: ' + name, f'{ty} violates a stated kind ({why}) but the whole-API instantiation compiles', {'ill_kinded': name, 'type': ty})
    chk.cov['ill_kinded_first_diagnostic'] = ill_log
    chk.sample({'stack': fits[0], 'api': 'whole', 'compiles': fits[0] not in bad})
    chk.sample({'stack': fits[-1], 'api': 'whole', 'compiles': fits[-1] not in bad, 'view_bytes': sizes.get(fits[-1])})
    if cgood:
        chk.sample({'conversion': list(cgood[0]), 'compiles': True})
    chk.sample({'ill_kinded': ILL[0][0], 'diagnostic': ill_log.get(ILL[0][0])})
    chk.cov['stacks'] = len(fits)
    chk.cov['conversions'] = len(cgood)
    chk.cov['programs'] = len(fits) + len(cgood) + len(ILL) + 1
    chk.cov['disagreements_checked'] = chk.cov['programs']
    return chk.finish()
