"""C18 -- power-of-two rounding and integer power are exact; curve storage is large enough."""
import os
from vlib import core, pair

WIDTHS = [8, 16, 32, 64]


def gen_cases(chk):
    r = chk.rng
    thorough = chk.tier == 'thorough'
    cases = []   # (kind, args tuple)
    # round_pow2: domain 0..2^(w-1)
    for i in range(0, 129):
        cases.append(('rp2', (8, i)))
    for i in range(0, 32769):
        cases.append(('rp2', (16, i)))
    for w in (32, 64):
        for k in range(0, w):
            for d in (-1, 0, 1):
                v = (1 << k) + d
                if 0 <= v <= (1 << (w - 1)):
                    cases.append(('rp2', (w, v)))
        for _ in range(20000 if thorough else 2000):
            k = r.range(1, w - 1)
            cases.append(('rp2', (w, r.range(1, 1 << k))))
    # ipow: all b, e
    for b in range(256):
        for e in range(256):
            cases.append(('ipow', (8, b, e)))
    for w in (16, 32, 64):
        m = (1 << w) - 1
        edge = [0, 1, 2, 3, m, m - 1, 1 << (w // 2), (1 << (w // 2)) + 1, (1 << (w // 2)) - 1, 1 << (w - 1)]
        if w == 16:
            edge += [46340, 46341, 255, 256, 181, 182]
        for b in edge:
            for e in [0, 1, 2, 3, 5, 31, 32, 33, 63, 64, 65, m, m - 1]:
                if e <= m:
                    cases.append(('ipow', (w, b, e)))
        for _ in range(30000 if thorough else 4000):
            kb = r.range(1, w)
            ke = r.range(1, w)
            cases.append(('ipow', (w, r.bits(kb), r.bits(ke))))
    return cases


def run(replay=None):
    chk = core.Check('C18', 'proof')
    chk.cov['rule'] = ('round_pow2: every input of the 8- and 16-bit domain, 2^k and 2^k+-1 and seeded random values at 32/64 bit; '
                       'ipow: all 65536 pairs at 8 bit, boundary and seeded random pairs at 16/32/64 bit. A case is (kind, width, args); '
                       'non-trivial = not (i <= 1) for round_pow2 and not (b <= 1 or e == 0) for ipow; distinct by the tuple. '
                       'Each case is run on g++ -O2 -DNDEBUG and -O1 with assertions (ASan+UBSan), compared with the spec closed form '
                       '(property oracle) and with the kernel generated from the source (translation validation).')
    # 1. translate
    with core.Lock('coq'):
        rep, tlog = core.translate()
    for u in rep['untranslatable']:
        if u['group'] == 'Numeric':
            chk.obligation_broken('translation of ' + u['name'], u['why'])
    # 2. prove
    chk.prove('Properties_C18.v')
    # 3. executables
    with core.Lock('ocaml'):
        driver, dlog = core.build_driver('numeric')
    if not driver:
        chk.obligation_broken('extracted model (numeric) does not build', dlog)
    exes = {}
    with core.Lock('harness'):
        for cfg in ('rel', 'dbg'):
            exe, log = core.build_harness('h_numeric', os.path.join(core.VERIF, 'harness', 'h_numeric.cpp'), cfg)
            if not exe:
                chk.violation('numeric harness does not compile (' + cfg + ')', 'utility/numeric.hpp no longer compiles at uint8/16/32/64',
                              {'compiler_output': log[-3000:]})
            else:
                exes[cfg] = exe
        # clang UBSan: confirms on the real code what the model says about promoted-int overflow
        core_cxx = core.CXX
        core.CXX = 'clang++'
        exe_cl, log = core.build_harness('h_numeric_clang', os.path.join(core.VERIF, 'harness', 'h_numeric.cpp'), 'dbg')
        core.CXX = core_cxx
    # 4. cases
    cases = gen_cases(chk)
    if replay:
        import json
        cases = [tuple(c) for c in json.load(open(replay)).get('replay', {}).get('cases', [])] or cases
    lines = []
    for n, (kind, args) in enumerate(cases):
        lines.append(f'{n} {kind} ' + ' '.join(str(a) for a in args))
    spec_lines = [l.replace(' rp2 ', ' rp2spec ').replace(' ipow ', ' ipowspec ') for l in lines]
    model, spec = {}, {}
    if driver:
        rc, model, err = pair.run_model(driver, lines)
        rc2, spec, err2 = pair.run_model(driver, spec_lines)
        if rc or rc2:
            chk.obligation_broken('extracted model crashed', err + err2)
    impl = {}
    for cfg, exe in exes.items():
        impl[cfg] = pair.run_impl_isolated(exe, lines)
    # 5. compare
    ub_cases = []
    ndis = 0
    for n, (kind, args) in enumerate(cases):
        id_ = str(n)
        nontrivial = (args[1] > 1) if kind == 'rp2' else (args[1] > 1 and args[2] > 0)
        chk.count_case((kind,) + tuple(args), nontrivial)
        if n % 9973 == 0:
            chk.sample({'case': [kind] + list(args), 'spec': spec.get(id_), 'generated_kernel': model.get(id_),
                        'impl': {c: impl[c].get(id_) for c in impl}})
        # the property's own oracle, computed independently of the Coq development
        if kind == 'rp2':
            s_py = str(1 if args[1] <= 1 else 1 << (args[1] - 1).bit_length())
        else:
            s_py = str(pow(args[1], args[2], 1 << args[0]))
        s = spec.get(id_)
        m = model.get(id_)
        if s is not None and s != s_py:
            chk.obligation_broken(f'spec function vs independent oracle on {kind}{tuple(args)}', f'Coq spec {s}, python {s_py}')
        s = s_py
        for cfg in impl:
            a = impl[cfg].get(id_)
            if a == 'SKIPPED':
                chk.cov['skipped_after_crashes'] = chk.cov.get('skipped_after_crashes', 0) + 1
                continue
            if s is not None and a != s:
                chk.violation(f'{kind}<uint{args[0]}_t> wrong value', f'{kind}{tuple(args[1:])} at {args[0]} bits returned {a} in build {cfg}, closed form is {s}',
                              {'cases': [[kind, list(args)]], 'impl': a, 'spec': s, 'build': cfg})
        if m is not None and s is not None and m != s:
            if m == '-1':
                ub_cases.append((kind, args))
            else:
                ndis += 1
                chk.obligation_broken(f'correspondence generated-kernel vs spec on {kind}{tuple(args)}', f'generated kernel {m}, spec {s}')
                if ndis > 20:
                    break
    chk.cov['disagreements_checked'] = len(cases)
    chk.cov['programs'] = 2
    # undefined behaviour found by the model: confirm on the real code with clang's UBSan
    if ub_cases:
        widths = sorted({a[0] for _, a in ub_cases})
        kind, args = ub_cases[0]
        confirmed = None
        if exe_cl:
            ans = pair.run_impl_isolated(exe_cl, [f'0 {kind} ' + ' '.join(str(a) for a in args)])
            confirmed = ans.get('0', '')
        chk.cov['model_ub_cases'] = len(ub_cases)
        chk.sample({'model_says_UB': [kind] + list(args), 'clang_ubsan': confirmed})
        for w in widths:
            first = [a for k, a in ub_cases if a[0] == w][0]
            chk.violation(f'ipow<uint{w}_t> promoted-int overflow', f'C++ semantics (CKernel) give signed overflow of the promoted int in ipow<uint{w}_t>{tuple(first[1:])}; clang UBSan on the real code: {confirmed}',
                          {'cases': [['ipow', list(first)]], 'model': 'UB SignedOverflow', 'clang_ubsan': confirmed})
    if chk.tier == 'thorough':
        sweep32(chk)
    sizing(chk)
    return chk.finish()


def sizing(chk):
    """the 'consequently' clause: the storage a Morton / Hilbert field allocates for itself (when it is built from another field)
    has more cells than the largest curve position of any in-range coordinate, for every extent vector up to a bound and
    elongated ones beyond it; the length must also be the model's ipow(round_pow2(max extent), N)"""
    import itertools
    from vlib import stacks
    from props import stack_common as sc
    thorough = chk.tier == 'thorough'
    targets = {}
    for n in (1, 2, 3, 4):
        ts = [f'morton.{n}.u64.p', f'morton.{n}.u64.b'] + (['hilbert.u64'] if n == 2 else [])
        targets[n] = ts
    names, convs = [], []
    for n, ts in targets.items():
        src = f'strided.{n}.u64/array.1.f32'
        names.append(src)
        for t in ts:
            names += [f'{t}/array.1.f32', f'{t}/identity.1.u64']
            convs.append((src, f'{t}/array.1.f32'))
    runner = sc.StackRunner(chk, 'sz', names, conversions=convs, shard_size=4)
    for s, log in runner.failed.items():
        chk.violation('curve storage sizing: stack does not compile: ' + s.split('/')[0], f'{s}: {sc.first_error(log)}', {'stack': s, 'compiler_output': log[-3000:]}, found_input=False)
    shapes = {1: [[k] for k in (1, 2, 3, 5, 8, 9)], 2: [], 3: [], 4: []}
    lim = {2: 6 if thorough else 5, 3: 4 if thorough else 3, 4: 3 if thorough else 2}
    for n in (2, 3, 4):
        shapes[n] = [list(x) for x in itertools.product(range(1, lim[n] + 1), repeat=n)]
    shapes[2] += [[4, 8], [8, 2], [3, 17], [17, 3], [1, 9], [16, 5], [2, 33]]
    shapes[3] += [[4, 4, 16], [16, 2, 2], [2, 9, 3], [1, 1, 17]]
    shapes[4] += [[2, 2, 2, 9], [5, 1, 1, 2], [1, 4, 1, 3]]
    lines, meta = [], {}
    cid = 0
    for n, ts in targets.items():
        src = f'strided.{n}.u64/array.1.f32'
        if src in runner.failed:
            continue
        for t in ts:
            if f'{t}/array.1.f32' in runner.failed or f'{t}/identity.1.u64' in runner.failed:
                continue
            for sz in shapes[n]:
                ncell = 1
                for x in sz:
                    ncell *= x
                cs = list(itertools.product(*[range(x) for x in sz]))
                if len(cs) > 600:
                    # the extreme corners and a sample carry the maximum
                    cs = [c for c in cs if any(c[k] == sz[k] - 1 for k in range(n))][:600]
                ops = [f'new 0 ' + ' '.join(map(str, sz)) + f' {ncell} ' + ' '.join(['0'] * ncell), f'conv {t}/array.1.f32 1 0', f'on {t}/array.1.f32 cfg 1']
                lines.append(f's{cid} {src} ' + ' | '.join(ops))
                # the curve positions, through the same layer over the identity backend (its own translation unit)
                pops = [f'new 0 ' + ' '.join(map(str, sz))] + [f'at 0 ' + ' '.join(map(str, c)) for c in cs]
                lines.append(f'p{cid} {t}/identity.1.u64 ' + ' | '.join(pops))
                meta[f's{cid}'] = (t, sz, len(cs))
                cid += 1
    model, impl = runner.run(lines)
    for l in lines:
        id_ = l.split(' ', 1)[0]
        if not id_.startswith('s'):
            continue
        pid_ = 'p' + id_[1:]
        t, sz, ncs = meta[id_]
        chk.count_case(('sizing', t, tuple(sz)), max(sz) > 1)
        p2 = 1
        while p2 < max(sz):
            p2 *= 2
        want_len = p2 ** len(sz)
        for cfg in impl:
            a = impl[cfg].get(id_, 'MISSING')
            pa = impl[cfg].get(pid_, 'MISSING')
            if a == 'SKIPPED' or pa == 'SKIPPED':
                continue
            ap = a.split(' | ')
            pp = pa.split(' | ')
            if len(ap) != 3 or not ap[2].startswith('C ') or len(pp) != 1 + ncs:
                bad = [x for x in ap + pp if not x.startswith(('OK', 'V', 'C'))][:1]
                chk.violation('curve storage sizing: conversion or lookup fails: ' + t.split('.')[0], f'{t} extents {sz} in build {cfg}: {bad or (a[:150] + " / " + pa[:150])}', {'target': t, 'extents': sz, 'impl': a[:1000], 'build': cfg})
                continue
            length = int(ap[2].split(';')[-1].split()[0])
            pos = [int(x.split()[1]) for x in pp[1:] if x.startswith('V ')]
            mx = max(pos) if pos else 0
            if length <= mx:
                chk.violation('curve storage has no more cells than the largest curve position: ' + t.split('.')[0], f'{t} extents {sz} ({cfg}): the converted field owns {length} cells, an in-range coordinate maps to position {mx}',
                              {'target': t, 'extents': sz, 'cells': length, 'largest_position': mx, 'build': cfg})
            elif length != want_len:
                chk.obligation_broken(f'curve storage length differs from ipow(round_pow2(max extent), N): {t} extents {sz} ({cfg})', f'{length} cells, closed form {want_len}')
            for q, (x, mdl) in enumerate(((a, model.get(id_)), (pa, model.get(pid_)))):
                if mdl is not None and mdl != x:
                    xp, mp = x.split(' | '), mdl.split(' | ')
                    j = next((j for j in range(min(len(mp), len(xp))) if mp[j] != xp[j]), 0)
                    chk.obligation_broken(f'correspondence of curve {"positions" if q else "sizing"} with the model: {t} extents {sz} ({cfg})', f'impl {xp[j][:120]} model {mp[j][:120]}')
    chk.cov['sizing_cases'] = len(lines)


def sweep32(chk):
    """thorough: EVERY input of round_pow2<uint32_t> on its domain [0, 2^31], compared as the run-length encoding of its graph"""
    with core.Lock('harness'):
        exe, log = core.build_harness('h_numeric', os.path.join(core.VERIF, 'harness', 'h_numeric.cpp'), 'relplain')
    if not exe:
        chk.obligation_broken('numeric harness (plain build) does not compile', log[-2000:])
        return
    import concurrent.futures
    top = 1 << 31
    nchunk = 16
    bounds = [(k * (top // nchunk) + (1 if k else 0), (k + 1) * (top // nchunk)) for k in range(nchunk)]
    bounds[0] = (0, bounds[0][1])

    def one(b):
        rc, out, err = core.run_exe(exe, f'0 rp2rle {b[0]} {b[1]}\n', timeout=1800)
        return out.strip().split(' ', 1)[1] if out.strip() else 'MISSING ' + err[-200:]
    with concurrent.futures.ThreadPoolExecutor(max_workers=nchunk) as ex:
        outs = list(ex.map(one, bounds))
    runs = []
    for o in outs:
        for tok in o.split():
            if ':' not in tok:
                chk.violation('round_pow2<uint32_t> sweep fails', o[:300], {'chunk': o[:300]}, found_input=False)
                return
            i, v = tok.split(':')
            if not runs or runs[-1][1] != int(v):
                runs.append((int(i), int(v)))
    want = [(0, 1)] + [((1 << (k - 1)) + 1, 1 << k) for k in range(1, 32)]
    chk.cov['round_pow2_u32_inputs_swept'] = top + 1
    chk.cov['evaluations'] += top + 1
    chk.cov['distinct_nontrivial'] += top - 1
    if runs != want:
        bad = next((q for q in range(min(len(runs), len(want))) if runs[q] != want[q]), min(len(runs), len(want)))
        got = runs[bad] if bad < len(runs) else None
        exp = want[bad] if bad < len(want) else None
        i = min(x[0] for x in (got, exp) if x)
        chk.violation('rp2<uint32_t> wrong value', f'round_pow2<uint32_t> differs from the least power of two from input {i} on: run {got}, closed form {exp}', {'cases': [['rp2', [32, i]]], 'runs': runs[:40]})
