"""C02 -- a stack's lookup is the composition of its layers' maps."""
import json
from vlib import core, pair, stacks
from props import stack_common as sc

INT_T = ['u64', 'i32', 'u32']
FLT_T = ['f32', 'f64']


def layer_probe_stacks(thorough):
    """every layer template over the probe backend, N and M chosen independently"""
    out = []
    dims = [(n, m) for n in (1, 2, 3, 4) for m in (1, 2, 3, 4)]
    if not thorough:
        dims = [(1, 1), (1, 3), (2, 1), (2, 2), (2, 3), (3, 1), (3, 3), (4, 2), (3, 4), (4, 4)]
    perms = {1: ['0'], 2: ['0-1', '1-0'], 3: ['0-1-2', '2-0-1', '1-2-0', '2-1-0'], 4: ['3-2-1-0', '1-0-3-2', '2-3-0-1', '0-1-2-3']}
    for n, m in dims:
        for tc in (INT_T + FLT_T if thorough else ['u64', 'i32', 'f32', 'f64']):
            tv = 'f32' if (n + m) % 2 else 'f64'
            p = f'probe.{n}.{tc}.{m}.{tv}'
            out += [f'clamp/{p}', f'backup/{p}', f'deref/{p}', f'cast.{"f64" if tv == "f32" else "f32"}/{p}', f'cast.i32/{p}']
            for pm in perms[n][:(4 if thorough else 2)]:
                out.append(f'shuffle.{pm}/{p}')
            if tc in FLT_T:
                out.append(f'affine/{p}')
            else:
                for ti in FLT_T:
                    out += [f'linear.{ti}/{p}', f'nearest.{ti}/{p}']
    # a fifth input dimension for the generic branch of the interpolator
    out += ['linear.f32/probe.5.u64.2.f32', 'linear.f64/probe.4.u64.1.f64', 'linear.f64/probe.5.u32.3.f64']
    # integer stored scalars through the non-interpolating layers
    out += ['backup/probe.2.i32.3.i32', 'clamp/probe.3.u32.2.u64', 'shuffle.1-0/probe.2.f64.2.i32', 'nearest.f32/probe.2.u64.2.i32']
    return list(dict.fromkeys(o for o in out if stacks.kind_of(o) is not None))


def extent_of(name):
    for l in stacks.parse(name):
        if l[0] in ('strided', 'morton'):
            return int(l[1])
        if l[0] == 'hilbert':
            return 2
    return None


def geom_field(r, name):
    """a field whose configurations make geometric sense (boxes inside the extents, near-identity affine maps)"""
    lk, p = sc.layer_kinds(name)
    toks = []
    cap = None
    sizes = None
    for l, k in lk:
        t = l[0]
        if t in ('strided', 'morton', 'hilbert'):
            n = 2 if t == 'hilbert' else int(l[1])
            sizes = [r.range(2, 4) for _ in range(n)]
            toks += sizes
            c = 1
            for s in sizes:
                c *= s
            cap = c if t == 'strided' else sc.curve_cap(sizes)
    ext = sizes or [4, 4, 4, 4, 4]
    toks = []
    for l, k in lk:
        t = l[0]
        if t in ('strided', 'morton', 'hilbert'):
            toks += sizes
        elif t in ('clamp', 'backup'):
            los, his = [], []
            for j in range(k.n):
                e = ext[j % len(ext)]
                lo = r.range(0, max(0, e - 2))
                hi = r.range(lo, e - 1)
                los.append(lo)
                his.append(hi)
            conv = (lambda v: sc.fbits(k.tc, float(v))) if k.tc in FLT_T else (lambda v: v)
            toks += [conv(v) for v in los] + [conv(v) for v in his]
            if t == 'backup':
                toks += [sc.rand_scalar(r, k.tv, 'nice') for _ in range(k.m)]
        elif t == 'affine':
            n = k.n
            for i in range(n):
                row = [0.0] * (n + 1)
                row[i] = r.choice([1.0, 1.0, 0.5, 2.0, 0.75])
                if r.below(4) == 0 and n > 1:
                    row[(i + 1) % n] = r.choice([0.25, -0.25, 0.5])
                row[n] = r.choice([0.0, 0.25, 0.5, 1.0, -0.5])
                toks += [sc.fbits(k.tc, v) for v in row]
    if p[0] == 'array':
        m = int(p[1])
        n = cap if cap is not None else r.range(1, 6)
        toks += [n] + [sc.rand_scalar(r, p[2], 'nice') for _ in range(n * m)]
    elif p[0] == 'constant':
        toks += [sc.rand_scalar(r, p[4], 'nice') for _ in range(int(p[3]))]
    return toks, ext


def rand_coord(r, k, ext, style):
    out = []
    for j in range(k.n):
        e = ext[j % len(ext)]
        if k.tc in FLT_T:
            if style == 0:
                v = float(r.range(0, e - 1))
            elif style == 1:
                v = r.range(0, 4 * (e - 1)) / 4.0
            elif style == 2:
                v = r.range(-4, 4 * e + 4) / 4.0
            elif style == 3:
                v = r.range(0, 1024 * (e - 1)) / 1024.0
            else:
                v = r.choice([0.0, e - 1.0, e - 1.5, 0.5, e - 1 - 2.0 ** -10, 0.499999, 1.5, 2.5])
            out.append(sc.fbits(k.tc, v))
        else:
            if style in (0, 1, 3):
                v = r.range(0, e - 1)
            elif style == 2:
                v = r.range(-1 if k.tc.startswith('i') else 0, e)
            else:
                v = r.choice([0, e - 1, e - 2 if e > 1 else 0, 1])
            out.append(v)
    return out


def special_coords(r, k):
    """coordinates of the coordinate type whatsoever (NaN excluded), for layers over the probe / identity"""
    out = []
    for j in range(k.n):
        if k.tc == 'f32':
            v = r.choice([0x7F800000, 0xFF800000, 0x7F7FFFFF, 0xFF7FFFFF, 0, 0x80000000, 1, 0x80000001, sc.f32bits(r.range(-64, 64) / 4.0), sc.f32bits(2.5), sc.f32bits(-0.5)])
        elif k.tc == 'f64':
            v = r.choice([0x7FF0000000000000, 0xFFF0000000000000, 0x7FEFFFFFFFFFFFFF, 0, 0x8000000000000000, 1, sc.f64bits(r.range(-64, 64) / 4.0), sc.f64bits(2.5), sc.f64bits(1.5)])
        elif k.tc == 'i32':
            v = r.choice([-2 ** 31, 2 ** 31 - 1, -1, 0, 1, r.range(-8, 8)])
        elif k.tc == 'u32':
            v = r.choice([0, 2 ** 32 - 1, 1, r.range(0, 8)])
        else:
            v = r.choice([0, 2 ** 64 - 1, 1, r.range(0, 8), 2 ** 63])
        out.append(v)
    return out


def small_coords(r, k):
    out = []
    for j in range(k.n):
        if k.tc in FLT_T:
            out.append(sc.fbits(k.tc, r.choice([r.range(0, 40) / 4.0, r.range(0, 6) + 0.0, r.range(0, 4096) / 1024.0])))
        else:
            out.append(r.range(0, 6))
    return out


def canon(ans, tv, tc):
    """NaN payloads and signs are not part of the property (NaN is excluded): one token for every NaN"""
    def fix(part):
        toks = part.split(' ')
        t = tv if toks[0] == 'V' else tc if toks[0] == 'T' else None
        if t not in ('f32', 'f64'):
            return part
        out = [toks[0]]
        for x in toks[1:]:
            try:
                v = int(x)
            except ValueError:
                out.append(x)
                continue
            if t == 'f32' and (v >> 23) & 0xFF == 0xFF and v & 0x7FFFFF:
                out.append('nan')
            elif t == 'f64' and (v >> 52) & 0x7FF == 0x7FF and v & ((1 << 52) - 1):
                out.append('nan')
            else:
                out.append(x)
        return ' '.join(out)
    return ' | '.join(fix(p) for p in ans.split(' | '))


def run(replay=None):
    chk = core.Check('C02', 'proof')
    thorough = chk.tier == 'thorough'
    chk.cov['rule'] = (
        '(1) per-layer fidelity: every layer template (clamp, out-of-range default, permutation, affine, cast, dereference, linear, nearest) over the PROBE backend for N and M in 1..4 '
        'chosen independently and every admissible scalar type: the coordinates the probe is asked for (in order) and the value returned must equal the model layer applied to the probe; '
        '(2) composition: the catalogue of stacks (every layer in several positions over array / constant / identity storage in every storage order) plus seeded random stacks from the grammar up to depth 5: '
        'lookups at coordinates the model finds in-domain, in both at(vector) and at(scalars...) form, must equal the reference interpreter eval (theorem C02_eval_cons: eval of a stack is its outermost layer applied to eval of the rest). '
        'Moved values compare bit-exactly; values computed in floating point compare bit-exactly with the Flocq evaluation in the code\'s operation order. '
        'A case = (stack, field tokens, coordinate); non-trivial = the model finds it in-domain; distinct by those.')
    with core.Lock('coq'):
        rep, tlog = core.translate()
    for u in rep['untranslatable']:
        if u['group'] in ('Packs', 'Linear', 'Algebra'):
            chk.obligation_broken('translation of ' + u['name'], u['why'])
    chk.cov['pack_layers_in_source'] = rep.get('packs')
    chk.prove('Properties_C02.v')
    r = chk.rng
    probes = layer_probe_stacks(thorough)
    comp = [n for n in sc.catalogue(chk, extra_random=40 if thorough else 16)]
    for _ in range(20 if thorough else 8):
        comp.append(sc.random_stack(r, prims=('probe',)))
    comp = list(dict.fromkeys(comp))
    names = probes + [c for c in comp if c not in probes]
    runner = sc.StackRunner(chk, 'ev', names, shard_size=12)
    for s, log in runner.failed.items():
        chk.violation('stack does not compile: ' + '/'.join(l.split('.')[0] for l in s.split('/')), f'lookup through {s} is rejected by the compiler: {sc.first_error(log)}',
                      {'stack': s, 'compiler_output': log[-3000:]})
    names = [n for n in names if n not in runner.failed]
    # cases: (stack, tokens, [coords])
    cases = []
    for n in names:
        k = stacks.kind_of(n)
        isprobe = n.endswith(tuple(p for p in [n.split('/')[-1]])) and n.split('/')[-1].startswith('probe')
        nf = (3 if thorough else 2) if n in probes else (4 if thorough else 2)
        for j in range(nf):
            toks, ext = geom_field(r, n) if (j % 2 == 0 or extent_of(n)) else (sc.rand_field(r, n, max_extent=3, data_mode='nice', cfg_mode='nice', ordered=True), [4] * 5)
            coords = []
            for q in range(10 if thorough else 6):
                if extent_of(n):
                    coords.append(rand_coord(r, k, ext, q % 5))
                elif q % 3 == 0 and not any(x in n for x in ('affine', 'linear', 'nearest')):
                    coords.append(special_coords(r, k))
                elif q % 3 == 1:
                    coords.append(small_coords(r, k))
                else:
                    coords.append(rand_coord(r, k, ext, q % 5))
            cases.append((n, toks, coords))
    if replay:
        rp = json.load(open(replay)).get('replay', {})
        if rp.get('cases'):
            cases = [(c[0], c[1], c[2]) for c in rp['cases']]
    # phase 1: the model decides which coordinates are in-domain
    l1 = []
    for i, (n, t, cs) in enumerate(cases):
        l1.append(f'{i} {n} new 0 ' + ' '.join(map(str, t)) + ''.join(' | at 0 ' + ' '.join(map(str, c)) for c in cs))
    model1 = {}
    if runner.driver:
        rc, model1, err = pair.run_model(runner.driver, l1)
        if rc:
            chk.obligation_broken('extracted model crashed', err[-2000:])
    lines = []
    keep = {}
    ndomain = 0
    for i, (n, t, cs) in enumerate(cases):
        parts = model1.get(str(i), '').split(' | ')
        if len(parts) != 1 + len(cs) or parts[0] != 'OK':
            chk.obligation_broken(f'model cannot build a field of {n}', model1.get(str(i), '')[:300])
            continue
        good = [c for c, a in zip(cs, parts[1:]) if a.startswith('V')]
        ndomain += len(cs) - len(good)
        if not good:
            continue
        keep[str(i)] = good
        has_probe = n.split('/')[-1].startswith('probe')
        ops = ''
        for c in good:
            cstr = ' '.join(map(str, c))
            ops += f' | at 0 {cstr} | atv 0 {cstr}' + (f' | fp 0 {cstr}' if has_probe else '')
        lines.append(f'{i} {n} new 0 ' + ' '.join(map(str, t)) + ops)
    chk.cov['out_of_domain_candidates_dropped'] = ndomain
    model, impl = runner.run(lines)
    nbad = 0
    for l in lines:
        id_ = l.split(' ', 1)[0]
        n, t, _ = cases[int(id_)]
        good = keep[id_]
        kk = stacks.kind_of(n)
        ptc = n.split('/')[-1].split('.')[2] if n.split('/')[-1].startswith('probe') else kk.tc
        m = canon(model.get(id_, ''), kk.tv, ptc)
        mp = m.split(' | ')
        has_probe = n.split('/')[-1].startswith('probe')
        per = 3 if has_probe else 2
        for c in good:
            chk.count_case((n, tuple(t), tuple(c)), True)
        for cfg in impl:
            a = canon(impl[cfg].get(id_, 'MISSING'), kk.tv, ptc)
            if a == m:
                continue
            ap = a.split(' | ')
            if a == 'SKIPPED':
                chk.cov['skipped_after_crashes'] = chk.cov.get('skipped_after_crashes', 0) + 1
                continue
            if len(ap) != len(mp):
                chk.violation('lookup fails: ' + n.split('/')[0].split('.')[0], f'{n} in build {cfg}: {a[:300]}', {'cases': [[n, t, good]], 'impl': a[:1500], 'model': m[:1500], 'build': cfg})
                continue
            for q, (x, y) in enumerate(zip(ap, mp)):
                if x != y:
                    c = good[(q - 1) // per] if q >= 1 else None
                    what = ['at(vector)', 'at(scalars...)', 'backend queries'][(q - 1) % per] if q >= 1 else 'construction'
                    lay = n.split('/')[0].split('.')[0]
                    nbad += 1
                    chk.violation(f'lookup differs from the composition of the layer maps: {lay} ({what})',
                                  f'{n} in build {cfg} at coordinate {c}: implementation {x[:200]}, reference interpreter {y[:200]}',
                                  {'cases': [[n, t, [c] if c else good]], 'impl': x[:600], 'model': y[:600], 'build': cfg})
                    break
        if int(id_) % 41 == 0:
            chk.sample({'stack': n, 'tokens': t[:10], 'coordinate': good[0], 'model': m[:200], 'impl': {c: (impl[c].get(id_) or '')[:200] for c in impl}})
    chk.cov['layer_probe_stacks'] = len(probes)
    chk.cov['composition_stacks'] = len(comp)
    chk.cov['disagreements_checked'] = len(lines)
    chk.cov['programs'] = len(names)
    return chk.finish()
