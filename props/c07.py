"""C07 -- files are portable across interpolation method, storage precision and revisions."""
import json, os, struct
from vlib import core, pair, stacks
from props import stack_common as sc

GOLDEN = os.path.join(core.VERIF, 'golden')

INTERP_BASES = [
    '{I}.f32/strided.1.u64/array.1.f32', '{I}.f32/strided.2.u64/array.3.f32', '{I}.f64/strided.3.u64/array.3.f64', '{I}.f64/strided.2.u32/array.1.f32',
    '{I}.f32/morton.2.u64.b/array.2.f32', '{I}.f32/morton.3.u64.p/array.1.f64', '{I}.f32/hilbert.u64/array.1.f32',
    'affine/{I}.f32/strided.3.u64/array.3.f32', 'affine/{I}.f64/strided.2.u64/array.2.f64', 'clamp/affine/{I}.f32/strided.2.u64/array.1.f32',
    'backup/affine/{I}.f32/clamp/strided.2.u64/array.1.f32', 'shuffle.1-0/{I}.f64/backup/strided.2.i32/array.2.f32',
    'cast.f64/deref/{I}.f32/shuffle.1-0/strided.2.u64/array.3.f32', '{I}.f32/clamp/morton.2.u32.p/array.1.f64',
]
WIDTH_BASES = [
    'array.1.{T}', 'array.3.{T}', 'strided.1.u64/array.1.{T}', 'strided.2.u64/array.3.{T}', 'strided.3.u64/array.3.{T}', 'strided.2.i32/array.2.{T}',
    'morton.2.u64.b/array.1.{T}', 'morton.3.u64.p/array.2.{T}', 'hilbert.u64/array.1.{T}', 'clamp/strided.2.u64/array.1.{T}',
    'linear.f32/strided.2.u64/array.1.{T}', 'nearest.f64/strided.2.u64/array.2.{T}', 'affine/linear.f32/strided.3.u64/array.3.{T}',
    'affine/nearest.f32/clamp/strided.2.u64/array.1.{T}', 'shuffle.1-0/deref/strided.2.u64/array.2.{T}', 'cast.f64/strided.2.u64/array.2.{T}',
]


def f32_round(x):
    """independent oracle: IEEE round-to-nearest-even double -> float (python's struct does exactly this)"""
    return struct.unpack('<I', struct.pack('<f', x))[0]


def narrow_values(r, n):
    """doubles inside the float range that exercise the rounding: exact floats, ties between two floats, a double ulp either side
    of a tie, values in the float subnormal range, values just under FLT_MAX, tiny values rounding to 0 / the least subnormal"""
    out = []
    while len(out) < n:
        k = r.below(8)
        fb = r.bits(31)
        if (fb >> 23) & 0xFF == 0xFF:
            continue
        f = sc.bits_f32(fb)
        nxt = sc.bits_f32(fb + 1) if ((fb + 1) >> 23) & 0xFF != 0xFF else f
        sign = -1.0 if r.below(2) else 1.0
        if k == 0:
            v = f
        elif k == 1:
            v = (f + nxt) / 2            # a tie (exact in double)
        elif k == 2:
            t = (f + nxt) / 2
            v = sc.bits_f64(sc.f64bits(t) + 1) if t != 0 else t
        elif k == 3:
            t = (f + nxt) / 2
            v = sc.bits_f64(sc.f64bits(t) - 1) if t != 0 else t
        elif k == 4:
            v = sc.bits_f32(r.bits(23))  # float subnormal
            v = v + sc.bits_f32(1) / r.choice([2, 4, 3])
        elif k == 5:
            v = sc.bits_f32(0x7F7FFFFF) * (1 - r.range(0, 1000) * 2.0 ** -40)
        elif k == 6:
            v = sc.bits_f32(1) * r.choice([0.25, 0.5, 0.75, 0.5000000001, 0.4999999999, 1.5, 2.5])
        else:
            v = r.range(-10 ** 9, 10 ** 9) / 977.0
        v *= sign
        try:
            f32_round(v)
        except OverflowError:
            continue
        out.append(sc.f64bits(v))
    return out


def widen_values(r, n):
    out = []
    while len(out) < n:
        b = r.choice([r.bits(32), r.bits(23), r.bits(23) | 0x80000000, sc.f32bits(r.range(-1000, 1000) / 8.0), 0, 0x80000000, 1, 0x7F7FFFFF, 0x00800000])
        if (b >> 23) & 0xFF == 0xFF:
            continue
        out.append(b)
    return out


def golden_manifest():
    p = os.path.join(GOLDEN, 'manifest.json')
    return json.load(open(p)) if os.path.exists(p) else []


def run(replay=None):
    chk = core.Check('C07', 'proof')
    thorough = chk.tier == 'thorough'
    chk.cov['rule'] = (
        '(a) every pair of stacks that differ only in the interpolation layer (linear <-> nearest, 14 shapes): a dump of one is loaded into the other, configuration, storage '
        'bit patterns and the re-dump must be identical; (b) every pair of stacks that differ only in float <-> double storage (16 shapes, both directions): every stored value '
        'must be preserved exactly when widening and rounded to nearest even when narrowing (values: exact floats, ties between two floats, one double ulp either side of a tie, '
        'the float subnormal range, just under FLT_MAX, values rounding to zero), judged against python\'s IEEE conversion (independent oracle) and the Flocq model, everything else unchanged; '
        '(c) every committed golden file (golden/manifest.json, one per serialisable layer arrangement) loads, has the recorded contents, re-dumps to the same bytes, and is accepted '
        'by the model reader with the same contents. A case = (stack pair or file, field tokens); non-trivial = at least one stored scalar; distinct by those.')
    with core.Lock('coq'):
        rep, tlog = core.translate()
    for u in rep['untranslatable']:
        if u['group'] in ('Tags', 'ArrayIO'):
            chk.obligation_broken('translation of ' + u['name'], u['why'])
    chk.cov['format_constants_in_source'] = {k: rep.get('tags', {}).get(k) for k in ('magic', 'footer')}
    chk.prove('Properties_C07.v')
    r = chk.rng
    pairs = []
    for b in INTERP_BASES:
        pairs.append((b.replace('{I}', 'linear'), b.replace('{I}', 'nearest'), 'interp'))
        pairs.append((b.replace('{I}', 'nearest'), b.replace('{I}', 'linear'), 'interp'))
    for b in WIDTH_BASES:
        pairs.append((b.replace('{T}', 'f32'), b.replace('{T}', 'f64'), 'widen'))
        pairs.append((b.replace('{T}', 'f64'), b.replace('{T}', 'f32'), 'narrow'))
    pairs = [p for p in pairs if stacks.kind_of(p[0]) is not None and stacks.kind_of(p[1]) is not None]
    names = list(dict.fromkeys([p[0] for p in pairs] + [p[1] for p in pairs]))
    runner = sc.StackRunner(chk, 'io7', names)
    for s, log in runner.failed.items():
        chk.violation('stack does not compile: ' + '/'.join(l.split('.')[0] for l in s.split('/')), f'dump / load of {s} is rejected by the compiler: {sc.first_error(log)}',
                      {'stack': s, 'compiler_output': log[-3000:]})
    per = 6 if thorough else 3
    src = []   # (a, b, kind, tokens)
    for a, b, kind in pairs:
        if a in runner.failed or b in runner.failed:
            continue
        for j in range(per):
            toks = sc.rand_field(r, a, max_extent=3 if j else 2, data_mode='nice', cfg_mode='nice')
            if kind in ('widen', 'narrow'):
                # replace the stored scalars by values aimed at the conversion
                m = int(a.split('/')[-1].split('.')[1])
                n = sc.cfg_token_count(a)
                ln = toks[n]
                vals = narrow_values(r, ln * m) if kind == 'narrow' else widen_values(r, ln * m)
                toks = toks[:n + 1] + vals
            src.append((a, b, kind, toks))
    if replay:
        rp = json.load(open(replay)).get('replay', {})
        if rp.get('cases'):
            src = [tuple(c) for c in rp['cases']]
    l1 = [f'{i} {a} new 0 ' + ' '.join(map(str, t)) + ' | cfg 0 | sto 0 | dump 0' for i, (a, b, k, t) in enumerate(src)]
    m1, i1 = runner.run(l1)
    first = next(iter(runner.exes))
    lines = []
    info = {}
    for i, (a, b, k, t) in enumerate(src):
        am = m1.get(str(i), '')
        ai = i1.get(first, {}).get(str(i), '')
        ref = am if ' | B ' in am else ai
        if ' | B ' not in ref:
            chk.obligation_broken(f'cannot dump {a}', ref[:300])
            continue
        parts = ref.split(' | ')
        for cfg in i1:
            if am and i1[cfg].get(str(i)) != am:
                chk.obligation_broken(f'correspondence of the byte format for {a} ({cfg})', f'impl {i1[cfg].get(str(i), "")[:300]} model {am[:300]}')
        info[str(i)] = parts
        lines.append(f'{i} {b} load 1 {parts[3][2:]} | cfg 1 | sto 1 | dump 1')
    model, impl = runner.run(lines)
    for l in lines:
        id_ = l.split(' ', 1)[0]
        a, b, kind, t = src[int(id_)]
        chk.count_case((a, b, tuple(t)), True)
        src_parts = info[id_]
        m = model.get(id_)
        src_sto = src_parts[2].split()[1:]   # 'S', len, values...
        for cfg in impl:
            ans = impl[cfg].get(id_, 'MISSING')
            parts = ans.split(' | ')
            if len(parts) != 4 or parts[0] != 'LOADED':
                chk.violation(f'{kind}: file does not load into the other type: ' + b.split('/')[0].split('.')[0],
                              f'a dump of {a} loaded into {b} in build {cfg}: {ans[:300]}', {'cases': [[a, b, kind, t]], 'impl': ans[:1000], 'build': cfg})
                continue
            if parts[1] != src_parts[1]:
                chk.violation(f'{kind}: configuration changed by the transfer', f'{a} -> {b} ({cfg}): {src_parts[1][:200]} became {parts[1][:200]}',
                              {'cases': [[a, b, kind, t]], 'build': cfg})
            got = parts[2].split()[1:]
            if kind == 'interp':
                if got != src_sto or parts[3] != src_parts[3]:
                    chk.violation('interp: storage or re-dump changed by loading into the other interpolation method', f'{a} -> {b} ({cfg})',
                                  {'cases': [[a, b, kind, t]], 'impl': ans[:1000], 'source': ' | '.join(src_parts)[:1000], 'build': cfg})
            else:
                if len(got) != len(src_sto) or got[0] != src_sto[0]:
                    chk.violation(f'{kind}: element count changed', f'{a} -> {b} ({cfg}): {src_sto[0]} became {got[:1]}', {'cases': [[a, b, kind, t]], 'build': cfg})
                else:
                    for j, (x, y) in enumerate(zip(src_sto[1:], got[1:])):
                        want = sc.f64bits(sc.bits_f32(int(x))) if kind == 'widen' else f32_round(sc.bits_f64(int(x)))
                        if int(y) != want:
                            chk.violation(f'{kind}: stored value not ' + ('preserved exactly' if kind == 'widen' else 'rounded to nearest even'),
                                          f'{a} -> {b} ({cfg}): element {j} with bits {x} became {y}, expected {want}',
                                          {'cases': [[a, b, kind, t]], 'element': j, 'build': cfg})
                            break
            if m is not None and ans != m:
                chk.obligation_broken(f'correspondence model/impl on {kind} transfer {a} -> {b} ({cfg})', f'impl {ans[:400]} model {m[:400]}')
        if int(id_) % 23 == 0:
            chk.sample({'from': a, 'into': b, 'kind': kind, 'tokens': t[:10], 'model': (m or '')[:160], 'impl': {c: (impl[c].get(id_) or '')[:160] for c in impl}})
    # golden files
    gm = golden_manifest()
    if not gm:
        chk.obligation_broken('golden files missing', 'golden/manifest.json not found')
    gnames = list(dict.fromkeys(g['stack'] for g in gm))
    if gnames:
        grun = sc.StackRunner(chk, 'iog', gnames)
        glines = []
        for i, g in enumerate(gm):
            hexs = open(os.path.join(GOLDEN, g['file']), 'rb').read().hex() or '-'
            glines.append(f'g{i} {g["stack"]} load 1 {hexs} | cfg 1 | sto 1 | dump 1')
        gmod, gimp = grun.run(glines)
        for i, g in enumerate(gm):
            hexs = open(os.path.join(GOLDEN, g['file']), 'rb').read().hex() or '-'
            want = f'LOADED | {g["cfg"]} | {g["sto"]} | B {hexs}'
            chk.count_case(('golden', g['file']), True)
            m = gmod.get(f'g{i}')
            if m is not None and m != want:
                chk.obligation_broken(f'model reader/writer on golden file {g["file"]}', f'model {m[:300]} recorded {want[:300]}')
            for cfg in gimp:
                a = gimp[cfg].get(f'g{i}', 'MISSING')
                if a != want:
                    what = 'does not load' if not a.startswith('LOADED') else ('re-dumps to different bytes' if a.split(' | ')[1:3] == want.split(' | ')[1:3] else 'loads with different contents')
                    chk.violation(f'golden file {what}: ' + g['stack'].split('/')[0].split('.')[0],
                                  f'{g["file"]} ({g["stack"]}) in build {cfg}: {a[:300]}', {'golden': g['file'], 'stack': g['stack'], 'impl': a[:2000], 'recorded': want[:2000], 'build': cfg})
        chk.cov['golden_files'] = len(gm)
        chk.sample({'golden': gm[0]['file'], 'stack': gm[0]['stack'], 'recorded_cfg': gm[0]['cfg'][:100]})
    chk.cov['pairs'] = {k: sum(1 for p in pairs if p[2] == k) for k in ('interp', 'widen', 'narrow')}
    chk.cov['disagreements_checked'] = len(lines) + len(gm)
    chk.cov['programs'] = len(names) + len(gnames)
    return chk.finish()
