"""C15 -- no undefined behaviour on the documented domain, in debug and release builds (partial)."""
import json, os
from vlib import core, pair, stacks
from props import stack_common as sc
from props.c02 import geom_field, rand_coord, canon, small_coords


def program(r, name, k, toks, ext, good_coords, conv_targets=()):
    """a random program over one field type: lookups, writes, copies, moves, assignments (also INTO a moved-from field),
    conversions into another storage order, IO, destruction -- in-domain only"""
    ops = [f'new 0 ' + ' '.join(map(str, toks))]
    state = {0: 'live'}                      # live | moved (engaged, moved-from) ; absent = empty
    other = {}                               # slots of the conversion target type
    writable = k.ref
    cs = good_coords

    def rc():
        return ' '.join(map(str, r.choice(cs)))

    def live():
        return sorted(s for s, v in state.items() if v == 'live')

    def free():
        return [x for x in range(5) if x not in state]
    for step in range(r.range(10, 18)):
        kind = r.choice(['at', 'at', 'atv', 'wr', 'copy', 'cassign', 'massign', 'move', 'refill', 'dump', 'cfg', 'del', 'sto', 'conv'])
        if not live():
            break
        s = r.choice(live())
        if kind in ('at', 'atv') and cs:
            ops.append(f'{kind if not name.startswith("array") else "at"} {s} {rc()}')
        elif kind == 'wr' and writable and cs:
            c = rc()
            vals = ' '.join(str(sc.rand_scalar(r, k.tv, 'nice')) for _ in range(k.m))
            ops.append(f'wr {s} {c} {vals}')
            ops.append(f'at {s} {c}')
        elif kind == 'copy' and free():
            d = r.choice(free())
            ops.append(f'copy {d} {s}')
            state[d] = 'live'
        elif kind == 'cassign':
            d = r.choice(sorted(state))      # live or moved-from destination
            ops.append(f'cassign {d} {s}')
            state[d] = 'live'
        elif kind == 'massign' and len(live()) >= 2:
            d = r.choice([x for x in live() if x != s])
            ops.append(f'massign {d} {s}')
            state[s] = 'moved'
        elif kind == 'move' and free() and len(live()) >= 1:
            d = r.choice(free())
            ops.append(f'move {d} {s}')
            state[d] = 'live'
            state[s] = 'moved'
        elif kind == 'refill':
            # give a moved-from field a value again by copy assignment from a live one of the SAME shape
            mv = [x for x, v in state.items() if v == 'moved']
            if mv:
                d = r.choice(mv)
                ops.append(f'cassign {d} {s}')
                state[d] = 'live'
                if cs:
                    ops.append(f'at {d} {rc()}')
        elif kind in ('dump', 'cfg', 'sto'):
            ops.append(f'{kind} {s}')
        elif kind == 'del' and len(state) > 1:
            d = r.choice(sorted(state))
            ops.append(f'del {d}')
            del state[d]
        elif kind == 'conv' and conv_targets and cs:
            t = r.choice(list(conv_targets))
            d = r.range(0, 3)
            ops.append(f'conv {t} {d} {s}')
            ops.append(f'on {t} cfg {d}')
            for c in cs[:6]:
                ops.append(f'on {t} at {d} ' + ' '.join(map(str, c)))
            ops.append(f'on {t} copy {(d + 1) % 5} {d}')
            ops.append(f'on {t} sto {(d + 1) % 5}')
    return ops


CONV_FAMILIES = [
    ['strided.2.u64/array.1.f32', 'morton.2.u64.p/array.1.f32', 'morton.2.u64.b/array.1.f32', 'hilbert.u64/array.1.f32'],
    ['strided.3.u64/array.2.f64', 'morton.3.u64.b/array.2.f64', 'morton.3.u64.p/array.2.f64'],
    ['nearest.f32/strided.2.u64/array.3.f32', 'nearest.f32/morton.2.u64.b/array.3.f32', 'nearest.f32/hilbert.u64/array.3.f32'],
    ['linear.f32/strided.2.u64/array.1.f32', 'linear.f32/morton.2.u64.p/array.1.f32'],
]


def algebra_section(chk, r, thorough):
    """covfie::algebra called directly (products of transforms, transform * vector, matrix * matrix) in the three builds: no
    sanitizer report, identical results, equal to the model"""
    from props import c09
    with core.Lock('ocaml'):
        driver, dlog = core.build_driver('algebra')
    exes = {}
    with core.Lock('harness'):
        for cfg in ('dbg', 'rel', 'relplain'):
            exe, log = core.build_harness('h_algebra', os.path.join(core.VERIF, 'harness', 'h_algebra.cpp'), cfg, deps=[os.path.join(core.VERIF, 'harness', 'vh_io.hpp')])
            if exe:
                exes[cfg] = exe
            else:
                chk.violation('algebra harness does not compile (' + cfg + ')', sc.first_error(log), {'compiler_output': log[-3000:]}, found_input=False)
    lines = []
    for t in ('f32', 'f64'):
        for n in (1, 2, 3, 4):
            for _ in range(12 if thorough else 5):
                A, B = c09.small_int_matrix(r, t, n), c09.small_int_matrix(r, t, n)
                v = [sc.fbits(t, float(r.range(-3, 3))) for _ in range(n)]
                lines.append(f'compose {t} {n} ' + ' '.join(map(str, A + B)))
                lines.append(f'apply {t} {n} ' + ' '.join(map(str, A + v)))
                kk = r.range(2, 4)
                Ms = [c09.small_int_matrix(r, t, n, 1 if n > 2 else 2) for _ in range(kk)]
                lines.append(f'chain {t} {n} {kk} ' + ' '.join(str(x) for m_ in Ms for x in m_) + ' ' + ' '.join(map(str, v)))
    lines = [f'{i} {l}' for i, l in enumerate(lines)]
    model = {}
    if driver:
        rc, model, err = pair.run_model(driver, lines)
    impl = {cfg: pair.run_impl_isolated(exe, lines) for cfg, exe in exes.items()}
    for l in lines:
        id_, rest = l.split(' ', 1)
        chk.count_case(('algebra', rest), True)
        outs = {cfg: impl[cfg].get(id_, 'MISSING') for cfg in impl}
        for cfg, a in outs.items():
            if a.startswith(('CRASH', 'TIMEOUT', 'MISSING', 'EXCEPTION')):
                kind = 'sanitizer report' if 'runtime error' in a or 'Sanitizer' in a else 'crash or exception'
                chk.violation(f'{kind} in covfie::algebra: ' + rest.split()[0], f'{" ".join(rest.split()[:3])} in build {cfg}: {a[:300]}', {'algebra_lines': [rest], 'build': cfg})
        vals = {a for a in outs.values() if not a.startswith(('CRASH', 'TIMEOUT', 'MISSING', 'EXCEPTION', 'SKIPPED'))}
        if len(vals) > 1:
            chk.violation('the builds disagree in covfie::algebra: ' + rest.split()[0], f'{" ".join(rest.split()[:3])}: ' + ' / '.join(f'{c}: {outs[c][:80]}' for c in sorted(outs)), {'algebra_lines': [rest], 'build': 'all'})
        elif model.get(id_) and vals and model[id_] not in vals:
            chk.violation('covfie::algebra differs from the model: ' + rest.split()[0], f'{" ".join(rest.split()[:3])}: implementation {sorted(vals)[0][:120]}, model {model[id_][:120]}', {'algebra_lines': [rest], 'build': 'all'})
    chk.cov['algebra_cases'] = len(lines)


def run(replay=None):
    chk = core.Check('C15', 'proof')
    thorough = chk.tier == 'thorough'
    chk.cov['rule'] = (
        'PROVED part: every kernel regenerated from the source (round_pow2, ipow, the row-major accumulation and its copy lambda, the Morton loop in both pre-processor variants, the Hilbert index, the out-of-range test) returns Ok '
        '-- no signed overflow, out-of-range shift, division by zero, out-of-bounds subscript or failed assertion in the semantics of CKernel.v -- on the documented domain, in the NDEBUG and in the assertion-enabled translation, '
        'with equal results (Properties_C15.v collects the refinement theorems); the ownership machine never double-frees or reads freed storage (C12); the reader has no outcome but accept / reject (C08). '
        'OBSERVED part: seeded random programs (construction, lookups in both forms, writes and read-back, copy construction, copy and move assignment, conversions, dump, configuration and storage read-out, destruction) over the catalogue, '
        'loads of float dumps into double fields and back with 1..4 components, covfie::algebra products on exactly representable operands, '
        'and seeded random stacks, with every coordinate chosen in-domain by the model, run in four configurations: -O1 with assertions + ASan/UBSan, -O2 -DNDEBUG + ASan/UBSan, -O2 -DNDEBUG plain, and (thorough) valgrind memcheck '
        'on the plain build. Any sanitizer report, assertion, crash, difference between the builds\' outputs or from the model is a failure. A case = (stack, program); non-trivial = at least one copy/assign/IO step; distinct by those.')
    with core.Lock('coq'):
        rep, tlog = core.translate()
    for u in rep['untranslatable']:
        chk.obligation_broken('translation of ' + u['name'], u['why'])
    chk.prove('Properties_C15.v')
    r = chk.rng
    names = [n for n in sc.catalogue(chk, extra_random=30 if thorough else 12) if 'probe' not in n]
    convs = []
    fam_of = {}
    for fam in CONV_FAMILIES:
        for a in fam:
            fam_of[a] = [b for b in fam if b != a]
            for b in fam:
                if a != b:
                    convs.append((a, b))
            if a not in names:
                names.append(a)
    WIDTH_PAIRS = [(f'{pre_}array.{m_}.{a_}', f'{pre_}array.{m_}.{b_}') for pre_ in ('', 'strided.2.u64/') for m_ in (1, 2, 3, 4) for a_, b_ in (('f32', 'f64'), ('f64', 'f32'))]
    for a_, b_ in WIDTH_PAIRS:
        for x_ in (a_, b_):
            if x_ not in names:
                names.append(x_)
    runner = sc.StackRunner(chk, 'ub', names, configs=('dbg', 'rel', 'relplain'), conversions=convs, shard_size=10)
    for s, log in runner.failed.items():
        chk.violation('stack does not compile: ' + '/'.join(l.split('.')[0] for l in s.split('/')), f'{s} is rejected by the compiler: {sc.first_error(log)}', {'stack': s, 'compiler_output': log[-3000:]})
    names = [n for n in names if n not in runner.failed]
    pre = []
    for n in names:
        k = stacks.kind_of(n)
        for j in range((3 if thorough else 2) + (3 if n in fam_of else 0)):
            if n in fam_of and j >= 2:
                # elongated, non-cubic extents for the conversion programs
                kk0 = stacks.kind_of(n)
                sz = [r.choice([1, 2, 3, 4, 5, 8, 9]) for _ in range(kk0.n)]
                toks, ext = sc.rand_field(r, n, sizes=sz, data_mode='nice'), sz
            else:
                toks, ext = geom_field(r, n) if j == 0 else (sc.rand_field(r, n, max_extent=3, data_mode='nice', cfg_mode='nice', ordered=True), [4] * 5)
            coords = [rand_coord(r, k, ext, q % 5) if j == 0 else small_coords(r, k) for q in range(10)]
            pre.append((n, toks, ext, coords))
    l1 = [f'{i} {n} new 0 ' + ' '.join(map(str, t)) + ''.join(' | at 0 ' + ' '.join(map(str, c)) for c in cs) for i, (n, t, e, cs) in enumerate(pre)]
    model1 = {}
    if runner.driver:
        rc, model1, err = pair.run_model(runner.driver, l1)
    progs = []
    for i, (n, t, e, cs) in enumerate(pre):
        parts = model1.get(str(i), '').split(' | ')
        if len(parts) != 1 + len(cs) or parts[0] != 'OK':
            continue
        good = [c for c, a in zip(cs, parts[1:]) if a.startswith('V')]
        k = stacks.kind_of(n)
        progs.append((n, program(r, n, k, t, e, good, conv_targets=[b for b in fam_of.get(n, []) if b not in runner.failed])))
    # IO across storage precision: a dump of array<vector<float,M>> read by the array<vector<double,M>> reader and back (the
    # converting read path is a public operation; M > 1 components included)
    xw = []
    for a_, b_ in WIDTH_PAIRS:
        if a_ in runner.failed or b_ in runner.failed:
            continue
        for _ in range(2):
            xw.append((a_, b_, sc.rand_field(r, a_, max_extent=3, data_mode='nice')))
    if runner.driver and xw:
        rc, md, err = pair.run_model(runner.driver, [f'{i} {a_} new 0 ' + ' '.join(map(str, t)) + ' | dump 0' for i, (a_, b_, t) in enumerate(xw)])
        for i, (a_, b_, t) in enumerate(xw):
            parts = md.get(str(i), '').split(' | ')
            if len(parts) == 2 and parts[1].startswith('B ') and parts[1] != 'B -':
                progs.append((b_, [f'load 1 {parts[1][2:]}', 'sto 1', 'cfg 1', 'copy 2 1', 'dump 2', 'del 1', 'sto 2']))
    if replay:
        rp = json.load(open(replay)).get('replay', {})
        if rp.get('cases'):
            progs = [(c[0], c[1]) for c in rp['cases']]
    lines = [f'{i} {n} ' + ' | '.join(ops) for i, (n, ops) in enumerate(progs)]
    model, impl = runner.run(lines)
    if thorough:
        # valgrind memcheck on the plain build, a sample
        vg = {}
        exes = runner.exes.get('relplain', {})
        sample = lines[::7][:40]
        by_exe = {}
        for l in sample:
            by_exe.setdefault(exes.get(l.split(' ', 2)[1]), []).append(l)
        for exe, ls in by_exe.items():
            if exe is None:
                continue
            rc, out, err = core.sh2(['valgrind', '--error-exitcode=77', '--leak-check=full', '-q', exe], input='\n'.join(ls) + '\n', timeout=1800)
            if rc == 77 or 'Invalid' in err or 'uninitialised' in err or 'definitely lost' in err:
                chk.violation('valgrind memcheck reports an error', f'{ls[0].split(" ", 2)[1]}: {[x for x in err.split(chr(10)) if "==" in x][:4]}', {'lines': ls[:3], 'stderr': err[-3000:]})
            vg[os.path.basename(exe)] = rc
        chk.cov['valgrind_runs'] = len(vg)
    ndiff = 0
    for l in lines:
        id_ = l.split(' ', 1)[0]
        n, ops = progs[int(id_)]
        kk = stacks.kind_of(n)
        chk.count_case((n, tuple(ops)), any(o.split()[0] in ('copy', 'cassign', 'massign', 'move', 'conv', 'dump', 'load') for o in ops))
        m = canon(model.get(id_, ''), kk.tv, kk.tc)
        outs = {cfg: canon(impl[cfg].get(id_, 'MISSING'), kk.tv, kk.tc) for cfg in impl}
        for cfg, a in outs.items():
            if a == 'SKIPPED':
                continue
            parts = a.split(' | ')
            bad = [p for p in parts if p.startswith(('CRASH', 'TIMEOUT', 'MISSING', 'EXCEPTION'))]
            if bad or len(parts) != len(ops):
                why = (bad or [a])[0]
                kind = 'sanitizer report' if 'runtime error' in why or 'Sanitizer' in why else 'assertion failure' if 'Assertion' in why else 'crash or exception'
                chk.violation(f'{kind} on in-domain operations: ' + n.split('/')[0].split('.')[0], f'{n} in build {cfg}: {why[:300]}', {'cases': [[n, ops]], 'impl': a[:1500], 'build': cfg})
        vals = {a for a in outs.values() if a != 'SKIPPED'}
        if len(vals) > 1 and not any(p.startswith(('CRASH', 'TIMEOUT', 'MISSING')) for a in vals for p in a.split(' | ')):
            ndiff += 1
            cfgs = sorted(outs)
            q = next((q for q in range(len(ops)) if len({outs[c].split(' | ')[q] for c in cfgs if len(outs[c].split(' | ')) > q}) > 1), 0)
            chk.violation('the builds disagree: ' + n.split('/')[0].split('.')[0], f'{n}: operation #{q} ({ops[q][:60]}) gives ' + ' / '.join(f'{c}: {outs[c].split(" | ")[q][:80]}' for c in cfgs if len(outs[c].split(' | ')) > q),
                          {'cases': [[n, ops]], 'build': 'all'})
        elif m and vals and m not in vals:
            a = sorted(vals)[0]
            ap, mp = a.split(' | '), m.split(' | ')
            q = next((q for q in range(min(len(ap), len(mp))) if ap[q] != mp[q]), 0)
            chk.violation('result differs from the model on in-domain operations: ' + n.split('/')[0].split('.')[0], f'{n}: operation #{q} ({ops[q][:60] if q < len(ops) else ""}): implementation {ap[q][:120]}, model {mp[q][:120]}',
                          {'cases': [[n, ops]], 'build': 'all'})
        if int(id_) % 29 == 0:
            chk.sample({'stack': n, 'program': [o[:40] for o in ops][:8], 'model': m[:120], 'impl': {c: outs[c][:120] for c in outs}})
    algebra_section(chk, r, thorough)
    chk.cov['disagreements_checked'] = len(lines)
    chk.cov['programs'] = len(lines)
    chk.cov['builds'] = list(impl.keys())
    return chk.finish()
