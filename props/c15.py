"""C15 -- no undefined behaviour on the documented domain, in debug and release builds (partial)."""
import json, os
from vlib import core, pair, stacks
from props import stack_common as sc
from props.c02 import geom_field, rand_coord, canon, small_coords


def program(r, name, k, toks, ext, good_coords):
    """a random program over one field type: lookups, writes, copies, assignments, IO, destruction, in-domain only"""
    ops = [f'new 0 ' + ' '.join(map(str, toks))]
    live = {0}
    writable = k.ref
    cs = good_coords

    def rc():
        return ' '.join(map(str, r.choice(cs)))
    for step in range(r.range(8, 16)):
        kind = r.choice(['at', 'at', 'atv', 'wr', 'copy', 'cassign', 'massign', 'move', 'dumpload', 'cfg', 'del', 'sto'])
        s = r.choice(sorted(live))
        if kind in ('at', 'atv') and cs:
            ops.append(f'{kind if not name.startswith("array") else "at"} {s} {rc()}')
        elif kind == 'wr' and writable and cs:
            vals = ' '.join(str(sc.rand_scalar(r, k.tv, 'nice')) for _ in range(k.m))
            ops.append(f'wr {s} {rc()} {vals}')
            ops.append(f'at {s} {ops[-1].split(" ", 2)[2].rsplit(" ", k.m)[0]}')
        elif kind == 'copy':
            d = r.choice([x for x in range(4) if x not in live] or [None])
            if d is not None:
                ops.append(f'copy {d} {s}')
                live.add(d)
        elif kind == 'cassign' and len(live) >= 1:
            d = r.choice(sorted(live))
            ops.append(f'cassign {d} {s}')
        elif kind == 'dumpload':
            ops.append(f'dump {s}')
        elif kind == 'cfg':
            ops.append(f'cfg {s}')
        elif kind == 'sto':
            ops.append(f'sto {s}')
        elif kind == 'del' and len(live) > 1:
            ops.append(f'del {s}')
            live.discard(s)
        # moves leave a moved-from field behind: only assign into it or destroy it afterwards
        elif kind in ('move', 'massign') and len(live) >= 2 and kind == 'massign':
            d = r.choice(sorted(live - {s}))
            ops.append(f'massign {d} {s}')
            ops.append(f'del {s}')
            live.discard(s)
    return ops


def run(replay=None):
    chk = core.Check('C15', 'proof')
    thorough = chk.tier == 'thorough'
    chk.cov['rule'] = (
        'PROVED part: every kernel regenerated from the source (round_pow2, ipow, the row-major accumulation and its copy lambda, the Morton loop in both pre-processor variants, the Hilbert index, the out-of-range test) returns Ok '
        '-- no signed overflow, out-of-range shift, division by zero, out-of-bounds subscript or failed assertion in the semantics of CKernel.v -- on the documented domain, in the NDEBUG and in the assertion-enabled translation, '
        'with equal results (Properties_C15.v collects the refinement theorems); the ownership machine never double-frees or reads freed storage (C12); the reader has no outcome but accept / reject (C08). '
        'OBSERVED part: seeded random programs (construction, lookups in both forms, writes and read-back, copy construction, copy and move assignment, dump, configuration and storage read-out, destruction) over the catalogue '
        'and seeded random stacks, with every coordinate chosen in-domain by the model, run in four configurations: -O1 with assertions + ASan/UBSan, -O2 -DNDEBUG + ASan/UBSan, -O2 -DNDEBUG plain, and (thorough) valgrind memcheck '
        'on the plain build. Any sanitizer report, assertion, crash, difference between the builds\' outputs or from the model is a failure. A case = (stack, program); non-trivial = at least one copy/assign/IO step; distinct by those.')
    with core.Lock('coq'):
        rep, tlog = core.translate()
    for u in rep['untranslatable']:
        chk.obligation_broken('translation of ' + u['name'], u['why'])
    chk.prove('Properties_C15.v')
    r = chk.rng
    names = [n for n in sc.catalogue(chk, extra_random=30 if thorough else 12) if 'probe' not in n]
    runner = sc.StackRunner(chk, 'ub', names, configs=('dbg', 'rel', 'relplain'), shard_size=10)
    for s, log in runner.failed.items():
        chk.violation('stack does not compile: ' + '/'.join(l.split('.')[0] for l in s.split('/')), f'{s} is rejected by the compiler: {sc.first_error(log)}', {'stack': s, 'compiler_output': log[-3000:]})
    names = [n for n in names if n not in runner.failed]
    pre = []
    for n in names:
        k = stacks.kind_of(n)
        for j in range(3 if thorough else 2):
            toks, ext = geom_field(r, n) if j == 0 else (sc.rand_field(r, n, max_extent=3, data_mode='nice', cfg_mode='nice', ordered=True), [4] * 5)
            coords = [rand_coord(r, k, ext, q % 5) if j == 0 else small_coords(r, k) for q in range(10)]
            pre.append((n, toks, ext, coords))
    l1 = [f'{i} {n} new 0 ' + ' '.join(map(str, t)) + ''.join(' | at 0 ' + ' '.join(map(str, c)) for c in cs) for i, (n, t, e, cs) in enumerate(pre)]
    model1 = {}
    if runner.driver:
        rc, model1, err = pair.run_model(runner.driver, l1)
    progs = []
    for i, (n, t, e, cs) in enumerate(pre):
        parts = model1.get(str(i), '').split(' | ')
        if len(parts) != 1 + len(cs) or parts[0] != 'OK':
            continue
        good = [c for c, a in zip(cs, parts[1:]) if a.startswith('V')]
        k = stacks.kind_of(n)
        progs.append((n, program(r, n, k, t, e, good)))
    if replay:
        rp = json.load(open(replay)).get('replay', {})
        if rp.get('cases'):
            progs = [(c[0], c[1]) for c in rp['cases']]
    lines = [f'{i} {n} ' + ' | '.join(ops) for i, (n, ops) in enumerate(progs)]
    model, impl = runner.run(lines)
    if thorough:
        # valgrind memcheck on the plain build, a sample
        vg = {}
        exes = runner.exes.get('relplain', {})
        sample = lines[::7][:40]
        by_exe = {}
        for l in sample:
            by_exe.setdefault(exes.get(l.split(' ', 2)[1]), []).append(l)
        for exe, ls in by_exe.items():
            if exe is None:
                continue
            rc, out, err = core.sh2(['valgrind', '--error-exitcode=77', '--leak-check=full', '-q', exe], input='\n'.join(ls) + '\n', timeout=1800)
            if rc == 77 or 'Invalid' in err or 'uninitialised' in err or 'definitely lost' in err:
                chk.violation('valgrind memcheck reports an error', f'{ls[0].split(" ", 2)[1]}: {[x for x in err.split(chr(10)) if "==" in x][:4]}', {'lines': ls[:3], 'stderr': err[-3000:]})
            vg[os.path.basename(exe)] = rc
        chk.cov['valgrind_runs'] = len(vg)
    ndiff = 0
    for l in lines:
        id_ = l.split(' ', 1)[0]
        n, ops = progs[int(id_)]
        kk = stacks.kind_of(n)
        chk.count_case((n, tuple(ops)), any(o.split()[0] in ('copy', 'cassign', 'massign', 'dump') for o in ops))
        m = canon(model.get(id_, ''), kk.tv, kk.tc)
        outs = {cfg: canon(impl[cfg].get(id_, 'MISSING'), kk.tv, kk.tc) for cfg in impl}
        for cfg, a in outs.items():
            if a == 'SKIPPED':
                continue
            parts = a.split(' | ')
            bad = [p for p in parts if p.startswith(('CRASH', 'TIMEOUT', 'MISSING', 'EXCEPTION'))]
            if bad or len(parts) != len(ops):
                why = (bad or [a])[0]
                kind = 'sanitizer report' if 'runtime error' in why or 'Sanitizer' in why else 'assertion failure' if 'Assertion' in why else 'crash or exception'
                chk.violation(f'{kind} on in-domain operations: ' + n.split('/')[0].split('.')[0], f'{n} in build {cfg}: {why[:300]}', {'cases': [[n, ops]], 'impl': a[:1500], 'build': cfg})
        vals = {a for a in outs.values() if a != 'SKIPPED'}
        if len(vals) > 1 and not any(p.startswith(('CRASH', 'TIMEOUT', 'MISSING')) for a in vals for p in a.split(' | ')):
            ndiff += 1
            cfgs = sorted(outs)
            q = next((q for q in range(len(ops)) if len({outs[c].split(' | ')[q] for c in cfgs if len(outs[c].split(' | ')) > q}) > 1), 0)
            chk.violation('the builds disagree: ' + n.split('/')[0].split('.')[0], f'{n}: operation #{q} ({ops[q][:60]}) gives ' + ' / '.join(f'{c}: {outs[c].split(" | ")[q][:80]}' for c in cfgs if len(outs[c].split(' | ')) > q),
                          {'cases': [[n, ops]], 'build': 'all'})
        elif m and vals and m not in vals:
            a = sorted(vals)[0]
            ap, mp = a.split(' | '), m.split(' | ')
            q = next((q for q in range(min(len(ap), len(mp))) if ap[q] != mp[q]), 0)
            chk.violation('result differs from the model on in-domain operations: ' + n.split('/')[0].split('.')[0], f'{n}: operation #{q} ({ops[q][:60] if q < len(ops) else ""}): implementation {ap[q][:120]}, model {mp[q][:120]}',
                          {'cases': [[n, ops]], 'build': 'all'})
        if int(id_) % 29 == 0:
            chk.sample({'stack': n, 'program': [o[:40] for o in ops][:8], 'model': m[:120], 'impl': {c: outs[c][:120] for c in outs}})
    chk.cov['disagreements_checked'] = len(lines)
    chk.cov['programs'] = len(lines)
    chk.cov['builds'] = list(impl.keys())
    return chk.finish()
