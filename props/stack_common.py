"""shared by the stack-level checks (C02, C05, C06, C07, C08, C10, C11, C12, C13, C17): catalogue of
stacks, random field generation, running cases on the extracted model and on generated harness shards"""
import os, struct
from vlib import core, pair, stacks

F32_SPECIAL = [0x00000000, 0x80000000, 0x00000001, 0x807FFFFF, 0x7F800000, 0xFF800000, 0x7FC00000, 0x7FA00001, 0xFFC12345,
               0x3F800000, 0xBF800000, 0x7F7FFFFF, 0x00800000, 0x3EAAAAAB, 0x4B800001]
F64_SPECIAL = [0x0, 0x8000000000000000, 0x1, 0x800FFFFFFFFFFFFF, 0x7FF0000000000000, 0xFFF0000000000000, 0x7FF8000000000000,
               0x7FF4000000000001, 0xFFF8000000012345, 0x3FF0000000000000, 0xBFF0000000000000, 0x7FEFFFFFFFFFFFFF, 0x0010000000000000,
               0x3FD5555555555555, 0x4340000000000001]


def f32bits(x):
    return struct.unpack('<I', struct.pack('<f', x))[0]


def f64bits(x):
    return struct.unpack('<Q', struct.pack('<d', x))[0]


def bits_f32(b):
    return struct.unpack('<f', struct.pack('<I', b))[0]


def bits_f64(b):
    return struct.unpack('<d', struct.pack('<Q', b))[0]


def fbits(t, x):
    return f32bits(x) if t == 'f32' else f64bits(x)


def bits_f(t, b):
    return bits_f32(b) if t == 'f32' else bits_f64(b)


def rand_scalar(r, t, mode='any'):
    """a scalar of type t as the integer the case files carry"""
    if t in ('f32', 'f64'):
        if mode == 'any':
            k = r.below(10)
            if k == 0:
                return r.choice(F32_SPECIAL if t == 'f32' else F64_SPECIAL)
            if k == 1:
                return r.bits(32 if t == 'f32' else 64)
        # a "nice" finite value
        v = r.choice([float(r.range(-8, 8)), r.range(-1000, 1000) / 8.0, r.range(-10 ** 6, 10 ** 6) / 1024.0, r.range(-50, 50) / 7.0])
        return fbits(t, v)
    if t == 'i32':
        return r.choice([r.range(-20, 20), r.range(-2 ** 31, 2 ** 31 - 1)]) if mode == 'any' else r.range(-20, 20)
    if t == 'u32':
        return r.choice([r.range(0, 20), r.range(0, 2 ** 32 - 1)]) if mode == 'any' else r.range(0, 20)
    if t == 'i64':
        return r.choice([r.range(-20, 20), r.range(-2 ** 63, 2 ** 63 - 1)]) if mode == 'any' else r.range(-20, 20)
    return r.choice([r.range(0, 20), r.range(0, 2 ** 64 - 1)]) if mode == 'any' else r.range(0, 20)


def layer_kinds(name):
    """[(layer tokens, kind of the stack BELOW it)] outermost first, and the primitive tokens"""
    layers = stacks.parse(name)
    out = []
    for i in range(len(layers) - 1):
        below = '/'.join('.'.join(l) for l in layers[i + 1:])
        out.append((layers[i], stacks.kind_of(below)))
    return out, layers[-1]


def cfg_token_count(name):
    """how many tokens of `new` belong to the layers' configurations (the primitive's come after)"""
    lk, p = layer_kinds(name)
    c = 0
    for l, k in lk:
        t = l[0]
        if t in ('strided', 'morton'):
            c += int(l[1])
        elif t == 'hilbert':
            c += 2
        elif t == 'clamp':
            c += 2 * k.n
        elif t == 'backup':
            c += 2 * k.n + k.m
        elif t == 'affine':
            c += k.n * (k.n + 1)
    return c


def curve_cap(sizes):
    m = max(sizes) if sizes else 0
    p = 1
    while p < m:
        p *= 2
    return p ** len(sizes)


def scalar_key(t, v):
    """the mathematical value of a case-file scalar, for ordering (NaN -> None)"""
    if t in ('f32', 'f64'):
        x = bits_f(t, v)
        return None if x != x else x
    return v


def rand_field(r, name, max_extent=4, data_mode='any', cfg_mode='any', sizes=None, ordered=False, min_extent=1, slack=0):
    """tokens for `new <slot>`: configurations outermost first, then the primitive's data.
    Extents are chosen so that the storage matches the layout (capacity of the outermost storage
    order layer); slack > 0 makes the array LONGER than the layout needs (legal: the tail is never addressed)."""
    lk, p = layer_kinds(name)
    toks = []
    cap = None
    for l, k in lk:
        t = l[0]
        if t in ('strided', 'morton', 'hilbert'):
            n = 2 if t == 'hilbert' else int(l[1])
            sz = list(sizes) if sizes else [r.range(min_extent, max_extent) for _ in range(n)]
            toks += sz
            c = 1
            for s in sz:
                c *= s
            cap = c if t == 'strided' else curve_cap(sz)
        elif t == 'clamp':
            lo = [rand_scalar(r, k.tc, cfg_mode) for _ in range(k.n)]
            hi = [rand_scalar(r, k.tc, cfg_mode) for _ in range(k.n)]
            if ordered:
                for j in range(k.n):
                    a, b = scalar_key(k.tc, lo[j]), scalar_key(k.tc, hi[j])
                    if a is None or b is None:
                        lo[j] = hi[j] = rand_scalar(r, k.tc, 'nice')
                    elif b < a:
                        lo[j], hi[j] = hi[j], lo[j]
            toks += lo + hi
        elif t == 'backup':
            toks += [rand_scalar(r, k.tc, cfg_mode) for _ in range(2 * k.n)] + [rand_scalar(r, k.tv, cfg_mode) for _ in range(k.m)]
        elif t == 'affine':
            toks += [rand_scalar(r, k.tc, cfg_mode) for _ in range(k.n * (k.n + 1))]
    if p[0] == 'array':
        m = int(p[1])
        n = (cap + slack) if cap is not None else r.range(0, 6)
        toks += [n] + [rand_scalar(r, p[2], data_mode) for _ in range(n * m)]
    elif p[0] == 'constant':
        toks += [rand_scalar(r, p[4], data_mode) for _ in range(int(p[3]))]
    return toks


class _Failed(dict):
    """stacks that cannot be used: iteration / items() give the ones to REPORT, membership also covers the ones set aside"""
    set_aside = frozenset()

    def __contains__(self, k):
        return dict.__contains__(self, k) or k in self.set_aside


class StackRunner:
    """builds the model driver and the harness shards for a set of stacks, runs case lines.
    Stacks the compiler rejects are localised with one -fsyntax-only pass per stack of the failing
    shards (in parallel) and end up in self.failed; the shards are then rebuilt without them."""

    def __init__(self, chk, tag, names, configs=('dbg', 'rel'), conversions=(), shard_size=10, header='vh_stack.hpp'):
        self.chk = chk
        self.names = list(dict.fromkeys(names))
        with core.Lock('ocaml'):
            self.driver, dlog = core.build_driver('stack')
        if not self.driver:
            chk.obligation_broken('extracted model (stack) does not build', dlog)
        self.exes = {}
        self.failed = {}
        with core.Lock('harness'):
            good = list(self.names)
            convs = list(conversions)
            exes, failed = stacks.build_stack_harness(tag, good, configs[0], conversions=convs, shard_size=shard_size, header=header)
            if failed:
                suspects = [s for sh, log in failed for s in sh]
                if convs:
                    # conversions tie stacks together: test each conversion pair as its own unit
                    bad_pairs = []
                    units = [(a, b) for a, b in convs if a in suspects or b in suspects]
                    _, f1 = stacks.build_stack_harness(tag + 'x', [], 'syntax', conversions=units, shard_size=1, header=header, one_conv_per_shard=True)
                    for sh, log in f1:
                        for s in sh:
                            self.failed.setdefault(s, log)
                    single = [s for s in suspects if not any(s in u for u in units)]
                else:
                    single = suspects
                if single:
                    _, f1 = stacks.build_stack_harness(tag + 'x', single, 'syntax', shard_size=1, header=header)
                    for sh, log in f1:
                        self.failed[sh[0]] = log
                if not self.failed:
                    # the shard fails although every stack passes the syntax check alone: keep the shard's log
                    for sh, log in failed:
                        for s in sh:
                            self.failed[s] = log
                good = [s for s in good if s not in self.failed]
                convs = [(a, b) for a, b in convs if a not in self.failed and b not in self.failed]
                exes, failed2 = stacks.build_stack_harness(tag, good, configs[0], conversions=convs, shard_size=shard_size, header=header)
                for sh, log in failed2:
                    for s in sh:
                        self.failed.setdefault(s, log)
                good = [s for s in good if s not in self.failed]
            self.exes[configs[0]] = exes
            for cfg in configs[1:]:
                exes, failed = stacks.build_stack_harness(tag, good, cfg, conversions=convs, shard_size=shard_size, header=header)
                self.exes[cfg] = exes
                for sh, log in failed:
                    for s in sh:
                        self.failed.setdefault(s, f'[{cfg} build only] ' + log)
        self.conversions = convs
        # field_view states a kind of its own: the non-owning data must fit 256 bytes.  A stack the grammar draws that
        # exceeds it is ill-kinded by that stated bound, not a defect: it is set aside (and counted), never reported
        self.too_large = {s: l for s, l in self.failed.items() if 'Storage type is too large' in l}
        rest = _Failed({s: l for s, l in self.failed.items() if s not in self.too_large})
        rest.set_aside = set(self.too_large)       # `in` still says "cannot be used"; iteration reports only real failures
        self.failed = rest
        if self.too_large:
            chk.cov['stacks_set_aside_view_over_256_bytes'] = chk.cov.get('stacks_set_aside_view_over_256_bytes', 0) + len(self.too_large)

    def run(self, lines):
        """lines: 'id stack op ...' ; returns (model answers, {config: impl answers})"""
        model = {}
        if self.driver:
            rc, model, err = pair.run_model(self.driver, lines)
            if rc:
                self.chk.obligation_broken('extracted model crashed', err[-2000:])
        impl = {}
        for cfg, exes in self.exes.items():
            by_exe = {}
            for l in lines:
                st = l.split(' ', 2)[1]
                exe = exes.get(st)
                if exe:
                    by_exe.setdefault(exe, []).append(l)
            ans = {}
            import concurrent.futures
            with concurrent.futures.ThreadPoolExecutor(max_workers=core.NCPU) as ex:
                for a in ex.map(lambda kv: pair.run_impl_isolated(kv[0], kv[1]), by_exe.items()):
                    ans.update(a)
            impl[cfg] = ans
        return model, impl


def first_error(log):
    for l in log.split('\n'):
        if 'error' in l:
            return l.strip()[:500]
    return log.strip()[-500:]


# ---------------------------------------------------------------------------------
# the layer grammar: random well-kinded stacks
# ---------------------------------------------------------------------------------
def random_stack(r, max_depth=5, want=None, prims=('array', 'array', 'array', 'constant', 'identity')):
    """a well-kinded stack drawn from the grammar; `want` optionally forces a layer to appear"""
    for _ in range(200):
        kindp = r.choice(list(prims))
        layers = []
        if kindp == 'array':
            m = r.range(1, 4)
            tv = r.choice(['f32', 'f64'])
            prim = f'array.{m}.{tv}'
            lay = r.choice(['strided', 'strided', 'morton', 'hilbert'])
            tc = r.choice(['u64', 'u64', 'u32', 'i32'])
            if lay == 'strided':
                n = r.range(1, 4)
                layers.append(f'strided.{n}.{tc}')
            elif lay == 'morton':
                n = r.range(1, 4)
                layers.append(f'morton.{n}.{tc}.{r.choice("bp")}')
            else:
                n = 2
                layers.append(f'hilbert.{tc}')
        elif kindp == 'constant':
            n = r.range(1, 4)
            tc = r.choice(['f32', 'f64', 'u64', 'i32', 'u32'])
            m = r.range(1, 4)
            tv = r.choice(['f32', 'f64', 'i32'])
            prim = f'constant.{n}.{tc}.{m}.{tv}'
        elif kindp == 'probe':
            n = r.range(1, 4)
            tc = r.choice(['f32', 'f64', 'u64', 'i32', 'u32'])
            m = r.range(1, 4)
            tv = r.choice(['f32', 'f64', 'i32'])
            prim = f'probe.{n}.{tc}.{m}.{tv}'
        else:
            n = r.range(1, 4)
            tc = r.choice(['f32', 'f64', 'u64', 'i32', 'u32'])
            prim = f'identity.{n}.{tc}'
            tv = tc
        depth = r.range(len(layers), max_depth)

        def wrappers(level_float):
            opts = ['clamp', 'backup', 'shuffle', 'cast', 'deref']
            if level_float:
                opts.append('affine')
            return opts

        is_float = tc in ('f32', 'f64')
        while len(layers) < depth:
            opts = wrappers(is_float)
            if not is_float:
                opts += ['nearest', 'linear'] if tv in ('f32', 'f64') else ['nearest']
            t = r.choice(opts)
            if t == 'shuffle':
                perm = r.shuffle(list(range(n)))
                layers.append('shuffle.' + '-'.join(str(x) for x in perm))
            elif t == 'cast':
                tv = r.choice(['f32', 'f64', 'i32'])
                layers.append('cast.' + tv)
            elif t in ('nearest', 'linear'):
                tc = r.choice(['f32', 'f64'])
                is_float = True
                layers.append(f'{t}.{tc}')
            else:
                layers.append(t)
        name = '/'.join(list(reversed(layers)) + [prim])
        if stacks.kind_of(name) is None:
            continue
        if want and want not in name:
            continue
        return name
    raise RuntimeError('could not draw a stack containing ' + str(want))


BASE_STACKS = [
    'array.1.f32', 'array.3.f64',
    'constant.1.f32.1.f32', 'constant.3.f32.1.f64', 'constant.2.u64.3.f32', 'constant.1.i32.2.i32',
    'identity.1.f32', 'identity.3.u64', 'identity.2.i32',
    'strided.1.u64/array.1.f32', 'strided.2.u64/array.3.f32', 'strided.3.u64/array.3.f64', 'strided.4.u64/array.1.f32',
    'strided.2.u32/array.1.f32', 'strided.2.i32/array.2.f64',
    'morton.2.u64.b/array.1.f32', 'morton.2.u64.p/array.1.f32', 'morton.3.u64.b/array.3.f64', 'morton.1.u64.p/array.2.f32',
    'hilbert.u64/array.1.f32', 'hilbert.u64/array.2.f64',
    'clamp/identity.2.i32', 'clamp/identity.3.f32', 'clamp/strided.2.u64/array.1.f32', 'clamp/identity.1.f64',
    'backup/identity.2.f32', 'backup/strided.2.u64/array.3.f32', 'backup/constant.2.i32.3.f64', 'backup/identity.3.u64',
    'affine/identity.2.f32', 'affine/identity.3.f64', 'affine/constant.1.f32.2.f32',
    'shuffle.1-0/identity.2.u64', 'shuffle.2-0-1/strided.3.u64/array.1.f32', 'shuffle.0/identity.1.f32',
    'cast.f64/strided.2.u64/array.2.f32', 'cast.f32/identity.2.f64', 'cast.i32/constant.2.f32.3.f32', 'cast.f32/strided.1.u64/array.3.f64',
    'deref/strided.2.u64/array.2.f32', 'deref/identity.2.f32', 'deref/morton.2.u64.b/array.1.f64',
    'linear.f32/strided.1.u64/array.1.f32', 'linear.f32/strided.3.u64/array.3.f32', 'linear.f64/strided.2.u64/array.1.f64',
    'linear.f32/strided.2.u64/array.1.f64', 'linear.f64/strided.2.u64/array.3.f32', 'linear.f32/morton.2.u64.b/array.2.f32',
    'nearest.f32/strided.3.u64/array.3.f32', 'nearest.f64/strided.2.u64/array.1.f64', 'nearest.f32/hilbert.u64/array.1.f32',
    'nearest.f64/identity.2.u64', 'nearest.f32/identity.3.i32',
    'affine/linear.f32/strided.3.u64/array.3.f32', 'affine/nearest.f32/strided.3.u64/array.3.f32',
    'clamp/affine/linear.f32/strided.2.u64/array.1.f32', 'affine/clamp/nearest.f64/strided.2.u64/array.2.f64',
    'backup/affine/nearest.f32/clamp/strided.2.u64/array.1.f32', 'linear.f32/clamp/strided.2.u64/array.1.f32',
    'shuffle.1-0/linear.f64/backup/strided.2.i32/array.2.f32', 'cast.f64/deref/nearest.f32/shuffle.1-0/strided.2.u64/array.3.f32',
]


def catalogue(chk, extra_random=12, want_all=True):
    names = list(BASE_STACKS)
    for _ in range(extra_random):
        names.append(random_stack(chk.rng))
    names = [n for n in dict.fromkeys(names) if stacks.kind_of(n) is not None]
    return names
