"""C09 -- the affine layer maps x to Ax+t and affine transforms compose as functions."""
import json, os
from fractions import Fraction
from vlib import core, pair, stacks
from props import stack_common as sc

U = {'f32': Fraction(1, 2 ** 24), 'f64': Fraction(1, 2 ** 53)}
TINY = {'f32': Fraction(1, 2 ** 149), 'f64': Fraction(1, 2 ** 1074)}


def fr(t, bits):
    return Fraction(sc.bits_f(t, bits))


def finite(t, b):
    x = sc.bits_f(t, b)
    return x == x and abs(x) != float('inf')


def exact_apply(t, n, A, v):
    """A (bits, n x (n+1) row-major) applied to v (bits), exactly; also the sum of magnitudes per component"""
    out, mag = [], []
    for i in range(n):
        s = Fraction(0)
        m = Fraction(0)
        for j in range(n):
            p = fr(t, A[i * (n + 1) + j]) * fr(t, v[j])
            s += p
            m += abs(p)
        s += fr(t, A[i * (n + 1) + n])
        m += abs(fr(t, A[i * (n + 1) + n]))
        out.append(s)
        mag.append(m)
    return out, mag


def exact_compose(t, n, A, B):
    Af = [[fr(t, A[i * (n + 1) + j]) for j in range(n + 1)] for i in range(n)] + [[Fraction(0)] * n + [Fraction(1)]]
    Bf = [[fr(t, B[i * (n + 1) + j]) for j in range(n + 1)] for i in range(n)] + [[Fraction(0)] * n + [Fraction(1)]]
    C = [[sum(Af[i][k] * Bf[k][j] for k in range(n + 1)) for j in range(n + 1)] for i in range(n)]
    M = [[sum(abs(Af[i][k] * Bf[k][j]) for k in range(n + 1)) for j in range(n + 1)] for i in range(n)]
    return C, M


def small_int_matrix(r, t, n, lim=2):
    return [sc.fbits(t, float(r.range(-lim, lim))) for _ in range(n * (n + 1))]


def rand_matrix(r, t, n):
    return [sc.fbits(t, r.choice([r.range(-1000, 1000) / 64.0, r.range(-10 ** 6, 10 ** 6) / 977.0, float(r.range(-3, 3)), r.range(-100, 100) / 7.0])) for _ in range(n * (n + 1))]


def canon_f(ans, t):
    """one token for every NaN (NaN is outside the property; its sign differs between x86 and the model)"""
    out = []
    for x in (ans or '').split(' '):
        try:
            v = int(x)
        except ValueError:
            out.append(x)
            continue
        if t == 'f32' and (v >> 23) & 0xFF == 0xFF and v & 0x7FFFFF:
            out.append('nan')
        elif t == 'f64' and (v >> 52) & 0x7FF == 0x7FF and v & ((1 << 52) - 1):
            out.append('nan')
        else:
            out.append(x)
    return ' '.join(out)


def run(replay=None):
    chk = core.Check('C09', 'proof')
    thorough = chk.tier == 'thorough'
    chk.cov['rule'] = (
        'TRANSLATED: the loop programs of matrix::operator*, matrix::identity, affine::operator*(vector), affine::operator*(affine), affine::translation, affine::scaling and the affine layer\'s at() are '
        're-read from the source on every run (tools/cxx_algebra.py -> Gen_Algebra.v) and proved to compute AlgebraCore\'s functions operation by operation (Refine_Algebra.v, any scalar operations, shapes up to 5x5 / N = 1..4). '
        'CORRESPONDENCE: covfie::algebra called directly (affine * vector, affine * affine, products of up to 4 transforms, translation / scaling / identity constructors, matrix * matrix in the shapes of the suite and others) '
        'and the affine layer over the identity backend (which returns the transformed coordinate) and inside deeper stacks, N in 1..4, float and double. Matrices and vectors: small integers '
        '(all of {-2..2} exhaustively for N = 1, sampled for N >= 2: every operation is exact, so the result must EQUAL the exact rational A.x+t / the exact product), and arbitrary finite values '
        '(result within (N+3) ulp-units of the magnitude sum of the exact rational result; composition judged by applying the product to a vector and comparing with applying the factors in turn). '
        'Every case is also compared bit for bit with the model (AlgebraCore with Flocq arithmetic in the code\'s summation order; theorems C09_* hold of the same definitions over any commutative ring). '
        'A case = (operation, N, type, operands); non-trivial = N >= 2 or a non-zero translation; distinct by those.')
    with core.Lock('coq'):
        rep, tlog = core.translate()
    for u in rep['untranslatable']:
        if u['group'] == 'Algebra':
            chk.obligation_broken('translation of ' + u['name'], u['why'])
    chk.cov['algebra_programs_in_source'] = [t['name'] for t in rep.get('algebra', {}).get('translated', [])] if isinstance(rep.get('algebra'), dict) else None
    chk.prove('Properties_C09.v')
    r = chk.rng
    with core.Lock('ocaml'):
        driver, dlog = core.build_driver('algebra')
    if not driver:
        chk.obligation_broken('extracted model (algebra) does not build', dlog)
    exes = {}
    with core.Lock('harness'):
        for cfg in ('dbg', 'rel'):
            exe, log = core.build_harness('h_algebra', os.path.join(core.VERIF, 'harness', 'h_algebra.cpp'), cfg, deps=[os.path.join(core.VERIF, 'harness', 'vh_io.hpp')])
            if not exe:
                chk.violation('algebra harness does not compile (' + cfg + ')', 'covfie::algebra (affine.hpp / matrix.hpp / vector.hpp) no longer compiles with the operators the property names: ' + sc.first_error(log),
                              {'compiler_output': log[-3000:]}, found_input=False)
            else:
                exes[cfg] = exe
    cases = []   # (op, t, n, payload dict)
    for t in ('f32', 'f64'):
        # exhaustive small integers, N = 1
        for a in range(-2, 3):
            for b in range(-2, 3):
                for x in range(-2, 3):
                    cases.append(('apply', t, 1, {'A': [sc.fbits(t, float(a)), sc.fbits(t, float(b))], 'v': [sc.fbits(t, float(x))], 'exact': True}))
        for n in (1, 2, 3, 4):
            k = (60 if thorough else 20)
            for _ in range(k):
                cases.append(('apply', t, n, {'A': small_int_matrix(r, t, n), 'v': [sc.fbits(t, float(r.range(-3, 3))) for _ in range(n)], 'exact': True}))
                cases.append(('apply', t, n, {'A': rand_matrix(r, t, n), 'v': [sc.rand_scalar(r, t, 'nice') for _ in range(n)], 'exact': False}))
                cases.append(('compose', t, n, {'A': small_int_matrix(r, t, n), 'B': small_int_matrix(r, t, n), 'exact': True}))
                cases.append(('compose', t, n, {'A': rand_matrix(r, t, n), 'B': rand_matrix(r, t, n), 'exact': False}))
                # products with genuinely tiny entries (far below epsilon, far above the subnormal range)
                tiny = (1e-4, 5e-4) if t == 'f32' else (1e-9, 1e-8)
                cases.append(('compose', t, n, {'A': [sc.fbits(t, (tiny[0] * (1 + q % 3)) if (q % (n + 2) == 0) else (0.0 if q % (n + 1) != n else 3.0)) for q in range(n * (n + 1))],
                                                'B': [sc.fbits(t, (tiny[1] * (1 + q % 2)) if (q % (n + 2) == 0) else (0.0 if q % (n + 1) != n else -2.0)) for q in range(n * (n + 1))], 'exact': False}))
                kk = r.range(2, 4)
                cases.append(('chain', t, n, {'Ms': [small_int_matrix(r, t, n, 1 if n > 2 else 2) for _ in range(kk)], 'v': [sc.fbits(t, float(r.range(-2, 2))) for _ in range(n)], 'exact': True}))
                cases.append(('chain', t, n, {'Ms': [rand_matrix(r, t, n) for _ in range(kk)], 'v': [sc.rand_scalar(r, t, 'nice') for _ in range(n)], 'exact': False}))
            for _ in range(10 if thorough else 4):
                for op in ('translation', 'scaling'):
                    cases.append((op, t, n, {'a': [sc.rand_scalar(r, t, 'nice') for _ in range(n)], 'v': [sc.rand_scalar(r, t, 'nice') for _ in range(n)]}))
                cases.append(('identity', t, n, {'v': [sc.rand_scalar(r, t, 'any') for _ in range(n)]}))
        for shape in [(1, 1, 1), (2, 2, 2), (3, 2, 4), (3, 3, 3), (2, 4, 3), (4, 1, 2)]:
            for _ in range(6 if thorough else 3):
                n_, m_, p_ = shape
                cases.append(('matmul', t, 0, {'shape': shape, 'A': [sc.fbits(t, float(r.range(-4, 4))) for _ in range(n_ * m_)], 'B': [sc.fbits(t, float(r.range(-4, 4))) for _ in range(m_ * p_)]}))
    if replay:
        rp = json.load(open(replay)).get('replay', {})
        if rp.get('cases'):
            cases = [(c[0], c[1], c[2], c[3]) for c in rp['cases']]
    lines = []
    for i, (op, t, n, d) in enumerate(cases):
        if op == 'apply':
            toks = d['A'] + d['v']
        elif op == 'compose':
            toks = d['A'] + d['B']
        elif op == 'chain':
            toks = [len(d['Ms'])] + [x for m in d['Ms'] for x in m] + d['v']
        elif op in ('translation', 'scaling'):
            toks = d['a'] + d['v']
        elif op == 'identity':
            toks = d['v']
        else:
            toks = list(d['shape']) + d['A'] + d['B']
        lines.append(f'{i} {op} {t}' + (f' {n}' if op != 'matmul' else '') + ' ' + ' '.join(map(str, toks)))
    model = {}
    if driver:
        rc, model, err = pair.run_model(driver, lines)
        if rc:
            chk.obligation_broken('extracted model crashed', err[-2000:])
    impl = {cfg: pair.run_impl_isolated(exe, lines) for cfg, exe in exes.items()}
    for i, (op, t, n, d) in enumerate(cases):
        id_ = str(i)
        chk.count_case((op, t, n, json.dumps(d, sort_keys=True)), n >= 2 or op in ('translation', 'matmul'))
        m = model.get(id_)
        for cfg in impl:
            a = impl[cfg].get(id_, 'MISSING')
            if a == 'SKIPPED':
                continue
            toks = a.split()
            if not toks or toks[0] not in ('V', 'M'):
                chk.violation(f'algebra operation fails: {op}', f'{op} {t} N={n} in build {cfg}: {a[:300]}', {'cases': [[op, t, n, d]], 'build': cfg})
                continue
            # the property's own oracle
            bad = None
            if op == 'apply':
                got = [int(x) for x in toks[1:]]
                ex, mag = exact_apply(t, n, d['A'], d['v'])
                for j in range(n):
                    if not finite(t, got[j]):
                        continue
                    err_ = abs(fr(t, got[j]) - ex[j])
                    tol = 0 if d['exact'] else (n + 3) * U[t] * mag[j] + (n + 3) * TINY[t]
                    if err_ > tol:
                        bad = f'component {j}: got {sc.bits_f(t, got[j])!r}, A.x+t = {float(ex[j])!r} (error {float(err_):.3e}, allowed {float(tol):.3e})'
                        break
            elif op == 'compose':
                got = [int(x) for x in toks[1:]]
                C, M = exact_compose(t, n, d['A'], d['B'])
                for i2 in range(n):
                    for j in range(n + 1):
                        g = got[i2 * (n + 1) + j]
                        if not finite(t, g):
                            continue
                        err_ = abs(fr(t, g) - C[i2][j])
                        tol = 0 if d['exact'] else (n + 4) * U[t] * M[i2][j] + (n + 4) * TINY[t]
                        if err_ > tol:
                            bad = f'entry ({i2},{j}): got {sc.bits_f(t, g)!r}, exact product {float(C[i2][j])!r}'
                            break
                    if bad:
                        break
            elif op == 'chain' and d['exact']:
                got = [int(x) for x in toks[1:]]
                v = [fr(t, x) for x in d['v']]
                for mtx in reversed(d['Ms']):
                    v = [sum(fr(t, mtx[i2 * (n + 1) + j]) * v[j] for j in range(n)) + fr(t, mtx[i2 * (n + 1) + n]) for i2 in range(n)]
                if any(finite(t, g) and fr(t, g) != e for g, e in zip(got, v)):
                    bad = f'product of {len(d["Ms"])} transforms applied to a vector gives {[sc.bits_f(t, g) for g in got]}, applying the factors right to left gives {[float(e) for e in v]}'
            elif op in ('translation', 'scaling', 'identity'):
                k = toks.index('V', 1)
                got = [int(x) for x in toks[k + 1:]]
                for j in range(n):
                    if not finite(t, got[j]) or not finite(t, d['v'][j]):
                        continue
                    x = fr(t, d['v'][j])
                    if op == 'identity':
                        want, tol = x, 0
                    elif op == 'translation':
                        want = x + fr(t, d['a'][j])
                        tol = (n + 3) * U[t] * (abs(x) + abs(fr(t, d['a'][j])))
                    else:
                        want = x * fr(t, d['a'][j])
                        tol = (n + 3) * U[t] * abs(want) + (n + 3) * TINY[t]
                    if abs(fr(t, got[j]) - want) > tol:
                        bad = f'{op}({[sc.bits_f(t, y) for y in d["a"]] if op != "identity" else ""}) applied to {[sc.bits_f(t, y) for y in d["v"]]}: component {j} is {sc.bits_f(t, got[j])!r}, expected {float(want)!r}'
                        break
            elif op == 'matmul':
                n_, m_, p_ = d['shape']
                got = [int(x) for x in toks[1:]]
                for i2 in range(n_):
                    for j in range(p_):
                        e = sum(fr(t, d['A'][i2 * m_ + k]) * fr(t, d['B'][k * p_ + j]) for k in range(m_))
                        if fr(t, got[i2 * p_ + j]) != e:
                            bad = f'matrix product entry ({i2},{j}) is {sc.bits_f(t, got[i2 * p_ + j])!r}, exact {float(e)!r}'
                            break
                    if bad:
                        break
            if bad:
                chk.violation(f'{op}: result is not ' + ('exactly ' if d.get('exact', True) else '') + 'what the algebra defines', f'{op} {t} N={n} ({cfg}): {bad}', {'cases': [[op, t, n, d]], 'impl': a[:600], 'build': cfg})
            elif m is not None and canon_f(a, t) != canon_f(m, t):
                chk.obligation_broken(f'correspondence model/impl on {op} {t} N={n} ({cfg})', f'impl {a[:300]} model {m[:300]}')
        if i % 173 == 0:
            chk.sample({'op': op, 'type': t, 'N': n, 'operands': {k: (v if not isinstance(v, list) or len(v) < 13 else v[:12]) for k, v in d.items()}, 'model': (m or '')[:120], 'impl': {c: (impl[c].get(id_) or '')[:120] for c in impl}})
    # the affine LAYER: over the identity backend it returns A.x+t
    names = [f'affine/identity.{n}.{t}' for n in (1, 2, 3, 4) for t in ('f32', 'f64')] + ['affine/affine/identity.2.f32', 'affine/clamp/identity.3.f64', 'shuffle.1-0/affine/identity.2.f64',
                                                                                         'affine/probe.2.f32.3.f32', 'affine/probe.3.f64.1.f64']
    runner = sc.StackRunner(chk, 'af', names, shard_size=8)
    for s, log in runner.failed.items():
        chk.violation('stack does not compile: ' + '/'.join(l.split('.')[0] for l in s.split('/')), f'{s} is rejected by the compiler: {sc.first_error(log)}', {'stack': s, 'compiler_output': log[-3000:]})
    lcases = []
    for nme in names:
        if nme in runner.failed:
            continue
        k = stacks.kind_of(nme)
        for j in range(6 if thorough else 3):
            toks = sc.rand_field(r, nme, data_mode='nice', cfg_mode='nice', ordered=True)
            if j % 2 == 0:
                toks = [sc.fbits(k.tc, float(r.range(-3, 3))) if isinstance(x, int) and nme.count('/') == 1 and nme.split('/')[1].startswith('identity') else x for x in toks]
            coords = [[sc.fbits(k.tc, float(r.range(-4, 4))) if j % 2 == 0 else sc.rand_scalar(r, k.tc, 'nice') for _ in range(k.n)] for _ in range(5)]
            lcases.append((nme, toks, coords))
        # structured matrices (lower / upper triangular, diagonal, a single off-diagonal entry): a shortcut keyed on the shape of A shows here
        if nme.count('/') == 1 and nme.split('/')[1].startswith(('identity', 'probe')) and k.n >= 2:
            for shape in ('lower', 'upper', 'diag', 'single'):
                rows = []
                for i_ in range(k.n):
                    for j_ in range(k.n + 1):
                        keep = j_ == k.n or {'lower': j_ <= i_, 'upper': j_ >= i_, 'diag': j_ == i_, 'single': j_ == i_ or (i_, j_) == (k.n - 1, 0)}[shape]
                        rows.append(sc.fbits(k.tc, float(r.range(1, 4)) if keep else 0.0))
                toks = sc.rand_field(r, nme, data_mode='nice', cfg_mode='nice', ordered=True)
                toks = rows + toks[len(rows):]
                coords = [[sc.fbits(k.tc, float(r.range(-4, 4))) for _ in range(k.n)] for _ in range(4)]
                lcases.append((nme, toks, coords))
    llines = []
    for i, (nme, toks, cs) in enumerate(lcases):
        has_probe = nme.split('/')[-1].startswith('probe')
        llines.append(f'L{i} {nme} new 0 ' + ' '.join(map(str, toks)) + ''.join(f' | at 0 {" ".join(map(str, c))}' + (f' | fp 0 {" ".join(map(str, c))}' if has_probe else '') for c in cs))
    lmodel, limpl = runner.run(llines)
    from props.c02 import canon
    for i, (nme, toks, cs) in enumerate(lcases):
        id_ = f'L{i}'
        k = stacks.kind_of(nme)
        prim = nme.split('/')[-1]
        ptc = prim.split('.')[2] if prim.startswith('probe') else k.tc
        m = canon(lmodel.get(id_, ''), k.tv, ptc)
        for c in cs:
            chk.count_case((nme, tuple(toks), tuple(c)), True)
        for cfg in limpl:
            a = canon(limpl[cfg].get(id_, 'MISSING'), k.tv, ptc)
            if a == 'SKIPPED':
                continue
            ap = a.split(' | ')
            if nme.count('/') == 1 and prim.startswith('identity') and len(ap) == 1 + len(cs):
                n = k.n
                for q, c in enumerate(cs):
                    got = [int(x) for x in ap[1 + q].split()[1:] if x != 'nan']
                    if len(got) != n:
                        continue
                    ex, mag = exact_apply(k.tc, n, toks, c)
                    for j in range(n):
                        if finite(k.tc, got[j]) and abs(fr(k.tc, got[j]) - ex[j]) > (n + 3) * U[k.tc] * mag[j] + (n + 3) * TINY[k.tc]:
                            chk.violation('affine layer does not query its backend at A.x+t', f'{nme} ({cfg}) coordinate {[sc.bits_f(k.tc, y) for y in c]}: backend asked at {[sc.bits_f(k.tc, g) for g in got]}, A.x+t = {[float(e) for e in ex]}',
                                          {'cases': [[nme, toks, [c]]], 'build': cfg})
                            break
            if m and a != m:
                chk.violation('lookup differs from the model layer: affine', f'{nme} ({cfg}): implementation {a[:300]}, model {m[:300]}', {'cases': [[nme, toks, cs]], 'build': cfg})
    chk.cov['disagreements_checked'] = len(lines) + len(llines)
    chk.cov['programs'] = 1 + len(names)
    return chk.finish()
