"""C03 -- linear interpolation is the N-linear interpolant over the input dimensions."""
import itertools, json
from fractions import Fraction
from vlib import core, pair, stacks
from props import stack_common as sc
from props.c02 import canon
from props.c11 import step

U = {'f32': Fraction(1, 2 ** 24), 'f64': Fraction(1, 2 ** 53)}
TINY = {'f32': Fraction(1, 2 ** 149), 'f64': Fraction(1, 2 ** 1074)}


def fr(t, bits):
    return Fraction(sc.bits_f(t, bits))


def probe_hash(c, j):
    return (sum((x % 1009) * (2 * k + 7) for k, x in enumerate(c)) + 5 * j) % 97


def interp_exact(xs, value_at, m):
    """exact N-linear interpolant at the rational coordinate xs; value_at(lattice tuple) -> list of m Fractions.
    returns (values, magnitude sums, min per component, max per component)"""
    n = len(xs)
    base = [int(x) if x >= 0 else -int(-x) for x in xs]        # truncation toward zero
    frac = [x - b for x, b in zip(xs, base)]
    out = [Fraction(0)] * m
    mag = [Fraction(0)] * m
    lo = [None] * m
    hi = [None] * m
    for off in itertools.product((0, 1), repeat=n):
        w = Fraction(1)
        for k in range(n):
            w *= frac[k] if off[k] else 1 - frac[k]
        v = value_at(tuple(b + o for b, o in zip(base, off)))
        for q in range(m):
            out[q] += w * v[q]
            mag[q] += abs(w * v[q])
            lo[q] = v[q] if lo[q] is None else min(lo[q], v[q])
            hi[q] = v[q] if hi[q] is None else max(hi[q], v[q])
    return out, mag, lo, hi


def run(replay=None):
    chk = core.Check('C03', 'proof')
    thorough = chk.tier == 'thorough'
    chk.cov['rule'] = (
        'the linear interpolator over the PROBE backend for N in 1..5 and M in 1..4 chosen independently, coordinate and stored scalars float / double in all four combinations, and over row-major / Morton / Hilbert array '
        'storage with seeded finite contents (and with a clamp beneath): coordinates at lattice points, on cell faces, in the last cell (extent-1 minus one ulp), with a fraction one ulp below 1, and seeded random ones. '
        'Oracles, all independent of the Coq model and evaluated in exact rationals: (a) the backend is asked for exactly the 2^N corners of the cell (probe trace, as a set); (b) at a lattice point the stored value is returned '
        '(after the conversions the types force); (c) elsewhere the result is within (2^N + N + 4) units in the last place of the sum of |weight x value| of the exact N-linear interpolant (a TESTED rounding bound, not a theorem); '
        '(d) it stays inside the range of the corner values widened by the same bound. Every case is also compared bit for bit with the Flocq model evaluated in the code\'s operation order '
        '(Stack.linear_comp, whose exact-arithmetic instance is proved to be the N-linear interpolant: theorems C03_*). '
        'A case = (stack, field, coordinate); non-trivial = not a lattice point; distinct by those.')
    with core.Lock('coq'):
        rep, tlog = core.translate()
    for u in rep['untranslatable']:
        if u['group'] == 'Linear':
            chk.obligation_broken('translation of ' + u['name'], u['why'])
    chk.cov['linear_branches_in_source'] = rep.get('linear', {}).get('branches') if isinstance(rep.get('linear'), dict) else None
    chk.prove('Properties_C03.v')
    r = chk.rng
    probes = []
    dims = [(n, m) for n in (1, 2, 3, 4, 5) for m in (1, 2, 3, 4)]
    if not thorough:
        dims = [(1, 1), (1, 3), (2, 1), (2, 2), (2, 4), (3, 1), (3, 3), (4, 2), (4, 4), (5, 1), (5, 3)]
    combos = [('f32', 'f32'), ('f64', 'f64'), ('f32', 'f64'), ('f64', 'f32')]
    for idx, (n, m) in enumerate(dims):
        for j, (tc, tv) in enumerate(combos):
            if thorough or (idx + j) % 2 == 0 or (n, m) in ((2, 1), (1, 3)):
                probes.append(f'linear.{tc}/probe.{n}.{"u64" if (n + m) % 3 else "u32"}.{m}.{tv}')
    stor = ['linear.f32/strided.1.u64/array.1.f32', 'linear.f32/strided.2.u64/array.1.f32', 'linear.f64/strided.2.u64/array.3.f32', 'linear.f32/strided.3.u64/array.3.f64',
            'linear.f64/strided.3.u64/array.2.f64', 'linear.f32/strided.4.u64/array.1.f32', 'linear.f64/strided.2.i32/array.1.f64', 'linear.f32/strided.2.u32/array.2.f32',
            'linear.f32/morton.2.u64.b/array.2.f32', 'linear.f64/morton.3.u64.p/array.1.f64', 'linear.f32/hilbert.u64/array.1.f32',
            'linear.f32/clamp/strided.2.u64/array.1.f32', 'linear.f64/clamp/strided.3.u64/array.1.f64', 'affine/linear.f32/strided.3.u64/array.3.f32']
    names = [n for n in dict.fromkeys(probes + stor) if stacks.kind_of(n) is not None]
    runner = sc.StackRunner(chk, 'li', names, shard_size=8)
    for s, log in runner.failed.items():
        chk.violation('stack does not compile: ' + '/'.join(l.split('.')[0] for l in s.split('/')), f'{s} is rejected by the compiler: {sc.first_error(log)}', {'stack': s, 'compiler_output': log[-3000:]})
    names = [n for n in names if n not in runner.failed]
    cases = []
    for nme in names:
        k = stacks.kind_of(nme)
        lk, p = sc.layer_kinds(nme)
        tc = k.tc
        has_probe = p[0] == 'probe'
        direct_strided = nme.count('/') == 2 and 'strided' in nme and nme.startswith('linear')
        for j in range((3 if thorough else 2) if not has_probe else 1):
            sizes = None
            for l, kk in lk:
                if l[0] in ('strided', 'morton', 'hilbert'):
                    sizes = [r.range(2, 5) for _ in range(2 if l[0] == 'hilbert' else int(l[1]))]
            toks = []
            clamped = False
            for l, kk in lk:
                t = l[0]
                if t in ('strided', 'morton', 'hilbert'):
                    toks += sizes
                elif t == 'clamp':
                    clamped = True
                    toks += [0] * kk.n + [s - 2 for s in sizes] if False else [0] * kk.n + [max(0, s - 2) for s in sizes]
                elif t == 'affine':
                    for i in range(kk.n):
                        row = [0.0] * (kk.n + 1)
                        row[i] = 1.0
                        toks += [sc.fbits(kk.tc, v) for v in row]
            data = None
            if p[0] == 'array':
                c = 1
                for s_ in sizes:
                    c *= s_
                cap = c if 'strided' in nme else sc.curve_cap(sizes)
                mode = r.below(3)
                data = []
                for _ in range(cap * int(p[1])):
                    if mode == 0:
                        data.append(sc.fbits(p[2], float(r.range(-8, 8))))
                    elif mode == 1:
                        data.append(sc.rand_scalar(r, p[2], 'nice'))
                    else:
                        data.append(sc.fbits(p[2], r.choice([1e-30, -1e-30, 1e20, -3e19, 0.0, -0.0, 1.5, r.range(-10 ** 9, 10 ** 9) / 3.0])))
                toks += [cap] + data
            ext = sizes if sizes else [6] * k.n
            coords = []
            for q in range(24 if thorough else 12):
                c = []
                for i in range(k.n):
                    e = ext[i] if not has_probe else 9
                    top = e - 1
                    style = (q + i) % 6 if q < 6 else r.below(6)
                    if style == 0:
                        v = float(r.range(0, top - 1 if top > 0 else 0))                         # lattice point (not the last plane)
                    elif style == 1:
                        v = r.range(0, max(0, top - 1)) + r.choice([0.5, 0.25, 0.75])            # cell interior on a nice fraction
                    elif style == 2:
                        b = sc.fbits(tc, float(top))
                        v = sc.bits_f(tc, step(tc, b, -1)) if top > 0 else 0.0                   # last cell, one ulp below the end
                    elif style == 3:
                        base = r.range(0, max(0, top - 1))
                        b = sc.fbits(tc, float(base + 1))
                        v = sc.bits_f(tc, step(tc, b, -1))                                        # fraction one ulp below 1
                    elif style == 4:
                        v = r.range(0, 1024 * max(0, top - 1) + 1023) / 1024.0 if top > 0 else 0.0
                    else:
                        v = r.range(0, max(0, top - 1)) + r.range(1, 999) / 1000.0
                    if not has_probe and not clamped and v > top - 1 + 0.999999 and top >= 1:
                        v = min(v, sc.bits_f(tc, step(tc, sc.fbits(tc, float(top)), -1)))
                    if clamped and r.below(4) == 0:
                        v = v + r.choice([3.0, 100.0, 0.0])
                    if (has_probe or clamped) and q >= 6 and r.below(6) == 0:
                        # beyond the point where consecutive integers stop being representable in the coordinate type
                        # (legal over a probe and above a clamp): i + 1 is then not a value of that type
                        big = 2 ** 24 if tc == 'f32' else 2 ** 53
                        v = float(big + 2 * r.range(0, 50) * (1 + r.below(3)))
                    c.append(sc.fbits(tc, v))
                coords.append(c)
            cases.append((nme, toks, coords, sizes, data))
    if replay:
        rp = json.load(open(replay)).get('replay', {})
        if rp.get('cases'):
            cases = [(c[0], c[1], c[2], c[3], c[4]) for c in rp['cases']]
    l1 = [f'{i} {n} new 0 ' + ' '.join(map(str, t)) + ''.join(' | at 0 ' + ' '.join(map(str, c)) for c in cs) for i, (n, t, cs, sz, da) in enumerate(cases)]
    model1 = {}
    if runner.driver:
        rc, model1, err = pair.run_model(runner.driver, l1)
    lines, keep = [], {}
    dropped = 0
    for i, (nme, t, cs, sz, da) in enumerate(cases):
        parts = model1.get(str(i), '').split(' | ')
        if len(parts) != 1 + len(cs) or parts[0] != 'OK':
            chk.obligation_broken(f'model cannot build a field of {nme}', model1.get(str(i), '')[:300])
            continue
        good = [c for c, a in zip(cs, parts[1:]) if a.startswith('V')]
        dropped += len(cs) - len(good)
        if not good:
            continue
        keep[str(i)] = good
        has_probe = nme.split('/')[-1].startswith('probe')
        lines.append(f'{i} {nme} new 0 ' + ' '.join(map(str, t)) + ''.join(f' | at 0 {" ".join(map(str, c))}' + (f' | fp 0 {" ".join(map(str, c))}' if has_probe else '') for c in good))
    chk.cov['out_of_domain_candidates_dropped'] = dropped
    model, impl = runner.run(lines)
    nbit = 0
    ntot = 0
    for l in lines:
        id_ = l.split(' ', 1)[0]
        nme, t, _, sizes, data = cases[int(id_)]
        good = keep[id_]
        kk = stacks.kind_of(nme)
        prim = nme.split('/')[-1]
        pp = prim.split('.')
        has_probe = prim.startswith('probe')
        ptc = pp[2] if has_probe else kk.tc
        per = 2 if has_probe else 1
        tc, tv = kk.tc, kk.tv
        n, mm = kk.n, kk.m
        m = canon(model.get(id_, ''), kk.tv, ptc)
        mp = m.split(' | ')
        direct = nme.startswith('linear') and nme.count('/') == (1 if has_probe else 2) and (has_probe or 'strided' in nme)
        wtype = tc if U[tc] > U[tv] else tv          # the narrower of the two types governs the bound

        def value_at(pt):
            if has_probe:
                return [Fraction(probe_hash(list(pt), j)) for j in range(mm)]
            idx = 0
            for d, s_ in zip(pt, sizes):
                idx = idx * s_ + d
            return [fr(pp[2], data[idx * mm + j]) for j in range(mm)]
        for c in good:
            xs = [fr(tc, x) for x in c]
            chk.count_case((nme, tuple(t[:8]), tuple(c)), any(x.denominator != 1 for x in xs))
        for cfg in impl:
            a = canon(impl[cfg].get(id_, 'MISSING'), kk.tv, ptc)
            if a == 'SKIPPED':
                continue
            ap = a.split(' | ')
            if len(ap) != 1 + per * len(good):
                chk.violation('interpolated lookup fails: ' + '/'.join(x.split('.')[0] for x in nme.split('/')), f'{nme} in build {cfg}: {a[:300]}', {'cases': [[nme, t, good, sizes, data]], 'impl': a[:1500], 'build': cfg})
                continue
            for q, c in enumerate(good):
                v = ap[1 + per * q]
                tr = ap[2 + per * q] if has_probe else None
                xs = [fr(tc, x) for x in c]
                failed = None
                if direct:
                    got = []
                    try:
                        got = [int(x) for x in v.split()[1:]]
                    except ValueError:
                        got = []
                    if has_probe:
                        base = [int(x) for x in xs]
                        want_set = {tuple(b + o for b, o in zip(base, off)) for off in itertools.product((0, 1), repeat=n)}
                        tl = [int(x) for x in tr.split()[1:]]
                        asked = [tuple(tl[i2:i2 + n]) for i2 in range(0, len(tl), n)]
                        if set(asked) != want_set or len(asked) != 2 ** n:
                            failed = ('does not read exactly the 2^N corners of the cell', f'asked for {asked[:8]}..., the corners are {sorted(want_set)[:8]}...')
                    if not failed and len(got) == mm:
                        ex, mag, lo, hi = interp_exact(xs, value_at, mm)
                        lattice = all(x.denominator == 1 for x in xs)
                        for j in range(mm):
                            g = fr(tv, got[j])
                            bound = (2 ** n + n + 4) * U[wtype] * mag[j] + (2 ** n + n + 4) * TINY[wtype]
                            if lattice:
                                # the stored value, through the conversions the types force (tv -> tc -> tv)
                                sv = value_at(tuple(int(x) for x in xs))[j]
                                if abs(g - sv) > U[wtype] * abs(sv) * 2 + TINY[wtype]:
                                    failed = ('does not return the stored value at a lattice point', f'component {j}: got {float(g)!r}, stored {float(sv)!r}')
                                    break
                            elif abs(g - ex[j]) > bound:
                                failed = ('is not the N-linear interpolant of the surrounding lattice values', f'component {j}: got {float(g)!r}, interpolant {float(ex[j])!r} (error {float(abs(g - ex[j])):.3e}, allowed {float(bound):.3e})')
                                break
                            elif g < lo[j] - bound or g > hi[j] + bound:
                                failed = ('leaves the range spanned by the surrounding lattice values', f'component {j}: got {float(g)!r}, range [{float(lo[j])!r}, {float(hi[j])!r}]')
                                break
                if failed:
                    chk.violation(f'linear interpolation {failed[0]} (N={n}, M={mm})', f'{nme} ({cfg}) at {[float(x) for x in xs]}: {failed[1]}', {'cases': [[nme, t, [c], sizes, data]], 'build': cfg})
                    break
                ntot += 1
                if v == mp[1 + per * q] and (not has_probe or tr == mp[2 + per * q]):
                    nbit += 1
                else:
                    chk.violation(f'lookup differs from the model layer: linear (N={n}, M={mm}, {tc} coordinates, {tv} stored)',
                                  f'{nme} ({cfg}) at {[float(x) for x in xs]} (bits {c}): implementation {v} {tr or ""}, model {mp[1 + per * q]}', {'cases': [[nme, t, [c], sizes, data]], 'build': cfg})
                    break
        if int(id_) % 9 == 0:
            chk.sample({'stack': nme, 'coordinate': [float(fr(tc, x)) for x in good[0]], 'model': mp[1][:120] if len(mp) > 1 else '', 'impl': {c: (impl[c].get(id_) or '').split(' | ')[1:2] for c in impl}})
    chk.cov['bit_exact_with_flocq_model'] = f'{nbit}/{ntot}'
    chk.cov['disagreements_checked'] = len(lines)
    chk.cov['programs'] = len(names)
    return chk.finish()
