"""shared by C01, C14, C05, C18: driver + harness for the storage-order layers"""
import os
from vlib import core, pair

SRC = os.path.join(core.VERIF, 'harness', 'h_layout.cpp')
FALLBACKS = [
    ('hilbert lookup / re-layout copy (hilbert.hpp non_owning_data_t::at, make_hilbert_copy)', '-DVH_NO_HILBERT_LOOKUP'),
    ('conversion from a morton<..., false> field (morton.hpp this_t / parent_t)', '-DVH_NO_MORTON_PORTABLE_CONVERT'),
    ('hilbert::calculate_index', '-DVH_NO_HILBERT_INDEX'),
]


def build(chk, configs=('rel', 'dbg', 'bmi')):
    """returns (driver, {config: exe}, disabled: list of feature names that do not compile)"""
    with core.Lock('coq'):
        rep, _ = core.translate()
    for u in rep['untranslatable']:
        if u['group'] in ('Strided', 'Morton', 'Hilbert', 'HilbertAt'):
            chk.obligation_broken('translation of ' + u['name'], u['why'])
    with core.Lock('ocaml'):
        driver, dlog = core.build_driver('layout')
    if not driver:
        chk.obligation_broken('extracted model (layout) does not build', dlog)
    exes = {}
    disabled = []
    with core.Lock('harness'):
        import concurrent.futures
        extra = []
        first_log = None
        # probe with the cheapest configuration which features compile, then build all configurations in parallel
        exe, log = core.build_harness('h_layout', SRC, configs[0], extra=extra)
        if not exe:
            first_log = log
            for name, flag in FALLBACKS:
                extra = extra + [flag]
                exe, log2 = core.build_harness('h_layout', SRC, configs[0], extra=extra)
                disabled.append((name, flag))
                if exe:
                    break
        if exe:
            exes[configs[0]] = exe
            with concurrent.futures.ThreadPoolExecutor(max_workers=4) as ex:
                for cfg, (e2, l2) in zip(configs[1:], ex.map(lambda c: core.build_harness('h_layout', SRC, c, extra=extra), configs[1:])):
                    if e2:
                        exes[cfg] = e2
                    else:
                        chk.violation('layout harness does not compile (' + cfg + ')', f'storage-order layers no longer compile in configuration {cfg}',
                                      {'compiler_output': l2[-4000:]})
        else:
            chk.violation('layout harness does not compile', 'storage-order layers no longer compile',
                          {'compiler_output': (first_log or log)[-4000:]})
    dis = []
    if disabled:
        errs = [l for l in (first_log or '').split('\n') if 'error' in l][:6]
        for name, flag in disabled:
            dis.append(name)
        chk.cov['disabled_features'] = dis
        chk.cov['compile_errors'] = errs
    return driver, exes, dis, (first_log or '')


def run_cases(chk, driver, exes, lines):
    model = {}
    if driver:
        # the model has one coordinate type (unbounded): the 32-bit-coordinate Morton cases are ordinary Morton cases for it
        rc, model, err = pair.run_model(driver, [l.replace(' midx32 ', ' midx ', 1) for l in lines])
        if rc:
            chk.obligation_broken('extracted model crashed', err[-2000:])
    impl = {cfg: pair.run_impl_isolated(exe, lines) for cfg, exe in exes.items()}
    return model, impl
