"""C04 -- nearest-neighbour lookup returns the value at a closest lattice point."""
import json
from fractions import Fraction
from vlib import core, pair, stacks
from props import stack_common as sc
from props.c02 import canon
from props.c11 import step


def frac(t, bits):
    return Fraction(sc.bits_f(t, bits))


def run(replay=None):
    chk = core.Check('C04', 'proof')
    thorough = chk.tier == 'thorough'
    chk.cov['rule'] = (
        'the nearest-neighbour layer over the identity backend (which returns the lattice point chosen), over the probe backend and over array storage, N in 1..4, float and double coordinates: '
        'every half-integer in (-0.5, extent-0.5) for extents up to 64 and the values one ulp (of the coordinate type) either side of it, half-integers plus or minus 2^-30 (below float resolution, for double), '
        'ties 0.5 / 1.5 / 2.5, the neighbourhoods of 2^23, 2^24 and 2^52, seeded random coordinates. Oracle (independent, exact rationals): every component of the lattice point queried lies within 1/2 of the '
        'coordinate component. Also compared with the model layer (lrint at the coordinate precision; theorem C04_lrint_within_half) and, through the AST, the callee the code names must be one that keeps the precision '
        '(theorem C04_code_rounds_at_coordinate_precision). A case = (stack, coordinate); non-trivial = some component within 2^-20 of a half-integer; distinct by those.')
    with core.Lock('coq'):
        rep, tlog = core.translate()
    for u in rep['untranslatable']:
        if u['group'] == 'Nearest' or (u['group'] == 'Linear' and 'nearest' in u['name']):
            chk.obligation_broken('translation of ' + u['name'], u['why'])
    chk.cov['rounding_callee_in_source'] = rep.get('nearest')
    chk.prove('Properties_C04.v')
    r = chk.rng
    names = []
    for n in (1, 2, 3, 4):
        for tc in ('f32', 'f64'):
            names.append(f'nearest.{tc}/identity.{n}.u64')
    names += ['nearest.f32/identity.2.i32', 'nearest.f64/identity.1.i32', 'nearest.f64/identity.3.u32', 'nearest.f32/probe.2.u64.2.f32', 'nearest.f64/probe.3.u32.1.f64',
              'nearest.f32/strided.2.u64/array.1.f32', 'nearest.f64/strided.2.u64/array.3.f64', 'nearest.f64/morton.2.u64.p/array.1.f32', 'nearest.f32/hilbert.u64/array.2.f32',
              'affine/nearest.f64/strided.2.u64/array.1.f64', 'nearest.f64/clamp/strided.3.u64/array.1.f32']
    names = [n for n in dict.fromkeys(names) if stacks.kind_of(n) is not None]
    runner = sc.StackRunner(chk, 'nn', names, shard_size=8)
    for s, log in runner.failed.items():
        chk.violation('stack does not compile: ' + '/'.join(l.split('.')[0] for l in s.split('/')), f'{s} is rejected by the compiler: {sc.first_error(log)}',
                      {'stack': s, 'compiler_output': log[-3000:]})
    names = [n for n in names if n not in runner.failed]

    def pool(tc, extent):
        out = []
        for k in range(0, extent):
            h = sc.fbits(tc, k + 0.5)
            if k + 0.5 < extent - 0.5:
                out += [h, step(tc, h, -1), step(tc, h, 1)]
                if tc == 'f64':
                    out += [sc.fbits(tc, k + 0.5 + 2.0 ** -30), sc.fbits(tc, k + 0.5 - 2.0 ** -30), sc.fbits(tc, k + 0.5 + 2.0 ** -33), sc.fbits(tc, k + 0.5 + 1e-10)]
            out += [sc.fbits(tc, float(k)), sc.fbits(tc, k + 0.25), sc.fbits(tc, k + 0.75)]
        m = sc.fbits(tc, -0.5)
        out += [step(tc, m, -1) if False else step(tc, m, 1), sc.fbits(tc, -0.25), sc.fbits(tc, -0.0), step(tc, sc.fbits(tc, extent - 0.5), -1)]
        return [x for x in out if x is not None]

    cases = []
    for n in names:
        k = stacks.kind_of(n)
        tc = k.tc
        lk, p = sc.layer_kinds(n)
        over_storage = p[0] == 'array'
        for j in range(3 if thorough else 2):
            sizes = None
            toks = []
            for l, kk in lk:
                if l[0] in ('strided', 'morton', 'hilbert'):
                    sizes = [r.range(2, 5) for _ in range(2 if l[0] == 'hilbert' else int(l[1]))]
            for l, kk in lk:
                t = l[0]
                if t in ('strided', 'morton', 'hilbert'):
                    toks += sizes
                elif t == 'clamp':
                    toks += [0] * kk.n + [s - 1 for s in sizes]
                elif t == 'affine':
                    for i in range(kk.n):
                        row = [0.0] * (kk.n + 1)
                        row[i] = 1.0
                        toks += [sc.fbits(kk.tc, v) for v in row]
            if over_storage:
                c = 1
                for s_ in sizes:
                    c *= s_
                cap = c if 'strided' in n else sc.curve_cap(sizes)
                toks += [cap] + [sc.rand_scalar(r, p[2], 'nice') for _ in range(cap * int(p[1]))]
            coords = []
            exts = sizes if sizes else [64 if not thorough else 64] * k.n
            pools = [pool(tc, e) for e in exts]
            big = []
            if not over_storage and n.split('/')[-1].split('.')[2] == 'u64' or (not over_storage and tc == 'f32'):
                if tc == 'f32':
                    big = [sc.fbits(tc, v) for v in (8388607.5, 8388608.0, 8388609.0, 16777216.0, 16777215.0, 4194303.5, 4194304.5, 2097151.25, 4194305.0, 4194307.0, 4194305.5, 6291457.0, 8388607.0, 5000001.0, 12582913.0)]
                else:
                    big = [sc.fbits(tc, v) for v in (8388608.5, 16777217.0, 16777216.5, 4503599627370495.5, 4503599627370496.0, 4503599627370497.0, 2251799813685247.5, 33554433.0, 1073741824.5, 2251799813685249.0, 3377699720527873.0, 4503599627370495.0, 4194305.0)]
                if n.split('/')[-1].split('.')[2] in ('i32', 'u32'):
                    big = [b for b in big if abs(sc.bits_f(tc, b)) < 2 ** 31 - 1]
            for q in range(60 if thorough else 30):
                c = [r.choice(big) if (big and r.below(4) == 0) else r.choice(pools[i]) for i in range(k.n)]
                coords.append(c)
            cases.append((n, toks, coords))
    if replay:
        rp = json.load(open(replay)).get('replay', {})
        if rp.get('cases'):
            cases = [(c[0], c[1], c[2]) for c in rp['cases']]
    l1 = [f'{i} {n} new 0 ' + ' '.join(map(str, t)) + ''.join(' | at 0 ' + ' '.join(map(str, c)) for c in cs) for i, (n, t, cs) in enumerate(cases)]
    model1 = {}
    if runner.driver:
        rc, model1, err = pair.run_model(runner.driver, l1)
    lines, keep = [], {}
    for i, (n, t, cs) in enumerate(cases):
        parts = model1.get(str(i), '').split(' | ')
        if len(parts) != 1 + len(cs) or parts[0] != 'OK':
            chk.obligation_broken(f'model cannot build a field of {n}', model1.get(str(i), '')[:300])
            continue
        good = [c for c, a in zip(cs, parts[1:]) if a.startswith('V')]
        if not good:
            continue
        keep[str(i)] = good
        has_probe = n.split('/')[-1].startswith('probe')
        lines.append(f'{i} {n} new 0 ' + ' '.join(map(str, t)) + ''.join(f' | at 0 {" ".join(map(str, c))}' + (f' | fp 0 {" ".join(map(str, c))}' if has_probe else '') for c in good))
    model, impl = runner.run(lines)
    half = Fraction(1, 2)
    for l in lines:
        id_ = l.split(' ', 1)[0]
        n, t, _ = cases[int(id_)]
        good = keep[id_]
        kk = stacks.kind_of(n)
        prim = n.split('/')[-1]
        has_probe = prim.startswith('probe')
        ptc = prim.split('.')[2] if has_probe else kk.tc
        per = 2 if has_probe else 1
        m = canon(model.get(id_, ''), kk.tv, ptc)
        mp = m.split(' | ')
        direct = n.count('/') == 1 and (prim.startswith('identity') or has_probe)
        for c in good:
            near = any(abs((frac(kk.tc, x) % 1) - half) < Fraction(1, 2 ** 20) for x in c)
            chk.count_case((n, tuple(c)), near)
        for cfg in impl:
            a = canon(impl[cfg].get(id_, 'MISSING'), kk.tv, ptc)
            if a == 'SKIPPED':
                continue
            ap = a.split(' | ')
            if len(ap) != 1 + per * len(good):
                chk.violation('nearest-neighbour lookup fails: ' + n.split('/')[1].split('.')[0], f'{n} in build {cfg}: {a[:300]}', {'cases': [[n, t, good]], 'impl': a[:1500], 'build': cfg})
                continue
            for q, c in enumerate(good):
                v = ap[1 + per * q]
                tr = ap[2 + per * q] if has_probe else None
                if direct:
                    pts = (tr if has_probe else v).split()[1:]
                    try:
                        ok = all(abs(int(pz) - frac(kk.tc, x)) <= half for pz, x in zip(pts, c)) and len(pts) == len(c)
                    except ValueError:
                        ok = False
                    if not ok:
                        xs = [float(frac(kk.tc, x)) for x in c]
                        chk.violation(f'lattice point more than one half away from the coordinate ({kk.tc} coordinates)',
                                      f'{n} ({cfg}) coordinate {xs} (bits {c}): lattice point {pts}', {'cases': [[n, t, [c]]], 'build': cfg})
                        break
                if v != mp[1 + per * q] or (has_probe and tr != mp[2 + per * q]):
                    xs = [float(frac(kk.tc, x)) for x in c]
                    chk.violation(f'lookup differs from the model layer: nearest ({kk.tc} coordinates)', f'{n} ({cfg}) coordinate {xs} (bits {c}): implementation {v} {tr or ""}, model {mp[1 + per * q]}',
                                  {'cases': [[n, t, [c]]], 'build': cfg})
                    break
        if int(id_) % 7 == 0:
            chk.sample({'stack': n, 'coordinate': good[0], 'as_float': [float(frac(kk.tc, x)) for x in good[0]], 'model': mp[1][:100] if len(mp) > 1 else '', 'impl': {c: (impl[c].get(id_) or '').split(' | ')[1:2] for c in impl}})
    chk.cov['disagreements_checked'] = len(lines)
    chk.cov['programs'] = len(names)
    return chk.finish()
