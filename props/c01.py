"""C01 -- storage-order layers behave as an N-dimensional array."""
import itertools, os
from vlib import core, pair
from props import layout_common as lc


def gen_cases(chk, disabled):
    r = chk.rng
    thorough = chk.tier == 'thorough'
    lays = ['strided', 'mortonb']
    if not any('morton<..., false>' in d for d in disabled):
        lays.append('mortonp')
    hil = not any('hilbert' in d for d in disabled)
    cases = []
    for n in range(1, 5):
        bound = (4 if n <= 2 else 3 if n == 3 else 2) if not thorough else (6 if n <= 2 else 4 if n == 3 else 3)
        for sizes in itertools.product(range(1, bound + 1), repeat=n):
            for lay in lays + (['hilbert'] if hil and n == 2 else []):
                ms = [1] if (sum(sizes) % 2 or n == 4) else [1, 3]
                for m in ms:
                    if m == 3 and n == 4:
                        continue
                    cases.append((lay, 'u64', n, m) + sizes)
                if n <= 3 and sum(sizes) % 3 == 0:
                    cases.append((lay, 'u32', n, 1) + sizes)
                    cases.append((lay, 'i32', n, 1) + sizes)
    # larger: non-square, primes, 2^k, 2^k +- 1
    pool = [1, 2, 3, 5, 7, 8, 9, 11, 13, 15, 16, 17, 31, 32, 33]
    for _ in range(120 if thorough else 40):
        n = r.range(1, 3)
        cap = {1: 200, 2: 33, 3: 9}[n]
        sizes = tuple(min(cap, r.choice(pool)) for _ in range(n))
        lay = r.choice(lays + (['hilbert'] if hil and n == 2 else []))
        cases.append((lay, 'u64', n, r.choice([1, 3]) if n <= 3 else 1) + sizes)
    return cases


def oracle(ans, ncells):
    """C01 judged on the implementation's own behaviour: the harness has already checked
    read-own-write, frame and the converted values; here: positions pairwise distinct and inside
    the storage"""
    if not ans or not ans.startswith('OK'):
        return ans or 'no answer'
    try:
        cap = int(ans.split('cap=')[1].split()[0])
        ps = ans.split('pos=')[1]
        pos = [] if ps == '-' else [int(x) for x in ps.split(',')]
    except (IndexError, ValueError):
        return 'unparsable answer ' + ans[:100]
    if len(pos) != ncells:
        return f'{len(pos)} positions for {ncells} cells'
    if len(set(pos)) != len(pos):
        return 'two coordinates share a storage position (aliasing)'
    if pos and max(pos) >= cap:
        return f'position {max(pos)} outside the storage of {cap} cells'
    return None


def run(replay=None):
    chk = core.Check('C01', 'proof')
    chk.cov['rule'] = ('for every layout (row-major, Morton use_bmi2 on/off, Hilbert) and every extent vector with extents <= 4 (N <= 2), <= 3 (N = 3), <= 2 (N = 4) '
                       '(thorough: 6 / 4 / 3) plus seeded larger non-square / prime / 2^k+-1 shapes: a row-major field over real array storage is filled with distinct tags, converted into the layout, '
                       'and on the converted field every coordinate is written and everything read back after each write (read-own-write + frame), positions are taken relative to the storage base '
                       'and must be pairwise distinct and below the storage length; run with assertions + ASan/UBSan, in -O2 -DNDEBUG, and with -mbmi2. Output width 1 (float) and 3 (double), coordinate types size_t / unsigned / int. '
                       'The positions are also compared with the model (equality; a difference alone is a broken correspondence, not a C01 violation). non-trivial = at least 2 cells; distinct by the case tuple')
    driver, exes, disabled, clog = lc.build(chk)
    for name in disabled:
        chk.violation('does not compile: ' + name, 'the storage-order layer cannot be used as an array: ' + name + ' is rejected by the compiler',
                      {'program': 'harness/h_layout.cpp', 'compiler_errors': chk.cov.get('compile_errors')})
    chk.prove('Properties_C01.v')
    cases = gen_cases(chk, disabled)
    if replay:
        import json
        cases = [tuple(c) for c in json.load(open(replay)).get('replay', {}).get('cases', [])] or cases
    lines = [f'{i} rw ' + ' '.join(str(x) for x in a) for i, a in enumerate(cases)]
    model, impl = lc.run_cases(chk, driver, exes, lines)
    nd = 0
    for i, a in enumerate(cases):
        id_ = str(i)
        sizes = a[4:]
        ncells = 1
        for s in sizes:
            ncells *= s
        chk.count_case(a, ncells >= 2)
        m = model.get(id_)
        for cfg in impl:
            v = impl[cfg].get(id_)
            why = oracle(v, ncells)
            if why:
                chk.violation(f'{a[0]} layer is not an array', f'{a[0]}<{a[1]},{a[2]}> output width {a[3]} extents {sizes} in build {cfg}: {why}',
                              {'cases': [list(a)], 'impl': (v or '')[:1500], 'model': (m or '')[:1500], 'build': cfg})
            elif m is not None and v != m and nd < 8:
                nd += 1
                chk.obligation_broken(f'correspondence positions of {a[0]} extents {sizes} ({cfg})', f'impl {v[:400]} model {m[:400]}')
        if i % 131 == 0:
            chk.sample({'case': list(a), 'model': (m or '')[:160], 'impl': {c: (impl[c].get(id_) or '')[:160] for c in impl}})
    chk.cov['disagreements_checked'] = len(cases)
    chk.cov['programs'] = len(exes)
    chk.cov['exhaustive'] = True
    return chk.finish()
