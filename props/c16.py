"""C16 -- concurrent lookups are race-free and deterministic (partial: the memory model is observed by TSan)."""
import json, os
from vlib import core, pair, stacks
from props import stack_common as sc
from props.c02 import geom_field, rand_coord, canon

STACKS = ['strided.2.u64/array.1.f32', 'strided.3.u64/array.3.f64', 'morton.2.u64.b/array.1.f32', 'morton.3.u64.p/array.2.f32', 'hilbert.u64/array.1.f32',
          'linear.f32/strided.2.u64/array.1.f32', 'linear.f64/morton.2.u64.p/array.2.f64', 'linear.f32/strided.4.u64/array.1.f32', 'linear.f64/strided.5.u64/array.2.f32', 'nearest.f32/strided.3.u64/array.3.f32', 'nearest.f64/hilbert.u64/array.1.f64',
          'affine/linear.f32/strided.3.u64/array.3.f32', 'clamp/strided.2.u64/array.2.f32', 'array.2.f32', 'constant.2.f32.3.f32', 'backup/nearest.f32/strided.2.u64/array.1.f32']


def run(replay=None):
    chk = core.Check('C16', 'proof')
    thorough = chk.tier == 'thorough'
    chk.cov['rule'] = (
        'structural premise: tools/purity_scan.py walks clang\'s AST of every header under lib/core (static / thread-local non-constexpr variables, mutable members, const_cast, non-const lookups) and regenerates Gen_Purity.v, '
        'whose purity_ok is proved by reflexivity. Execution: T in {2, 4, 8, 16} threads over ONE shared view and over per-thread views of fields of every storage order and interpolator: readers looking up the same '
        'coordinates in rotated order for three rounds, and writers to disjoint coordinate sets (coordinate number j belongs to thread j mod T) that read their own writes back; every thread must obtain the sequential results, '
        'which in turn must equal the model\'s sequential evaluation (theorem C16_every_thread_as_if_alone is what makes "sequential" well defined for every schedule). The same harness runs under ThreadSanitizer '
        '(happens-before race detection, schedule-independent for the accesses performed) and under ASan+UBSan. A case = (stack, field, thread count, view mode, reader/writer); non-trivial = T >= 2 and at least two coordinates; distinct by those.')
    with core.Lock('coq'):
        rep, tlog = core.translate()
    prep = rep.get('purity', {})
    for u in rep['untranslatable']:
        if u['group'] == 'Purity':
            chk.obligation_broken('purity scan failed', u['why'])
    chk.cov['purity_scan'] = prep
    for key in ('shared_mutable_state', 'const_casts', 'lookups_not_pure'):
        for item in prep.get(key, []):
            chk.note(f'purity scan: {key}: {item}')
    ok = chk.prove('Properties_C16.v')
    r = chk.rng
    names = [n for n in STACKS if stacks.kind_of(n) is not None]
    runner = sc.StackRunner(chk, 'cc', names, configs=('tsan', 'dbg'), shard_size=5)
    for s, log in runner.failed.items():
        chk.violation('stack does not compile: ' + '/'.join(l.split('.')[0] for l in s.split('/')), f'{s} is rejected by the compiler: {sc.first_error(log)}', {'stack': s, 'compiler_output': log[-3000:]})
    names = [n for n in names if n not in runner.failed]
    cases = []
    for n in names:
        k = stacks.kind_of(n)
        for j in range(2 if thorough else 1):
            toks, ext = geom_field(r, n)
            coords = [rand_coord(r, k, ext, q % 5) for q in range(24)]
            cases.append((n, toks, coords))
    if replay:
        rp = json.load(open(replay)).get('replay', {})
        if rp.get('cases'):
            cases = [(c[0], c[1], c[2]) for c in rp['cases']]
    # in-domain coordinates, distinct
    l1 = [f'{i} {n} new 0 ' + ' '.join(map(str, t)) + ''.join(' | at 0 ' + ' '.join(map(str, c)) + ' | fp 0 ' + ' '.join(map(str, c)) for c in cs) for i, (n, t, cs) in enumerate(cases)]
    model1 = {}
    if runner.driver:
        rc, model1, err = pair.run_model(runner.driver, l1)
    lines = []
    info = {}
    for i, (n, t, cs) in enumerate(cases):
        parts = model1.get(str(i), '').split(' | ')
        if len(parts) != 1 + 2 * len(cs) or parts[0] != 'OK':
            chk.obligation_broken(f'model cannot build a field of {n}', model1.get(str(i), '')[:300])
            continue
        good = []
        foot = {}
        for q, c in enumerate(cs):
            a, tr = parts[1 + 2 * q], parts[2 + 2 * q]
            if a.startswith('V') and c not in good:
                good.append(c)
                foot[tuple(c)] = tr.split()[1:]
        if len(good) < 2:
            continue
        k = stacks.kind_of(n)
        flat = ' '.join(' '.join(map(str, c)) for c in good)
        ops = []
        for T in ((2, 4, 8, 16) if thorough else (2, 8, 16)):
            for mode in ('shared', 'own'):
                ops.append(f'par 0 {T} {mode} {flat}')
        writable = k.ref
        if writable:
            # writers need distinct CELLS: integer lattice coordinates, all different
            # (the model's footprint of the lookup: one cell each, pairwise different -- the premise of the theorem)
            lat, cells = [], set()
            for c in good:
                fpc = foot.get(tuple(c), [])
                if len(fpc) == 1 and fpc[0] not in cells:
                    cells.add(fpc[0])
                    lat.append(c)
            for T in ((2, 4, 16) if thorough else (4, 16)):
                for mode in ('shared', 'own'):
                    ops.append(f'parw 0 {T} {mode} ' + ' '.join(' '.join(map(str, c)) for c in lat))
        info[str(i)] = (good, ops)
        lines.append(f'{i} {n} new 0 ' + ' '.join(map(str, t)) + ' | ' + ' | '.join(ops))
    model, _ = (runner.run(lines)[0], None)
    # the implementation: TSan build with halt_on_error, then the ASan build
    impl = {}
    for cfg, exes in runner.exes.items():
        env = {'TSAN_OPTIONS': 'halt_on_error=1:exitcode=66:report_signal_unsafe=0'} if cfg == 'tsan' else None
        by_exe = {}
        for l in lines:
            by_exe.setdefault(exes.get(l.split(' ', 2)[1]), []).append(l)
        ans = {}
        for exe, ls in by_exe.items():
            if exe is None:
                continue
            rc, a, err = pair.run_impl(exe, ls, timeout=900, env=env)
            ans.update(a)
            if 'ThreadSanitizer' in err:
                first = [x.strip() for x in err.split('\n') if 'data race' in x or 'Write of size' in x or 'Previous' in x or '#0' in x][:6]
                stack_name = next((l.split(' ', 2)[1] for l in ls if l.split(' ', 1)[0] not in a), ls[0].split(' ', 2)[1])
                chk.violation('data race reported by ThreadSanitizer: ' + stack_name.split('/')[0].split('.')[0], f'{stack_name}: {first}', {'cases': [list(cases[int(ls[0].split(" ", 1)[0])])], 'stderr': err[-3000:], 'build': cfg})
            elif any(l.split(' ', 1)[0] not in a for l in ls):
                a2 = pair.run_impl_isolated(exe, [l for l in ls if l.split(' ', 1)[0] not in a], env=env)
                ans.update(a2)
        impl[cfg] = ans
    for l in lines:
        id_ = l.split(' ', 1)[0]
        n, t, _ = cases[int(id_)]
        good, ops = info[id_]
        kk = stacks.kind_of(n)
        m = canon(model.get(id_, ''), kk.tv, kk.tc)
        for o in ops:
            chk.count_case((n, tuple(t[:6]), o[:24]), True)
        for cfg in impl:
            a = canon(impl[cfg].get(id_, 'MISSING'), kk.tv, kk.tc)
            if a == 'SKIPPED' or a == m or a == 'MISSING':
                continue
            ap, mp = a.split(' | '), m.split(' | ')
            bad = [q for q in range(min(len(ap), len(mp))) if ap[q] != mp[q]]
            q = bad[0] if bad else len(ap) - 1
            what = ap[q][:200] if q < len(ap) else a[:200]
            op = ops[q - 1] if 1 <= q <= len(ops) else 'construction'
            chk.violation('concurrent execution differs from the sequential one: ' + n.split('/')[0].split('.')[0], f'{n} in build {cfg}: {" ".join(op.split()[:4])}: {what}; sequential model: {(mp[q] if q < len(mp) else "")[:200]}',
                          {'cases': [[n, t, good]], 'impl': a[:1500], 'build': cfg})
        if int(id_) % 3 == 0:
            chk.sample({'stack': n, 'ops': [' '.join(o.split()[:4]) for o in ops][:4], 'model': m[:160], 'impl': {c: (impl[c].get(id_) or '')[:160] for c in impl}})
    chk.cov['disagreements_checked'] = sum(len(info[k][1]) for k in info)
    chk.cov['programs'] = len(names)
    return chk.finish()
