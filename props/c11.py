"""C11 -- out-of-range lookups return the default without touching the backend."""
import json
from vlib import core, pair, stacks
from props import stack_common as sc
from props.c02 import canon

INT_RANGE = {'i32': (-2 ** 31, 2 ** 31 - 1), 'u32': (0, 2 ** 32 - 1), 'u64': (0, 2 ** 64 - 1), 'i64': (-2 ** 63, 2 ** 63 - 1)}


def step(t, v, d):
    """the neighbouring value of the coordinate type (nextafter for floats), as a case-file scalar; None at the end of the type"""
    if t in INT_RANGE:
        lo, hi = INT_RANGE[t]
        w = v + d
        return w if lo <= w <= hi else None
    nbits = 32 if t == 'f32' else 64
    sign = 1 << (nbits - 1)
    mag = v & (sign - 1)
    neg = bool(v & sign)
    inf = (0xFF << 23) if t == 'f32' else (0x7FF << 52)
    # ordered integer key: negative floats descend
    key = -mag if neg else mag
    if mag == 0 and neg:
        key = 0
    key += d
    if abs(key) > inf:
        return None
    if key < 0:
        return sign | (-key)
    if key == 0:
        return sign if (d > 0 and neg) else 0
    return key


def value_of(t, v):
    return sc.bits_f(t, v) if t in ('f32', 'f64') else v


def run(replay=None):
    chk = core.Check('C11', 'proof')
    thorough = chk.tier == 'thorough'
    chk.cov['rule'] = (
        'the out-of-range-default layer over the PROBE backend (which records every query) for N and M in 1..4 independently and coordinate types int / unsigned / size_t / float / double, '
        'over the identity backend and over row-major array storage (where touching the backend far outside would be an ASan error): coordinates equal to each bound, one step either side of each bound '
        '(nextafter for floats), +-0 at a zero bound, one component out while the others are in, type extremes and infinities, empty boxes. '
        'Oracle (independent, in python): some component < lo or > hi => the configured default and NO probe query; otherwise exactly one query at the unchanged coordinate and the backend\'s value. '
        'Also compared with the model layer backup_at (theorems C11_*), whose test the kernel generated from backup.hpp is proved to compute. '
        'A case = (stack, box, default, coordinate); non-trivial = at least one component within one step of a bound; distinct by those.')
    with core.Lock('coq'):
        rep, tlog = core.translate()
    for u in rep['untranslatable']:
        if u['group'] == 'Backup':
            chk.obligation_broken('translation of ' + u['name'], u['why'])
    chk.prove('Properties_C11.v')
    r = chk.rng
    names = []
    dims = [(n, m) for n in (1, 2, 3, 4) for m in (1, 2, 3, 4)] if thorough else [(1, 1), (1, 3), (2, 1), (2, 2), (3, 2), (3, 4), (4, 1), (4, 4)]
    for n, m in dims:
        for tc in ['i32', 'u32', 'u64', 'f32', 'f64']:
            tv = ['f32', 'f64', 'i32'][(n + m) % 3]
            names.append(f'backup/probe.{n}.{tc}.{m}.{tv}')
    names += ['backup/identity.2.f32', 'backup/identity.3.u64', 'backup/identity.1.i32', 'backup/strided.2.u64/array.3.f32', 'backup/strided.3.i32/array.1.f64',
              'backup/strided.1.u32/array.2.f32', 'backup/constant.2.i32.3.f64', 'backup/nearest.f32/probe.2.u64.2.f32', 'backup/clamp/probe.2.f64.1.f32',
              'shuffle.1-0/backup/probe.2.i32.2.f32', 'backup/backup/probe.2.f32.2.f64']
    names = [n for n in dict.fromkeys(names) if stacks.kind_of(n) is not None]
    runner = sc.StackRunner(chk, 'bk', names, shard_size=8)
    for s, log in runner.failed.items():
        chk.violation('stack does not compile: ' + '/'.join(l.split('.')[0] for l in s.split('/')), f'{s} is rejected by the compiler: {sc.first_error(log)}',
                      {'stack': s, 'compiler_output': log[-3000:]})
    names = [n for n in names if n not in runner.failed]
    cases = []   # (stack, tokens, lo, hi, dflt(or None), [coords])
    for n in names:
        k = stacks.kind_of(n)
        top_is_backup = n.startswith('backup/')
        lk, p = sc.layer_kinds(n)
        for j in range(4 if thorough else 2):
            # build tokens layer by layer, remembering the outermost backup's box
            box = None
            toks = []
            sizes = None
            for l, kk in lk:
                if l[0] in ('strided',):
                    sizes = [r.range(2, 4) for _ in range(int(l[1]))]
            for l, kk in lk:
                t = l[0]
                if t == 'strided':
                    toks += sizes
                elif t in ('backup', 'clamp'):
                    lo, hi = [], []
                    for q in range(kk.n):
                        e = sizes[q] if sizes else 6
                        if kk.tc in ('f32', 'f64'):
                            a = r.choice([0.0, -0.0, 1.0, 0.5, -2.5, 1e-40 if kk.tc == 'f32' else 5e-320])
                            b = a + r.choice([0.0, 1.0, 2.5, 3.0]) if j != 3 else a - 1.0
                            # half-open and unbounded boxes: an infinite bound is a bound like any other, and a coordinate
                            # EQUAL to it lies inside the closed box
                            if not sizes and r.below(3) == 0:
                                a = float('-inf')
                            if not sizes and r.below(3) == 0:
                                b = float('inf')
                            lo.append(sc.fbits(kk.tc, a))
                            hi.append(sc.fbits(kk.tc, min(b, e - 1.0) if sizes else b))
                        else:
                            a = r.range(0, max(0, e - 2)) if not kk.tc.startswith('i') or sizes else r.range(-3, 2)
                            b = r.range(a, e - 1) if j != 3 else a - 1
                            if b < INT_RANGE[kk.tc][0]:
                                b = a
                            lo.append(a)
                            hi.append(b)
                    toks += lo + hi
                    if t == 'backup':
                        d = [sc.rand_scalar(r, kk.tv, 'nice') for _ in range(kk.m)]
                        toks += d
                        if box is None and l is lk[0][0] or (box is None and n.split('/')[0].startswith('shuffle') is False and top_is_backup):
                            box = (lo, hi, d, kk.tc, kk.tv)
            if p[0] == 'array':
                c = 1
                for s_ in sizes:
                    c *= s_
                toks += [c] + [sc.rand_scalar(r, p[2], 'nice') for _ in range(c * int(p[1]))]
            elif p[0] == 'constant':
                toks += [sc.rand_scalar(r, p[4], 'nice') for _ in range(int(p[3]))]
            # coordinates around the outermost box (if the top layer is the backup), else generic small ones
            coords = []
            if top_is_backup and box:
                lo, hi, d, tc, tv = box
                base = [r.choice([lo[q], hi[q]]) for q in range(k.n)]
                inside = list(lo)
                coords.append(list(lo))
                coords.append(list(hi))
                for q in range(k.n):
                    for bnd in (lo[q], hi[q]):
                        for dlt in (-1, 1):
                            s_ = step(tc, bnd, dlt)
                            if s_ is not None:
                                c = list(inside)
                                c[q] = s_
                                coords.append(c)
                    if tc in ('f32', 'f64'):
                        for sp in ([0x7F800000, 0xFF800000, 0, 0x80000000, 0x7F7FFFFF] if tc == 'f32' else [0x7FF0000000000000, 0xFFF0000000000000, 0, 0x8000000000000000]):
                            c = list(base)
                            c[q] = sp
                            coords.append(c)
                    else:
                        for sp in (INT_RANGE[tc][0], INT_RANGE[tc][1]):
                            c = list(base)
                            c[q] = sp
                            coords.append(c)
                if not thorough:
                    coords = coords[:2] + r.shuffle(coords[2:])[:14]
            else:
                for _ in range(8):
                    coords.append([sc.fbits(k.tc, r.range(-8, 24) / 4.0) if k.tc in ('f32', 'f64') else r.range(0, 5) for _ in range(k.n)])
            cases.append((n, toks, box if top_is_backup else None, coords))
    if replay:
        rp = json.load(open(replay)).get('replay', {})
        if rp.get('cases'):
            cases = [(c[0], c[1], tuple(c[2]) if c[2] else None, c[3]) for c in rp['cases']]
    l1 = [f'{i} {n} new 0 ' + ' '.join(map(str, t)) + ''.join(' | at 0 ' + ' '.join(map(str, c)) for c in cs) for i, (n, t, b, cs) in enumerate(cases)]
    model1 = {}
    if runner.driver:
        rc, model1, err = pair.run_model(runner.driver, l1)
    lines, keep = [], {}
    for i, (n, t, box, cs) in enumerate(cases):
        parts = model1.get(str(i), '').split(' | ')
        if len(parts) != 1 + len(cs) or parts[0] != 'OK':
            chk.obligation_broken(f'model cannot build a field of {n}', model1.get(str(i), '')[:300])
            continue
        good = [c for c, a in zip(cs, parts[1:]) if a.startswith('V')]
        if not good:
            continue
        keep[str(i)] = good
        has_probe = n.split('/')[-1].startswith('probe')
        lines.append(f'{i} {n} new 0 ' + ' '.join(map(str, t)) + ''.join(f' | at 0 {" ".join(map(str, c))}' + (f' | fp 0 {" ".join(map(str, c))}' if has_probe else '') for c in good))
    model, impl = runner.run(lines)
    for l in lines:
        id_ = l.split(' ', 1)[0]
        n, t, box, _ = cases[int(id_)]
        good = keep[id_]
        kk = stacks.kind_of(n)
        has_probe = n.split('/')[-1].startswith('probe')
        ptc = n.split('/')[-1].split('.')[2] if has_probe else kk.tc
        per = 2 if has_probe else 1
        m = canon(model.get(id_, ''), kk.tv, ptc)
        mp = m.split(' | ')
        for c in good:
            near = True
            chk.count_case((n, tuple(t), tuple(c)), near)
        for cfg in impl:
            a = canon(impl[cfg].get(id_, 'MISSING'), kk.tv, ptc)
            if a == 'SKIPPED':
                continue
            ap = a.split(' | ')
            if len(ap) != 1 + per * len(good):
                chk.violation('lookup fails: backup', f'{n} in build {cfg}: {a[:300]}', {'cases': [[n, t, box, good]], 'impl': a[:1500], 'build': cfg})
                continue
            for q, c in enumerate(good):
                v = ap[1 + per * q]
                tr = ap[2 + per * q] if has_probe else None
                # the property's own oracle, when the outermost layer is the backup layer
                if box and n.split('/')[1].startswith('probe'):
                    lo, hi, d, tc, tv = box
                    out = any(value_of(tc, c[j]) < value_of(tc, lo[j]) or value_of(tc, hi[j]) < value_of(tc, c[j]) for j in range(len(c)))
                    if out:
                        want_v = canon('V ' + ' '.join(map(str, d)), kk.tv, ptc)
                        if v != want_v or tr != 'T':
                            chk.violation('out-of-range lookup ' + ('does not return the default' if v != want_v else 'queries the backend'),
                                          f'{n} ({cfg}) box {lo}..{hi} coordinate {c}: returned {v}, backend queries {tr}; default is {d}',
                                          {'cases': [[n, t, box, [c]]], 'build': cfg})
                            break
                    else:
                        want_tr = canon('T ' + ' '.join(map(str, c)), kk.tv, ptc)
                        if tr != want_tr:
                            chk.violation('in-range lookup does not query the backend exactly once at the coordinate',
                                          f'{n} ({cfg}) box {lo}..{hi} coordinate {c}: backend queries {tr}', {'cases': [[n, t, box, [c]]], 'build': cfg})
                            break
                if v != mp[1 + per * q] or (has_probe and tr != mp[2 + per * q]):
                    chk.violation('lookup differs from the model layer: backup', f'{n} ({cfg}) coordinate {c}: implementation {v} {tr}, model {mp[1 + per * q]} {mp[2 + per * q] if has_probe else ""}',
                                  {'cases': [[n, t, box, [c]]], 'build': cfg})
                    break
        if int(id_) % 17 == 0:
            chk.sample({'stack': n, 'box': box[:2] if box else None, 'coordinate': good[0], 'model': m[:160], 'impl': {c: (impl[c].get(id_) or '')[:160] for c in impl}})
    chk.cov['disagreements_checked'] = len(lines)
    chk.cov['programs'] = len(names)
    return chk.finish()
