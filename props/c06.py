"""C06 -- dumping a field and loading it back reproduces it exactly."""
import os
from vlib import core, pair, stacks
from props import stack_common as sc


def run(replay=None):
    chk = core.Check('C06', 'proof')
    chk.cov['rule'] = ('for every stack of the catalogue (every serialisable layer in several positions + seeded random stacks from the grammar, depth <= 5) '
                       'and several random fields each (extents 0..3 per axis (empty fields included), all IEEE special classes among the stored bit patterns and configuration values): '
                       'construct, dump, load the bytes into a second field of the same type, read back configuration and storage, dump again. '
                       'Oracle on the implementation alone: the second dump equals the first byte for byte, configuration and storage bit patterns of the loaded field equal the original. '
                       'Correspondence: the bytes equal the model writer\'s bytes, and the model reader accepts them with the same contents. '
                       'non-trivial = at least one configuration or stored scalar; distinct by (stack, tokens)')
    with core.Lock('coq'):
        rep, tlog = core.translate()
    for u in rep['untranslatable']:
        if u['group'] in ('Tags', 'ArrayIO'):
            chk.obligation_broken('translation of ' + u['name'], u['why'])
    chk.cov['format_constants_in_source'] = {k: rep.get('tags', {}).get(k) for k in ('magic', 'footer')}
    chk.prove('Properties_C06.v')
    names = sc.catalogue(chk, extra_random=24 if chk.tier == 'thorough' else 10)
    names = list(dict.fromkeys(list(names) + ['array.1.f32', 'array.3.f64', 'strided.2.u64/array.2.f32', 'morton.2.u64.p/array.1.f64', 'clamp/strided.1.u64/array.1.f64']))
    runner = sc.StackRunner(chk, 'io', names)
    for s, log in runner.failed.items():
        chk.violation('stack does not compile: ' + '/'.join(l.split('.')[0] for l in s.split('/')), f'dump / load of {s} is rejected by the compiler: {sc.first_error(log)}',
                      {'stack': s, 'compiler_output': log[-3000:]})
    per = 10 if chk.tier == 'thorough' else 5
    fields = []
    for n in names:
        if n in runner.failed:
            continue
        for j in range(per):
            toks = sc.rand_field(chk.rng, n, max_extent=3 if j else 1, min_extent=0 if j == per - 1 else 1)
            fields.append((n, toks))
    # payloads longer than any plausible internal block, and not a multiple of a power of two
    for n, sz in [('array.1.f32', [700]), ('array.3.f64', [513]), ('strided.2.u64/array.2.f32', [25, 41]), ('morton.2.u64.p/array.1.f64', [37, 20]), ('clamp/strided.1.u64/array.1.f64', [1500])]:
        if n in names and n not in runner.failed and 'probe' not in n:
            fields.append((n, sc.rand_field(chk.rng, n, sizes=sz, data_mode='nice') if not n.startswith('array') else
                           [sz[0]] + [sc.rand_scalar(chk.rng, n.split('.')[-1], 'nice') for _ in range(sz[0] * int(n.split('.')[1]))]))
    if replay:
        import json
        fields = [(c[0], c[1]) for c in json.load(open(replay)).get('replay', {}).get('cases', [])] or fields
    # phase 1: the bytes (model writer; the implementation's own when the model is unavailable)
    l1 = [f'{i} {n} new 0 ' + ' '.join(map(str, t)) + ' | dump 0' for i, (n, t) in enumerate(fields)]
    m1, i1 = runner.run(l1)
    first_cfg = next(iter(runner.exes))
    lines = []
    for i, (n, t) in enumerate(fields):
        b = None
        if str(i) in m1 and ' | B ' in m1[str(i)]:
            b = m1[str(i)].split(' | B ')[1]
        elif str(i) in i1.get(first_cfg, {}) and ' | B ' in i1[first_cfg][str(i)]:
            b = i1[first_cfg][str(i)].split(' | B ')[1]
        if b is None:
            continue
        lines.append(f'{i} {n} new 0 ' + ' '.join(map(str, t)) + f' | cfg 0 | sto 0 | dump 0 | load 1 {b} | cfg 1 | sto 1 | dump 1')
    model, impl = runner.run(lines)
    nd = 0
    for l in lines:
        id_ = l.split(' ', 1)[0]
        n, t = fields[int(id_)]
        chk.count_case((n, tuple(t)), len(t) > 0)
        m = model.get(id_)
        for cfg in impl:
            a = impl[cfg].get(id_)
            if a is None:
                continue
            parts = a.split(' | ')
            if len(parts) != 8 or parts[0] != 'OK' or parts[4] != 'LOADED':
                chk.violation('dump/load fails: ' + n.split('/')[0].split('.')[0], f'{n} in build {cfg}: {a[:300]}', {'cases': [[n, t]], 'impl': a[:2000], 'build': cfg})
                continue
            if parts[7] != parts[3]:
                chk.violation('re-dump differs: ' + n.split('/')[0].split('.')[0], f'{n} in build {cfg}: dumping the reloaded field does not give the same bytes', {'cases': [[n, t]], 'first': parts[3], 'second': parts[7], 'build': cfg})
            elif parts[5] != parts[1] or parts[6] != parts[2]:
                chk.violation('loaded field differs: ' + n.split('/')[0].split('.')[0], f'{n} in build {cfg}: configuration or storage of the loaded field differs from the original', {'cases': [[n, t]], 'impl': a[:2000], 'build': cfg})
            elif m is not None and a != m and nd < 8:
                nd += 1
                mp = m.split(' | ')
                which = [k for k in range(min(len(mp), 8)) if mp[k] != parts[k]]
                chk.obligation_broken(f'correspondence of the byte format for {n} ({cfg}), op #{which}', f'impl {a[:600]} model {m[:600]}')
        if int(id_) % 37 == 0:
            chk.sample({'stack': n, 'tokens': t[:12], 'model': (m or '')[:200], 'impl': {c: (impl[c].get(id_) or '')[:200] for c in impl}})
    chk.cov['disagreements_checked'] = len(lines)
    chk.cov['programs'] = len(names)
    return chk.finish()
