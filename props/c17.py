"""C17 -- a field's configuration can be read back and used to rebuild it."""
import json
from vlib import core, pair, stacks
from props import stack_common as sc
from props.c02 import geom_field, rand_coord, canon, small_coords


def deep_stacks(r, thorough):
    """depth 1..10 (counting the primitive), built from layers whose configurations have the same type so that any
    mis-ordering of same-typed arguments shows"""
    out = ['identity.2.f32', 'constant.2.f32.2.f32']
    for d in range(2, 11):
        lay = []
        for i in range(d - 1):
            lay.append(['clamp', 'backup', 'clamp', 'affine'][(i + d) % 4])
        out.append('/'.join(lay + ['identity.2.f32']))
    # towers of ONE layer kind whose configurations all have the same C++ type (algebra::affine<N,T>): a helper that swaps
    # two arguments still compiles there, and only the read-back shows it
    for d in range(2, 11):
        out.append('/'.join(['affine'] * (d - 1) + ['identity.1.f32']))
    out += ['affine/affine/affine/affine/affine/identity.2.f64']
    out += ['clamp/clamp/clamp/identity.3.i32', 'backup/backup/constant.2.u64.2.f64', 'clamp/clamp/clamp/clamp/clamp/clamp/clamp/clamp/clamp/identity.1.f64',
            'affine/affine/affine/identity.2.f64', 'clamp/strided.2.u64/array.1.f32', 'backup/clamp/strided.3.u64/array.2.f64',
            'affine/linear.f32/clamp/backup/strided.2.u64/array.1.f32', 'clamp/nearest.f32/morton.2.u64.p/array.1.f32', 'backup/hilbert.u64/array.2.f64',
            'strided.1.u32/identity.1.u64', 'strided.2.u32/identity.1.u64', 'strided.2.i32/identity.1.u64', 'clamp/strided.2.u32/identity.1.u64']
    return [o for o in dict.fromkeys(out) if stacks.kind_of(o) is not None]


def cfg_only_tokens(name, toks):
    """the tokens of `new` without the storage contents (array: keep the length)"""
    p = stacks.parse(name)[-1]
    if p[0] == 'array':
        return toks[:sc.cfg_token_count(name) + 1]
    return toks


def run(replay=None):
    chk = core.Check('C17', 'proof')
    thorough = chk.tier == 'thorough'
    chk.cov['rule'] = (
        'stacks of depth 1..10 made of layers with same-typed, pairwise distinct configurations (so that any mis-ordering shows), plus the catalogue: (a) construct through '
        'make_parameter_pack_for from the positional configurations, read every layer\'s configuration back through get_configuration() and the get_backend() chain: must equal what was passed, in order '
        '(independent oracle: the generated tokens themselves), storage zero-initialised, also with array storage configured longer than the extents above it need, and with extents beyond the range of a narrow coordinate type; (b) construct from configurations and storage, read both back, rebuild a second field from what was read: '
        'configurations, storage, dump bytes and the value at sampled coordinates must be identical; compared with the model (parse_layers / fld_cfg_groups, theorems C17_*). '
        'A case = (stack, tokens); non-trivial = at least two configured layers; distinct by those.')
    with core.Lock('coq'):
        rep, tlog = core.translate()
    for u in rep['untranslatable']:
        if u['group'] == 'Ppf':
            chk.obligation_broken('reading of ' + u['name'], u['why'])
    chk.cov['helper_overloads_in_source'] = [o['depth'] for o in rep.get('ppf', {}).get('overloads', [])] if isinstance(rep.get('ppf'), dict) else None
    chk.prove('Properties_C17.v')
    r = chk.rng
    names = deep_stacks(r, thorough) + [n for n in sc.catalogue(chk, extra_random=12 if thorough else 4) if 'probe' not in n]
    names = list(dict.fromkeys(names))
    runner = sc.StackRunner(chk, 'cf', names, shard_size=8)
    for s, log in runner.failed.items():
        chk.violation('stack does not compile: ' + '/'.join(l.split('.')[0] for l in s.split('/')), f'{s} is rejected by the compiler: {sc.first_error(log)}',
                      {'stack': s, 'compiler_output': log[-3000:]})
    names = [n for n in names if n not in runner.failed]
    cases = []
    for n in names:
        k = stacks.kind_of(n)
        for j in range(3 if thorough else 2):
            toks, ext = geom_field(r, n) if j == 0 else (sc.rand_field(r, n, max_extent=3, data_mode='nice', cfg_mode='nice', ordered=True), [4] * 5)
            coords = [small_coords(r, k) if j else rand_coord(r, k, ext, q % 5) for q in range(4)]
            cases.append((n, toks, coords))
        if any(x[0] in ('strided', 'morton', 'hilbert') for x in stacks.parse(n)) and n.split('/')[-1].startswith('array'):
            # storage configured LONGER than the extents need: the array's own configuration is then not derivable from the layer above it
            toks = sc.rand_field(r, n, max_extent=3, data_mode='nice', cfg_mode='nice', ordered=True, slack=r.range(1, 9))
            cases.append((n, toks, [small_coords(r, k) for q in range(4)]))
    # extents that do not fit the index scalar of the layer's coordinate vector (legal: extents are size_t whatever the coordinate
    # type; the identity primitive beneath makes huge extents cost nothing): they must be reported as configured
    for n, toks, coords in [('strided.1.u32/identity.1.u64', [2 ** 32 + 7], [[0], [5], [4000000000]]),
                            ('strided.2.u32/identity.1.u64', [2 ** 32 + 1, 3], [[0, 0], [7, 2]]),
                            ('strided.2.i32/identity.1.u64', [2 ** 31 + 5, 2], [[0, 1], [3, 0]]),
                            ('clamp/strided.2.u32/identity.1.u64', [0, 0, 9, 2, 2 ** 40, 3], [[1, 1], [100, 100]])]:
        if n in names and n not in runner.failed:
            cases.append((n, toks, coords))
    if replay:
        rp = json.load(open(replay)).get('replay', {})
        if rp.get('cases'):
            cases = [(c[0], c[1], c[2]) for c in rp['cases']]
    # phase 1 (model): configurations / storage, and which coordinates are in-domain
    l1 = [f'{i} {n} new 0 ' + ' '.join(map(str, t)) + ' | cfg 0 | sto 0' + ''.join(' | at 0 ' + ' '.join(map(str, c)) for c in cs) for i, (n, t, cs) in enumerate(cases)]
    model1 = {}
    if runner.driver:
        rc, model1, err = pair.run_model(runner.driver, l1)
    lines = []
    keep = {}
    for i, (n, t, cs) in enumerate(cases):
        parts = model1.get(str(i), '').split(' | ')
        if len(parts) != 3 + len(cs) or parts[0] != 'OK':
            chk.obligation_broken(f'model cannot build a field of {n}', model1.get(str(i), '')[:300])
            continue
        good = [c for c, a in zip(cs, parts[3:]) if a.startswith('V')]
        keep[str(i)] = good
        ct = cfg_only_tokens(n, t)
        ats0 = ''.join(f' | at 0 {" ".join(map(str, c))}' for c in good)
        ats1 = ''.join(f' | at 1 {" ".join(map(str, c))}' for c in good)
        # rebuild: slot 1 from the tokens that slot 0 reports (the python side re-assembles them from cfg/sto of the model run, which the impl must match)
        cfg_groups = [g.split() for g in parts[1][1:].split(';')[1:]]
        sto = parts[2].split()[1:]
        layers_cfg = [x for g in cfg_groups[:-1] for x in g]
        prim_toks = sto if sto != ['-'] else cfg_groups[-1]
        rebuilt = layers_cfg + prim_toks
        lines.append(f'{i} {n} newp 2 ' + ' '.join(map(str, ct)) + ' | cfg 2 | sto 2 | new 0 ' + ' '.join(map(str, t)) + ' | cfg 0 | sto 0 | dump 0' + ats0 +
                     ' | new 1 ' + ' '.join(rebuilt) + ' | cfg 1 | sto 1 | dump 1' + ats1)
    model, impl = runner.run(lines)
    for l in lines:
        id_ = l.split(' ', 1)[0]
        n, t, _ = cases[int(id_)]
        good = keep[id_]
        kk = stacks.kind_of(n)
        ncfg = sum(1 for x in stacks.parse(n) if x[0] in ('clamp', 'backup', 'affine', 'strided', 'morton', 'hilbert'))
        chk.count_case((n, tuple(t)), ncfg >= 2)
        m = canon(model.get(id_, ''), kk.tv, kk.tc)
        ct = cfg_only_tokens(n, t)
        for cfg in impl:
            a = canon(impl[cfg].get(id_, 'MISSING'), kk.tv, kk.tc)
            if a == 'SKIPPED':
                continue
            ap = a.split(' | ')
            ng = len(good)
            if len(ap) != 11 + 2 * ng or ap[0] != 'OK' or ap[3] != 'OK' or ap[7 + ng] != 'OK':
                chk.violation('construction from configurations fails: ' + n.split('/')[0].split('.')[0], f'{n} in build {cfg}: {a[:300]}', {'cases': [[n, t, good]], 'impl': a[:1500], 'build': cfg})
                continue
            # (a) positional construction: the groups read back, concatenated, are the tokens passed
            back = [x for g in ap[1][1:].split(';')[1:] for x in g.split()]
            if back != [str(x) for x in ct]:
                chk.violation('configuration read back differs from the one passed to make_parameter_pack_for', f'{n} ({cfg}): passed {ct[:24]}, read back {back[:24]}',
                              {'cases': [[n, t, good]], 'impl': ap[1][:600], 'build': cfg})
            back0 = [x for g in ap[4][1:].split(';')[1:] for x in g.split()]
            if back0 != [str(x) for x in ct]:
                chk.violation('configuration read back differs from the one the field was constructed with', f'{n} ({cfg}): constructed with {ct[:24]}, read back {back0[:24]}',
                              {'cases': [[n, t, good]], 'impl': ap[4][:600], 'build': cfg})
            # (b) the rebuilt field is the original
            o = ap[4:7 + ng]
            rb = ap[8 + ng:11 + 2 * ng]
            if o != rb:
                which = [q for q in range(len(o)) if o[q] != rb[q]]
                chk.violation('field rebuilt from its reported configuration differs from the original', f'{n} ({cfg}): differs in {[["configuration", "storage", "dump"][q] if q < 3 else "value at " + str(good[q - 3]) for q in which]}',
                              {'cases': [[n, t, good]], 'original': ' | '.join(o)[:800], 'rebuilt': ' | '.join(rb)[:800], 'build': cfg})
            if m and a != m:
                mp = m.split(' | ')
                which = [q for q in range(min(len(mp), len(ap))) if mp[q] != ap[q]]
                chk.obligation_broken(f'correspondence model/impl on construction of {n} ({cfg}), part {which[:3]}', f'impl {ap[which[0]][:300] if which else a[:300]} model {mp[which[0]][:300] if which else m[:300]}')
        if int(id_) % 19 == 0:
            chk.sample({'stack': n, 'tokens': t[:16], 'model': m[:200], 'impl': {c: (impl[c].get(id_) or '')[:200] for c in impl}})
    chk.cov['max_depth'] = max(len(stacks.parse(n)) for n in names)
    chk.cov['disagreements_checked'] = len(lines)
    chk.cov['programs'] = len(names)
    return chk.finish()
