"""C12 -- fields stay independent values under any history of copy, move, assign, destroy."""
import itertools, json
from vlib import core, pair, stacks
from props import stack_common as sc

TYPES = ['array.1.f32', 'strided.2.u64/array.2.f32', 'morton.2.u64.p/array.1.f32', 'hilbert.u64/array.1.f64', 'clamp/strided.2.u64/array.1.f32', 'strided.1.u64/array.3.f64']


def shape_info(name):
    """(number of coordinate components, M, scalar type)"""
    k = stacks.kind_of(name)
    return k.n, k.m, k.tv


def coords_of(name, sizes):
    if name.startswith('array'):
        return [[i] for i in range(sizes[0])]
    return [list(c) for c in itertools.product(*[range(s) for s in sizes])]


PAIRS = [('strided.2.u64/array.1.f32', 'morton.2.u64.p/array.1.f32'), ('strided.2.u64/array.2.f32', 'morton.2.u64.b/array.2.f32')]


def pair_ops(tname):
    """alphabet for the exhaustive histories over two pools (slots 0,1 of the first type, 2,3 of the second): non-cubic extents"""
    n, m, tv = shape_info(tname.split('+')[0])
    sz0, sz1 = [3, 2], [1, 3]
    d0 = [sc.fbits(tv, float(i + 1)) for i in range(6 * m)]
    d1 = [sc.fbits(tv, float(10 * (i + 1))) for i in range(3 * m)]
    w = [sc.fbits(tv, 99.5)] * m
    return [('C', 0, sz0, d0), ('C', 2, sz1, d1), ('W', 0, 5, w), ('W', 2, 2, w), ('W', 3, 4, w), ('W', 1, 1, w), ('V', 2, 0), ('V', 3, 0), ('V', 0, 2), ('V', 1, 2), ('V', 1, 3), ('U', 0, 2), ('U', 2, 0),
            ('K', 1, 0), ('K', 3, 2), ('A', 0, 1), ('A', 2, 3), ('A', 3, 2), ('L', 3, 2), ('L', 1, 0), ('M', 3, 2), ('B', 2, 3), ('D', 0), ('D', 2)]


class Mirror:
    """value semantics, mirrored in python only to GENERATE in-contract histories and to know which slots may be read;
    the Coq model (both levels) is what the implementation is compared with"""

    def __init__(self, n, per_pool=None):
        self.s = [None] * n        # None | ('F', sizes, data) | ('H', sizes)
        self.per_pool = per_pool or n

    def pool(self, g):
        return g // self.per_pool

    def ok(self, op):
        k = op[0]
        s = self.s
        if k == 'C':
            return s[op[1]] is None
        if k == 'W':
            return s[op[1]] is not None and s[op[1]][0] == 'F' and op[2] < len(coords_of(self.name, s[op[1]][1]))
        if k in ('V', 'U'):   # layout conversion: construct a field of the OTHER type from a field (U: from an rvalue)
            return self.pool(op[1]) != self.pool(op[2]) and s[op[1]] is None and s[op[2]] is not None and s[op[2]][0] == 'F'
        if k in ('K', 'M', 'L', 'A', 'B') and self.pool(op[1]) != self.pool(op[2]):
            return False
        if k in ('K', 'M', 'L'):
            return s[op[1]] is None and s[op[2]] is not None and (k == 'M' or s[op[2]][0] == 'F')
        if k in ('A', 'B'):
            return s[op[1]] is not None and s[op[2]] is not None and (s[op[2]][0] == 'F' or op[1] == op[2])
        if k == 'D':
            return s[op[1]] is not None
        return False

    def apply(self, op):
        k = op[0]
        s = self.s
        if k == 'C':
            s[op[1]] = ('F', op[2], list(op[3]))
        elif k == 'W':
            t = s[op[1]]
            d = list(t[2])
            m = len(op[3])
            d[op[2] * m:(op[2] + 1) * m] = op[3]
            s[op[1]] = ('F', t[1], d)
        elif k in ('K', 'L', 'V', 'U'):
            # U: the converting constructors take their source by const reference, so even an rvalue source keeps its value
            s[op[1]] = s[op[2]]
        elif k == 'M':
            s[op[1]] = s[op[2]]
            s[op[2]] = ('H', s[op[2]][1])
        elif k == 'A':
            if op[1] != op[2]:
                s[op[1]] = s[op[2]]
        elif k == 'B':
            if op[1] != op[2]:
                s[op[1]] = s[op[2]]
                s[op[2]] = ('H', s[op[2]][1])
        elif k == 'D':
            s[op[1]] = None


def render(tname, nslots, ops):
    """(model line args, harness ops string, list per op of [(slot, coord, expected cell)]); tname is one type, or 'A+B' for a
    history over two pools of nslots/2 slots each (pool 0 of type A, pool 1 of type B) with layout conversions between them"""
    tys = tname.split('+')
    per = nslots // len(tys)
    n, m, tv = shape_info(tys[0])
    mir = Mirror(nslots, per)
    mir.name = tys[0]
    mops, hops, reads = [], [], []

    def on(g):
        return f'on {tys[g // per]} ' if len(tys) > 1 else ''

    def loc(g):
        return g % per

    for op in ops:
        k = op[0]
        name = tys[op[1] // per]
        if k == 'C':
            _, d, sizes, data = op
            mops.append(f'C {d} ' + ' '.join(map(str, data)))
            cs = coords_of(name, sizes)
            if name.startswith('array'):
                hops.append(on(d) + f'new {loc(d)} {sizes[0]} ' + ' '.join(map(str, data)))
            else:
                cap = 1
                for s_ in sizes:
                    cap *= s_
                if 'strided' not in name:
                    cap = sc.curve_cap(sizes)
                lk, p = sc.layer_kinds(name)
                pre = []
                for l, kk in lk:
                    if l[0] in ('strided', 'morton', 'hilbert'):
                        pre += sizes
                    elif l[0] == 'clamp':
                        pre += [0] * kk.n + [s_ - 1 for s_ in sizes]
                hops.append(on(d) + f'new {loc(d)} ' + ' '.join(map(str, pre)) + f' {cap} ' + ' '.join(['0'] * (cap * m)))
                for i, c in enumerate(cs):
                    hops.append(on(d) + f'wr {loc(d)} ' + ' '.join(map(str, c)) + ' ' + ' '.join(map(str, data[i * m:(i + 1) * m])))
        elif k == 'W':
            _, s_, cell, vals = op
            for j, v in enumerate(vals):
                mops.append(f'W {s_} {cell * m + j} {v}')
            c = coords_of(name, mir.s[s_][1])[cell]
            hops.append(on(s_) + f'wr {loc(s_)} ' + ' '.join(map(str, c)) + ' ' + ' '.join(map(str, vals)))
        elif k in ('V', 'U'):
            # construct the field in slot op[1] (other storage order) from the field in slot op[2]; value semantics: a copy
            mops.append(f'K {op[1]} {op[2]}')
            hops.append(f'on {tys[op[2] // per]} conv {tys[op[1] // per]} {loc(op[1])} {loc(op[2])}' + (' move' if k == 'U' else ''))
        else:
            code = {'K': 'copy', 'M': 'move', 'A': 'cassign', 'B': 'massign', 'D': 'del', 'L': 'reload'}[k]
            mops.append(' '.join(['K' if k == 'L' else k] + [str(x) for x in op[1:]]))
            hops.append(on(op[1]) + code + ' ' + ' '.join(str(loc(x)) for x in op[1:]))
        mir.apply(op)
        rd = []
        for s_ in range(nslots):
            t = mir.s[s_]
            if t is not None and t[0] == 'F':
                for i, c in enumerate(coords_of(name, t[1])):
                    rd.append((s_, c, t[2][i * m:(i + 1) * m]))
        hops.append(' | '.join(on(s_) + f'live {loc(s_)}' for s_ in range(nslots)))
        for s_, c, _ in rd:
            hops.append(on(s_) + f'at {loc(s_)} ' + ' '.join(map(str, c)))
        reads.append((rd, [mir.s[s_] for s_ in range(nslots)], sum(1 for o in [op] if o[0] == 'W') * (m - 1)))
    return mops, hops, reads


def small_ops(name, r):
    n, m, tv = shape_info(name)
    sz0 = [2] if name.startswith('array') or n == 1 else [2, 1]
    sz1 = [3] if name.startswith('array') or n == 1 else [1, 2]
    d0 = [sc.fbits(tv, float(i + 1)) for i in range(len(coords_of(name, sz0)) * m)]
    d1 = [sc.fbits(tv, float(10 * (i + 1))) for i in range(len(coords_of(name, sz1)) * m)]
    w = [sc.fbits(tv, 99.5)] * m
    return [('C', 0, sz0, d0), ('C', 1, sz1, d1), ('W', 0, 0, w), ('W', 1, 1, w), ('K', 0, 1), ('K', 1, 0), ('L', 0, 1), ('L', 1, 0), ('M', 0, 1), ('M', 1, 0),
            ('A', 0, 0), ('A', 0, 1), ('A', 1, 0), ('A', 1, 1), ('B', 0, 0), ('B', 0, 1), ('B', 1, 0), ('B', 1, 1), ('D', 0), ('D', 1)]


def valid(name, nslots, ops, per=None):
    mir = Mirror(nslots, per)
    mir.name = name.split('+')[0]
    for op in ops:
        if not mir.ok(op):
            return False
        mir.apply(op)
    return True


def random_history(tname, r, nslots, length):
    tys = tname.split('+')
    name = tys[0]
    n, m, tv = shape_info(name)
    mir = Mirror(nslots, nslots // len(tys))
    mir.name = name
    ops = []
    tries = 0
    while len(ops) < length and tries < length * 40:
        tries += 1
        k = r.choice(['C', 'W', 'W', 'K', 'L', 'M', 'A', 'A', 'B', 'D'] + (['V'] * 3 + ['U'] * 2 if len(tys) > 1 else []))
        a, b = r.below(nslots), r.below(nslots)
        if k == 'C':
            sizes = [r.range(1, 4)] if (name.startswith('array') or n == 1) else [r.range(1, 3 if len(tys) == 1 else 6) for _ in range(n)]
            nc = len(coords_of(name, sizes))
            op = ('C', a, sizes, [sc.rand_scalar(r, tv, 'nice') for _ in range(nc * m)])
        elif k == 'W':
            t = mir.s[a]
            if t is None or t[0] != 'F' or not coords_of(name, t[1]):
                continue
            op = ('W', a, r.below(len(coords_of(name, t[1]))), [sc.rand_scalar(r, tv, 'nice') for _ in range(m)])
        elif k == 'D':
            op = ('D', a)
        else:
            op = (k, a, b if r.below(8) else a)
        if mir.ok(op):
            mir.apply(op)
            ops.append(op)
    return ops


def run(replay=None):
    chk = core.Check('C12', 'proof')
    thorough = chk.tier == 'thorough'
    chk.cov['rule'] = (
        'operation histories over a pool of field slots of one type (array / row-major / Morton / Hilbert / clamp-over-row-major storage, 1..3 output components, float and double): construction from data, '
        'writes through a view, copy and move construction, construction from a dump of another field, copy and move assignment INCLUDING self-assignment, destruction; and histories over TWO pools of different storage order '
        '(row-major and Morton, non-cubic extents) with LAYOUT CONVERSION between them (from an lvalue and from an rvalue source) (every in-contract history of length <= 3 that starts with a construction and contains a conversion, plus seeded random ones over 4+4 slots). EXHAUSTIVE: every in-contract history of length <= 3 over 2 slots '
        '(20 parametrised operations, a dump-and-reload construction among them; length <= 4 for the plain array type in the thorough tier) for each field type; seeded random histories of length 40 over 4 slots (longer in the thorough tier). After EVERY operation every live, non-moved-from field is read back at '
        'EVERY coordinate through a fresh view and compared with the run of the Coq ownership model (concrete level, which the theorem C12_history_refines proves equal to plain value semantics); the process runs under '
        'ASan + LeakSanitizer + UBSan in an assertion build and in -O2 -DNDEBUG, so a double free, use after free, leak or value-returning function that returns nothing is a failure. '
        'A case = (field type, history); non-trivial = contains at least one copy/move/assign; distinct by those.')
    with core.Lock('coq'):
        rep, tlog = core.translate()
    for u in rep['untranslatable']:
        if u['group'] == 'Own':
            chk.obligation_broken('reading of ' + u['name'], u['why'])
    chk.cov['special_members_in_source'] = {k: v for k, v in rep.get('own', {}).items() if k != 'problems'} if isinstance(rep.get('own'), dict) else None
    chk.prove('Properties_C12.v')
    r = chk.rng
    with core.Lock('ocaml'):
        driver, dlog = core.build_driver('own')
    if not driver:
        chk.obligation_broken('extracted model (own) does not build', dlog)
    convs = [(a, b) for a, b in PAIRS] + [(b, a) for a, b in PAIRS]
    alltypes = TYPES + [x for pr in PAIRS for x in pr if x not in TYPES]
    runner = sc.StackRunner(chk, 'ow', alltypes, conversions=convs, shard_size=3)
    for s, log in runner.failed.items():
        chk.violation('stack does not compile: ' + '/'.join(l.split('.')[0] for l in s.split('/')), f'{s} is rejected by the compiler: {sc.first_error(log)}', {'stack': s, 'compiler_output': log[-3000:]})
    types = [t for t in TYPES if t not in runner.failed]
    hist = []   # (type, nslots, ops)
    for t in types:
        alpha = small_ops(t, r)
        maxlen = 3
        use = alpha
        if not thorough and t not in ('array.1.f32', 'strided.2.u64/array.2.f32'):
            maxlen = 2
        if thorough and t == 'array.1.f32':
            maxlen = 4
        for ln in range(1, maxlen + 1):
            for seq in itertools.product(use, repeat=ln):
                if valid(t, 2, seq):
                    hist.append((t, 2, list(seq)))
        for _ in range(12 if thorough else 4):
            hist.append((t, 4, random_history(t, r, 4, 120 if thorough else 40)))
    for a, b in PAIRS:
        if a in runner.failed or b in runner.failed:
            continue
        t = a + '+' + b
        alpha = pair_ops(t)
        for ln in range(1, 5 if thorough else 4):
            for seq in itertools.product(alpha, repeat=ln):
                if seq[0][0] == 'C' and valid(t, 4, seq, 2) and (ln < 3 or any(o[0] in 'VU' for o in seq)):
                    hist.append((t, 4, list(seq)))
        for _ in range(12 if thorough else 4):
            hist.append((t, 8, random_history(t, r, 8, 120 if thorough else 40)))
    if replay:
        rp = json.load(open(replay)).get('replay', {})
        if rp.get('cases'):
            hist = [(c[0], c[1], [tuple(o) for o in c[2]]) for c in rp['cases']]
    chk.cov['exhaustive'] = not replay
    mlines, hlines, allreads = [], [], []
    for i, (t, ns, ops) in enumerate(hist):
        mops, hops, reads = render(t, ns, ops)
        mlines.append(f'{i} hist {ns} ' + ' ; '.join(mops))
        hlines.append(f'{i} {t.split("+")[0]} ' + ' | '.join(hops))
        allreads.append(reads)
    model = {}
    if driver:
        rc, model, err = pair.run_model(driver, mlines)
        if rc:
            chk.obligation_broken('extracted model crashed', err[-2000:])
    # the implementation, per build; LeakSanitizer reports at process exit
    impl = {}
    for cfg, exes in runner.exes.items():
        by_exe = {}
        for l in hlines:
            by_exe.setdefault(exes.get(l.split(' ', 2)[1]), []).append(l)
        ans = {}
        for exe, ls in by_exe.items():
            if exe is None:
                continue
            rc, a, err = pair.run_impl(exe, ls, timeout=600)
            ans.update(a)
            if 'LeakSanitizer' in err:
                first = [x for x in err.split('\n') if 'leak of' in x][:2]
                chk.violation('memory leaked', f'LeakSanitizer reports leaks after the histories of {ls[0].split(" ", 2)[1]} in build {cfg}: {first}', {'build': cfg, 'stderr': err[-3000:]}, found_input=False)
            missing = [l for l in ls if l.split(' ', 1)[0] not in a]
            if missing:
                # find the culprits one by one
                a2 = pair.run_impl_isolated(exe, missing, max_bad=6)
                ans.update(a2)
        impl[cfg] = ans
    for i, (t, ns, ops) in enumerate(hist):
        id_ = str(i)
        t0 = t.split('+')[0]
        n, m, tv = shape_info(t0)
        chk.count_case((t, json.dumps(ops)), any(o[0] in 'KMABLVU' for o in ops))
        mo = model.get(id_)
        # model groups: one per model op; writes of M components produce M groups -> keep the last of each
        mg = mo.split(' | ') if mo else None
        if mg is not None and any(g in ('REJ', 'ERR') or g.startswith('MODEL_LEVELS_DIFFER') for g in mg):
            chk.obligation_broken('ownership model rejects or fails on a history the generator considers in-contract', f'{t}: {ops} -> {mo[:300]}')
            continue
        # expected, per op, from the model's slot states
        exp_states = []
        if mg is not None:
            gi = 0
            for op in ops:
                gi += (m if op[0] == 'W' else 1)
                exp_states.append(mg[gi - 1].split(' '))
        for cfg in impl:
            a = impl[cfg].get(id_, 'MISSING')
            if a == 'SKIPPED':
                continue
            parts = a.split(' | ')
            pos = 0
            bad = None
            for oi, op in enumerate(ops):
                rd, states, _ = allreads[i][oi]
                nh = (1 + (len(coords_of(t0, op[2])) if not t0.startswith('array') else 0)) if op[0] == 'C' else 1
                seg = parts[pos:pos + nh + ns + len(rd)]
                pos += nh + ns + len(rd)
                if len(parts) == 1 and parts[0].startswith(('CRASH', 'TIMEOUT', 'MISSING')):
                    # the process died: the harness prints nothing for the case, so the whole history is the replay
                    bad = (len(ops) - 1, 'the process dies somewhere in this history: ' + parts[0][:300])
                    break
                if len(seg) < nh + ns + len(rd) or any(x.startswith(('CRASH', 'EXCEPTION', 'TIMEOUT', 'MISSING')) for x in seg):
                    bad = (oi, 'operation fails: ' + ' '.join(x for x in seg if not x.startswith(('V', 'OK', '0', '1')))[:300] + (a[:200] if not seg else ''))
                    break
                lives = seg[nh:nh + ns]
                for s_ in range(ns):
                    if (states[s_] is not None) != (lives[s_] == '1'):
                        bad = (oi, f'slot {s_} is {"engaged" if lives[s_] == "1" else "empty"}')
                        break
                if bad:
                    break
                vals = seg[nh + ns:]
                for (s_, c, cell), got in zip(rd, vals):
                    want = 'V ' + ' '.join(map(str, cell))
                    if exp_states:
                        es = exp_states[oi][s_]
                        if es.startswith('F'):
                            md = es[1:].split(',')
                            ci = coords_of(t0, states[s_][1]).index(c)
                            want_m = 'V ' + ' '.join(md[ci * m:(ci + 1) * m])
                            if want_m != want:
                                chk.obligation_broken('python mirror and Coq model disagree', f'{t} {ops[:oi + 1]}: {want_m} vs {want}')
                    if got != want:
                        bad = (oi, f'field in slot {s_} reads {got} at coordinate {c}, value semantics gives {want}')
                        break
                if bad:
                    break
            if bad:
                oi, what = bad
                kinds = ''.join(o[0] for o in ops[:oi + 1])
                chk.violation(f'history diverges from value semantics after {ops[oi][0]}' + (' (self)' if ops[oi][0] in 'AB' and ops[oi][1] == ops[oi][2] else ''),
                              f'{t} in build {cfg}: after operation #{oi} of {[o if o[0] not in "C" else ("C", o[1], o[2]) for o in ops[:oi + 1]]}: {what}',
                              {'cases': [[t, ns, [list(o) for o in ops[:oi + 1]]]], 'impl': a[:1500], 'build': cfg})
        if i % 211 == 0:
            chk.sample({'type': t, 'history': [list(o) if o[0] != 'C' else ['C', o[1], o[2]] for o in ops][:8], 'model': (mo or '')[:200], 'impl': {c: (impl[c].get(id_) or '')[:120] for c in impl}})
    chk.cov['histories'] = len(hist)
    chk.cov['disagreements_checked'] = len(hist)
    chk.cov['programs'] = len(types)
    return chk.finish()
