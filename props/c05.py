"""C05 -- changing representation preserves the field."""
import itertools, json
from vlib import core, pair, stacks
from props import stack_common as sc
from props.c02 import canon


def orders(n, tc='u64'):
    out = [f'strided.{n}.{tc}', f'morton.{n}.{tc}.b', f'morton.{n}.{tc}.p']
    if n == 2:
        out.append(f'hilbert.{tc}')
    return out


def coords(sizes):
    return [list(c) for c in itertools.product(*[range(s) for s in sizes])]


def run(replay=None):
    chk = core.Check('C05', 'proof')
    thorough = chk.tier == 'thorough'
    chk.cov['rule'] = (
        'every ordered pair of storage orders {row-major, Morton BMI2, Morton portable, Hilbert (N=2)} over array storage, N in 1..4, 1..3 output components, float and double: a source field with seeded contents is converted '
        '(copying constructor) into the target type and back, for EVERY extent vector with extents <= 3 (quick; <= 4 thorough, N <= 3) plus seeded larger non-square ones; whole-stack conversions '
        'affine<I1<L1<array>>> -> affine<I2<L2<array>>> for I in {nearest, linear}. Oracle: the target reports the same configuration at every layer and the same value at EVERY lattice coordinate, the source is unchanged, '
        'converting back reproduces the original. Correspondence: configuration, the WHOLE storage (padding cells included) and the dump of the converted field equal those of the Coq conversion model '
        '(Convert.convert = the copy loop of Relayout.v, for which C05_relayout_preserves / C05_relayout_back are proved over any two layouts). Builds: assertions + ASan/UBSan, and -O2 -DNDEBUG. '
        'A case = (source type, target type, extents, contents); non-trivial = more than one cell; distinct by those.')
    with core.Lock('coq'):
        rep, tlog = core.translate()
    for u in rep['untranslatable']:
        if u['group'] == 'Copy':
            chk.obligation_broken('reading of ' + u['name'], u['why'])
    chk.cov['copy_schemes_in_source'] = rep.get('copy', {}).get('schemes') if isinstance(rep.get('copy'), dict) else None
    chk.prove('Properties_C05.v')
    r = chk.rng
    pairs = []
    prim_of = {1: 'array.1.f32', 2: 'array.2.f64', 3: 'array.3.f32', 4: 'array.1.f64'}
    for n in (1, 2, 3, 4):
        os_ = orders(n)
        for a in os_:
            for b in os_:
                if a != b:
                    pairs.append((f'{a}/{prim_of[n]}', f'{b}/{prim_of[n]}'))
    # other coordinate types, whole stacks
    pairs += [('strided.2.i32/array.1.f32', 'morton.2.i32.p/array.1.f32'), ('morton.2.u32.b/array.2.f32', 'strided.2.u32/array.2.f32'), ('hilbert.i32/array.1.f64', 'strided.2.i32/array.1.f64')]
    whole = []
    for i1, i2 in (('nearest', 'linear'), ('linear', 'nearest'), ('linear', 'linear'), ('nearest', 'nearest')):
        for l1, l2 in (('strided.3.u64', 'morton.3.u64.b'), ('morton.2.u64.p', 'hilbert.u64'), ('hilbert.u64', 'strided.2.u64'), ('strided.2.u64', 'strided.2.u64')):
            m = 3 if '3' in l1.split('.')[1] else 1
            a = f'affine/{i1}.f32/{l1}/array.{m}.f32'
            b = f'affine/{i2}.f32/{l2}/array.{m}.f32'
            if a != b:
                whole.append((a, b))
    whole += [('nearest.f64/strided.2.u64/array.2.f64', 'linear.f64/morton.2.u64.b/array.2.f64'), ('linear.f32/morton.3.u64.p/array.1.f32', 'linear.f32/strided.3.u64/array.1.f32')]
    pairs += whole
    pairs = [(a, b) for a, b in pairs if stacks.kind_of(a) is not None and stacks.kind_of(b) is not None]
    convs = list(dict.fromkeys(pairs + [(b, a) for a, b in pairs]))
    names = list(dict.fromkeys([x for p in convs for x in p]))
    runner = sc.StackRunner(chk, 'cv', names, conversions=convs, shard_size=6)
    for s, log in runner.failed.items():
        chk.violation('conversion does not compile: ' + s.split('/')[0].split('.')[0], f'a conversion involving {s} is rejected by the compiler: {sc.first_error(log)}', {'stack': s, 'compiler_output': log[-3000:]})
    okc = [(a, b) for a, b in pairs if a not in runner.failed and b not in runner.failed]
    cases = []
    for a, b in okc:
        ka = stacks.kind_of(a)
        n = ka.n
        lk, p = sc.layer_kinds(a)
        m = int(p[1])
        shapes = []
        lim = (4 if n <= 3 else 3) if thorough else (3 if n <= 2 else 2)
        allshapes = list(itertools.product(range(1, lim + 1), repeat=n))
        if (a, b) in whole or not thorough:
            shapes = r.shuffle(allshapes)[:(6 if (a, b) in whole else 8)]
        else:
            shapes = allshapes
        shapes += [tuple(r.choice([5, 7, 9, 3, 6]) if n <= 2 else r.range(1, 5) for _ in range(n)) for _ in range(2)]
        for sz in shapes:
            sz = list(sz)
            toks = []
            for l, kk in lk:
                if l[0] in ('strided', 'morton', 'hilbert'):
                    toks += sz
                elif l[0] == 'affine':
                    for i in range(kk.n):
                        row = [0.0] * (kk.n + 1)
                        row[i] = r.choice([1.0, 0.5, 2.0])
                        row[kk.n] = r.choice([0.0, 0.25])
                        toks += [sc.fbits(kk.tc, v) for v in row]
            ncell = 1
            for s_ in sz:
                ncell *= s_
            cap = ncell if 'strided' in a else sc.curve_cap(sz)
            # contents: a distinct tag at every cell reachable from a coordinate, written through the storage-order layer
            toks += [cap] + [0] * (cap * m)
            cases.append((a, b, sz, toks, m, p[2]))
    if replay:
        rp = json.load(open(replay)).get('replay', {})
        if rp.get('cases'):
            cases = [tuple(c) for c in rp['cases']]
    lines = []
    meta = {}
    for i, (a, b, sz, toks, m, tv) in enumerate(cases):
        cs = coords(sz)
        # the storage-order part of the stack, used to fill and read at lattice coordinates
        def lat(name):
            ls = name.split('/')
            k = [j for j, l in enumerate(ls) if l.split('.')[0] in ('strided', 'morton', 'hilbert')][0]
            return '/'.join(ls[k:])
        ops = [f'new 0 ' + ' '.join(map(str, toks))]
        vals = {}
        direct_a = lat(a) == a
        direct_b = lat(b) == b
        for j, c in enumerate(cs):
            v = [sc.fbits(tv, float(1 + j * m + q) + 1.0 / 3.0) for q in range(m)]   # not representable in the narrower format: a detour through float shows
            vals[tuple(c)] = v
        if direct_a:
            for c in cs:
                ops.append(f'wr 0 ' + ' '.join(map(str, c)) + ' ' + ' '.join(map(str, vals[tuple(c)])))
            reads_a0 = [f'at 0 ' + ' '.join(map(str, c)) for c in cs]
        else:
            reads_a0 = []
        ops += ['cfg 0', 'sto 0'] + reads_a0
        ops.append(f'conv {b} 1 0')
        ops += [f'on {b} cfg 1', f'on {b} sto 1', f'on {b} dump 1']
        if direct_b:
            ops += [f'on {b} at 1 ' + ' '.join(map(str, c)) for c in cs]
        ops += ['cfg 0', 'sto 0']                       # the source is unchanged by a copying conversion
        ops.append(f'on {b} conv {a} 2 1')               # and back
        ops += ['cfg 2', 'sto 2'] + ([f'at 2 ' + ' '.join(map(str, c)) for c in cs] if direct_a else [])
        lines.append(f'{i} {a} ' + ' | '.join(ops))
        meta[str(i)] = (len(cs), direct_a, direct_b)
    model, impl = runner.run(lines)
    for l in lines:
        id_ = l.split(' ', 1)[0]
        a, b, sz, toks, m, tv = cases[int(id_)]
        ncs, direct_a, direct_b = meta[id_]
        nontriv = ncs > 1
        chk.count_case((a, b, tuple(sz)), nontriv)
        ka = stacks.kind_of(a)
        mo = canon(model.get(id_, ''), ka.tv, ka.tc)
        for cfg in impl:
            an = canon(impl[cfg].get(id_, 'MISSING'), ka.tv, ka.tc)
            if an == 'SKIPPED':
                continue
            ap = an.split(' | ')
            nw = ncs if direct_a else 0
            exp_len = 1 + nw + 2 + nw + 1 + 3 + (ncs if direct_b else 0) + 2 + 1 + 2 + nw
            if len(ap) != exp_len or any(x.startswith(('CRASH', 'EXCEPTION', 'TIMEOUT', 'NO_SUCH', 'MISSING')) for x in ap):
                badp = [x for x in ap if x.startswith(('CRASH', 'EXCEPTION', 'TIMEOUT', 'NO_SUCH', 'MISSING'))][:1]
                chk.violation('conversion fails: ' + a.split('/')[0].split('.')[0] + ' -> ' + b.split('/')[0].split('.')[0], f'{a} -> {b} extents {sz} in build {cfg}: {(badp or [an])[0][:300]}',
                              {'cases': [[a, b, sz, toks, m, tv]], 'impl': an[:1500], 'build': cfg})
                continue
            pos = 1 + nw
            cfg0, sto0 = ap[pos], ap[pos + 1]
            ra0 = ap[pos + 2:pos + 2 + nw]
            pos += 2 + nw + 1
            cfg1, sto1, dump1 = ap[pos], ap[pos + 1], ap[pos + 2]
            pos += 3
            rb = ap[pos:pos + (ncs if direct_b else 0)]
            pos += (ncs if direct_b else 0)
            cfg0b, sto0b = ap[pos], ap[pos + 1]
            pos += 3
            cfg2, sto2 = ap[pos], ap[pos + 1]
            ra2 = ap[pos + 2:pos + 2 + nw]
            what = None
            if cfg1.split(';')[:-1] != cfg0.split(';')[:-1]:
                what = ('the converted field reports a different configuration', f'{cfg0[:200]} became {cfg1[:200]}')
            elif direct_a and direct_b and rb != ra0:
                j = [q for q in range(ncs) if rb[q] != ra0[q]][0]
                what = ('the converted field holds a different value at a lattice coordinate', f'coordinate {coords(sz)[j]}: source {ra0[j]}, target {rb[j]}')
            elif (cfg0b, sto0b) != (cfg0, sto0):
                what = ('the source field is changed by a copying conversion', f'storage {sto0[:200]} became {sto0b[:200]}')
            elif direct_a and ra2 != ra0:
                j = [q for q in range(ncs) if ra2[q] != ra0[q]][0]
                what = ('converting back does not reproduce the original', f'coordinate {coords(sz)[j]}: original {ra0[j]}, after the round trip {ra2[j]}')
            elif cfg2.split(';')[:-1] != cfg0.split(';')[:-1]:
                what = ('converting back reports a different configuration', f'{cfg0[:200]} became {cfg2[:200]}')
            if what:
                chk.violation(f'{what[0]}: ' + a.split('/')[0].split('.')[0] + ' -> ' + b.split('/')[0].split('.')[0] if not a.startswith('affine') else f'{what[0]}: whole stack',
                              f'{a} -> {b} extents {sz} ({cfg}): {what[1]}', {'cases': [[a, b, sz, toks, m, tv]], 'build': cfg})
            elif mo and an != mo:
                mp = mo.split(' | ')
                which = [q for q in range(min(len(mp), len(ap))) if mp[q] != ap[q]][:2]
                chk.obligation_broken(f'correspondence with the conversion model: {a} -> {b} extents {sz} ({cfg}), part {which}', f'impl {ap[which[0]][:300] if which else ""} model {mp[which[0]][:300] if which else mo[:300]}')
        if int(id_) % 37 == 0:
            chk.sample({'from': a, 'into': b, 'extents': sz, 'model': mo[:160], 'impl': {c: (impl[c].get(id_) or '')[:160] for c in impl}})
    chk.cov['conversion_pairs'] = len(okc)
    chk.cov['disagreements_checked'] = len(lines)
    chk.cov['programs'] = len(names)
    return chk.finish()
