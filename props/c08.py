"""C08 -- truncated or mis-tagged input is rejected with an exception."""
import json
from vlib import core, pair, stacks
from props import stack_common as sc

MAGIC_H, MAGIC_F = 0xC04F1EAB, 0xC04F1E70
TAGS = [0xAB000000, 0xAB010000, 0xAB010001, 0xAB010002, 0xAB020000, 0xAB020001, 0xAB020002, 0xAB020004, 0xAB020006, 0xAB020010]


def outcome(ans):
    """first token of an answer: LOADED / EXCEPTION / CRASH / TIMEOUT / ..."""
    return (ans or 'MISSING').split(' ', 1)[0]


def canon_sto(ans, stack):
    """NaN payloads are not preserved by a float<->double conversion (and NaN is outside C07/C08): one token per NaN in storage read-outs"""
    prim = stack.split('/')[-1].split('.')
    if prim[0] != 'array' or not ans:
        return ans
    t = prim[2]
    out = []
    for part in ans.split(' | '):
        if part.startswith('S '):
            toks = part.split(' ')
            for q in range(2, len(toks)):
                try:
                    v = int(toks[q])
                except ValueError:
                    continue
                if (t == 'f32' and (v >> 23) & 0xFF == 0xFF and v & 0x7FFFFF) or (t == 'f64' and (v >> 52) & 0x7FF == 0x7FF and v & ((1 << 52) - 1)):
                    toks[q] = 'nan'
            part = ' '.join(toks)
        out.append(part)
    return ' | '.join(out)


def put_u32(hexs, off, v):
    return hexs[:2 * off] + (v & 0xFFFFFFFF).to_bytes(4, 'little').hex() + hexs[2 * off + 8:]


def get_u32(hexs, off):
    return int.from_bytes(bytes.fromhex(hexs[2 * off:2 * off + 8]), 'little')


def run(replay=None):
    chk = core.Check('C08', 'proof')
    thorough = chk.tier == 'thorough'
    chk.cov['rule'] = (
        'for every serialisable stack of the catalogue and several fields each: (a) EVERY proper prefix of the dump (complete enumeration of truncation '
        'points, = a stream that starts failing at any read) is loaded through a length-limited stream buffer, once with the default stream state and once with an exception mask set on the caller\'s stream (failbit|badbit, eofbit or badbit, so that the stream itself throws at the short read); (b) every magic / tag word position (taken '
        'from the Coq segment list dump_segs) is replaced by sampled values (+-1, bit flips, the other magic, other layers\' tags, 0, ~0) and the width word '
        'by values other than 4 / 8 and by the other width; (c) every dump is loaded into every other stack type of the catalogue. '
        'Oracle: the outcome must be an exception wherever the model reader says Bad (theorems C08_prefix_rejected / C08_flip_rejected say it does for (a), (b)); '
        'never abort, crash, hang, sanitizer report or a loaded field. Where the model accepts (compatible stacks, width 8->4 on a crafted payload) the implementation must '
        'load the same configuration and storage. Builds: -O1 with assertions and -O2 -DNDEBUG, both ASan+UBSan. '
        'A case = (stack, field tokens, fault); non-trivial = the fault lies inside the stream; distinct by (stack, tokens, fault)')
    with core.Lock('coq'):
        rep, tlog = core.translate()
    for u in rep['untranslatable']:
        if u['group'] in ('Tags', 'ArrayIO'):
            chk.obligation_broken('translation of ' + u['name'], u['why'])
    chk.cov['format_constants_in_source'] = {k: rep.get('tags', {}).get(k) for k in ('magic', 'footer')}
    chk.prove('Properties_C08.v')
    names = sc.catalogue(chk, extra_random=24 if thorough else 10)
    runner = sc.StackRunner(chk, 'io', names)
    for s, log in runner.failed.items():
        chk.violation('stack does not compile: ' + '/'.join(l.split('.')[0] for l in s.split('/')), f'load of {s} is rejected by the compiler: {sc.first_error(log)}',
                      {'stack': s, 'compiler_output': log[-3000:]})
    names = [n for n in names if n not in runner.failed]
    per = 4 if thorough else 2
    fields = []
    for n in names:
        for j in range(per):
            fields.append((n, sc.rand_field(chk.rng, n, max_extent=(3 if thorough else 2) if j else 1, data_mode='nice' if j % 2 else 'any')))
    # large payloads (several KiB: readers that switch to a bulk path for big blocks) and empty ones
    for n, sz in (('strided.3.u64/array.3.f64', [8, 8, 8]), ('array.3.f64', 600), ('morton.2.u64.p/array.1.f32', [20, 17]), ('strided.2.u64/array.3.f32', [0, 3]), ('array.1.f32', 0),
                  ('strided.2.u64/array.1.f32', [40, 30])):
        if n in names:
            if isinstance(sz, int):
                m_ = int(n.split('/')[-1].split('.')[1])
                t_ = n.split('/')[-1].split('.')[2]
                fields.append((n, [sz] + [sc.rand_scalar(chk.rng, t_, 'nice') for _ in range(sz * m_)]))
            else:
                fields.append((n, sc.rand_field(chk.rng, n, sizes=sz, data_mode='nice')))
    if replay:
        rp = json.load(open(replay)).get('replay', {})
        if rp.get('cases'):
            fields = [(c[0], c[1]) for c in rp['cases']]
    # phase 1: dumps and segment offsets from the model
    l1 = [f'{i} {n} new 0 ' + ' '.join(map(str, t)) + ' | dump 0 | segs 0 | wf 0' for i, (n, t) in enumerate(fields)]
    m1, i1 = runner.run(l1)
    dumps = {}
    for i, (n, t) in enumerate(fields):
        a = m1.get(str(i), '')
        parts = a.split(' | ')
        if len(parts) != 4 or not parts[1].startswith('B ') or parts[3] != 'WF':
            chk.obligation_broken(f'model cannot dump {n}', a[:300])
            continue
        # the implementation's dump must be these bytes (C06's correspondence); otherwise faults would be injected into a different stream
        for cfg in i1:
            ia = i1[cfg].get(str(i), '')
            ip = ia.split(' | ')
            if len(ip) < 2 or ip[1] != parts[1]:
                chk.obligation_broken(f'correspondence of the byte format for {n} ({cfg})', f'impl {ia[:300]} model {a[:300]}')
        hexs = parts[1][2:]
        hexs = '' if hexs == '-' else hexs
        segs = parts[2].split()[1:]
        dumps[i] = (hexs, [int(x[1:]) for x in segs if x[0] == 'T'], [int(x[1:]) for x in segs if x[0] == 'W'])
    # phase 2: faults
    cases = []   # (id, stack, line ops, descr, expect) expect: 'X' must be rejected by theorem, 'M' follow the model
    cid = 0

    def add(n, ops, descr, expect):
        nonlocal cid
        cases.append((str(cid), n, ops, descr, expect))
        cid += 1
    r = chk.rng
    for i, (n, t) in enumerate(fields):
        if i not in dumps:
            continue
        hexs, toffs, woffs = dumps[i]
        add(n, f'truncs {hexs}', ('trunc', i), 'X')
        if hexs and len(hexs) <= 2400:
            # the same enumeration with an exception mask on the caller's stream (the stream itself throws at the short read)
            add(n, f'truncs {hexs} {1 + i % 3}', ('trunc', i), 'X')
        for off in toffs:
            orig = get_u32(hexs, off)
            repl = {orig ^ 1, (orig + 1) & 0xFFFFFFFF, (orig - 1) & 0xFFFFFFFF, orig ^ 0x80000000, 0, 0xFFFFFFFF,
                    MAGIC_F if orig == MAGIC_H else MAGIC_H, r.choice(TAGS), (r.choice(TAGS) + 0x20000000) & 0xFFFFFFFF, r.bits(32)}
            repl.discard(orig)
            for v in sorted(repl)[: (10 if thorough else 5)] if not thorough else sorted(repl):
                add(n, f'load 1 {put_u32(hexs, off, v)}', ('flip', i, off, v), 'X')
        for off in woffs:
            orig = get_u32(hexs, off)
            for v in [0, 1, 2, 3, 5, 7, 9, 16, 32, 64, 0x400, 0xFFFFFFFF, 0x04000000, r.bits(32)]:
                if v not in (4, 8):
                    add(n, f'load 1 {put_u32(hexs, off, v)}', ('width', i, off, v), 'X')
            other = 12 - orig
            add(n, f'load 1 {put_u32(hexs, off, other)} | cfg 1 | sto 1', ('width-swap', i, off, other), 'M')
    # foreign stacks: every dump into every other stack type (quick: a seeded sample of targets per dump)
    for i, (n, t) in enumerate(fields):
        if i not in dumps:
            continue
        targets = [m for m in names if m != n]
        if not thorough:
            targets = [r.choice(targets) for _ in range(6)] if targets else []
        for m in dict.fromkeys(targets):
            add(m, f'load 1 {dumps[i][0] or "-"} | cfg 1 | sto 1', ('foreign', i, n), 'M')
    if replay:
        rp = json.load(open(replay)).get('replay', {})
        if rp.get('lines'):
            cases = [(str(k), l[0], l[1], ('replay', k), l[2]) for k, l in enumerate(rp['lines'])]
    lines = [f'{c[0]} {c[1]} {c[2]}' for c in cases]
    model, impl = runner.run(lines)
    # a crashed `truncs` case: find the offending lengths one by one
    extra = []
    for c in cases:
        if c[3][0] == 'trunc':
            for cfg in impl:
                a = impl[cfg].get(c[0], '')
                if not a.startswith('T '):
                    hexs = c[2].split(' ')[1]
                    mask = (' ' + c[2].split(' ')[2]) if len(c[2].split(' ')) > 2 else ''
                    nb = len(hexs) // 2
                    ks = sorted(set([0, 1, 3, 4, 7, 8, 9, 12, nb // 2, nb - 9, nb - 8, nb - 5, nb - 4, nb - 1]) & set(range(nb)))
                    for k in ks:
                        extra.append((f'x{len(extra)}', c[1], f'load 1 {hexs} {k}{mask}', ('trunc1', c[3][1], k), 'X', cfg))
    xi = {}
    if extra:
        xlines = [f'{c[0]} {c[1]} {c[2]}' for c in extra]
        _, xi = runner.run(xlines)
    nflt = 0
    for c in cases:
        id_, n, ops, descr, expect = c
        i = descr[1] if len(descr) > 1 and isinstance(descr[1], int) else None
        toks = fields[i][1] if i is not None and descr[0] != 'replay' else []
        m = model.get(id_)
        if descr[0] == 'trunc':
            hexs = ops.split(' ')[1]
            nb = len(hexs) // 2
            chk.cov['evaluations'] += nb
            chk.cov['distinct_nontrivial'] += nb
            chk.cov['truncation_points'] = chk.cov.get('truncation_points', 0) + nb
            want = 'T ' + ('X' * nb if nb else '-')
            if m is not None and m != want:
                chk.obligation_broken(f'model reader accepts a proper prefix of a dump of {n}', f'{m[:200]}')
            for cfg in impl:
                a = impl[cfg].get(id_, 'MISSING')
                if a == want:
                    continue
                if a.startswith('T '):
                    ks = [k for k, ch in enumerate(a[2:]) if ch != 'X']
                    chk.violation(f'truncated stream accepted: {n.split("/")[-1].split(".")[0]}',
                                  f'{n} in build {cfg}: the first {ks[0]} of {nb} bytes of a valid dump load without an exception ({len(ks)} such lengths)',
                                  {'lines': [[n, f'load 1 {hexs} {ks[0]}', 'X']], 'cases': [[fields[i][0], fields[i][1]]], 'build': cfg, 'accepted_lengths': ks[:50]})
                # crashes are reported from the per-length runs below
            continue
        chk.count_case((n, ops), True)
        nflt += 1
        mo = outcome(m)
        for cfg in impl:
            a = impl[cfg].get(id_, 'MISSING')
            ao = outcome(a)
            if ao == 'SKIPPED':
                chk.cov['skipped_after_crashes'] = chk.cov.get('skipped_after_crashes', 0) + 1
                continue
            must_reject = expect == 'X' or mo == 'EXCEPTION'
            if must_reject and ao != 'EXCEPTION':
                chk.violation(f'{descr[0]} not rejected with an exception ({ao}): ' + n.split('/')[-1].split('.')[0],
                              f'{n} in build {cfg}: {descr} gives {a[:200]}; the model reader rejects it', {'lines': [[n, ops, expect]], 'impl': a[:1000], 'build': cfg})
            elif expect == 'X' and mo != 'EXCEPTION' and m is not None:
                chk.obligation_broken(f'model reader accepts {descr[0]} on {n}', f'{m[:200]}')
            elif not must_reject and m is not None:
                # the model accepts: the implementation must load the same thing
                if canon_sto(a, n) != canon_sto(m, n):
                    chk.violation(f'{descr[0]}: accepted by the format but loaded differently: ' + n.split('/')[-1].split('.')[0],
                                  f'{n} in build {cfg}: {descr}: impl {a[:300]} model {m[:300]}', {'lines': [[n, ops, expect]], 'impl': a[:1000], 'model': m[:1000], 'build': cfg})
        if nflt % 401 == 0:
            chk.sample({'stack': n, 'fault': list(map(str, descr)), 'model': (m or '')[:80], 'impl': {cfg: (impl[cfg].get(id_) or '')[:80] for cfg in impl}})
    for c in extra:
        id_, n, ops, descr, expect, cfg = c
        a = xi.get(cfg, {}).get(id_, 'MISSING')
        if outcome(a) == 'SKIPPED':
            chk.cov['skipped_after_crashes'] = chk.cov.get('skipped_after_crashes', 0) + 1
            continue
        if outcome(a) != 'EXCEPTION':
            chk.violation(f'truncated stream: {outcome(a)} instead of an exception: ' + n.split('/')[-1].split('.')[0],
                          f'{n} in build {cfg}: loading the first {descr[2]} bytes of a valid dump gives {a[:300]}',
                          {'lines': [[n, ops, 'X']], 'impl': a[:1000], 'build': cfg})
    chk.cov['faults_by_kind'] = {}
    for c in cases:
        chk.cov['faults_by_kind'][c[3][0]] = chk.cov['faults_by_kind'].get(c[3][0], 0) + 1
    chk.cov['disagreements_checked'] = len(cases)
    chk.cov['programs'] = len(names)
    return chk.finish()
