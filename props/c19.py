"""C19 -- N-dimensional iteration visits every index exactly once."""
import itertools, os
from vlib import core, pair


TY = {'ndmap': 'size_t', 'ndmap8': 'uint8_t', 'ndmap16': 'uint16_t', 'ndmap32': 'uint32_t'}


def gen_cases(chk):
    r = chk.rng
    thorough = chk.tier == 'thorough'
    B = 3
    cases = []
    for n in range(1, 6):
        bound = (5 if n <= 4 else 3) if thorough else (B if n <= 4 else 2)
        for s in itertools.product(range(0, bound + 1), repeat=n):
            cases.append((n, s))
    for _ in range(300 if thorough else 60):
        n = r.range(1, 5)
        cap = {1: 200, 2: 40, 3: 12, 4: 7, 5: 5}[n]
        cases.append((n, tuple(r.range(0, cap) for _ in range(n))))
    # narrow index types for the extent tuple (the template takes any; the library's callers use size_t): boxes whose
    # tuple COUNT is a multiple of 2^8 / 2^16 although every extent fits the type, and ordinary ones
    typed = [('ndmap8', 2, (16, 16)), ('ndmap8', 2, (2, 128)), ('ndmap8', 3, (3, 8, 32)), ('ndmap8', 4, (4, 4, 4, 4)), ('ndmap8', 5, (3, 4, 4, 4, 4)),
             ('ndmap8', 1, (255,)), ('ndmap8', 2, (15, 17)), ('ndmap8', 3, (7, 6, 6)), ('ndmap8', 3, (4, 8, 8)), ('ndmap8', 2, (0, 200)),
             ('ndmap16', 2, (256, 256)), ('ndmap16', 4, (16, 16, 16, 16)), ('ndmap16', 2, (255, 257)), ('ndmap16', 3, (2, 3, 5)),
             ('ndmap32', 3, (5, 7, 2)), ('ndmap32', 2, (300, 3))]
    for _ in range(40 if thorough else 10):
        n = r.range(1, 4)
        typed.append((r.choice(['ndmap8', 'ndmap16', 'ndmap32']), n, tuple(r.range(0, {1: 200, 2: 40, 3: 12, 4: 7}[n]) for _ in range(n))))
    return cases + [(n, s, k) for k, n, s in typed]


def oracle(n, s, ans):
    """the property itself, judged on the implementation's callback sequence: every tuple of the
    box exactly once and nothing else"""
    tuples = [] if ans == '-' else [tuple(int(x) for x in t.split(',')) for t in ans.split(';')]
    box = set(itertools.product(*[range(e) for e in s]))
    if len(tuples) != len(set(tuples)):
        return 'a tuple is visited more than once'
    if set(tuples) != box:
        extra = sorted(set(tuples) - box)[:1]
        miss = sorted(box - set(tuples))[:1]
        return f'visited set differs from the box (extra {extra}, missing {miss})'
    return None


def run(replay=None):
    chk = core.Check('C19', 'proof')
    chk.cov['rule'] = ('every extent vector with extents in 0..3 for dimension 1..4 (0..2 for dimension 5) in the quick tier '
                       '(0..5 / 0..3 in thorough) plus seeded random larger ones, with size_t indices as the library uses them; additionally extent tuples of uint8_t / uint16_t / uint32_t (boxes whose tuple count is a multiple of 2^8 / 2^16 among them); the callback sequence of utility::nd_map is compared '
                       'with the model sequence (equality) and judged by the property oracle (each tuple of the box exactly once); '
                       'non-trivial = at least two tuples visited; distinct by (dimension, extents)')
    with core.Lock('coq'):
        rep, tlog = core.translate()
    for u in rep['untranslatable']:
        if u['group'] == 'NdMap':
            chk.obligation_broken('reading of ' + u['name'], u['why'])
    chk.cov['recursion_scheme_in_source'] = {k: v for k, v in rep.get('ndmap', {}).items() if k != 'problems'} if isinstance(rep.get('ndmap'), dict) else None
    chk.prove('Properties_C19.v')
    with core.Lock('ocaml'):
        driver, dlog = core.build_driver('util')
    if not driver:
        chk.obligation_broken('extracted model (util) does not build', dlog)
    exes = {}
    with core.Lock('harness'):
        for cfg in ('rel', 'dbg'):
            exe, log = core.build_harness('h_ndmap', os.path.join(core.VERIF, 'harness', 'h_ndmap.cpp'), cfg)
            if not exe:
                chk.violation(f'nd_map does not compile ({cfg})', 'utility/nd_map.hpp no longer compiles for dimension 1..5', {'compiler_output': log[-3000:]})
            else:
                exes[cfg] = exe
    cases = gen_cases(chk)
    if replay:
        import json
        cases = [tuple([c[0], tuple(c[1])] + list(c[2:])) for c in json.load(open(replay)).get('replay', {}).get('cases', [])] or cases
    cases = [(c[0], c[1], c[2] if len(c) > 2 else 'ndmap') for c in cases]
    lines = [f'{i} {kd} {n} ' + ' '.join(str(x) for x in s) for i, (n, s, kd) in enumerate(cases)]
    mlines = [f'{i} ndmap {n} ' + ' '.join(str(x) for x in s) for i, (n, s, kd) in enumerate(cases)]   # the model has one index type: unbounded
    model = {}
    if driver:
        rc, model, err = pair.run_model(driver, mlines)
        if rc:
            chk.obligation_broken('extracted model crashed', err)
    impl = {cfg: pair.run_impl_isolated(exe, lines) for cfg, exe in exes.items()}
    nd = 0
    for i, (n, s, kd) in enumerate(cases):
        size = 1
        for e in s:
            size *= e
        chk.count_case((n, s, kd), size >= 2)
        m = model.get(str(i))
        for cfg in impl:
            a = impl[cfg].get(str(i))
            if a is None or a.startswith(('CRASH', 'TIMEOUT', 'SKIPPED', 'EXCEPTION')):
                chk.violation(f'nd_map dimension {n} fails', f'nd_map over extents {s} ({TY[kd]} indices) in build {cfg}: {a}', {'cases': [[n, list(s), kd]], 'impl': a, 'build': cfg})
                continue
            why = oracle(n, s, a)
            if why:
                chk.violation(f'nd_map dimension {n} wrong visit set', f'extents {s} ({TY[kd]} indices) in build {cfg}: {why}', {'cases': [[n, list(s), kd]], 'impl': a[:2000], 'model': (m or '')[:2000], 'build': cfg})
            elif m is not None and a != m:
                nd += 1
                if nd <= 5:
                    chk.obligation_broken(f'correspondence nd_map order on extents {s}', f'impl {a[:300]} model {m[:300]}')
        if i % 211 == 0:
            chk.sample({'dimension': n, 'extents': list(s), 'model_sequence': (m or '')[:200], 'impl': {c: (impl[c].get(str(i)) or '')[:200] for c in impl}})
    chk.cov['disagreements_checked'] = len(cases)
    chk.cov['exhaustive'] = True
    return chk.finish()
