"""C10 -- clamping makes every coordinate safe."""
import json
from vlib import core, pair, stacks
from props import stack_common as sc
from props.c02 import canon
from props.c11 import step, value_of, INT_RANGE

EXTREMES = {
    'f32': [0x7F800000, 0xFF800000, 0x7F7FFFFF, 0xFF7FFFFF, 0, 0x80000000, 1, 0x80000001, 0x00800000, 0x4B000000, 0xCB000000, 0x5F000000, 0xDF000000],
    'f64': [0x7FF0000000000000, 0xFFF0000000000000, 0x7FEFFFFFFFFFFFFF, 0xFFEFFFFFFFFFFFFF, 0, 0x8000000000000000, 1, 0x0010000000000000, 0x43E0000000000000, 0xC3E0000000000000],
    'i32': [-2 ** 31, 2 ** 31 - 1, -1, 0, 1], 'u32': [0, 2 ** 32 - 1, 1, 2 ** 31], 'u64': [0, 2 ** 64 - 1, 1, 2 ** 63, 2 ** 32],
}


def clamp_oracle(t, v, lo, hi):
    """std::clamp by its definition, on the mathematical values"""
    return lo if value_of(t, v) < value_of(t, lo) else hi if value_of(t, hi) < value_of(t, v) else v


def run(replay=None):
    chk = core.Check('C10', 'proof')
    thorough = chk.tier == 'thorough'
    chk.cov['rule'] = (
        'the clamp layer over the identity and probe backends for N in 1..4 and coordinate types int / unsigned / size_t / float / double, with boxes lo <= hi (including lo = hi, signed zeros, subnormal '
        'bounds): coordinates at every extreme of the type, +-infinity, +-0, subnormals, every bound and one step either side of it (nextafter). Oracle (independent, python): the backend is queried at '
        'the component-wise std::clamp of the coordinate and that value is returned. Memory-safety clause: clamp over row-major / Morton array storage with the box inside the extents, clamp BENEATH a linear '
        'interpolator with the box [0, extent-2] and clamp ABOVE a linear interpolator with hi < extent-1, driven with the same extreme coordinates under ASan+UBSan with assertions enabled; compared with the '
        'reference interpreter. A case = (stack, box, coordinate); non-trivial = some component outside the box or on its boundary; distinct by those.')
    chk.prove('Properties_C10.v')
    r = chk.rng
    names = []
    for n in (1, 2, 3, 4):
        for tc in ['i32', 'u32', 'u64', 'f32', 'f64']:
            names.append(f'clamp/identity.{n}.{tc}')
            if n in (2, 3) or thorough:
                names.append(f'clamp/probe.{n}.{tc}.{1 + n % 3}.f32')
    safe = ['clamp/strided.2.u64/array.1.f32', 'clamp/strided.3.i32/array.2.f64', 'clamp/strided.1.u32/array.3.f32', 'clamp/morton.2.u64.p/array.1.f32',
            'clamp/morton.3.u64.b/array.1.f64', 'clamp/hilbert.u64/array.2.f32',
            'linear.f32/clamp/strided.2.u64/array.1.f32', 'linear.f64/clamp/strided.3.u64/array.3.f64', 'linear.f32/clamp/morton.2.u64.p/array.2.f32',
            'clamp/linear.f32/strided.2.u64/array.1.f32', 'clamp/linear.f64/strided.1.u64/array.2.f64', 'clamp/affine/linear.f32/strided.2.u64/array.1.f32',
            'clamp/nearest.f32/strided.2.u64/array.3.f32', 'nearest.f64/clamp/strided.2.u32/array.1.f64', 'clamp/clamp/identity.2.f64',
            'clamp/shuffle.1-2-0/strided.3.u64/array.1.f32', 'clamp/shuffle.2-0-1/strided.3.i32/array.2.f64', 'clamp/nearest.f32/shuffle.1-2-0/strided.3.u64/array.1.f32']
    names = [n for n in dict.fromkeys(names + safe) if stacks.kind_of(n) is not None]
    runner = sc.StackRunner(chk, 'cl', names, shard_size=8)
    for s, log in runner.failed.items():
        chk.violation('stack does not compile: ' + '/'.join(l.split('.')[0] for l in s.split('/')), f'{s} is rejected by the compiler: {sc.first_error(log)}',
                      {'stack': s, 'compiler_output': log[-3000:]})
    names = [n for n in names if n not in runner.failed]
    cases = []
    for n in names:
        k = stacks.kind_of(n)
        lk, p = sc.layer_kinds(n)
        for j in range(4 if thorough else 2):
            sizes = None
            for l, kk in lk:
                if l[0] in ('strided', 'morton', 'hilbert'):
                    sizes = [r.range(3, 5) for _ in range(2 if l[0] == 'hilbert' else int(l[1]))]
                    if 'shuffle' in n:
                        sizes = [2, 3, 5][j % 3:] + [2, 3, 5][:j % 3]   # pairwise different extents: an axis mix-up leaves the storage
            toks = []
            box = None
            below_interp = False
            for idx, (l, kk) in enumerate(lk):
                t = l[0]
                if t in ('linear', 'nearest'):
                    below_interp = True
                if t in ('strided', 'morton', 'hilbert'):
                    toks += sizes
                elif t == 'clamp':
                    lo, hi = [], []
                    above_linear = any(x[0][0] == 'linear' for x in lk[idx + 1:])
                    eff = list(sizes) if sizes else None
                    for l2, _k2 in lk[idx + 1:]:
                        if l2[0] == 'shuffle' and sizes:
                            # the layer beneath receives component perm[i] of this layer's coordinate on its axis i
                            perm = [int(x) for x in l2[1].split('-')]
                            for i_, pj in enumerate(perm):
                                eff[pj] = sizes[i_]
                    for q in range(kk.n):
                        if sizes:
                            e = eff[q]
                            top = e - 2 if (above_linear or (below_interp and 'linear' in n)) else e - 1
                            a = r.range(0, top)
                            b = r.range(a, top)
                            if kk.tc in ('f32', 'f64'):
                                bb = b + (r.choice([0.0, 0.5, 0.75]) if (above_linear and b < top) else 0.0)
                                if above_linear and b == top:
                                    bb = top + r.choice([0.0, 0.5, 0.999])   # hi < extent - 1 : the documented domain of linear
                                lo.append(sc.fbits(kk.tc, float(a)))
                                hi.append(sc.fbits(kk.tc, bb))
                            else:
                                lo.append(a)
                                hi.append(b)
                        elif kk.tc in ('f32', 'f64'):
                            a = r.choice([0.0, -0.0, -1.5, 2.25, 1e-40 if kk.tc == 'f32' else 5e-320, -1e30])
                            b = a if j == 1 and q == 0 else a + r.choice([0.0, 0.5, 3.0, 1e30])
                            lo.append(sc.fbits(kk.tc, a))
                            hi.append(sc.fbits(kk.tc, b))
                        else:
                            mn, mx = INT_RANGE[kk.tc]
                            a = r.choice([0, 1, 5, mx - 1] + ([mn, -3] if mn < 0 else []))
                            b = a if j == 1 and q == 0 else min(mx, a + r.choice([0, 1, 7, 2 ** 20]))
                            lo.append(a)
                            hi.append(b)
                    toks += lo + hi
                    if idx == 0:
                        box = (lo, hi, kk.tc)
                elif t == 'affine':
                    for i in range(kk.n):
                        row = [0.0] * (kk.n + 1)
                        row[i] = 1.0
                        toks += [sc.fbits(kk.tc, v) for v in row]
            if p[0] == 'array':
                c = 1
                for s_ in sizes:
                    c *= s_
                cap = c if 'strided' in n else sc.curve_cap(sizes)
                toks += [cap] + [sc.rand_scalar(r, p[2], 'nice') for _ in range(cap * int(p[1]))]
            coords = []
            tc = k.tc
            top_clamp = n.startswith('clamp/')
            pool = list(EXTREMES[tc])
            if box:
                for q in range(k.n):
                    for bnd in (box[0][q], box[1][q]):
                        pool.append(bnd)
                        for d in (-1, 1):
                            s_ = step(tc, bnd, d)
                            if s_ is not None:
                                pool.append(s_)
            if not top_clamp:
                # a clamp beneath an interpolator: any x >= 0 of moderate size (the interpolator itself must be able to convert it)
                pool = [sc.fbits(tc, v) for v in [0.0, 0.25, 0.5, 1.0, 1.5, 2.75, 3.0, 7.5, 100.25, 1e6, 65536.5]]
            for _ in range(24 if thorough else 12):
                coords.append([r.choice(pool) for _ in range(k.n)])
            cases.append((n, toks, box, coords))
    if replay:
        rp = json.load(open(replay)).get('replay', {})
        if rp.get('cases'):
            cases = [(c[0], c[1], tuple(c[2]) if c[2] else None, c[3]) for c in rp['cases']]
    l1 = [f'{i} {n} new 0 ' + ' '.join(map(str, t)) + ''.join(' | at 0 ' + ' '.join(map(str, c)) for c in cs) for i, (n, t, b, cs) in enumerate(cases)]
    model1 = {}
    if runner.driver:
        rc, model1, err = pair.run_model(runner.driver, l1)
    lines, keep = [], {}
    dropped = 0
    for i, (n, t, box, cs) in enumerate(cases):
        parts = model1.get(str(i), '').split(' | ')
        if len(parts) != 1 + len(cs) or parts[0] != 'OK':
            chk.obligation_broken(f'model cannot build a field of {n}', model1.get(str(i), '')[:300])
            continue
        good = [c for c, a in zip(cs, parts[1:]) if a.startswith('V')]
        dropped += len(cs) - len(good)
        # with a clamp on top of storage and a box inside the extents EVERY coordinate must be in-domain (theorem C10_clamp_safe_over_array)
        if n.startswith('clamp/') and all(x[0] in ('strided', 'morton', 'hilbert', 'clamp', 'shuffle') for x in stacks.parse(n)[1:-1]) and n.split('/')[-1].startswith('array') and len(good) != len(cs):
            chk.obligation_broken(f'model: clamp over array storage is not total for {n}', str([c for c in cs if c not in good][:2]))
        if not good:
            continue
        keep[str(i)] = good
        has_probe = n.split('/')[-1].startswith('probe')
        lines.append(f'{i} {n} new 0 ' + ' '.join(map(str, t)) + ''.join(f' | at 0 {" ".join(map(str, c))}' + (f' | fp 0 {" ".join(map(str, c))}' if has_probe else '') for c in good))
    chk.cov['out_of_domain_candidates_dropped'] = dropped
    model, impl = runner.run(lines)
    for l in lines:
        id_ = l.split(' ', 1)[0]
        n, t, box, _ = cases[int(id_)]
        good = keep[id_]
        kk = stacks.kind_of(n)
        prim = n.split('/')[-1]
        has_probe = prim.startswith('probe')
        ptc = prim.split('.')[2] if has_probe else kk.tc
        per = 2 if has_probe else 1
        m = canon(model.get(id_, ''), kk.tv, ptc)
        mp = m.split(' | ')
        for c in good:
            nontriv = bool(box) and any(value_of(box[2], c[j]) <= value_of(box[2], box[0][j]) or value_of(box[2], c[j]) >= value_of(box[2], box[1][j]) for j in range(len(c)))
            chk.count_case((n, tuple(t), tuple(c)), nontriv or not box)
        for cfg in impl:
            a = canon(impl[cfg].get(id_, 'MISSING'), kk.tv, ptc)
            if a == 'SKIPPED':
                continue
            ap = a.split(' | ')
            if len(ap) != 1 + per * len(good):
                chk.violation('clamped lookup fails (crash / sanitizer / assertion): ' + '/'.join(x.split('.')[0] for x in n.split('/')), f'{n} in build {cfg}: {a[:300]}',
                              {'cases': [[n, t, box, good]], 'impl': a[:1500], 'build': cfg})
                continue
            for q, c in enumerate(good):
                v = ap[1 + per * q]
                tr = ap[2 + per * q] if has_probe else None
                if box and n.count('/') == 1 and (prim.startswith('identity') or has_probe):
                    want = [clamp_oracle(box[2], c[j], box[0][j], box[1][j]) for j in range(len(c))]
                    if prim.startswith('identity') and v != canon('V ' + ' '.join(map(str, want)), kk.tv, ptc):
                        chk.violation('clamp does not return the value at the component-wise clamp', f'{n} ({cfg}) box {box[0]}..{box[1]} coordinate {c}: returned {v}, clamp is {want}',
                                      {'cases': [[n, t, box, [c]]], 'build': cfg})
                        break
                    if has_probe and tr != canon('T ' + ' '.join(map(str, want)), kk.tv, ptc):
                        chk.violation('clamp does not query its backend at the component-wise clamp', f'{n} ({cfg}) box {box[0]}..{box[1]} coordinate {c}: backend queries {tr}, clamp is {want}',
                                      {'cases': [[n, t, box, [c]]], 'build': cfg})
                        break
                if v != mp[1 + per * q] or (has_probe and tr != mp[2 + per * q]):
                    chk.violation('lookup differs from the model layer: clamp', f'{n} ({cfg}) coordinate {c}: implementation {v} {tr or ""}, model {mp[1 + per * q]}',
                                  {'cases': [[n, t, box, [c]]], 'build': cfg})
                    break
        if int(id_) % 13 == 0:
            chk.sample({'stack': n, 'box': list(box[:2]) if box else None, 'coordinate': good[0], 'model': m[:160], 'impl': {c: (impl[c].get(id_) or '')[:160] for c in impl}})
    chk.cov['disagreements_checked'] = len(lines)
    chk.cov['programs'] = len(names)
    return chk.finish()
