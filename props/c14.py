"""C14 -- storage orders follow their published curves."""
import itertools, os
from vlib import core, pair
from props import layout_common as lc

TYPES = {'u64': (False, 64), 'u32': (False, 32), 'i32': (True, 32), 'i64': (True, 64)}


def tmax(ty):
    s, w = TYPES[ty]
    return (1 << (w - 1)) - 1 if s else (1 << w) - 1


def gen_cases(chk):
    r = chk.rng
    thorough = chk.tier == 'thorough'
    cases = []
    # row-major: exhaustive small boxes
    for n in range(1, 5):
        bound = (4 if n <= 3 else 3) if not thorough else (5 if n <= 3 else 4)
        for sizes in itertools.product(range(1, bound + 1), repeat=n):
            tys = ['u64'] if (sum(sizes) % 3 or n == 4) else ['u64', 'u32', 'i32', 'i64']
            for ty in tys:
                for c in itertools.product(*[range(s) for s in sizes]):
                    cases.append(('sidx', (ty, n) + sizes + c))
    # row-major: large, non-square, prime, 2^k +- 1 extents; products up to the type's maximum
    for _ in range(4000 if thorough else 800):
        n = r.range(1, 4)
        ty = r.choice(['u64', 'u64', 'u32', 'i32', 'i64'])
        lim = tmax(ty)
        sizes = []
        prod = 1
        for k in range(n):
            room = max(1, lim // prod)
            cand = [r.range(1, min(room, 1 << 20)), min(room, (1 << r.range(1, 20)) + r.range(-1, 1)), min(room, r.choice([3, 5, 7, 11, 13, 70000, 65537, 404325]))]
            if k == n - 1 and r.below(4) == 0:
                cand = [room]   # product exactly at the limit
            s = max(1, r.choice(cand))
            sizes.append(s)
            prod *= s
        c = tuple(r.choice([0, s - 1, r.below(s)]) for s in sizes)
        cases.append(('sidx', (ty, n) + tuple(sizes) + c))
    # Morton: exhaustive small bit widths, single bits, all-ones, random
    for n in range(1, 5):
        b = 64 // n
        bits = 3 if not thorough else (4 if n <= 3 else 3)
        for flag in 'pb':
            for c in itertools.product(range(1 << bits), repeat=n):
                cases.append(('midx', (flag, n) + c))
            for j in range(n):
                for i in range(b):
                    c = [0] * n
                    c[j] = 1 << i
                    cases.append(('midx', (flag, n) + tuple(c)))
            cases.append(('midx', (flag, n) + tuple([(1 << b) - 1] * n)))
            for _ in range(3000 if thorough else 500):
                k = r.range(1, b)
                cases.append(('midx', (flag, n) + tuple(r.bits(k) for _ in range(n))))
    # Morton with 32-bit coordinates over size_t-indexed storage: coordinates at and beyond 2^(32/N) (all 32 bits per axis must count:
    # the bit budget is that of the storage index, 64/N, not that of the coordinate type)
    for n in range(1, 5):
        for flag in 'pb':
            lim = min(32, 64 // n)
            for j in range(n):
                for i in range(lim):
                    c = [0] * n
                    c[j] = 1 << i
                    cases.append(('midx32', (flag, n) + tuple(c)))
            for _ in range(600 if thorough else 120):
                cases.append(('midx32', (flag, n) + tuple(r.bits(r.range(1, lim)) for _ in range(n))))
    return cases


def py_rowmajor(sizes, c):
    idx = 0
    for k in range(len(sizes)):
        t = c[k]
        for l in range(k + 1, len(sizes)):
            t *= sizes[l]
        idx += t
    return idx


def py_interleave(c):
    n = len(c)
    b = 64 // n
    r = 0
    for i in range(b):
        for j in range(n):
            r |= ((c[j] >> i) & 1) << (i * n + j)
    return r


def py_hilbert(n, x, y):
    # en.wikipedia.org/wiki/Hilbert_curve xy2d
    d = 0
    s = n // 2
    while s > 0:
        rx = 1 if (x & s) else 0
        ry = 1 if (y & s) else 0
        d += s * s * ((3 * rx) ^ ry)
        if ry == 0:
            if rx == 1:
                x, y = n - 1 - x, n - 1 - y
            x, y = y, x
        s //= 2
    return d


def run(replay=None):
    chk = core.Check('C14', 'proof')
    chk.cov['rule'] = ('row-major: every coordinate of every box with extents <= 4 (N <= 3; <= 3 for N = 4) at size_t and a third of them at unsigned/int/long, '
                       'plus seeded large / prime / 2^k+-1 extents with cell counts up to the coordinate type maximum (over the identity backend, so nothing is allocated); '
                       'Morton: all coordinates with <= 3 bits per axis, every single-bit pattern, all-ones, seeded random below 2^floor(64/N), N = 1..4, portable and use_bmi2 flags, in builds without and with -mbmi2, with size_t coordinates and with unsigned int coordinates up to 2^32 per axis; '
                       'Hilbert: every cell of the 2^k square for k <= 6 (quick) / 10 (thorough), judged by bijection + origin + edge adjacency on the implementation table and equality with the recursion. '
                       'non-trivial = a coordinate with a non-zero component; distinct by the case tuple')
    driver, exes, disabled, clog = lc.build(chk)
    for name in disabled:
        chk.violation('does not compile: ' + name, 'the storage-order layer cannot be used: ' + name + ' is rejected by the compiler',
                      {'program': 'harness/h_layout.cpp (instantiates the layer lookup and conversion)', 'compiler_errors': chk.cov.get('compile_errors')})
    ok = chk.prove('Properties_C14.v')
    cases = gen_cases(chk)
    hil = 'hilbert::calculate_index' not in ' '.join(disabled)
    kmax = 10 if chk.tier == 'thorough' else 6
    if hil:
        for k in range(0, kmax + 1):
            n = 1 << k
            for x in range(n):
                for y in range(n):
                    cases.append(('hidx', (n, n, x, y)))
    if replay:
        import json
        cases = [(c[0], tuple(c[1])) for c in json.load(open(replay)).get('replay', {}).get('cases', [])] or cases
    lines = [f'{i} {k} ' + ' '.join(str(x) for x in a) for i, (k, a) in enumerate(cases)]
    model, impl = lc.run_cases(chk, driver, exes, lines)
    nd = 0
    htab = {}
    for i, (kind, a) in enumerate(cases):
        id_ = str(i)
        m = model.get(id_)
        if kind == 'sidx':
            n = a[1]
            coords = a[2 + n:]
            chk.count_case((kind,) + a, any(coords))
            spec_py = str(py_rowmajor(a[2:2 + n], coords))
            if m is None:
                gen = gdbg = gcopy = spec = spec_py
            else:
                gen, gdbg, gcopy, spec = m.split()
                if spec != spec_py:
                    chk.obligation_broken(f'Coq rowmajor vs independent oracle on {a}', f'{spec} vs {spec_py}')
                    spec = spec_py
            for cfg in impl:
                v = impl[cfg].get(id_)
                if v != spec:
                    chk.violation(f'row-major position wrong ({a[0]} coordinates)', f'strided<{a[0]},{n}> extents {a[2:2+n]} coordinate {coords}: flat position {v} in build {cfg}, sum_k c_k*prod_(l>k) N_l = {spec}',
                                  {'cases': [[kind, list(a)]], 'impl': v, 'spec': spec, 'build': cfg})
            for nm, g in (('gen_strided_at', gen), ('gen_strided_at_dbg', gdbg), ('gen_strided_copy_index', gcopy)):
                if g != spec and nd < 10:
                    nd += 1
                    chk.obligation_broken(f'correspondence {nm} vs rowmajor on {a}', f'generated kernel {g}, spec {spec}')
        elif kind in ('midx', 'midx32'):
            n = a[1]
            coords = a[2:]
            chk.count_case((kind,) + a, any(coords))
            spec_py = str(py_interleave(coords))
            if m is None:
                gen = gbmi = spec = spec_py
            else:
                gen, gbmi, spec = m.split()
                if spec != spec_py:
                    chk.obligation_broken(f'Coq interleave vs independent oracle on {a}', f'{spec} vs {spec_py}')
                    spec = spec_py
            for cfg in impl:
                v = impl[cfg].get(id_)
                if v != spec:
                    chk.violation(f'Morton position wrong (N={n}, flag {a[0]}, build {cfg})', f'morton N={n} use_bmi2={"true" if a[0] == "b" else "false"}{" (unsigned int coordinates)" if kind == "midx32" else ""} coordinate {coords}: position {v} in build {cfg}, bit interleave is {spec}',
                                  {'cases': [[kind, list(a)]], 'impl': v, 'spec': spec, 'build': cfg})
            for nm, g in (('gen_morton_index', gen), ('gen_morton_index_bmi2', gbmi)):
                if g != spec and nd < 10:
                    nd += 1
                    chk.obligation_broken(f'correspondence {nm} vs interleave on {a}', f'generated kernel {g}, spec {spec}')
        elif kind == 'hidx':
            chk.count_case((kind,) + a, a[2] or a[3])
            gen = None
            m_py = str(py_hilbert(a[0], a[2], a[3]))
            if m is None:
                m = m_py
            else:
                gen, m = m.split()
                if m != m_py:
                    chk.obligation_broken(f'Coq Hl vs independent oracle on {a}', f'{m} vs {m_py}')
                    m = m_py
            if gen is not None and gen != m and nd < 10:
                nd += 1
                chk.obligation_broken(f'correspondence gen_hilbert_index vs Hl on {a}', f'generated kernel {gen}, spec {m}')
            for cfg in impl:
                v = impl[cfg].get(id_)
                htab.setdefault((cfg, a[0]), {})[(a[2], a[3])] = v
                if m is not None and v != m:
                    chk.violation('Hilbert position differs from the curve', f'hilbert {a[0]}x{a[1]} cell ({a[2]},{a[3]}): position {v} in build {cfg}, curve position {m}',
                                  {'cases': [[kind, list(a)]], 'impl': v, 'spec': m, 'build': cfg})
        if i % 4001 == 0:
            chk.sample({'case': [kind] + list(a), 'model(gen.., spec)': m, 'impl': {c: impl[c].get(id_) for c in impl}})
    # Hilbert oracle on the implementation's own table: bijection, origin, adjacency
    for (cfg, n), tab in htab.items():
        try:
            inv = {int(v): xy for xy, v in tab.items()}
        except (TypeError, ValueError):
            chk.violation('Hilbert index crashes', f'{n}x{n} in build {cfg}: {sorted(set(map(str, tab.values())))[:2]}', {'n': n, 'build': cfg})
            continue
        if len(inv) != n * n or set(inv) != set(range(n * n)):
            chk.violation('Hilbert curve is not a bijection', f'{n}x{n} square in build {cfg}: {len(inv)} distinct positions for {n*n} cells', {'cases': [['hidx', [n, n, 0, 0]]], 'build': cfg})
            continue
        if inv[0] != (0, 0):
            chk.violation('Hilbert curve does not start at the origin', f'{n}x{n}: position 0 is cell {inv[0]}', {'n': n, 'build': cfg})
        for d in range(n * n - 1):
            (x, y), (x2, y2) = inv[d], inv[d + 1]
            if abs(x - x2) + abs(y - y2) != 1:
                chk.violation('Hilbert curve: consecutive positions not edge-adjacent', f'{n}x{n}: positions {d},{d+1} are cells {(x,y)},{(x2,y2)}', {'n': n, 'build': cfg})
                break
    chk.cov['disagreements_checked'] = len(cases)
    chk.cov['programs'] = len(exes)
    return chk.finish()
