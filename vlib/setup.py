"""setup.py -- MANIFEST.setup_cmd: build the Coq development, the extracted drivers and warm the
harness cache, from files on disk only."""
import glob, os, sys
from . import core


def main():
    with core.Lock('coq'):
        rep, log = core.translate()
        core.coq_makefile()
        rc, out = core.sh(['make', '-k', f'-j{core.NCPU}'], cwd=core.COQ, timeout=3000)
    print(out[-2000:])
    fams = [os.path.basename(f)[len('Extract_'):-2] for f in sorted(glob.glob(os.path.join(core.COQ, 'Extract_*.v')))]
    with core.Lock('ocaml'):
        for fam in fams:
            exe, log = core.build_driver(fam)
            print('driver', fam, 'ok' if exe else 'FAILED\n' + log[-1500:])
    # a failing proof on the pinned tree is reported by the checks themselves; setup only builds
    return 0
