"""pair.py -- run the same case file through the extracted model and the C++ harness and
join the answers on the case id."""
import os
from . import core


def parse_answers(text):
    out = {}
    for line in text.split('\n'):
        if not line.strip():
            continue
        parts = line.split(' ', 1)
        out[parts[0]] = parts[1].strip() if len(parts) > 1 else ''
    return out


def run_model(driver, cases, timeout=1200):
    """cases: list of 'id kind args' lines"""
    rc, out, err = core.sh2([driver], input='\n'.join(cases) + '\n', timeout=timeout)
    return rc, parse_answers(out), err


def run_impl(exe, cases, timeout=1200, env=None):
    rc, out, err = core.run_exe(exe, '\n'.join(cases) + '\n', timeout=timeout, env=env)
    return rc, parse_answers(out), err


def run_impl_isolated(exe, cases, timeout=None, env=None, max_bad=4):
    """run cases so that a crash / sanitizer abort / hang on one case does not hide the others:
    all at once; when the process dies or hangs, the first unanswered case is the culprit: it is
    marked and the run continues after it.  After max_bad culprits the rest is marked SKIPPED.
    returns dict id -> answer ('CRASH rc=.. <reason>', 'TIMEOUT', 'SKIPPED')"""
    answers = {}
    todo = list(cases)
    bad = 0
    while todo:
        t = timeout or (10 + len(todo) // 10000)
        rc, ans, err = run_impl(exe, todo, timeout=t, env=env)
        answers.update(ans)
        missing = [c for c in todo if c.split(' ', 1)[0] not in ans]
        if not missing:
            break
        cid = missing[0].split(' ', 1)[0]
        if rc == -9:
            answers[cid] = 'TIMEOUT'
        else:
            first = ''
            for l in err.split('\n'):
                if any(k in l for k in ('runtime error', 'ERROR', 'Assertion', 'terminate', 'what()')):
                    first = l.strip()
                    break
            answers[cid] = f'CRASH rc={rc} {first[:300]}'
        bad += 1
        todo = missing[1:]
        if bad >= max_bad:
            for c in todo:
                answers[c.split(' ', 1)[0]] = 'SKIPPED'
            break
    return answers
