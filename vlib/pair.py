"""pair.py -- run the same case file through the extracted model and the C++ harness and
join the answers on the case id."""
import os
from . import core


def parse_answers(text):
    out = {}
    for line in text.split('\n'):
        if not line.strip():
            continue
        parts = line.split(' ', 1)
        out[parts[0]] = parts[1].strip() if len(parts) > 1 else ''
    return out


def run_model(driver, cases, timeout=1200):
    """cases: list of 'id kind args' lines"""
    rc, out, err = core.sh2([driver], input='\n'.join(cases) + '\n', timeout=timeout)
    return rc, parse_answers(out), err


def run_impl(exe, cases, timeout=1200, env=None):
    rc, out, err = core.run_exe(exe, '\n'.join(cases) + '\n', timeout=timeout, env=env)
    return rc, parse_answers(out), err


def run_impl_isolated(exe, cases, timeout=60, env=None, chunk=None):
    """run cases so that a crash / sanitizer abort on one case does not hide the others:
    first all at once; if the process dies, bisect down to single cases.
    returns dict id -> answer (crashed cases get 'CRASH rc=<rc> <first stderr line>')"""
    answers = {}

    def go(cs):
        if not cs:
            return
        rc, ans, err = run_impl(exe, cs, timeout=max(timeout, len(cs) // 50), env=env)
        got = {c.split(' ', 1)[0] for c in cs} & set(ans)
        answers.update({k: v for k, v in ans.items()})
        if rc == 0 and len(got) == len(cs):
            return
        missing = [c for c in cs if c.split(' ', 1)[0] not in ans]
        if not missing:
            return
        if len(cs) == 1:
            first = ''
            for l in err.split('\n'):
                if 'runtime error' in l or 'ERROR' in l or 'Assertion' in l or 'terminate' in l or 'TIMEOUT' in l:
                    first = l.strip()
                    break
            answers[cs[0].split(' ', 1)[0]] = f'CRASH rc={rc} {first[:300]}'
            return
        # the first missing case is the one that crashed; isolate it and continue with the rest
        go([missing[0]])
        go(missing[1:])

    go(list(cases))
    return answers
