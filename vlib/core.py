"""core.py -- shared machinery of the covfie checks: process running, translation, Coq build,
extraction, harness build, evidence, violations and known findings."""
import fcntl, glob, hashlib, json, os, re, shutil, subprocess, sys, time

VERIF = os.path.dirname(os.path.dirname(os.path.abspath(__file__)))
REPO = os.environ.get('VERIF_REPO', '/repo')
COQ = os.path.join(VERIF, 'coq')
BUILD = os.path.join(VERIF, '_build')
EVID = os.path.join(VERIF, 'evidence')
GUARD = 'COVFIE_VERIF'
NCPU = 16

TRUSTED_BASE = [
    'Coq 8.16.1 kernel (coqc, vm_compute; no native_compute)',
    'tools/cxx2coq.py + clang 14 AST dump + coq/CKernel.v (semantics of the translated C++ subset)',
    'extraction: ExtrOcamlBasic only (Extract Inductive bool, option, unit, list, prod, sumbool, sumor; no Extract Constant), OCaml 4.13.1, ocaml/*.ml drivers',
    'correspondence harness (harness/*, tools/*), g++ 12.2 with ASan/UBSan',
]


class Timeout(Exception):
    pass


def sh(cmd, timeout=600, cwd=None, env=None, input=None):
    """run a command; returns (rc, stdout+stderr). rc = -9 on timeout."""
    e = dict(os.environ)
    if env:
        e.update(env)
    try:
        p = subprocess.run(cmd, cwd=cwd, env=e, input=input, stdout=subprocess.PIPE, stderr=subprocess.STDOUT,
                           timeout=timeout, shell=isinstance(cmd, str), text=True, errors='replace')
        return p.returncode, p.stdout
    except subprocess.TimeoutExpired as ex:
        out = ex.stdout or ''
        if isinstance(out, bytes):
            out = out.decode(errors='replace')
        return -9, out + '\n[TIMEOUT]'


def sh2(cmd, timeout=600, cwd=None, env=None, input=None):
    """like sh but keeps stdout and stderr apart: (rc, out, err)"""
    e = dict(os.environ)
    if env:
        e.update(env)
    try:
        p = subprocess.run(cmd, cwd=cwd, env=e, input=input, stdout=subprocess.PIPE, stderr=subprocess.PIPE,
                           timeout=timeout, shell=isinstance(cmd, str), text=True, errors='replace')
        return p.returncode, p.stdout, p.stderr
    except subprocess.TimeoutExpired as ex:
        out = ex.stdout or ''
        if isinstance(out, bytes):
            out = out.decode(errors='replace')
        return -9, out, '[TIMEOUT]'


class Lock:
    def __init__(self, name='build'):
        os.makedirs(BUILD, exist_ok=True)
        self.path = os.path.join(BUILD, f'.{name}.lock')

    def __enter__(self):
        self.f = open(self.path, 'w')
        fcntl.flock(self.f, fcntl.LOCK_EX)
        return self

    def __exit__(self, *a):
        fcntl.flock(self.f, fcntl.LOCK_UN)
        self.f.close()


# ---------------------------------------------------------------------------------
# PRNG: one SplitMix64 state per run, seeded by VERIF_SEED
# ---------------------------------------------------------------------------------
class Rng:
    def __init__(self, seed):
        self.s = (seed * 0x9E3779B97F4A7C15 + 0x1234567) & 0xFFFFFFFFFFFFFFFF

    def next(self):
        self.s = (self.s + 0x9E3779B97F4A7C15) & 0xFFFFFFFFFFFFFFFF
        z = self.s
        z = ((z ^ (z >> 30)) * 0xBF58476D1CE4E5B9) & 0xFFFFFFFFFFFFFFFF
        z = ((z ^ (z >> 27)) * 0x94D049BB133111EB) & 0xFFFFFFFFFFFFFFFF
        return z ^ (z >> 31)

    def below(self, n):
        return self.next() % n if n > 0 else 0

    def range(self, lo, hi):
        return lo + self.below(hi - lo + 1)

    def choice(self, xs):
        return xs[self.below(len(xs))]

    def bits(self, k):
        return self.next() & ((1 << k) - 1) if k <= 64 else (self.next() << 64 | self.next()) & ((1 << k) - 1)

    def shuffle(self, xs):
        xs = list(xs)
        for i in range(len(xs) - 1, 0, -1):
            j = self.below(i + 1)
            xs[i], xs[j] = xs[j], xs[i]
        return xs


# ---------------------------------------------------------------------------------
# source hashing (cache keys)
# ---------------------------------------------------------------------------------
def tree_hash(paths, exts=None):
    h = hashlib.sha256()
    for root in paths:
        if os.path.isfile(root):
            files = [root]
        else:
            files = []
            for dp, dn, fn in os.walk(root):
                dn[:] = sorted(d for d in dn if d not in ('_build', '.git', '__pycache__'))
                for f in sorted(fn):
                    if exts is None or os.path.splitext(f)[1] in exts:
                        files.append(os.path.join(dp, f))
        for f in files:
            h.update(f.encode())
            with open(f, 'rb') as fh:
                h.update(fh.read())
    return h.hexdigest()[:20]


def repo_lib_hash():
    return tree_hash([os.path.join(REPO, 'lib')])


# ---------------------------------------------------------------------------------
# translation + Coq build
# ---------------------------------------------------------------------------------
def translate():
    """coq/gen as a function of /repo's working tree; returns (report dict, log).  The translators are run unless the
    content hash of /repo/lib and of the translators themselves is the one recorded by the previous run AND every
    generated file still has the content that run produced (so the generated files are always those of the source as it
    is now; re-running the fourteen clang invocations for an unchanged tree would only cost time and touch file dates)."""
    gdir = os.path.join(COQ, 'gen')
    stamp = os.path.join(gdir, '.translate_stamp.json')
    key = hashlib.sha256((repo_lib_hash() + tree_hash(sorted(glob.glob(os.path.join(VERIF, 'tools', '*.py'))) + [os.path.join(VERIF, 'vlib', 'core.py')])).encode()).hexdigest()
    try:
        st = json.load(open(stamp))
        if st.get('key') == key and st.get('files') and all(os.path.exists(os.path.join(gdir, f)) and hashlib.sha256(open(os.path.join(gdir, f), 'rb').read()).hexdigest() == h for f, h in st['files'].items()):
            return st['report'], 'generated files are those of this source tree (content hash unchanged since they were produced)'
    except Exception:
        pass
    rep, log = translate_now()
    try:
        files = {os.path.basename(f): hashlib.sha256(open(f, 'rb').read()).hexdigest() for f in glob.glob(os.path.join(gdir, '*.v'))}
        json.dump({'key': key, 'files': files, 'report': rep}, open(stamp, 'w'))
    except Exception:
        pass
    return rep, log


def translate_now():
    """run every translator on /repo's working tree"""
    rc, out = sh([sys.executable, os.path.join(VERIF, 'tools', 'cxx2coq.py'), '--repo', REPO,
                  '--out', os.path.join(COQ, 'gen')], timeout=300)
    rep = json.load(open(os.path.join(COQ, 'gen', 'gen_report.json')))
    # the rounding call of nearest_neighbour::at (Gen_Nearest.v)
    rc2, out2 = sh([sys.executable, os.path.join(VERIF, 'tools', 'cxx_nearest.py'), REPO, os.path.join(COQ, 'gen')], timeout=120)
    try:
        rep['nearest'] = json.loads(out2.strip().split('\n')[-1])
    except Exception:
        rep['nearest'] = {'error': out2[-500:]}
        rep['untranslatable'].append({'name': 'nn_callee', 'group': 'Nearest', 'why': out2[-500:]})
    # the purity scan of every core header (Gen_Purity.v)
    rc3, out3 = sh([sys.executable, os.path.join(VERIF, 'tools', 'purity_scan.py'), REPO, os.path.join(COQ, 'gen')], timeout=300)
    try:
        rep['purity'] = json.loads(out3.strip().split('\n')[-1])
    except Exception:
        rep['purity'] = {'error': out3[-500:]}
        rep['untranslatable'].append({'name': 'purity_scan', 'group': 'Purity', 'why': out3[-500:]})
    # the constants and shape of the binary format (Gen_Tags.v)
    rc4, out4 = sh([sys.executable, os.path.join(VERIF, 'tools', 'cxx_tags.py'), REPO, os.path.join(COQ, 'gen')], timeout=300)
    try:
        rep['tags'] = json.loads(out4.strip().split('\n')[-1])
    except Exception:
        rep['tags'] = {'error': out4[-500:]}
        rep['untranslatable'].append({'name': 'io_tags', 'group': 'Tags', 'why': out4[-500:]})
    # the pack-expansion layers clamp / shuffle / covariant_cast (Gen_Packs.v)
    rc5, out5 = sh([sys.executable, os.path.join(VERIF, 'tools', 'cxx_packs.py'), REPO, os.path.join(COQ, 'gen')], timeout=300)
    try:
        rep['packs'] = json.loads(out5.strip().split('\n')[-1])
        for layer, d in rep['packs'].items():
            if 'Unknown' in d['element'] or 'Unknown' in d['at']:
                rep['untranslatable'].append({'name': f'gen_{layer}_elem / gen_{layer}_at', 'group': 'Packs', 'why': f"{layer}: {d['element']} ; {d['at']}"})
    except Exception:
        rep['packs'] = {'error': out5[-500:]}
        rep['untranslatable'].append({'name': 'pack layers', 'group': 'Packs', 'why': out5[-500:]})
    # the loop programs of covfie::algebra and the affine layer's lookup (Gen_Algebra.v over MatLang.v)
    rc6, out6 = sh([sys.executable, os.path.join(VERIF, 'tools', 'cxx_algebra.py'), REPO, os.path.join(COQ, 'gen', 'Gen_Algebra.v')], timeout=300)
    try:
        rep['algebra'] = json.loads(out6.strip().split('\n')[-1])
        for u in rep['algebra']['untranslatable']:
            rep['untranslatable'].append({'name': u['name'], 'group': 'Algebra', 'why': u['why']})
    except Exception:
        rep['algebra'] = {'error': out6[-500:]}
        rep['untranslatable'].append({'name': 'algebra programs', 'group': 'Algebra', 'why': out6[-500:]})
    # the branches of linear::at (Gen_Linear.v over LinLang.v)
    rc7, out7 = sh([sys.executable, os.path.join(VERIF, 'tools', 'cxx_linear.py'), REPO, os.path.join(COQ, 'gen', 'Gen_Linear.v')], timeout=300)
    try:
        rep['linear'] = json.loads(out7.strip().split('\n')[-1])
        for u in rep['linear']['untranslatable']:
            rep['untranslatable'].append({'name': u['name'], 'group': 'Linear', 'why': u['why']})
    except Exception:
        rep['linear'] = {'error': out7[-500:]}
        rep['untranslatable'].append({'name': 'linear::at', 'group': 'Linear', 'why': out7[-500:]})
    # the make_parameter_pack_for overload table (Gen_Ppf.v)
    rc8, out8 = sh([sys.executable, os.path.join(VERIF, 'tools', 'cxx_ppf.py'), REPO, os.path.join(COQ, 'gen', 'Gen_Ppf.v')], timeout=300)
    try:
        rep['ppf'] = json.loads(out8.strip().split('\n')[-1])
        for pr in rep['ppf']['problems']:
            rep['untranslatable'].append({'name': 'make_parameter_pack_for', 'group': 'Ppf', 'why': pr})
    except Exception:
        rep['ppf'] = {'error': out8[-500:]}
        rep['untranslatable'].append({'name': 'make_parameter_pack_for', 'group': 'Ppf', 'why': out8[-500:]})
    # the special members of array::owning_data_t (Gen_Own.v)
    rc9, out9 = sh([sys.executable, os.path.join(VERIF, 'tools', 'cxx_own.py'), REPO, os.path.join(COQ, 'gen', 'Gen_Own.v')], timeout=300)
    try:
        rep['own'] = json.loads(out9.strip().split('\n')[-1])
        for pr in rep['own']['problems']:
            rep['untranslatable'].append({'name': 'array::owning_data_t', 'group': 'Own', 'why': pr})
    except Exception:
        rep['own'] = {'error': out9[-500:]}
        rep['untranslatable'].append({'name': 'array::owning_data_t', 'group': 'Own', 'why': out9[-500:]})
    # the recursion scheme of utility::nd_map (Gen_NdMap.v)
    rc10, out10 = sh([sys.executable, os.path.join(VERIF, 'tools', 'cxx_ndmap.py'), REPO, os.path.join(COQ, 'gen', 'Gen_NdMap.v')], timeout=300)
    try:
        rep['ndmap'] = json.loads(out10.strip().split('\n')[-1])
        for pr in rep['ndmap']['problems']:
            rep['untranslatable'].append({'name': 'utility::nd_map', 'group': 'NdMap', 'why': pr})
    except Exception:
        rep['ndmap'] = {'error': out10[-500:]}
        rep['untranslatable'].append({'name': 'utility::nd_map', 'group': 'NdMap', 'why': out10[-500:]})
    # the equations of the static_permutation metaprogram (Gen_StaticPerm.v)
    rc11, out11 = sh([sys.executable, os.path.join(VERIF, 'tools', 'cxx_sperm.py'), REPO, os.path.join(COQ, 'gen', 'Gen_StaticPerm.v')], timeout=300)
    try:
        rep['sperm'] = json.loads(out11.strip().split('\n')[-1])
        for pr in rep['sperm']['problems']:
            rep['untranslatable'].append({'name': 'static_permutation.hpp', 'group': 'StaticPerm', 'why': pr})
    except Exception:
        rep['sperm'] = {'error': out11[-500:]}
        rep['untranslatable'].append({'name': 'static_permutation.hpp', 'group': 'StaticPerm', 'why': out11[-500:]})
    # the re-layout copy functions as copy schemes (Gen_Copy.v)
    rc12, out12 = sh([sys.executable, os.path.join(VERIF, 'tools', 'cxx_copy.py'), REPO, os.path.join(COQ, 'gen', 'Gen_Copy.v')], timeout=400)
    try:
        rep['copy'] = json.loads(out12.strip().split('\n')[-1])
        for pr in rep['copy']['problems']:
            rep['untranslatable'].append({'name': 'make_*_copy', 'group': 'Copy', 'why': pr})
    except Exception:
        rep['copy'] = {'error': out12[-500:]}
        rep['untranslatable'].append({'name': 'make_*_copy', 'group': 'Copy', 'why': out12[-500:]})
    # the reader / writer of the array primitive as an IO scheme (Gen_ArrayIO.v)
    rc13, out13 = sh([sys.executable, os.path.join(VERIF, 'tools', 'cxx_arrayio.py'), REPO, os.path.join(COQ, 'gen', 'Gen_ArrayIO.v')], timeout=300)
    try:
        rep['arrayio'] = json.loads(out13.strip().split('\n')[-1])
        for pr in rep['arrayio']['problems']:
            rep['untranslatable'].append({'name': 'array::read_binary / write_binary', 'group': 'ArrayIO', 'why': pr})
    except Exception:
        rep['arrayio'] = {'error': out13[-500:]}
        rep['untranslatable'].append({'name': 'array::read_binary / write_binary', 'group': 'ArrayIO', 'why': out13[-500:]})
    # the converting constructors of the layers (Gen_Conv.v)
    rc14, out14 = sh([sys.executable, os.path.join(VERIF, 'tools', 'cxx_conv.py'), REPO, os.path.join(COQ, 'gen', 'Gen_Conv.v')], timeout=600)
    try:
        rep['conv'] = json.loads(out14.strip().split('\n')[-1])
        for pr in rep['conv']['problems']:
            rep['untranslatable'].append({'name': 'converting constructors', 'group': 'Copy', 'why': pr})
    except Exception:
        rep['conv'] = {'error': out14[-500:]}
        rep['untranslatable'].append({'name': 'converting constructors', 'group': 'Copy', 'why': out14[-500:]})
    # the class-scope static_asserts of the layer and view templates (Gen_Asserts.v)
    rc15, out15 = sh([sys.executable, os.path.join(VERIF, 'tools', 'cxx_asserts.py'), REPO, os.path.join(COQ, 'gen', 'Gen_Asserts.v')], timeout=900)
    try:
        rep['asserts'] = json.loads(out15.strip().split('\n')[-1])
        for pr in rep['asserts']['problems']:
            rep['untranslatable'].append({'name': 'static_asserts', 'group': 'Asserts', 'why': pr})
    except Exception:
        rep['asserts'] = {'error': out15[-500:]}
        rep['untranslatable'].append({'name': 'static_asserts', 'group': 'Asserts', 'why': out15[-500:]})
    return rep, out + out2 + out3 + out4 + out5 + out6 + out7 + out8 + out9 + out10 + out11 + out12 + out13 + out14 + out15


def coq_makefile():
    mk = os.path.join(COQ, 'Makefile')
    cp = os.path.join(COQ, '_CoqProject')
    if not os.path.exists(mk) or os.path.getmtime(mk) < os.path.getmtime(cp):
        rc, out = sh(['coq_makefile', '-f', '_CoqProject', '-o', 'Makefile'], cwd=COQ)
        if rc != 0:
            raise RuntimeError('coq_makefile failed: ' + out)


def coq_make(targets, timeout=1500):
    """full .vo build of the given targets (never -vos). returns (ok, log)"""
    coq_makefile()
    rc, out = sh(['make', '-k', f'-j{NCPU}'] + targets, cwd=COQ, timeout=timeout,
                 env={'TIMED': ''})
    return rc == 0, out


REQ_RE = re.compile(r'^\s*(?:From\s+(Covfie(?:\.gen)?)\s+)?Require\s+(?:Import|Export)?\s*([^.]*(?:\.[A-Za-z_][^.]*)*)\.\s*$')


def coq_cone(vfile):
    """files of this development that vfile (relative to coq/) transitively requires"""
    seen = []

    def visit(rel):
        if rel in seen:
            return
        path = os.path.join(COQ, rel)
        if not os.path.exists(path):
            return
        seen.append(rel)
        for line in open(path):
            m = re.match(r'^\s*From\s+(Covfie(?:\.gen)?)\s+Require\s+(?:Import\s+|Export\s+)?(.*)\.\s*$', line)
            if m:
                pre = 'gen/' if m.group(1).endswith('.gen') else ''
                for name in m.group(2).split():
                    name = name.strip()
                    if name.startswith('gen.'):
                        visit('gen/' + name[4:] + '.v')
                    else:
                        visit(pre + name + '.v')
    visit(vfile)
    return seen


OBL_RE = re.compile(r'^\s*(?:Local\s+|Global\s+)?(Theorem|Lemma|Corollary|Example|Fact|Proposition|Remark)\s+([A-Za-z_][A-Za-z0-9_\']*)')


def obligations(vfile):
    """[(file, kind, name)] of every stated fact in the dependency cone of vfile"""
    out = []
    for rel in coq_cone(vfile):
        for line in open(os.path.join(COQ, rel)):
            m = OBL_RE.match(line)
            if m:
                out.append((rel, m.group(1), m.group(2)))
    return out


FORBIDDEN = re.compile(r'\b(Admitted|admit|Axiom|Axioms|Parameter|Parameters|Conjecture|Unset\s+Guard|bypass_check|Admit\s+Obligations|type-in-type|impredicative-set)\b')


def forbidden_scan():
    """no Admitted / admit / Axiom / Parameter / ... anywhere in the development"""
    bad = []
    for f in sorted(glob.glob(os.path.join(COQ, '*.v')) + glob.glob(os.path.join(COQ, 'gen', '*.v'))):
        txt = open(f).read()
        txt = re.sub(r'\(\*.*?\*\)', '', txt, flags=re.S)
        for i, line in enumerate(txt.split('\n')):
            if FORBIDDEN.search(line):
                bad.append(f'{os.path.relpath(f, VERIF)}:{i + 1}: {line.strip()}')
            if re.match(r'^\s*(Variable|Variables|Hypothesis|Hypotheses)\b', line):
                # allowed only inside a Section; cheap check: the file must contain a Section before it
                before = '\n'.join(txt.split('\n')[:i])
                if before.count('Section ') <= before.count('\nEnd '):
                    bad.append(f'{os.path.relpath(f, VERIF)}:{i + 1}: {line.strip()} (outside a section)')
    return bad


def vo_uptodate(rel):
    v = os.path.join(COQ, rel)
    vo = v[:-2] + '.vo'
    return os.path.exists(vo) and os.path.getmtime(vo) >= os.path.getmtime(v)


def assumptions_of(log, names=None):
    """parse `Print Assumptions` output out of a make log: list of axiom names"""
    ax = set()
    for m in re.finditer(r'^Axioms:\n((?:.+\n)+?)(?=^\S|\Z)', log, flags=re.M):
        pass
    for line in log.split('\n'):
        m = re.match(r'^([A-Za-z_][A-Za-z0-9_.\']*)\s*:\s', line)
        if m and '.' in m.group(1):
            ax.add(m.group(1))
    return sorted(ax)


# ---------------------------------------------------------------------------------
# extraction and OCaml driver
# ---------------------------------------------------------------------------------
def build_driver(family, timeout=900):
    """Separate Extraction of coq/Extract_<family>.v into _build/extract/<family>, then
    ocamlfind ocamlopt with ocaml/zutil.ml and ocaml/drv_<family>.ml -> executable path"""
    d = os.path.join(BUILD, 'extract', family)
    src = os.path.join(COQ, f'Extract_{family}.v')
    drv = os.path.join(VERIF, 'ocaml', f'drv_{family}.ml')
    zut = os.path.join(VERIF, 'ocaml', 'zutil.ml')
    exe = os.path.join(d, 'driver')
    cone = coq_cone(f'Extract_{family}.v')
    # the compiled dependencies must be those of the current sources (gen/*.v may just have been regenerated)
    deps = [c[:-2] + '.vo' for c in cone if c != f'Extract_{family}.v']
    with Lock('coq'):
        okdeps, mlog = coq_make(deps, timeout=timeout)
    if not okdeps:
        m = re.findall(r'File "\./([^"]+)", line (\d+)[^\n]*\n((?:.+\n){1,8})', mlog)
        return None, 'model files do not compile:\n' + ('\n'.join(f'{f}:{l}: {t.strip()[:500]}' for f, l, t in m[:4]) or mlog[-2000:])
    key = tree_hash([os.path.join(COQ, c) for c in cone] + [drv, zut])
    stamp = os.path.join(d, 'stamp')
    if os.path.exists(exe) and os.path.exists(stamp) and open(stamp).read() == key:
        return exe, ''
    shutil.rmtree(d, ignore_errors=True)
    os.makedirs(d)
    rc, out = sh(['coqc', '-Q', COQ, 'Covfie', '-o', os.path.join(d, f'Extract_{family}.vo'), src], cwd=d, timeout=timeout)
    if rc != 0:
        return None, 'extraction failed:\n' + out
    shutil.copy(zut, d)
    if not os.path.exists(os.path.join(d, 'BinNums.ml')):
        # this family does not use Z: give zutil.ml the (unused) number types it mentions
        open(os.path.join(d, 'BinNums.ml'), 'w').write('type positive = Coq_xI of positive | Coq_xO of positive | Coq_xH\ntype coq_N = N0 | Npos of positive\ntype coq_Z = Z0 | Zpos of positive | Zneg of positive\n')
    shutil.copy(drv, os.path.join(d, 'drv.ml'))
    rc, order = sh('ocamlfind ocamldep -sort *.ml *.mli', cwd=d)
    files = [f for f in order.split() if f.endswith('.ml') or f.endswith('.mli')]
    rc, out2 = sh(['ocamlfind', 'ocamlopt', '-package', 'zarith', '-linkpkg', '-inline', '100', '-w', '-a', '-o', 'driver'] + files, cwd=d, timeout=timeout)
    if rc != 0:
        return None, 'driver build failed:\n' + out2
    open(stamp, 'w').write(key)
    return exe, out + out2


# ---------------------------------------------------------------------------------
# C++ harness
# ---------------------------------------------------------------------------------
CXX = 'g++'
CONFIGS = {
    'dbg': ['-O1', '-g', '-fsanitize=address,undefined', '-fno-sanitize-recover=all'],
    'rel': ['-O2', '-DNDEBUG', '-fsanitize=address,undefined', '-fno-sanitize-recover=all'],
    'relplain': ['-O2', '-DNDEBUG'],
    'bmi': ['-O2', '-DNDEBUG', '-mbmi2', '-fsanitize=address,undefined', '-fno-sanitize-recover=all'],
    'tsan': ['-O1', '-g', '-fsanitize=thread'],
    'syntax': ['-fsyntax-only'],
    'plain': ['-O0'],
}
BASE_FLAGS = ['-std=c++20', '-ffp-contract=off', '-D' + GUARD, '-Wno-deprecated-declarations']


def include_flags():
    return ['-I' + os.path.join(REPO, 'lib', 'core'), '-I' + os.path.join(REPO, 'lib', 'cpu'),
            '-I' + os.path.join(VERIF, 'harness')]


def build_harness(name, source, config, extra=None, timeout=900, deps=None):
    """compile one harness source against /repo's current headers; cached by content hash.
    returns (exe or None, compiler output)"""
    flags = BASE_FLAGS + CONFIGS[config] + (extra or [])
    alldeps = [source] + list(deps or [])
    io = os.path.join(VERIF, 'harness', 'vh_io.hpp')
    if io not in alldeps:
        alldeps.append(io)
    key = hashlib.sha256((repo_lib_hash() + tree_hash(alldeps) + ' '.join(flags) + CXX).encode()).hexdigest()[:16]
    d = os.path.join(BUILD, 'harness')
    os.makedirs(d, exist_ok=True)
    exe = os.path.join(d, f'{name}.{config}.{key}')
    if os.path.exists(exe):
        return exe, ''
    for old in glob.glob(os.path.join(d, f'{name}.{config}.*')):
        try:
            os.remove(old)
        except OSError:
            pass
    tmp = exe + '.tmp'
    rc, out = sh([CXX] + flags + include_flags() + [source, '-o', tmp, '-pthread'], timeout=timeout)
    if rc != 0:
        return None, out
    if config == 'syntax':
        open(exe, 'w').close()      # a marker: this translation unit is accepted by the compiler
    else:
        os.replace(tmp, exe)
    return exe, out


def run_exe(exe, stdin_text, timeout=600, env=None):
    e = {'ASAN_OPTIONS': 'detect_leaks=1:abort_on_error=0:allocator_may_return_null=1',
         'UBSAN_OPTIONS': 'print_stacktrace=1:halt_on_error=1'}
    if env:
        e.update(env)
    return sh2([exe], timeout=timeout, input=stdin_text, env=e)


# ---------------------------------------------------------------------------------
# known findings
# ---------------------------------------------------------------------------------
def load_known():
    p = os.path.join(VERIF, 'known_findings.json')
    if not os.path.exists(p):
        return []
    return json.load(open(p))


# ---------------------------------------------------------------------------------
# a check run
# ---------------------------------------------------------------------------------
class Check:
    def __init__(self, pid, level='proof'):
        self.pid = pid
        self.level = level
        self.tier = os.environ.get('VERIF_TIER') or 'quick'
        try:
            self.seed = int(os.environ.get('VERIF_SEED', '1'))
        except ValueError:
            self.seed = 1
        self.t0 = time.time()
        self.rng = Rng(self.seed)
        self.cov = {'evaluations': 0, 'distinct_nontrivial': 0, 'rule': '', 'samples': [],
                    'obligations': 0, 'discharged': 0, 'checker_cmd': '', 'trusted_base': list(TRUSTED_BASE),
                    'disagreements_checked': 0, 'programs': 0}
        self.assumptions = []
        self.violations = []      # (key, what, replay dict, found_input: bool)
        self.known_hits = []
        self.viol_keys = {}
        self.broken = []          # names of broken obligations / correspondences
        self.notes = []
        self.seen_cases = set()
        self.known = [k for k in load_known() if k.get('property') == pid]
        os.makedirs(EVID, exist_ok=True)
        os.makedirs(os.path.join(BUILD, 'replay'), exist_ok=True)

    # -- bookkeeping -----------------------------------------------------------
    def count_case(self, canonical, nontrivial=True):
        self.cov['evaluations'] += 1
        if nontrivial:
            h = hash(canonical)
            if h not in self.seen_cases:
                self.seen_cases.add(h)
                self.cov['distinct_nontrivial'] += 1

    def sample(self, s, limit=12):
        if len(self.cov['samples']) < limit:
            self.cov['samples'].append(s)

    def note(self, s):
        self.notes.append(s)
        print('note:', s, flush=True)

    def obligation_broken(self, name, detail=''):
        self.broken.append({'obligation': name, 'detail': detail[-4000:]})
        print(f'BROKEN obligation/correspondence: {name}', flush=True)

    def violation(self, key, what, replay, found_input=True):
        """a failure of the property's own oracle on a concrete input (found_input) or a
        broken obligation for which no failing input was found"""
        for k in self.known:
            if k.get('status') == 'known' and re.search(k['key'], key):
                if k['key'] not in [h['key'] for h in self.known_hits]:
                    self.known_hits.append(k)
                return
        if key in self.viol_keys:
            self.viol_keys[key] += 1
            return
        self.viol_keys[key] = 1
        self.violations.append((key, what, replay, found_input))

    # -- Coq -------------------------------------------------------------------
    def prove(self, vfile, timeout=1500):
        """make <vfile>.vo; count obligations of its cone; returns ok"""
        bad = forbidden_scan()
        if bad:
            self.obligation_broken('forbidden construct in the development', '\n'.join(bad))
        target = vfile[:-2] + '.vo'
        with Lock('coq'):
            # the generated files are not kept in git: a check run without a prior setup regenerates them
            listed = [l.strip() for l in open(os.path.join(COQ, '_CoqProject')) if l.strip().startswith('gen/')]
            if any(not os.path.exists(os.path.join(COQ, g)) for g in listed):
                translate()
            ok, log = coq_make([target], timeout=timeout)
        obs = obligations(vfile)
        cone = coq_cone(vfile)
        failed_targets = set(re.findall(r'\*\*\* \[[^\]]*?([A-Za-z0-9_/]+\.vo)\] Error', log))
        built = {rel: (os.path.exists(os.path.join(COQ, rel[:-2] + '.vo')) and rel[:-2] + '.vo' not in failed_targets)
                 for rel in cone}
        # a file counts as discharged only if it and everything it requires compiled
        memo = {}

        def good(rel):
            if rel not in memo:
                memo[rel] = built.get(rel, False) and all(built.get(r, False) for r in coq_cone(rel))
            return memo[rel]
        self.cov['obligations'] += len(obs)
        self.cov['discharged'] += sum(1 for (rel, _, _) in obs if good(rel))
        self.cov['checker_cmd'] = (self.cov['checker_cmd'] + '; ' if self.cov['checker_cmd'] else '') + \
            f'make -k -j{NCPU} {target} (coq_makefile, full .vo build; coqc 8.16.1)'
        if not ok or not good(vfile):
            failed = [rel for rel in cone if not good(rel)]
            m = re.findall(r'File "\./([^"]+)", line (\d+)[^\n]*\n((?:.+\n){1,12})', log)
            detail = '\n'.join(f'{f}:{l}: {t.strip()[:600]}' for f, l, t in m[:5]) or log[-3000:]
            self.obligation_broken(f'proof obligations in {", ".join(failed) or vfile}', detail)
        self.cov.setdefault('print_assumptions', {})
        if ok and good(vfile):
            # re-run coqc on the property file alone to capture its Print Assumptions output
            os.makedirs(os.path.join(BUILD, 'pa'), exist_ok=True)
            rc, out = sh(['coqc', '-Q', '.', 'Covfie', '-o', os.path.join(BUILD, 'pa', os.path.basename(vfile)[:-2] + '.vo'), vfile],
                         cwd=COQ, timeout=900)
            closed = out.count('Closed under the global context')
            axioms = sorted(set(re.findall(r'^([A-Za-z_][A-Za-z0-9_\']*(?:\.[A-Za-z_][A-Za-z0-9_\']*)+)\s*$|^([A-Za-z_][A-Za-z0-9_\'.]*)\s*:', out, flags=re.M)))
            names = sorted({a or b for a, b in axioms if (a or b) and '.' in (a or b)})
            self.cov['print_assumptions'][vfile] = {'closed_under_global_context': closed, 'axioms': names}
            if names:
                self.assumptions.append(f'{vfile}: standard-library axioms reported by Print Assumptions: ' + ', '.join(names))
        if ok and good(vfile) and self.tier == 'thorough':
            self.coqchk(vfile)
        return ok and good(vfile)

    def coqchk(self, vfile):
        """thorough tier: re-check the compiled property file and everything it depends on with the independent checker
        and record its context summary (axioms, type-in-type, unsafe fixpoints, assumed positivity)"""
        mod = 'Covfie.' + os.path.basename(vfile)[:-2]
        rc, out = sh(['coqchk', '-o', '-silent', '-Q', '.', 'Covfie', mod], cwd=COQ, timeout=3600)
        summ = out[out.find('CONTEXT SUMMARY'):] if 'CONTEXT SUMMARY' in out else out[-1500:]
        def section(title):
            m = re.search(r'\* ' + re.escape(title) + r':(.*?)(?=\n\* |\Z)', summ, flags=re.S)
            if not m:
                return None
            items = [x.strip() for x in m.group(1).strip().split('\n') if x.strip()]
            return [] if items == ['<none>'] else items
        rec = {'exit': rc, 'axioms': section('Axioms'), 'type_in_type': section('Constants/Inductives relying on type-in-type'),
               'unsafe_fixpoints': section('Constants/Inductives relying on unsafe (co)fixpoints'), 'assumed_positivity': section('Inductives whose positivity is assumed')}
        self.cov.setdefault('coqchk', {})[vfile] = rec
        self.cov['checker_cmd'] += f'; coqchk -o -silent -Q . Covfie {mod}'
        if rc != 0 or rec['axioms'] is None:
            self.obligation_broken(f'coqchk rejects {mod}', out[-2000:])
        elif rec['type_in_type'] or rec['unsafe_fixpoints'] or rec['assumed_positivity']:
            self.obligation_broken(f'coqchk: {mod} relies on switched-off kernel checks', summ[-1500:])
        allowed = ('Coq.Logic.FunctionalExtensionality.functional_extensionality_dep', 'Coq.Reals.ClassicalDedekindReals.sig_not_dec',
                   'Coq.Reals.ClassicalDedekindReals.sig_forall_dec', 'Coq.Logic.Classical_Prop.classic')
        extra = [a for a in (rec['axioms'] or []) if a not in allowed]
        if extra:
            self.obligation_broken(f'coqchk: {mod} depends on axioms outside the named standard-library ones', ', '.join(extra))

    # -- finishing -------------------------------------------------------------
    def finish(self):
        wall = time.time() - self.t0
        nviol = len(self.violations)
        # a broken obligation with no concrete failing input is still a violation
        if self.broken and not self.violations and not self.known_hits_cover_broken():
            rp = self.write_replay('broken', {'property': self.pid, 'no_failing_input_found': True,
                                              'broken': self.broken, 'seed': self.seed, 'tier': self.tier})
            print(f'VIOLATION property={self.pid} replay={rp} no-failing-input-found', flush=True)
            nviol = 1
        else:
            for i, (key, what, replay, found) in enumerate(self.violations):
                rp = self.write_replay(f'v{i}', {'property': self.pid, 'key': key, 'what': what, 'replay': replay,
                                                 'broken': self.broken, 'seed': self.seed, 'tier': self.tier})
                tail = '' if found else ' no-failing-input-found'
                print(f'VIOLATION property={self.pid} replay={rp}{tail}', flush=True)
                print(f'  {key}: {what} (+{self.viol_keys[key] - 1} more with the same key)', flush=True)
        for k in self.known_hits:
            print(f"KNOWN-FINDING: property={self.pid} {k['what']}", flush=True)
        cov = dict(self.cov)
        cov['rule'] = cov['rule'] or 'see DESIGN.md'
        cov['broken_obligations'] = self.broken
        cov['known_findings_hit'] = [k['key'] for k in self.known_hits]
        cov['notes'] = self.notes
        if not cov['samples']:
            cov['samples'] = ['(no cases)']
        ev = {'property_id': self.pid, 'tier': self.tier if self.tier in ('quick', 'thorough') else 'quick',
              'seed': self.seed, 'level': self.level, 'coverage': cov,
              'assumptions': self.assumptions, 'wall_s': round(wall, 2), 'violations': nviol}
        with open(os.path.join(EVID, f'{self.pid}.json'), 'w') as f:
            json.dump(ev, f, indent=1, default=str)
        print(f'{self.pid}: tier={self.tier} seed={self.seed} obligations={cov["obligations"]} discharged={cov["discharged"]} '
              f'cases={cov["evaluations"]} distinct={cov["distinct_nontrivial"]} violations={nviol} '
              f'known={len(self.known_hits)} wall={wall:.1f}s', flush=True)
        return 1 if nviol else 0

    def known_hits_cover_broken(self):
        """every broken obligation is explained by a known finding (each carries `explains`)"""
        if not self.known_hits:
            return False
        expl = [e for k in self.known_hits for e in k.get('explains', [])]
        return all(any(re.search(e, b['obligation'] + ' ' + b['detail']) for e in expl) for b in self.broken)

    def write_replay(self, tag, obj):
        d = os.path.join(VERIF, 'replays')
        os.makedirs(d, exist_ok=True)
        p = os.path.join(d, f'{self.pid}_{tag}.json')
        with open(p, 'w') as f:
            json.dump(obj, f, indent=1, default=str)
        return p
