(* AlgebraCore.v -- covfie::algebra (matrix.hpp, affine.hpp) as list functions, polymorphic in the
   scalar type so that the same definitions run with IEEE arithmetic (the executable model compared
   with the code) and are reasoned about over an arbitrary commutative ring (AlgebraProofs.v).
   A matrix is a list of rows.  Summation order is the code's:  t = 0; for k: t += a(i,k) * b(k,j). *)
From Coq Require Import List Arith.
Import ListNotations.

Section Core.
  Variable T : Type.
  Variables (zero one : T) (add mul : T -> T -> T).

  Fixpoint dot (acc : T) (row r : list T) : T :=
    match row, r with
    | a :: row', x :: r' => dot (add acc (mul a x)) row' r'
    | _, _ => acc
    end.
  Definition mat_vec (A : list (list T)) (r : list T) : list T := map (fun row => dot zero row r) A.
  Definition col (j : nat) (B : list (list T)) : list T := map (fun row => nth j row zero) B.
  (* N x M times M x P *)
  Definition mat_mul (P : nat) (A B : list (list T)) : list (list T) :=
    map (fun row => map (fun j => dot zero row (col j B)) (seq 0 P)) A.

  (* affine<N>::operator*(vector): r = (v, 1); matrix * r *)
  Definition affine_apply (A : list (list T)) (v : list T) : list T := mat_vec A (v ++ [one]).
  (* the (N+1) x (N+1) embedding with bottom row (0, ..., 0, 1) *)
  Definition embed (N : nat) (A : list (list T)) : list (list T) := A ++ [repeat zero N ++ [one]].
  (* affine<N>::operator*(affine): rows 0..N-1 of embed(A) * embed(B) *)
  Definition affine_compose (N : nat) (A B : list (list T)) : list (list T) :=
    firstn N (mat_mul (S N) (embed N A) (embed N B)).

  Definition identity_row (N i : nat) : list T := map (fun j => if Nat.eqb i j then one else zero) (seq 0 (S N)).
  Definition affine_identity (N : nat) : list (list T) := map (identity_row N) (seq 0 N).
  Fixpoint set_nth (l : list T) (j : nat) (x : T) : list T :=
    match l, j with
    | _ :: l', O => x :: l'
    | y :: l', S j' => y :: set_nth l' j' x
    | [], _ => []
    end.
  (* result = identity; result(i, N) = t_i      /      result(i, i) = s_i *)
  Definition translation (t : list T) : list (list T) :=
    let N := length t in map (fun i => set_nth (identity_row N i) N (nth i t zero)) (seq 0 N).
  Definition scaling (s : list T) : list (list T) :=
    let N := length s in map (fun i => set_nth (identity_row N i) i (nth i s zero)) (seq 0 N).
End Core.
Arguments dot {T}. Arguments mat_vec {T}. Arguments col {T}. Arguments mat_mul {T}. Arguments affine_apply {T}.
Arguments embed {T}. Arguments affine_compose {T}. Arguments identity_row {T}. Arguments affine_identity {T}.
Arguments set_nth {T}. Arguments translation {T}. Arguments scaling {T}.
