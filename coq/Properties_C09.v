(* Properties_C09.v -- C09: the affine layer maps x to Ax+t and affine transforms compose as functions.
   Only the property theorems, closed by [exact].  The algebra is stated over an ARBITRARY commutative
   ring (every operation exact), for every N; the layer of the executable model is definitionally that
   algebra instantiated with the IEEE operations, and is tied to the code by props/c09.py. *)
From Coq Require Import ZArith List Bool Ring_theory.
From Covfie Require Import AlgebraCore Stack AlgebraProofs AlgebraBridge.
Import ListNotations.

Theorem C09_affine_apply_spec : forall T rO rI radd rmul rsub ropp, ring_theory rO rI radd rmul rsub ropp (@eq T) ->
  forall (A : list (list T)) v i row, nth_error A i = Some row ->
  forall coeffs t, row = coeffs ++ [t] -> length coeffs = length v ->
  nth_error (AlgebraCore.affine_apply rO rI radd rmul A v) i = Some (radd (sdot T rO radd rmul coeffs v) t).
Proof. exact affine_apply_spec. Qed.

Theorem C09_compose_apply : forall T rO rI radd rmul rsub ropp, ring_theory rO rI radd rmul rsub ropp (@eq T) ->
  forall N A B v, length A = N -> length B = N -> length v = N -> Forall (fun row => length row = S N) B ->
  AlgebraCore.affine_apply rO rI radd rmul (affine_compose rO rI radd rmul N A B) v =
  AlgebraCore.affine_apply rO rI radd rmul A (AlgebraCore.affine_apply rO rI radd rmul B v).
Proof. exact compose_apply. Qed.

Theorem C09_products_of_any_length : forall T rO rI radd rmul rsub ropp, ring_theory rO rI radd rmul rsub ropp (@eq T) ->
  forall N (As : list (list (list T))) v, length v = N -> Forall (is_affine T N) As ->
  AlgebraCore.affine_apply rO rI radd rmul (fold_right (affine_compose rO rI radd rmul N) (affine_identity rO rI N) As) v =
  fold_right (fun A x => AlgebraCore.affine_apply rO rI radd rmul A x) v As.
Proof. exact compose_list_apply. Qed.

Theorem C09_identity : forall T rO rI radd rmul rsub ropp, ring_theory rO rI radd rmul rsub ropp (@eq T) ->
  forall N v, length v = N -> AlgebraCore.affine_apply rO rI radd rmul (affine_identity rO rI N) v = v.
Proof. exact identity_apply. Qed.

(* the constructors have their textbook meaning *)
Theorem C09_translation : forall T rO rI radd rmul rsub ropp, ring_theory rO rI radd rmul rsub ropp (@eq T) ->
  forall t v, length v = length t ->
  AlgebraCore.affine_apply rO rI radd rmul (translation rO rI t) v = map (fun i => radd (nth i v rO) (nth i t rO)) (seq 0 (length t)).
Proof. exact translation_apply. Qed.
Theorem C09_scaling : forall T rO rI radd rmul rsub ropp, ring_theory rO rI radd rmul rsub ropp (@eq T) ->
  forall s v, length v = length s ->
  AlgebraCore.affine_apply rO rI radd rmul (scaling rO rI s) v = map (fun i => rmul (nth i s rO) (nth i v rO)) (seq 0 (length s)).
Proof. exact scaling_apply. Qed.

(* the layer queries its backend at A.x + t, computed by exactly this algebra *)
Theorem C09_affine_layer : forall (ops : sops) t m (b : query) c,
  affine_at ops t m b c =
  b (AlgebraCore.affine_apply (f_of_Z ops t 0%Z) (f_of_Z ops t 1%Z) (f_add ops t) (f_mul ops t) (rows (length c) (S (length c)) m) c).
Proof. exact affine_layer_law. Qed.

(* non-vacuity over Z: (2x+1, 3y-1) after (x+5, y+7) *)
Example C09_example :
  let A := [[2; 0; 1]; [0; 3; -1]]%Z in let B := [[1; 0; 5]; [0; 1; 7]]%Z in
  AlgebraCore.affine_apply 0%Z 1%Z Z.add Z.mul (affine_compose 0%Z 1%Z Z.add Z.mul 2 A B) [10; 20]%Z = [31; 80]%Z /\
  AlgebraCore.affine_apply 0%Z 1%Z Z.add Z.mul A (AlgebraCore.affine_apply 0%Z 1%Z Z.add Z.mul B [10; 20]%Z) = [31; 80]%Z.
Proof. split; reflexivity. Qed.

Print Assumptions C09_affine_apply_spec.
Print Assumptions C09_compose_apply.
Print Assumptions C09_products_of_any_length.
