(* Properties_C09.v -- C09: the affine layer maps x to Ax+t and affine transforms compose as functions.
   Only the property theorems, closed by [exact].  The algebra is stated over an ARBITRARY commutative
   ring (every operation exact), for every N; the layer of the executable model is definitionally that
   algebra instantiated with the IEEE operations, and is tied to the code by props/c09.py. *)
From Coq Require Import ZArith List Bool Ring_theory.
From Covfie Require Import AlgebraCore Stack AlgebraProofs AlgebraBridge MatLang Refine_Algebra.
Import ListNotations.

Theorem C09_affine_apply_spec : forall T rO rI radd rmul rsub ropp, ring_theory rO rI radd rmul rsub ropp (@eq T) ->
  forall (A : list (list T)) v i row, nth_error A i = Some row ->
  forall coeffs t, row = coeffs ++ [t] -> length coeffs = length v ->
  nth_error (AlgebraCore.affine_apply rO rI radd rmul A v) i = Some (radd (sdot T rO radd rmul coeffs v) t).
Proof. exact affine_apply_spec. Qed.

Theorem C09_compose_apply : forall T rO rI radd rmul rsub ropp, ring_theory rO rI radd rmul rsub ropp (@eq T) ->
  forall N A B v, length A = N -> length B = N -> length v = N -> Forall (fun row => length row = S N) B ->
  AlgebraCore.affine_apply rO rI radd rmul (affine_compose rO rI radd rmul N A B) v =
  AlgebraCore.affine_apply rO rI radd rmul A (AlgebraCore.affine_apply rO rI radd rmul B v).
Proof. exact compose_apply. Qed.

Theorem C09_products_of_any_length : forall T rO rI radd rmul rsub ropp, ring_theory rO rI radd rmul rsub ropp (@eq T) ->
  forall N (As : list (list (list T))) v, length v = N -> Forall (is_affine T N) As ->
  AlgebraCore.affine_apply rO rI radd rmul (fold_right (affine_compose rO rI radd rmul N) (affine_identity rO rI N) As) v =
  fold_right (fun A x => AlgebraCore.affine_apply rO rI radd rmul A x) v As.
Proof. exact compose_list_apply. Qed.

Theorem C09_identity : forall T rO rI radd rmul rsub ropp, ring_theory rO rI radd rmul rsub ropp (@eq T) ->
  forall N v, length v = N -> AlgebraCore.affine_apply rO rI radd rmul (affine_identity rO rI N) v = v.
Proof. exact identity_apply. Qed.

(* the constructors have their textbook meaning *)
Theorem C09_translation : forall T rO rI radd rmul rsub ropp, ring_theory rO rI radd rmul rsub ropp (@eq T) ->
  forall t v, length v = length t ->
  AlgebraCore.affine_apply rO rI radd rmul (translation rO rI t) v = map (fun i => radd (nth i v rO) (nth i t rO)) (seq 0 (length t)).
Proof. exact translation_apply. Qed.
Theorem C09_scaling : forall T rO rI radd rmul rsub ropp, ring_theory rO rI radd rmul rsub ropp (@eq T) ->
  forall s v, length v = length s ->
  AlgebraCore.affine_apply rO rI radd rmul (scaling rO rI s) v = map (fun i => rmul (nth i s rO) (nth i v rO)) (seq 0 (length s)).
Proof. exact scaling_apply. Qed.

(* the layer queries its backend at A.x + t, computed by exactly this algebra *)
Theorem C09_affine_layer : forall (ops : sops) t m (b : query) c,
  affine_at ops t m b c =
  b (AlgebraCore.affine_apply (f_of_Z ops t 0%Z) (f_of_Z ops t 1%Z) (f_add ops t) (f_mul ops t) (rows (length c) (S (length c)) m) c).
Proof. exact affine_layer_law. Qed.

(* non-vacuity over Z: (2x+1, 3y-1) after (x+5, y+7) *)
Example C09_example :
  let A := [[2; 0; 1]; [0; 3; -1]]%Z in let B := [[1; 0; 5]; [0; 1; 7]]%Z in
  AlgebraCore.affine_apply 0%Z 1%Z Z.add Z.mul (affine_compose 0%Z 1%Z Z.add Z.mul 2 A B) [10; 20]%Z = [31; 80]%Z /\
  AlgebraCore.affine_apply 0%Z 1%Z Z.add Z.mul A (AlgebraCore.affine_apply 0%Z 1%Z Z.add Z.mul B [10; 20]%Z) = [31; 80]%Z.
Proof. split; reflexivity. Qed.

(* ---- the code itself: the loop programs of algebra/matrix.hpp, algebra/affine.hpp and of the affine layer's
   lookup, translated from the source on this run (gen/Gen_Algebra.v, MatLang semantics), compute exactly the
   list functions above -- for arbitrary scalar operations (the equality is syntactic, in the code's summation
   order), every entry symbolic, products of shapes up to 5 x 5, transforms of dimension N = 1..4 ---- *)
Theorem C09_code_matrix_product : forall (T : Type) (zero one : T) (add mul : T -> T -> T) (n m p : nat) (A B : nat -> nat -> T),
  (n <= 5)%nat -> (m <= 5)%nat -> (p <= 5)%nat ->
  tab n p (g_mul T zero one add mul n m p A B) = mat_mul zero add mul p (tab n m A) (tab m p B).
Proof. exact matmul_refines. Qed.
Theorem C09_code_affine_times_vector : forall (T : Type) (zero one : T) (add mul : T -> T -> T) (n : nat) (A V : nat -> nat -> T),
  (1 <= n <= 4)%nat ->
  tabv n (g_apply T zero one add mul n A V) = AlgebraCore.affine_apply zero one add mul (tab n (S n) A) (tabv n V).
Proof. exact affine_apply_refines. Qed.
Theorem C09_code_affine_times_affine : forall (T : Type) (zero one : T) (add mul : T -> T -> T) (n : nat) (A B : nat -> nat -> T),
  (1 <= n <= 4)%nat ->
  tab n (S n) (g_compose T zero one add mul n A B) = affine_compose zero one add mul n (tab n (S n) A) (tab n (S n) B).
Proof. exact affine_compose_refines. Qed.
Theorem C09_code_identity : forall (T : Type) (zero one : T) (add mul : T -> T -> T) (n : nat),
  (1 <= n <= 4)%nat -> tab n (S n) (g_id T zero one add mul n (S n)) = affine_identity zero one n.
Proof. exact identity_refines. Qed.
Theorem C09_code_translation : forall (T : Type) (zero one : T) (add mul : T -> T -> T) (n : nat) (t : nat -> T),
  (1 <= n <= 4)%nat -> tab n (S n) (g_trans T zero one add mul n t) = translation zero one (map t (seq 0 n)).
Proof. exact translation_refines. Qed.
Theorem C09_code_scaling : forall (T : Type) (zero one : T) (add mul : T -> T -> T) (n : nat) (s : nat -> T),
  (1 <= n <= 4)%nat -> tab n (S n) (g_scale T zero one add mul n s) = scaling zero one (map s (seq 0 n)).
Proof. exact scaling_refines. Qed.
(* the coordinate the affine LAYER hands to its backend (backend/transformer/affine.hpp, at) *)
Theorem C09_code_affine_layer : forall (T : Type) (zero one : T) (add mul : T -> T -> T) (n : nat) (A C : nat -> nat -> T),
  (1 <= n <= 4)%nat ->
  tabv n (g_layer T zero one add mul n A C) = AlgebraCore.affine_apply zero one add mul (tab n (S n) A) (tabv n C).
Proof. exact affine_layer_refines. Qed.

(* non-vacuity: the translated product of the 2 x 3 and 3 x 2 integer matrices (i + j), (i * j + 1) *)
Example C09_code_example :
  tab 2 2 (g_mul Z 0%Z 1%Z Z.add Z.mul 2 3 2 (fun i j => Z.of_nat (i + j)) (fun i j => Z.of_nat (i * j + 1))) = [[3; 8]; [6; 14]]%Z.
Proof. vm_compute. reflexivity. Qed.

Print Assumptions C09_affine_apply_spec.
Print Assumptions C09_code_affine_times_affine.
Print Assumptions C09_code_affine_layer.
Print Assumptions C09_compose_apply.
Print Assumptions C09_products_of_any_length.
