(* Properties_C01.v -- C01: storage-order layers behave as an N-dimensional array.
   Only the property theorems, closed by [exact].  Three layers of statement:
   (1) any injective, in-range layout gives read-own-write, frame and in-storage;
   (2) row-major, Morton and Hilbert ARE such layouts for every extent vector (every extent >= 1)
       with the library's own capacity expressions;
   (3) the kernels GENERATED from strided.hpp / morton.hpp on this run compute exactly these index
       functions, with no wrap-around, UB or assertion failure (tie to the code). *)
From Coq Require Import ZArith List Bool.
From Covfie Require Import CKernel Numeric Layout Hilbert LayoutMem Refine_Strided Refine_Morton Refine_Hilbert.
From Covfie.gen Require Import Gen_Strided Gen_Morton Gen_Hilbert.
Import ListNotations.
Local Open Scope Z_scope.

(* (1) *)
Theorem C01_read_own_write : forall V (L : layout) (m : mem V) c v,
  rd V (wr V m (idx L c) v) (idx L c) = v.
Proof. exact layout_read_own_write. Qed.
Theorem C01_write_frames : forall V (L : layout) (m : mem V) c c' v,
  dom L c -> dom L c' -> c <> c' -> rd V (wr V m (idx L c) v) (idx L c') = rd V m (idx L c').
Proof. exact layout_write_frames. Qed.
Theorem C01_in_storage : forall (L : layout) c, dom L c -> 0 <= idx L c < cap L.
Proof. exact layout_in_storage. Qed.

(* (2) the three layouts; their [dom] is "every coordinate in range", their [cap] the storage length *)
Theorem C01_rowmajor_layout : forall sizes c c', in_box sizes c -> in_box sizes c' ->
  (rowmajor sizes c = rowmajor sizes c' -> c = c') /\ 0 <= rowmajor sizes c < zprod sizes.
Proof. exact (fun sizes c c' H H' => conj (rowmajor_inj sizes c c' H H') (rowmajor_range sizes c H)). Qed.
Theorem C01_morton_layout : forall sizes (b : nat) c c',
  (0 < length sizes)%nat -> curve_bits sizes <= Z.of_nat b -> in_box sizes c -> in_box sizes c' ->
  (morton (length sizes) b c = morton (length sizes) b c' -> c = c') /\
  0 <= morton (length sizes) b c < curve_cap sizes.
Proof.
  exact (fun sizes b c c' HN Hfit H H' =>
           conj (morton_layout_inj sizes b HN Hfit c c' H H') (morton_layout_range sizes b HN Hfit c H)).
Qed.
Theorem C01_hilbert_layout : forall sx sy c c', in_box [sx; sy] c -> in_box [sx; sy] c' ->
  (hidx sx sy c = hidx sx sy c' -> c = c') /\ 0 <= hidx sx sy c < curve_cap [sx; sy].
Proof.
  exact (fun sx sy c c' H H' => conj (hilbert_layout_inj sx sy c c' H H') (hilbert_layout_range sx sy c H)).
Qed.

(* (3) tie to the code *)
Theorem C01_strided_kernel : forall (S : cty) (sizes c : list Z),
  coord_ty S -> Z.of_nat (length sizes) < 2 ^ 64 ->
  length sizes = length c -> in_box sizes c ->
  Forall (fun s => s < 2 ^ 64) sizes -> zprod sizes <= cmax S ->
  gen_strided_at S (Z.of_nat (length sizes)) (map (lit U64) sizes) (map (lit S) c)
  = Ok (lit S (rowmajor sizes c)).
Proof. exact strided_at_refines. Qed.
Theorem C01_strided_kernel_debug_build : forall (S : cty) (sizes c : list Z),
  coord_ty S -> Z.of_nat (length sizes) < 2 ^ 64 ->
  length sizes = length c -> in_box sizes c ->
  Forall (fun s => s < 2 ^ 64) sizes -> zprod sizes <= cmax S ->
  gen_strided_at_dbg S (Z.of_nat (length sizes)) (map (lit U64) sizes) (map (lit S) c)
  = Ok (lit S (rowmajor sizes c)).
Proof. exact strided_at_dbg_refines. Qed.
Theorem C01_strided_copy_kernel : forall (S : cty) (sizes t : list Z),
  coord_ty S -> Z.of_nat (length sizes) < 2 ^ 64 ->
  length sizes = length t -> in_box sizes t ->
  Forall (fun s => s < 2 ^ 64) sizes -> zprod sizes <= cmax S ->
  gen_strided_copy_index S (Z.of_nat (length sizes)) (map (lit U64) t) (map (lit U64) sizes)
  = Ok (lit S (rowmajor sizes t)).
Proof. exact strided_copy_index_refines. Qed.
Theorem C01_morton_kernel : forall c : list tv,
  (1 <= length c <= 64)%nat -> Forall coord_ok c ->
  gen_morton_index (Z.of_nat (length c)) 8 c
  = Ok (lit U64 (morton (length c) (mbits (length c)) (map val c))).
Proof. exact morton_index_refines. Qed.
Theorem C01_morton_kernel_bmi2_build_flag_off : forall c : list tv,
  (1 <= length c <= 64)%nat -> Forall coord_ok c ->
  gen_morton_index_bmi2 false (Z.of_nat (length c)) 8 c
  = Ok (lit U64 (morton (length c) (mbits (length c)) (map val c))).
Proof. exact morton_index_bmi2_off_refines. Qed.
Theorem C01_morton_kernel_debug_build : forall (sizes : list Z) (c : list tv),
  (1 <= length c <= 64)%nat -> Forall coord_ok c -> length sizes = length c ->
  Forall2 (fun v s => val v < s < 2 ^ 64) c sizes ->
  gen_morton_at_dbg (Z.of_nat (length c)) 8 (map (lit U64) sizes) c
  = Ok (lit U64 (morton (length c) (mbits (length c)) (map val c))).
Proof. exact morton_at_dbg_refines. Qed.

Theorem C01_hilbert_kernel : forall (sx sy x y : Z) (fuel : nat),
  1 <= sx <= 2 ^ 31 -> 1 <= sy <= 2 ^ 31 -> 0 <= x < sx -> 0 <= y < sy -> (66 < fuel)%nat ->
  gen_hilbert_index fuel [lit U64 x; lit U64 y] [lit U64 sx; lit U64 sy]
  = Ok (lit U64 (hidx sx sy [x; y])).
Proof. exact hilbert_index_refines. Qed.

Print Assumptions C01_hilbert_kernel.
Print Assumptions C01_read_own_write.
Print Assumptions C01_write_frames.
Print Assumptions C01_in_storage.
Print Assumptions C01_rowmajor_layout.
Print Assumptions C01_morton_layout.
Print Assumptions C01_hilbert_layout.
Print Assumptions C01_strided_kernel.
Print Assumptions C01_strided_kernel_debug_build.
Print Assumptions C01_strided_copy_kernel.
Print Assumptions C01_morton_kernel.
Print Assumptions C01_morton_kernel_bmi2_build_flag_off.
Print Assumptions C01_morton_kernel_debug_build.
