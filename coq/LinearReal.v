(* LinearReal.v -- C03: over the reals, with every fractional distance in [0,1], the N-linear
   interpolant never leaves the range spanned by the 2^N surrounding lattice values. *)
From Coq Require Import Reals Lra Lia List Arith.
From Covfie Require Import LinearProofs.
Import ListNotations.
Local Open Scope R_scope.

Definition rinterp := interp R 1 Rplus Rmult Rminus.

Theorem interp_convex (a : list R) : forall (v : nat -> R) (lo hi : R),
  Forall (fun x => 0 <= x <= 1) a ->
  (forall n, (n < 2 ^ length a)%nat -> lo <= v n <= hi) ->
  lo <= rinterp a v <= hi.
Proof.
  induction a as [|a0 a IH]; intros v lo hi Ha Hv; cbn [rinterp interp].
  - apply Hv. cbn. lia.
  - apply Forall_cons_iff in Ha. destruct Ha as [H0 Ha].
    assert (P : (2 ^ length (a0 :: a) = 2 * 2 ^ length a)%nat) by (cbn [length]; now rewrite Nat.pow_succ_r').
    assert (I0 : lo <= rinterp a (fun n => v (2 * n)%nat) <= hi).
    { apply IH; [assumption|]. intros n Hn. apply Hv. lia. }
    assert (I1 : lo <= rinterp a (fun n => v (2 * n + 1)%nat) <= hi).
    { apply IH; [assumption|]. intros n Hn. apply Hv. lia. }
    unfold rinterp in *. nra.
Qed.
