(* BinIOFlip.v -- C08, altered words: the dump as a list of segments (magic / tag words, the
   float-width word, opaque data) and the theorem that altering ANY magic or tag word, or setting
   the width word to a value other than 4 or 8, makes the reader fail. *)
From Coq Require Import ZArith List Bool Lia ZifyBool ZifyNat.
From Covfie Require Import Stack BinIO BinIOProofs.
Import ListNotations.
Local Open Scope Z_scope.

Inductive seg := Tag (w : Z) | Wid (w : Z) | Dat (bs : list Z).
Definition seg_bytes (s : seg) : list Z := match s with Tag w | Wid w => u32 w | Dat bs => bs end.
Definition flat (l : list seg) : list Z := flat_map seg_bytes l.

Lemma flat_app a b : flat (a ++ b) = flat a ++ flat b.
Proof. unfold flat. apply flat_map_app. Qed.

(* one word altered *)
Inductive flipped : list seg -> list seg -> Prop :=
| flip_tag pre w w' post : w mod 2 ^ 32 <> w' mod 2 ^ 32 -> flipped (pre ++ Tag w :: post) (pre ++ Tag w' :: post)
| flip_wid pre w w' post : w' mod 2 ^ 32 <> 4 -> w' mod 2 ^ 32 <> 8 -> flipped (pre ++ Wid w :: post) (pre ++ Wid w' :: post).

Lemma flipped_app_l a a' b : flipped a a' -> flipped (a ++ b) (a' ++ b).
Proof. intros H. destruct H; rewrite <- !app_assoc; cbn [app]; now constructor. Qed.
Lemma flipped_app_r a b b' : flipped b b' -> flipped (a ++ b) (a ++ b').
Proof. intros H. destruct H; rewrite !app_assoc; now constructor. Qed.

Lemma app_eq_split {A} (a b pre post : list A) x : a ++ b = pre ++ x :: post ->
  (exists m, a = pre ++ x :: m /\ post = m ++ b) \/ (exists m, pre = a ++ m /\ b = m ++ x :: post).
Proof.
  revert pre. induction a as [|y a IH]; intros pre E.
  - right. exists pre. auto.
  - destruct pre as [|z pre]; cbn in E.
    + injection E as -> E. left. exists a. auto.
    + injection E as -> E. destruct (IH _ E) as [[m [-> ->]]|[m [-> ->]]].
      * left. exists m. auto.
      * right. exists m. auto.
Qed.

Lemma flipped_app_cases a b l' : flipped (a ++ b) l' ->
  (exists a', l' = a' ++ b /\ flipped a a') \/ (exists b', l' = a ++ b' /\ flipped b b').
Proof.
  intros H. remember (a ++ b) as l eqn:El. destruct H as [pre w w' post Hw|pre w w' post H4 H8];
    destruct (app_eq_split _ _ _ _ _ (eq_sym El)) as [[m [-> ->]]|[m [-> ->]]].
  - left. exists (pre ++ Tag w' :: m). split; [now rewrite <- app_assoc|now constructor].
  - right. exists (m ++ Tag w' :: post). split; [now rewrite <- app_assoc|now constructor].
  - left. exists (pre ++ Wid w' :: m). split; [now rewrite <- app_assoc|now constructor].
  - right. exists (m ++ Wid w' :: post). split; [now rewrite <- app_assoc|now constructor].
Qed.

Definition rej {A} (r : Reader A) (l : list seg) : Prop :=
  forall l' tl, flipped l l' -> exists e, r (flat l' ++ tl) = Bad e.

Lemma rej_bind {A B} (r : Reader A) (f : A -> Reader B) l1 l2 x :
  (forall tl, r (flat l1 ++ tl) = Good (x, tl)) -> rej r l1 -> rej (f x) l2 ->
  rej (fun bs => rbind (r bs) (fun '(y, rest) => f y rest)) (l1 ++ l2).
Proof.
  intros S R1 R2 l' tl F. destruct (flipped_app_cases _ _ _ F) as [[a' [-> Fa]]|[b' [-> Fb]]].
  - rewrite flat_app, <- app_assoc. destruct (R1 _ (flat l2 ++ tl) Fa) as [e Ee]. exists e. now rewrite Ee.
  - rewrite flat_app, <- app_assoc, S. cbn [rbind]. apply R2, Fb.
Qed.

Lemma rej_ext {A} (r r' : Reader A) l : (forall bs, r bs = r' bs) -> rej r l -> rej r' l.
Proof. intros E H l' tl F. destruct (H l' tl F) as [e Ee]. exists e. now rewrite <- E. Qed.

Lemma no_flip_dat bs l' : ~ flipped [Dat bs] l'.
Proof.
  intros H. inversion H as [pre w w' post Hw E|pre w w' post H4 H8 E];
    destruct pre as [|? [|? ?]]; discriminate.
Qed.
Lemma no_flip_nil l' : ~ flipped [] l'.
Proof. intros H. inversion H as [pre ? ? ? ? E|pre ? ? ? ? ? E]; destruct pre; discriminate. Qed.
Lemma rej_dat {A} (r : Reader A) bs : rej r [Dat bs].
Proof. intros l' tl F. destruct (no_flip_dat _ _ F). Qed.
Lemma rej_nil {A} (r : Reader A) : rej r [].
Proof. intros l' tl F. destruct (no_flip_nil _ F). Qed.

Lemma flipped_single_tag w l' : flipped [Tag w] l' -> exists w', l' = [Tag w'] /\ w mod 2 ^ 32 <> w' mod 2 ^ 32.
Proof.
  intros H. inversion H as [pre w0 w' post Hw E|pre w0 w' post H4 H8 E].
  - destruct pre as [|? [|? ?]]; try discriminate. cbn [app] in *. injection E as -> ->. eauto.
  - destruct pre as [|? [|? ?]]; discriminate.
Qed.
Lemma flipped_single_wid w l' : flipped [Wid w] l' -> exists w', l' = [Wid w'] /\ w' mod 2 ^ 32 <> 4 /\ w' mod 2 ^ 32 <> 8.
Proof.
  intros H. inversion H as [pre w0 w' post Hw E|pre w0 w' post H4 H8 E].
  - destruct pre as [|? [|? ?]]; discriminate.
  - destruct pre as [|? [|? ?]]; try discriminate. cbn [app] in *. injection E as -> ->. eauto.
Qed.

(* a u32 read followed by an equality test against [v] *)
Definition expect (v : Z) (e : ioerr) : Reader unit :=
  fun bs => rbind (read_u32 bs) (fun '(m, r) => if negb (m =? v) then Bad e else Good (tt, r)).

Lemma expect_ok v e tl : 0 <= v < 2 ^ 32 -> expect v e (flat [Tag v] ++ tl) = Good (tt, tl).
Proof.
  intros Hv. unfold expect, flat. cbn [flat_map seg_bytes]. rewrite app_nil_r, read_u32_u32. cbn [rbind].
  rewrite Z.mod_small by assumption. now rewrite Z.eqb_refl.
Qed.
Lemma expect_rej v e : 0 <= v < 2 ^ 32 -> rej (expect v e) [Tag v].
Proof.
  intros Hv l' tl F. destruct (flipped_single_tag _ _ F) as [w' [-> Hw]].
  unfold expect, flat. cbn [flat_map seg_bytes]. rewrite app_nil_r, read_u32_u32. cbn [rbind].
  rewrite (Z.mod_small v) in Hw by assumption.
  destruct (Z.eqb_spec (w' mod 2 ^ 32) v); [congruence|]. cbn [negb]. eauto.
Qed.

Definition hdr_s (t : Z) : list seg := [Tag MAGIC_HEADER; Tag t].
Definition ftr_s (t : Z) : list seg := [Tag MAGIC_FOOTER; Tag ((t + 536870912) mod 2 ^ 32)].

Lemma flat_hdr t : flat (hdr_s t) = hdr t.
Proof. unfold flat, hdr_s, hdr. cbn [flat_map seg_bytes]. now rewrite app_nil_r. Qed.
Lemma flat_ftr t : flat (ftr_s t) = ftr t.
Proof.
  unfold flat, ftr_s, ftr. cbn [flat_map seg_bytes]. rewrite app_nil_r. f_equal.
  unfold u32. now rewrite Z.mod_mod by lia.
Qed.

Definition two_words (m t : Z) : list Z -> result (list Z) :=
  fun bs => rbind (read_u32 bs) (fun '(a, r1) => rbind (read_u32 r1) (fun '(b, r2) =>
    if negb (a =? m) then Bad BadMagic else if negb (b =? t) then Bad BadTag else Good r2)).

Lemma rej_two_words m t : 0 <= m < 2 ^ 32 -> 0 <= t < 2 ^ 32 -> rej (unit_reader (two_words m t)) [Tag m; Tag t].
Proof.
  intros Hm Ht l' tl F. change [Tag m; Tag t] with ([Tag m] ++ [Tag t]) in F.
  destruct (flipped_app_cases _ _ _ F) as [[a' [-> Fa]]|[b' [-> Fb]]].
  - destruct (flipped_single_tag _ _ Fa) as [w' [-> Hw]].
    unfold unit_reader, two_words, flat. cbn [app flat_map seg_bytes]. rewrite <- !app_assoc, read_u32_u32. cbn [rbind].
    rewrite read_u32_u32. cbn [rbind]. rewrite (Z.mod_small m) in Hw by assumption.
    destruct (Z.eqb_spec (w' mod 2 ^ 32) m); [congruence|]. cbn [negb]. eauto.
  - destruct (flipped_single_tag _ _ Fb) as [w' [-> Hw]].
    unfold unit_reader, two_words, flat. cbn [app flat_map seg_bytes]. rewrite <- !app_assoc, read_u32_u32. cbn [rbind].
    rewrite read_u32_u32. cbn [rbind]. rewrite (Z.mod_small m) by assumption. rewrite Z.eqb_refl. cbn [negb].
    rewrite (Z.mod_small t) in Hw by assumption.
    destruct (Z.eqb_spec (w' mod 2 ^ 32) t); [congruence|]. cbn [negb]. eauto.
Qed.

Lemma rej_hdr t : is_tag t -> rej (unit_reader (read_hdr t)) (hdr_s t).
Proof. intros Ht. apply (rej_two_words MAGIC_HEADER t); [vm_compute; split; congruence|exact Ht]. Qed.
Lemma rej_ftr t : rej (unit_reader (read_ftr t)) (ftr_s t).
Proof.
  apply (rej_two_words MAGIC_FOOTER ((t + 536870912) mod 2 ^ 32)); [vm_compute; split; congruence|].
  apply Z.mod_pos_bound. lia.
Qed.

Lemma Some_inj {A} (a b : A) : Some a = Some b -> a = b.
Proof. congruence. Qed.
Local Opaque hdr ftr u32 u64 encs hdr_s ftr_s.

(* ------------------------------------------------------------------ the dump in segments *)
Definition prim_segs (p : prim) (d : pdat) : option (list seg) :=
  match p, d with
  | PArray m t, DArray len data =>
      match float_width t with
      | Some w => Some (hdr_s TAG_ARRAY ++ [Wid w] ++ [Dat (u64 len ++ encs t data)] ++ ftr_s TAG_ARRAY)
      | None => None
      end
  | PConstant _ _ _ tv, DConst v => Some (hdr_s TAG_CONSTANT ++ [Dat (encs tv v)] ++ ftr_s TAG_CONSTANT)
  | PIdentity _ _, DIdent => Some (hdr_s TAG_IDENTITY ++ ftr_s TAG_IDENTITY)
  | _, _ => None
  end.

Fixpoint layers_segs (ls : list layer) (p : prim) (gs : list cfg) (d : pdat) : option (list seg) :=
  match ls, gs with
  | [], _ => prim_segs p d
  | l :: ls', g :: gs' =>
      match kind_of_layers ls' p, layers_segs ls' p gs' d with
      | Some k, Some inner =>
          Some (match layer_tag l with
                | Some t => hdr_s t ++ [Dat (cfg_bytes l k g)] ++ inner ++ ftr_s t
                | None => inner
                end)
      | _, _ => None
      end
  | _ :: _, [] => None
  end.
Definition dump_segs (s : stack) (f : fld) : option (list seg) :=
  match layers_segs (fst s) (snd s) (f_cfgs f) (f_prim f) with
  | Some b => Some (hdr_s TAG_FIELD ++ b ++ ftr_s TAG_FIELD)
  | None => None
  end.

Lemma flat_prim_segs p d sg : prim_segs p d = Some sg -> dump_prim p d = Some (flat sg).
Proof.
  destruct p as [m t|n tc m tv|n t|n tc m tv]; destruct d as [len data|v|]; cbn [prim_segs dump_prim]; try discriminate.
  - destruct (float_width t) as [w|]; [|discriminate]. intros E. apply Some_inj in E. subst sg.
    rewrite !flat_app, flat_hdr, flat_ftr. unfold flat. cbn [flat_map seg_bytes]. now rewrite !app_nil_r, <- !app_assoc.
  - intros E. apply Some_inj in E. subst sg. rewrite !flat_app, flat_hdr, flat_ftr. unfold flat. cbn [flat_map seg_bytes]. now rewrite !app_nil_r.
  - intros E. apply Some_inj in E. subst sg. now rewrite !flat_app, flat_hdr, flat_ftr.
Qed.

Lemma flat_layers_segs ls p : forall gs d sg, wf_layers ls p gs d = true -> layers_segs ls p gs d = Some sg ->
  dump_layers ls p gs d = Some (flat sg).
Proof.
  induction ls as [|l ls IH]; intros gs d sg W E.
  - cbn [layers_segs dump_layers] in *. now apply flat_prim_segs.
  - destruct gs as [|g gs]; [discriminate|]. cbn [wf_layers layers_segs dump_layers] in *.
    destruct (kind_of_layers ls p) as [k|]; [|discriminate].
    apply andb_prop in W. destruct W as [Wg Wr].
    destruct (layers_segs ls p gs d) as [inner|] eqn:Ei; [|discriminate].
    rewrite (IH _ _ _ Wr Ei). rewrite (dump_layer_shape l k g _ Wg). apply Some_inj in E. subst sg.
    destruct (layer_tag l) as [t|]; [|reflexivity].
    rewrite !flat_app, flat_hdr, flat_ftr. change (flat [Dat (cfg_bytes l k g)]) with (cfg_bytes l k g ++ []).
    now rewrite app_nil_r.
Qed.

Lemma flat_dump_segs s f sg : wf_fld s f = true -> dump_segs s f = Some sg -> dump s f = Some (flat sg).
Proof.
  unfold wf_fld, dump_segs, dump. intros W E.
  destruct (layers_segs (fst s) (snd s) (f_cfgs f) (f_prim f)) as [b|] eqn:Eb; [|discriminate].
  rewrite (flat_layers_segs _ _ _ _ _ W Eb). apply Some_inj in E. subst sg. now rewrite !flat_app, flat_hdr, flat_ftr.
Qed.

Lemma dump_segs_total s f bs : dump s f = Some bs -> exists sg, dump_segs s f = Some sg.
Proof.
  unfold dump, dump_segs.
  assert (H : forall ls p gs d b, dump_layers ls p gs d = Some b -> exists sg, layers_segs ls p gs d = Some sg).
  { induction ls as [|l ls IH]; intros p gs d b E.
    - cbn [dump_layers layers_segs] in *.
      destruct p as [m t|n tc m tv|n t|n tc m tv]; destruct d as [len data|v|]; cbn [prim_segs dump_prim] in *; try discriminate; eauto.
      destruct (float_width t); [eauto|discriminate].
    - destruct gs as [|g gs]; [discriminate|]. cbn [dump_layers layers_segs] in *.
      destruct (kind_of_layers ls p) as [k|]; [|discriminate].
      destruct (dump_layers ls p gs d) as [inner|] eqn:Ei; [|discriminate].
      destruct (IH _ _ _ _ Ei) as [sg ->]. eauto. }
  destruct (dump_layers (fst s) (snd s) (f_cfgs f) (f_prim f)) as [b|] eqn:Eb; [|discriminate].
  destruct (H _ _ _ _ _ Eb) as [sg ->]. eauto.
Qed.

(* ------------------------------------------------------------------ the reader rejects every flip *)
Section Flip.
  Variable ops : sops.

  Definition ubind {B} (r : list Z -> result (list Z)) (f : Reader B) : Reader B := fun bs => rbind (r bs) f.

  Lemma rej_ubind {B} (r : list Z -> result (list Z)) (f : Reader B) l1 l2 :
    (forall tl, r (flat l1 ++ tl) = Good tl) -> rej (unit_reader r) l1 -> rej f l2 -> rej (ubind r f) (l1 ++ l2).
  Proof.
    intros S R1 R2.
    apply (rej_ext (fun bs => rbind (unit_reader r bs) (fun '(y, rest) => (fun _ => f) y rest))).
    - intros bs. unfold ubind, unit_reader. destruct (r bs); reflexivity.
    - apply (rej_bind (unit_reader r) (fun _ => f) l1 l2 tt); [|assumption|assumption].
      intros tl. unfold unit_reader. now rewrite S.
  Qed.

  Lemma rej_ftr_ret {B} t (y : B) : rej (fun bs => rbind (read_ftr t bs) (fun r => Good (y, r))) (ftr_s t).
  Proof.
    rewrite <- (app_nil_r (ftr_s t)).
    apply (rej_ubind (read_ftr t) (fun r => Good (y, r)) (ftr_s t) []).
    - intros tl. rewrite flat_ftr. apply read_ftr_ftr.
    - apply rej_ftr.
    - apply rej_nil.
  Qed.

  Definition width_reader : Reader Z :=
    fun bs => rbind (read_u32 bs) (fun '(w, r) => if negb ((w =? 4) || (w =? 8)) then Bad BadWidth else Good (w, r)).

  Lemma rej_width w : rej width_reader [Wid w].
  Proof.
    intros l' tl F. destruct (flipped_single_wid _ _ F) as [w' [-> [H4 H8]]].
    unfold width_reader, flat. cbn [flat_map seg_bytes]. rewrite app_nil_r, read_u32_u32. cbn [rbind].
    destruct (Z.eqb_spec (w' mod 2 ^ 32) 4); [congruence|]. destruct (Z.eqb_spec (w' mod 2 ^ 32) 8); [congruence|].
    cbn. eauto.
  Qed.

  Lemma rej_load_prim p d sg : wf_prim p d = true -> prim_segs p d = Some sg -> rej (load_prim ops p) sg.
  Proof.
    destruct tags_ok as [_ [Ta [Tc [Ti _]]]].
    destruct p as [m t|n tc m tv|n t|n tc m tv]; destruct d as [len data|v|]; cbn [wf_prim prim_segs]; try discriminate.
    - intros W E. repeat (apply andb_prop in W; destruct W as [W ?]).
      destruct (all_in_spec _ _ _ H) as [Hl Hr].
      assert (Hw : exists w, float_width t = Some w /\ (w = 4 /\ t = F32 \/ w = 8 /\ t = F64)).
      { destruct t; try discriminate; cbn; eauto. }
      destruct Hw as [w [Ew Hw]]. rewrite Ew in E. apply Some_inj in E. subst sg.
      unfold load_prim. apply (rej_ubind (read_hdr TAG_ARRAY)).
      { intros tl. rewrite flat_hdr. now apply read_hdr_hdr. }
      { now apply rej_hdr. }
      set (FT := fun w : Z => if w =? 4 then F32 else F64).
      apply (rej_ext (fun bs => rbind (width_reader bs) (fun '(w, r1) => (fun w r1 =>
          rbind (read_u64 r1) (fun '(len, r2) =>
          if (Z.of_nat (length r2) <? len * Z.of_nat m * w) then Bad ShortRead else
          rbind (read_scalars (FT w) (Z.to_nat len * m) r2) (fun '(vs, r3) =>
          rbind (read_ftr TAG_ARRAY r3) (fun r4 => Good (DArray len (map (s_conv ops (FT w) t) vs), r4))))) w r1))).
      { intros bs. unfold width_reader. destruct (read_u32 bs) as [[w0 r1]|e]; cbn [rbind]; [|reflexivity].
        destruct (negb ((w0 =? 4) || (w0 =? 8))); reflexivity. }
      apply rej_bind with (x := w).
      { intros tl. unfold width_reader, flat. cbn [flat_map seg_bytes]. rewrite app_nil_r, read_u32_u32. cbn [rbind].
        rewrite Z.mod_small by lia. destruct Hw as [[-> _]|[-> _]]; reflexivity. }
      { apply rej_width. }
      cbn beta.
      (* the payload block, then the footer *)
      apply (rej_ext (fun bs => rbind ((fun bs => rbind (read_u64 bs) (fun '(len, r2) =>
                 rbind (guarded_scalars (FT w) len m w r2) (fun '(vs, r3) => Good ((len, vs), r3)))) bs)
               (fun '(x, r3) => (fun x r3 => rbind (read_ftr TAG_ARRAY r3) (fun r4 =>
                  Good (DArray (fst x) (map (s_conv ops (FT w) t) (snd x)), r4))) x r3))).
      { intros bs. destruct (read_u64 bs) as [[len0 r2]|e]; cbn [rbind]; [|reflexivity].
        unfold guarded_scalars. destruct (Z.of_nat (length r2) <? len0 * Z.of_nat m * w); [reflexivity|].
        destruct (read_scalars (FT w) (Z.to_nat len0 * m) r2) as [[vs r3]|e]; reflexivity. }
      apply rej_bind with (x := (len, data)).
      { intros tl. unfold flat. cbn [flat_map seg_bytes]. rewrite app_nil_r, <- !app_assoc, read_u64_u64. cbn [rbind].
        rewrite (Z.mod_small len) by lia. unfold guarded_scalars.
        assert (Eft : FT w = t) by (unfold FT; destruct Hw as [[-> ->]|[-> ->]]; reflexivity). rewrite Eft.
        assert (Hlen : Z.of_nat (length (encs t data ++ tl)) <? len * Z.of_nat m * w = false).
        { rewrite app_length, encs_length, Hl.
          assert (Z.of_nat (sty_nbytes t) = w) by (destruct Hw as [[-> ->]|[-> ->]]; reflexivity). nia. }
        rewrite Hlen. rewrite read_scalars_encs' by assumption. reflexivity. }
      { apply rej_dat. }
      cbn beta. apply rej_ftr_ret.
    - intros W E. destruct (all_in_spec _ _ _ W) as [Hl Hr]. apply Some_inj in E. subst sg.
      unfold load_prim. apply (rej_ubind (read_hdr TAG_CONSTANT)).
      { intros tl. rewrite flat_hdr. now apply read_hdr_hdr. }
      { now apply rej_hdr. }
      apply (rej_bind (read_scalars tv m) (fun vs r1 => rbind (read_ftr TAG_CONSTANT r1) (fun r2 => Good (DConst vs, r2))) _ _ v).
      { intros tl. unfold flat. cbn [flat_map seg_bytes]. rewrite app_nil_r. now apply read_scalars_encs'. }
      { apply rej_dat. }
      apply rej_ftr_ret.
    - intros _ E. apply Some_inj in E. subst sg. unfold load_prim. apply (rej_ubind (read_hdr TAG_IDENTITY)).
      { intros tl. rewrite flat_hdr. now apply read_hdr_hdr. }
      { now apply rej_hdr. }
      apply rej_ftr_ret.
  Qed.

  Hypothesis conv_id : forall t v, is_float t = true -> s_conv ops t t v = v.

  Lemma rej_load_layers ls p : forall gs d sg, wf_layers ls p gs d = true -> layers_segs ls p gs d = Some sg ->
    rej (load_layers ops ls p) sg.
  Proof.
    induction ls as [|l ls IH]; intros gs d sg W E.
    - destruct gs; [|discriminate]. cbn [wf_layers layers_segs load_layers] in *.
      rewrite <- (app_nil_r sg).
      apply (rej_bind (load_prim ops p) (fun d r => Good ([], d, r)) sg [] d).
      + intros tl. apply load_prim_dump; [assumption|assumption|now apply flat_prim_segs].
      + now apply rej_load_prim with (d := d).
      + apply rej_nil.
    - destruct gs as [|g gs]; [discriminate|]. cbn [wf_layers layers_segs load_layers] in *.
      destruct (kind_of_layers ls p) as [k|]; [|discriminate].
      apply andb_prop in W. destruct W as [Wg Wr].
      destruct (layers_segs ls p gs d) as [inner|] eqn:Ei; [|discriminate]. apply Some_inj in E. subst sg.
      pose proof (flat_layers_segs _ _ _ _ _ Wr Ei) as Hd.
      destruct (layer_tag l) as [t|] eqn:Et.
      + apply (rej_ubind (read_hdr t)).
        { intros tl. rewrite flat_hdr. apply read_hdr_hdr. eapply layer_tag_is_tag; eassumption. }
        { apply rej_hdr. eapply layer_tag_is_tag; eassumption. }
        apply (rej_bind (load_cfg l k) (fun g r1 => rbind (load_layers ops ls p r1) (fun '(gs, d, r2) =>
                 rbind (read_ftr t r2) (fun r3 => Good (g :: gs, d, r3)))) _ _ g).
        { intros tl. unfold flat. cbn [flat_map seg_bytes]. rewrite app_nil_r. now apply load_cfg_bytes. }
        { apply rej_dat. }
        apply (rej_ext (fun bs => rbind (load_layers ops ls p bs) (fun '(x, r2) =>
                 (fun x r2 => rbind (read_ftr t r2) (fun r3 => Good (g :: fst x, snd x, r3))) x r2))).
        { intros bs. destruct (load_layers ops ls p bs) as [[[gs0 d0] r2]|e]; reflexivity. }
        apply rej_bind with (x := (gs, d)).
        { intros tl. now apply load_layers_dump. }
        { now apply (IH gs d). }
        cbn beta. cbn [fst snd]. apply rej_ftr_ret.
      + rewrite <- (app_nil_r inner).
        apply (rej_ext (fun bs => rbind (load_layers ops ls p bs) (fun '(x, r) => (fun x r => Good (CUnit :: fst x, snd x, r)) x r))).
        { intros bs. destruct (load_layers ops ls p bs) as [[[gs0 d0] r2]|e]; reflexivity. }
        apply rej_bind with (x := (gs, d)).
        { intros tl. now apply load_layers_dump. }
        { now apply (IH gs d). }
        apply rej_nil.
  Qed.

  (* C08: the stream with ONE magic / tag word altered (any position, any different value) or the
     width word set to anything but 4 or 8 is rejected, whatever follows it *)
  Theorem flip_rejected s f sg sg' tl : wf_fld s f = true -> dump_segs s f = Some sg -> flipped sg sg' ->
    exists e, load ops s (flat sg' ++ tl) = Bad e.
  Proof.
    unfold wf_fld, dump_segs. intros W E F.
    destruct (layers_segs (fst s) (snd s) (f_cfgs f) (f_prim f)) as [b|] eqn:Eb; [|discriminate].
    apply Some_inj in E. subst sg. destruct tags_ok as [Tf _].
    revert sg' tl F. change (rej (load ops s) (hdr_s TAG_FIELD ++ b ++ ftr_s TAG_FIELD)).
    unfold load. apply (rej_ubind (read_hdr TAG_FIELD)).
    { intros tl. rewrite flat_hdr. now apply read_hdr_hdr. }
    { now apply rej_hdr. }
    apply (rej_ext (fun bs => rbind (load_layers ops (fst s) (snd s) bs) (fun '(x, r1) =>
             (fun x r1 => rbind (read_ftr TAG_FIELD r1) (fun r2 => Good ({| f_cfgs := fst x; f_prim := snd x |}, r2))) x r1))).
    { intros bs. destruct (load_layers ops (fst s) (snd s) bs) as [[[gs0 d0] r2]|e]; reflexivity. }
    apply rej_bind with (x := (f_cfgs f, f_prim f)).
    { intros tl. apply load_layers_dump; [assumption|assumption|now apply flat_layers_segs]. }
    { now apply (rej_load_layers _ _ (f_cfgs f) (f_prim f)). }
    cbn beta. apply rej_ftr_ret.
  Qed.
End Flip.

(* non-vacuity: a 2x1 strided float field; its segments; flipping the strided tag *)
Example flip_example :
  let s := ([LStrided 2 U64], PArray 1 F32) in
  let f := {| f_cfgs := [CSizes [2; 1]]; f_prim := DArray 2 [1065353216; 0] |} in
  wf_fld s f = true /\ exists sg, dump_segs s f = Some sg /\ length sg = 15%nat.
Proof. cbn zeta. split; [reflexivity|]. eexists. split; reflexivity. Qed.
