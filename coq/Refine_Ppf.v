(* Refine_Ppf.v -- C17 / C13: the make_parameter_pack_for overload table as it stands in parameter_pack.hpp on this
   run (gen/Gen_Ppf.v): there is exactly one overload for every stack depth 1..10; the overload for depth d takes d
   parameters, the k-th of which has the configuration type of layer level k (nth_backend<.., k>), and hands them to
   make_parameter_pack in that order, each forwarded at its own level's type; parameter_pack stores its first
   constructor argument as the head and the rest, in order, as the tail.  Hence the i-th positional argument reaches
   the i-th layer from the outside -- the order StackGlue.parse_layers (the model of construction) consumes them in. *)
From Coq Require Import List Arith Bool.
From Covfie.gen Require Import Gen_Ppf.
Import ListNotations.

Definition nat_list_eqb (a b : list nat) : bool := if list_eq_dec Nat.eq_dec a b then true else false.
Definition pair_eqb (a b : nat * nat) : bool := Nat.eqb (fst a) (fst b) && Nat.eqb (snd a) (snd b).
Fixpoint pairs_eqb (a b : list (nat * nat)) : bool :=
  match a, b with
  | [], [] => true
  | x :: a', y :: b' => pair_eqb x y && pairs_eqb a' b'
  | _, _ => false
  end.

(* d parameters, parameter k typed at level k; d forwarded arguments, the k-th forwarding parameter k at level k *)
Definition row_ok (r : nat * list nat * list (nat * nat)) : bool :=
  let '(d, plevels, fwd) := r in
  nat_list_eqb plevels (seq 0 d) && pairs_eqb fwd (map (fun k => (k, k)) (seq 0 d)).

Theorem ppf_depths : map (fun r => fst (fst r)) ppf_overloads = seq 1 10.
Proof. reflexivity. Qed.
Theorem ppf_rows_ok : forallb row_ok ppf_overloads = true.
Proof. reflexivity. Qed.
Theorem ppf_pack_head_then_tail : ppf_pack_shape = HeadThenTail.
Proof. reflexivity. Qed.
Theorem ppf_all_read : ppf_problems = 0.
Proof. reflexivity. Qed.

(* the table, in one equation: for every depth d = 1..10 one overload, whose k-th parameter has the configuration
   type of level k and is handed on as the k-th argument at level k *)
Definition expected_row (d : nat) : nat * list nat * list (nat * nat) := (d, seq 0 d, map (fun k => (k, k)) (seq 0 d)).
Theorem ppf_table : ppf_overloads = map expected_row (seq 1 10).
Proof. reflexivity. Qed.
Theorem ppf_positional d : In d (seq 1 10) -> In (expected_row d) ppf_overloads.
Proof. intros H. rewrite ppf_table. now apply in_map. Qed.
