(* Refine_Linear.v -- C03 / C02: every branch of linear.hpp's lookup, as translated from the source on this run
   (gen/Gen_Linear.v, LinLang semantics), IS the reference interpreter's linear layer: it queries the backend at
   exactly the neighbour coordinates Stack.linear_at queries, in the same order, and computes each output
   component exactly as Stack.linear_comp does -- the same operations on the same operands in the same order,
   the conversions between the coordinate, index and stored types included -- for ARBITRARY scalar operations
   [ops], arbitrary type tags, symbolic coordinates and symbolic backend answers.

   The specialised branches are compared for N = 1, 2, 3; the generic branch for N = 4 and 5 (the dimensions the
   property quantifies over; the code of that branch is dimension-generic, the comparison is by evaluation and
   therefore per dimension).  The branch selection of the code (if constexpr dimensions == 1 / 2 / 3 / else) is
   the model's test N <= 3. *)
From Coq Require Import String List Arith ZArith Bool Lia.
From Covfie Require Import LinearCore Stack StackProofs LinLang.
From Covfie.gen Require Import Gen_Linear.
Import ListNotations.

Section Refine.
  Variable ops : sops.
  Variables tc tidx tv : sty.
  Variable vals : nat -> list Z.      (* the backend's value vector for neighbour n *)
  Variable q : nat.                   (* the output component under study *)

  Definition coord_of (c : list Z) : nat -> Z := fun k => nth k c 0%Z.

  (* what Stack.linear_at does with a coordinate c: the neighbour coordinates, and component q of the result *)
  Definition model (special : bool) (c : list Z) : list (list Z) * Z :=
    let N := length c in
    let is_ := map (s_conv ops tc tidx) c in
    let a := map (fun x => f_sub ops tc x (f_trunc ops tc x)) c in
    let ra := map (fun x => f_sub ops tc (f_of_Z ops tc 1%Z) x) a in
    (map (if special then corner_special tidx is_ else corner_generic tidx is_) (seq 0 (2 ^ N)),
     linear_comp ops tc tv special a ra (map vals (seq 0 (2 ^ N))) q).

  Definition code (b : branch) (c : list Z) : list (list Z) * Z :=
    run_branch ops tc tidx tv (length c) (coord_of c) vals q b.

  Theorem branch_1_refines x0 : code lin_branch_1 [x0] = model true [x0].
  Proof. cbv -[wrap_sty Z.add]. reflexivity. Qed.
  Theorem branch_2_refines x0 x1 : code lin_branch_2 [x0; x1] = model true [x0; x1].
  Proof. cbv -[wrap_sty Z.add]. reflexivity. Qed.
  Theorem branch_3_refines x0 x1 x2 : code lin_branch_3 [x0; x1; x2] = model true [x0; x1; x2].
  Proof. cbv -[wrap_sty Z.add]. reflexivity. Qed.
  Theorem branch_generic_refines_4 x0 x1 x2 x3 : code lin_branch_generic [x0; x1; x2; x3] = model false [x0; x1; x2; x3].
  Proof. cbv -[wrap_sty Z.add]. reflexivity. Qed.
  Theorem branch_generic_refines_5 x0 x1 x2 x3 x4 : code lin_branch_generic [x0; x1; x2; x3; x4] = model false [x0; x1; x2; x3; x4].
  Proof. cbv -[wrap_sty Z.add]. reflexivity. Qed.

End Refine.

(* the if-constexpr chain selects the specialised branches exactly where the model does *)
Theorem specialised_dims_match : lin_specialised_dims = [1; 2; 3]%nat.
Proof. reflexivity. Qed.
Theorem branch_selection N : (1 <= N)%nat -> (N <=? 3)%nat = existsb (Nat.eqb N) lin_specialised_dims.
Proof.
  intros H. rewrite specialised_dims_match. destruct N as [|[|[|[|N]]]]; try reflexivity; lia.
Qed.

Lemma gather_len (b : query) cs : forall tr vals, gather b cs = Some (tr, vals) -> length vals = length cs.
Proof.
  induction cs as [|c cs IH]; cbn; intros tr vals H.
  - injection H as _ <-. reflexivity.
  - destruct (b c) as [[t v]|]; [|discriminate]. destruct (gather b cs) as [[ts vs]|] eqn:G; [|discriminate].
    injection H as _ <-. cbn. f_equal. exact (IH _ _ eq_refl).
Qed.

(* and [model] is what linear_at is made of *)
Theorem model_is_linear_at (ops : sops) (tc tidx tv : sty) (b : query) (c : list Z) tr vs :
  linear_at ops tc tidx tv b c = Some (tr, vs) ->
  exists valsl, gather b (fst (model ops tc tidx tv (fun n => nth n valsl []) 0 (length c <=? 3)%nat c)) = Some (tr, valsl) /\
    forall q, (q < length vs)%nat -> nth q vs 0%Z = snd (model ops tc tidx tv (fun n => nth n valsl []) q (length c <=? 3)%nat c).
Proof.
  unfold linear_at, model. cbv zeta. cbn [fst snd].
  destruct (negb (forallb (conv_defined ops tc tidx) c)); [discriminate|].
  match goal with |- context [gather b ?cs] => set (corners := cs) end.
  destruct (gather b corners) as [[tr' valsl]|] eqn:G; [|discriminate].
  intros H. injection H as <- <-. exists valsl. split; [reflexivity|].
  intros q Hq. rewrite map_length, seq_length in Hq.
  assert (L : length valsl = (2 ^ length c)%nat).
  { rewrite (gather_len _ _ _ _ G). unfold corners. now rewrite map_length, seq_length. }
  rewrite (nth_indep _ 0%Z (linear_comp ops tc tv (length c <=? 3)%nat
             (map (fun x => f_sub ops tc x (f_trunc ops tc x)) c)
             (map (fun x => f_sub ops tc (f_of_Z ops tc 1%Z) x) (map (fun x => f_sub ops tc x (f_trunc ops tc x)) c)) valsl 0))
    by (now rewrite map_length, seq_length).
  rewrite map_nth, seq_nth by exact Hq. cbn [Nat.add]. f_equal.
  rewrite <- L. symmetry. apply map_nth_seq.
Qed.
