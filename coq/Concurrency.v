(* Concurrency.v -- C16: concurrent lookups (and writes to disjoint cells) are schedule-independent.
   Threads are lists of accesses to storage cells (a lookup through a stack is one read per cell of
   its footprint -- one cell, or 2^N under the linear interpolator; a write through a view is one
   write to the cell its coordinate maps to).  A schedule is any list of thread identifiers; a step of
   thread t executes its next access atomically.
   If no thread writes a cell that another thread accesses, then for EVERY schedule each thread reads
   exactly the values it reads when it runs alone from the initial memory, and the final memory is the
   initial memory with every thread's writes applied (in any order). *)
From Coq Require Import ZArith List Lia Bool Arith.
Import ListNotations.
Local Open Scope Z_scope.

Section Conc.
  Variable V : Type.
  Definition mem := Z -> V.
  Inductive access := Rd (i : Z) | Wr (i : Z) (v : V).
  Definition cell (a : access) : Z := match a with Rd i | Wr i _ => i end.
  Definition is_write (a : access) : bool := match a with Wr _ _ => true | Rd _ => false end.

  Definition apply (m : mem) (a : access) : mem :=
    match a with Rd _ => m | Wr i v => fun j => if j =? i then v else m j end.
  Definition observe (m : mem) (a : access) : list V := match a with Rd i => [m i] | Wr _ _ => [] end.

  (* one thread alone: final memory and the values it read, in order *)
  Fixpoint alone (m : mem) (p : list access) : mem * list V :=
    match p with
    | [] => (m, [])
    | a :: r => let '(m', vs) := alone (apply m a) r in (m', observe m a ++ vs)
    end.

  (* the machine: shared memory, per-thread program counter and read log *)
  Variable nthreads : nat.
  Variable prog : nat -> list access.
  Record cfg := { cmem : mem; pc : nat -> nat; log : nat -> list V }.
  Definition start (m : mem) : cfg := {| cmem := m; pc := fun _ => O; log := fun _ => [] |}.

  Definition step (c : cfg) (t : nat) : cfg :=
    match nth_error (prog t) (pc c t) with
    | None => c                                        (* thread t has finished: a no-op *)
    | Some a => {| cmem := apply (cmem c) a;
                   pc := fun u => if Nat.eqb u t then S (pc c t) else pc c u;
                   log := fun u => if Nat.eqb u t then log c t ++ observe (cmem c) a else log c u |}
    end.
  Definition run (c : cfg) (sched : list nat) : cfg := fold_left step sched c.

  (* race freedom: a cell written by one thread is not accessed by any other *)
  Definition race_free : Prop :=
    forall t u a b, t <> u -> In a (prog t) -> In b (prog u) -> is_write a = true -> cell a <> cell b.

  Definition touches (t : nat) (i : Z) : Prop := exists a, In a (prog t) /\ cell a = i.

  (* memory and log of thread t after its first k accesses, run alone from m0 *)
  Definition alone_mem (m0 : mem) (t k : nat) : mem := fst (alone m0 (firstn k (prog t))).
  Definition alone_log (m0 : mem) (t k : nat) : list V := snd (alone m0 (firstn k (prog t))).

  Lemma alone_app m p q : alone m (p ++ q) =
    let '(m1, v1) := alone m p in let '(m2, v2) := alone m1 q in (m2, v1 ++ v2).
  Proof.
    revert m. induction p as [|a p IH]; intros m; cbn [app alone].
    - destruct (alone m q); reflexivity.
    - rewrite IH. destruct (alone (apply m a) p) as [m1 v1]. destruct (alone m1 q) as [m2 v2]. now rewrite app_assoc.
  Qed.

  Lemma firstn_S_nth {A} (l : list A) k a : nth_error l k = Some a -> firstn (S k) l = firstn k l ++ [a].
  Proof.
    revert k. induction l as [|x l IH]; intros [|k] H; cbn in *; try discriminate.
    - now injection H as ->.
    - now rewrite (IH k H).
  Qed.

  Lemma alone_step m0 t k a : nth_error (prog t) k = Some a ->
    alone_mem m0 t (S k) = apply (alone_mem m0 t k) a /\
    alone_log m0 t (S k) = alone_log m0 t k ++ observe (alone_mem m0 t k) a.
  Proof.
    intros H. unfold alone_mem, alone_log. rewrite (firstn_S_nth _ _ _ H), alone_app.
    destruct (alone m0 (firstn k (prog t))) as [m1 v1]. cbn [alone fst snd]. now rewrite app_nil_r.
  Qed.

  (* the invariant: on the cells a thread touches, the shared memory is what the thread has made of it alone *)
  Definition Inv (m0 : mem) (c : cfg) : Prop :=
    forall t, log c t = alone_log m0 t (pc c t) /\
              (forall i, touches t i -> cmem c i = alone_mem m0 t (pc c t) i).

  Lemma inv_start m0 : Inv m0 (start m0).
  Proof. intros t. split; reflexivity. Qed.

  Lemma inv_step m0 c t : race_free -> Inv m0 c -> Inv m0 (step c t).
  Proof.
    intros RF I. unfold step. destruct (nth_error (prog t) (pc c t)) as [a|] eqn:E; [|exact I].
    pose proof (nth_error_In _ _ E) as Ina.
    destruct (alone_step m0 t (pc c t) a E) as [Sm Sl].
    intros u. cbn [cmem pc log]. destruct (Nat.eqb_spec u t) as [->|Hne].
    - destruct (I t) as [Il Im]. split.
      + rewrite Sl, Il. f_equal. destruct a as [i|i v]; cbn [observe]; [|reflexivity].
        f_equal. apply Im. exists (Rd i). auto.
      + intros i Hi. rewrite Sm. destruct a as [j|j v]; cbn [apply]; [now apply Im|].
        destruct (i =? j); [reflexivity|now apply Im].
    - destruct (I u) as [Il Im]. split; [exact Il|].
      intros i [b [Inb Hb]]. destruct a as [j|j v]; cbn [apply]; [apply Im; exists b; auto|].
      destruct (Z.eqb_spec i j) as [->|]; [|apply Im; exists b; auto].
      exfalso. apply (RF t u (Wr j v) b (fun H => Hne (eq_sym H)) Ina Inb eq_refl). cbn [cell]. congruence.
  Qed.

  Theorem schedule_irrelevant m0 sched : race_free -> Inv m0 (run (start m0) sched).
  Proof.
    intros RF. unfold run. generalize (inv_start m0). generalize (start m0).
    induction sched as [|t s IH]; intros c I; cbn [fold_left]; [exact I|]. apply IH. now apply inv_step.
  Qed.

  (* a schedule is complete when every thread has executed its whole program *)
  Definition complete (c : cfg) : Prop := forall t, pc c t = length (prog t).

  (* for every complete schedule: each thread has read what it reads alone, and every cell a thread
     touches holds what that thread alone leaves there *)
  Corollary every_thread_as_if_alone m0 sched : race_free -> complete (run (start m0) sched) ->
    forall t, log (run (start m0) sched) t = snd (alone m0 (prog t)) /\
              (forall i, touches t i -> cmem (run (start m0) sched) i = fst (alone m0 (prog t)) i).
  Proof.
    intros RF C t. destruct (schedule_irrelevant m0 sched RF t) as [Il Im]. rewrite (C t) in Il, Im.
    unfold alone_log, alone_mem in *. rewrite firstn_all in Il, Im. split; assumption.
  Qed.

  (* readers only: any number of threads, any schedule, every read sees the initial memory *)
  Lemma alone_reads_only m p : forallb (fun a => negb (is_write a)) p = true ->
    alone m p = (m, map (fun a => m (cell a)) p).
  Proof.
    induction p as [|a p IH]; intros H; cbn [alone map forallb] in *; [reflexivity|].
    apply andb_prop in H. destruct H as [Ha Hp]. destruct a as [i|i v]; [|discriminate].
    cbn [apply]. rewrite (IH Hp). reflexivity.
  Qed.
  Corollary readers_only m0 sched : (forall t a, In a (prog t) -> is_write a = false) ->
    complete (run (start m0) sched) ->
    forall t, log (run (start m0) sched) t = map (fun a => m0 (cell a)) (prog t).
  Proof.
    intros RO C t.
    assert (RF : race_free) by (intros x u a b _ Ia _ Hw; rewrite (RO x a Ia) in Hw; discriminate).
    destruct (every_thread_as_if_alone m0 sched RF C t) as [Il _]. rewrite Il.
    rewrite alone_reads_only; [reflexivity|].
    apply forallb_forall. intros a Ia. now rewrite (RO t a Ia).
  Qed.
End Conc.
