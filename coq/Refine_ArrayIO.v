(* Refine_ArrayIO.v -- C06 / C07 / C08: the reader and the writer of the array primitive as they stand on this run
   (gen/Gen_ArrayIO.v: their top-level statements, classified, in order) have the scheme the byte-level model gives them:

   writer   header ; the width word decided by the stored scalar type (4 for float, 8 for double) ; the width word ; the
            element count ; every element, component by component in index order, at the stored width ; footer
            = BinIO.dump_prim (PArray ..) = hdr ++ u32 w ++ u64 len ++ encs t data ++ ftr
   reader   header ; width word ; reject unless 4 or 8 ; element count ; value-initialised storage of that many elements ;
            every element, component by component, read at the FILE's width and converted by static_cast ; footer ; construct
            = BinIO.load_prim (PArray ..)

   The comparison is of the scheme; the element loops' bodies are matched textually by the translator (anything else is
   reported as a problem), and the bytes themselves are compared on every run by props/c06.py .. c08.py. *)
From Coq Require Import String List ZArith.
From Covfie Require Import Stack BinIO.
From Covfie.gen Require Import Gen_ArrayIO.
Import ListNotations.
Local Open Scope string_scope.

Definition model_array_write : list string := ["H"; "DeclWidth"; "WidthOfType"; "W:float_width"; "W:m_size"; "WriteElements"; "F"].
Definition model_array_read : list string := ["H"; "R:float_width"; "WidthCheck"; "R:size"; "Alloc"; "ReadElements"; "F"; "C:size,ptr"].

Theorem array_io_scheme_is_the_models : arrayio_write = model_array_write /\ arrayio_read = model_array_read /\ arrayio_problems = 0.
Proof. repeat split; reflexivity. Qed.

(* what each piece of the writer contributes, in the model's terms: the dump of an array is those pieces in that order *)
Definition array_item_bytes (t : sty) (w len : Z) (data : list Z) (it : string) : list Z :=
  if String.eqb it "H" then hdr TAG_ARRAY else if String.eqb it "F" then ftr TAG_ARRAY
  else if String.eqb it "W:float_width" then u32 w else if String.eqb it "W:m_size" then u64 len
  else if String.eqb it "WriteElements" then encs t data else [].
Theorem array_write_order_is_the_source m t len data bs w : float_width t = Some w ->
  dump_prim (PArray m t) (DArray len data) = Some bs -> bs = flat_map (array_item_bytes t w len data) arrayio_write.
Proof.
  intros Hw. cbn [dump_prim]. rewrite Hw. intros E. injection E as <-.
  change arrayio_write with model_array_write. cbn. rewrite ?app_nil_r, <- ?app_assoc. reflexivity.
Qed.
