(* Extract_algebra.v -- covfie::algebra (AlgebraCore) with the IEEE operations of FloatOps, for the
   correspondence check of C09 (harness/h_algebra.cpp calls the real operators). *)
Require Import ExtrOcamlBasic.
From Coq Require Import ZArith List.
From Covfie Require Import AlgebraCore Stack FloatOps.
Import ListNotations.

Definition zero (t : sty) := fofZ t 0%Z.
Definition one (t : sty) := fofZ t 1%Z.
Definition alg_apply (t : sty) (A : list (list Z)) (v : list Z) : list Z :=
  AlgebraCore.affine_apply (zero t) (one t) (f_add flocq_ops t) (f_mul flocq_ops t) A v.
Definition alg_compose (t : sty) (n : nat) (A B : list (list Z)) : list (list Z) :=
  AlgebraCore.affine_compose (zero t) (one t) (f_add flocq_ops t) (f_mul flocq_ops t) n A B.
Definition alg_identity (t : sty) (n : nat) : list (list Z) := AlgebraCore.affine_identity (zero t) (one t) n.
Definition alg_translation (t : sty) (ts : list Z) : list (list Z) := AlgebraCore.translation (zero t) (one t) ts.
Definition alg_scaling (t : sty) (ss : list Z) : list (list Z) := AlgebraCore.scaling (zero t) (one t) ss.
Definition alg_matmul (t : sty) (p : nat) (A B : list (list Z)) : list (list Z) :=
  AlgebraCore.mat_mul (zero t) (f_add flocq_ops t) (f_mul flocq_ops t) p A B.
Definition keep_number_types (z : Z) (n : N) (k : nat) := (z, n, k).
Separate Extraction alg_apply alg_compose alg_identity alg_translation alg_scaling alg_matmul keep_number_types.
