(* CKernelFacts.v -- lemmas about the semantics in CKernel.v, used by the Refine_*.v files.
   Style rules (DESIGN.md section 10): never unfold kernel operators while a loop term is in
   the goal; state typing lemmas over an opaque T with hypotheses on csigned/cwidth. *)
From Coq Require Import ZArith List Bool Lia ZifyBool.
From Covfie Require Import CKernel.
Import ListNotations.
Local Open Scope Z_scope.
Local Open Scope ck_scope.

(* ---------- types ---------- *)
Definition unsigned_ty (T : cty) := csigned T = false /\ 1 <= cwidth T.

Lemma pow2_pos w : 0 <= w -> 0 < 2 ^ w. Proof. intros; apply Z.pow_pos_nonneg; lia. Qed.

Lemma wrap_small_u T z : csigned T = false -> 0 <= z < 2 ^ cwidth T -> wrap T z = z.
Proof. intros Hs Hz. unfold wrap. rewrite Hs. now apply Z.mod_small. Qed.

Lemma wrap_u T z : csigned T = false -> wrap T z = z mod 2 ^ cwidth T.
Proof. intros Hs. unfold wrap. now rewrite Hs. Qed.

Lemma wrap_u_range T z : csigned T = false -> 0 <= cwidth T -> 0 <= wrap T z < 2 ^ cwidth T.
Proof. intros Hs Hw. rewrite wrap_u by assumption. apply Z.mod_pos_bound. now apply pow2_pos. Qed.

Lemma wrap_I32_small z : - 2 ^ 31 <= z < 2 ^ 31 -> wrap I32 z = z.
Proof.
  intros Hz. unfold wrap; cbn [csigned cwidth I32]. change (32 - 1) with 31.
  rewrite Z.mod_small; [lia|]. change (2 ^ 32) with (2 * 2 ^ 31). lia.
Qed.

Lemma wrap_U64_small z : 0 <= z < 2 ^ 64 -> wrap U64 z = z.
Proof. intros. now apply wrap_small_u. Qed.

Lemma promote_wide T : 32 <= cwidth T -> promote T = T.
Proof. intros H. unfold promote. destruct (cwidth T <? 32) eqn:E; [lia|reflexivity]. Qed.

Lemma promote_narrow T : cwidth T < 32 -> promote T = I32.
Proof. intros H. unfold promote. destruct (cwidth T <? 32) eqn:E; [reflexivity|lia]. Qed.

Lemma common_self_wide T : 32 <= cwidth T -> common T T = T.
Proof.
  intros Hw. unfold common. rewrite promote_wide by assumption.
  rewrite Bool.eqb_reflx. now rewrite Z.ltb_irrefl.
Qed.

Lemma common_self_narrow T : cwidth T < 32 -> common T T = I32.
Proof. intros Hw. unfold common. rewrite promote_narrow by assumption. reflexivity. Qed.

Lemma common_u_i32_wide T : csigned T = false -> 32 <= cwidth T -> common T I32 = T.
Proof.
  intros Hs Hw. unfold common. rewrite promote_wide by assumption.
  change (promote I32) with I32. change (csigned I32) with true.
  rewrite Hs. cbn [Bool.eqb]. cbv zeta. change (cwidth I32) with 32.
  destruct (32 <=? cwidth T) eqn:E; [reflexivity|lia].
Qed.

Lemma common_narrow_i32 T : cwidth T < 32 -> common T I32 = I32.
Proof. intros Hw. unfold common. rewrite promote_narrow by assumption. reflexivity. Qed.

Lemma common_U64_U64 : common U64 U64 = U64. Proof. reflexivity. Qed.
Lemma common_U64_I32 : common U64 I32 = U64. Proof. reflexivity. Qed.
Lemma common_I32_U64 : common I32 U64 = U64. Proof. reflexivity. Qed.

(* any integer type of width <= 64 converts to U64 in a mixed operation with U64 *)
Lemma common_U64_any T : 1 <= cwidth T <= 64 -> common U64 T = U64.
Proof.
  intros Hw. unfold common. change (promote U64) with U64. unfold promote.
  destruct (cwidth T <? 32) eqn:E.
  - reflexivity.
  - change (csigned U64) with false. destruct (csigned T) eqn:Es; cbn [Bool.eqb]; cbv zeta;
      change (cwidth U64) with 64.
    + destruct (cwidth T <=? 64) eqn:E2; [reflexivity|lia].
    + destruct (64 <? cwidth T) eqn:E2; [lia|reflexivity].
Qed.

Lemma common_any_U64 T : 1 <= cwidth T <= 64 -> common T U64 = U64.
Proof.
  intros Hw. unfold common. change (promote U64) with U64. unfold promote.
  destruct (cwidth T <? 32) eqn:E.
  - reflexivity.
  - change (csigned U64) with false. destruct (csigned T) eqn:Es; cbn [Bool.eqb]; cbv zeta;
      change (cwidth U64) with 64.
    + destruct (cwidth T <=? 64) eqn:E2; [reflexivity|lia].
    + destruct (cwidth T <? 64) eqn:E2; [reflexivity|].
      assert (cwidth T = 64) by lia. destruct T as [s w]; cbn in *; subst; reflexivity.
Qed.

(* ---------- U64 arithmetic (size_t) ---------- *)
Definition u64 (z : Z) : tv := lit U64 z.
Definition in_u64 (z : Z) := 0 <= z < 2 ^ 64.

Lemma cast_U64_u64 z : in_u64 z -> cast U64 (lit U64 z) = lit U64 z.
Proof. intros H. unfold cast; cbn [val lit]. now rewrite wrap_U64_small. Qed.

Lemma cast_U64_i32 z : 0 <= z < 2 ^ 31 -> cast U64 (lit I32 z) = lit U64 z.
Proof.
  intros H. unfold cast; cbn [val lit]. rewrite wrap_U64_small; [reflexivity|].
  split; [lia|]. apply Z.lt_trans with (2 ^ 31); [lia|reflexivity].
Qed.

Lemma arith_U64 o a b : in_u64 a -> in_u64 b ->
  arith o (lit U64 a) (lit U64 b) =
  match o with
  | Add => Ok (lit U64 ((a + b) mod 2 ^ 64))
  | Sub => Ok (lit U64 ((a - b) mod 2 ^ 64))
  | Mul => Ok (lit U64 ((a * b) mod 2 ^ 64))
  | Div => if b =? 0 then UB DivZero else Ok (lit U64 (a / b))
  | Rem => if b =? 0 then UB DivZero else Ok (lit U64 (a mod b))
  | And => Ok (lit U64 (Z.land a b))
  | Or => Ok (lit U64 (Z.lor a b))
  | Xor => Ok (lit U64 (Z.lxor a b))
  end.
Proof.
  intros Ha Hb. unfold in_u64 in *. unfold arith. cbn [ty lit]. rewrite common_U64_U64.
  unfold cast; cbn [val lit]. rewrite !wrap_U64_small by assumption.
  assert (Hq : 0 <= a / b < 2 ^ 64 \/ b = 0).
  { destruct (Z.eq_dec b 0) as [->|Hb0]; [now right|left]. split.
    - apply Z.div_pos; lia.
    - apply Z.le_lt_trans with a; [|lia]. apply Z.div_le_upper_bound; nia. }
  destruct o; cbn [csigned U64]; try reflexivity.
  - (* Div *) destruct (b =? 0) eqn:E; [reflexivity|]. apply Z.eqb_neq in E.
    rewrite Z.quot_div_nonneg by lia. destruct Hq as [Hq|]; [|lia].
    unfold fits, cmin, cmax; cbn [csigned cwidth U64].
    destruct (0 <=? a / b) eqn:E1; destruct (a / b <=? 2 ^ 64 - 1) eqn:E2; try lia. reflexivity.
  - (* Rem *) destruct (b =? 0) eqn:E; [reflexivity|]. apply Z.eqb_neq in E.
    rewrite Z.quot_div_nonneg, Z.rem_mod_nonneg by lia. destruct Hq as [Hq|]; [|lia].
    unfold fits, cmin, cmax; cbn [csigned cwidth U64].
    destruct (0 <=? a / b) eqn:E1; destruct (a / b <=? 2 ^ 64 - 1) eqn:E2; try lia. reflexivity.
  - (* And *) rewrite wrap_U64_small; [reflexivity|]. split.
    + apply Z.land_nonneg; lia.
    + destruct (Z.eq_dec a 0) as [->|Ha0]; [rewrite Z.land_0_l; lia|].
      apply Z.log2_lt_cancel. rewrite Z.log2_pow2 by lia.
      apply Z.le_lt_trans with (Z.log2 a).
      * destruct (Z.eq_dec (Z.land a b) 0) as [->|Hn]; [apply Z.log2_nonneg|].
        apply Z.le_trans with (Z.min (Z.log2 a) (Z.log2 b)); [apply Z.log2_land; lia|lia].
      * apply Z.log2_lt_pow2; lia.
  - (* Or *) rewrite wrap_U64_small; [reflexivity|]. split.
    + apply Z.lor_nonneg; lia.
    + destruct (Z.eq_dec (Z.lor a b) 0) as [->|Hn]; [lia|].
      apply Z.log2_lt_pow2; [pose proof (Z.lor_nonneg a b); lia|].
      rewrite Z.log2_lor by lia.
      destruct (Z.eq_dec a 0) as [->|Ha0]; destruct (Z.eq_dec b 0) as [->|Hb0];
        try (rewrite Z.lor_0_l in Hn); try (rewrite Z.lor_0_r in Hn); try lia.
      * change (Z.log2 0) with 0. rewrite Z.max_r by apply Z.log2_nonneg. apply Z.log2_lt_pow2; lia.
      * change (Z.log2 0) with 0. rewrite Z.max_l by apply Z.log2_nonneg. apply Z.log2_lt_pow2; lia.
      * apply Z.max_lub_lt; apply Z.log2_lt_pow2; lia.
  - (* Xor *) rewrite wrap_U64_small; [reflexivity|]. split.
    + apply Z.lxor_nonneg; lia.
    + destruct (Z.eq_dec (Z.lxor a b) 0) as [->|Hn]; [lia|].
      assert (0 <= Z.lxor a b) by (apply Z.lxor_nonneg; lia).
      apply Z.log2_lt_pow2; [lia|].
      apply Z.le_lt_trans with (Z.max (Z.log2 a) (Z.log2 b)); [apply Z.log2_lxor; lia|].
      destruct (Z.eq_dec a 0) as [->|Ha0]; destruct (Z.eq_dec b 0) as [->|Hb0];
        try (rewrite Z.lxor_0_l in Hn); try (rewrite Z.lxor_0_r in Hn); try lia.
      * change (Z.log2 0) with 0. rewrite Z.max_r by apply Z.log2_nonneg. apply Z.log2_lt_pow2; lia.
      * change (Z.log2 0) with 0. rewrite Z.max_l by apply Z.log2_nonneg. apply Z.log2_lt_pow2; lia.
      * apply Z.max_lub_lt; apply Z.log2_lt_pow2; lia.
Qed.

Lemma cmp_U64 o a b : in_u64 a -> in_u64 b ->
  cmp o (lit U64 a) (lit U64 b) =
  Ok (lit CBool (if match o with
                    | Lt => a <? b | Le => a <=? b | Gt => b <? a | Ge => b <=? a
                    | Eq => a =? b | Ne => negb (a =? b) end then 1 else 0)).
Proof.
  intros Ha Hb. unfold cmp. cbn [ty lit]. rewrite common_U64_U64.
  unfold cast; cbn [val lit]. now rewrite !wrap_U64_small by assumption.
Qed.

Lemma truthy_bool (b : bool) : truthy (lit CBool (if b then 1 else 0)) = b.
Proof. destruct b; reflexivity. Qed.

Lemma shl_U64 a n : in_u64 a -> 0 <= n < 64 ->
  shl (lit U64 a) (lit U64 n) = Ok (lit U64 ((a * 2 ^ n) mod 2 ^ 64)).
Proof.
  intros Ha Hn. unfold shl. cbn [ty lit]. change (promote U64) with U64.
  unfold cast; cbn [val lit]. unfold in_u64 in Ha.
  rewrite (wrap_U64_small n) by lia. rewrite (wrap_U64_small a) by lia.
  destruct (n <? 0) eqn:E1; [lia|]. cbn [cwidth U64]. destruct (64 <=? n) eqn:E2; [lia|].
  cbn [orb]. rewrite wrap_u by reflexivity. reflexivity.
Qed.

(* ---------- bind ---------- *)
Lemma bind_Ok {A B} (a : A) (f : A -> res B) : bind (Ok a) f = f a.
Proof. reflexivity. Qed.

Lemma bind_inv_Ok {A B} (m : res A) (f : A -> res B) b :
  bind m f = Ok b -> exists a, m = Ok a /\ f a = Ok b.
Proof. destruct m; cbn; intros H; try discriminate. eauto. Qed.

(* ---------- loops ---------- *)
Lemma while_inv {St} (I : St -> Prop) (m : St -> nat) (c : St -> res bool) (body : St -> res St) :
  (forall s, I s -> exists b, c s = Ok b /\
     (b = true -> exists s', body s = Ok s' /\ I s' /\ (m s' < m s)%nat)) ->
  forall fuel s, I s -> (m s < fuel)%nat ->
  exists s', while_ fuel c body s = Ok s' /\ I s' /\ c s' = Ok false.
Proof.
  intros Hstep. induction fuel as [|f IH]; intros s HI Hm; [lia|].
  cbn [while_]. destruct (Hstep s HI) as (b & Hc & Hb). rewrite Hc. cbn [bind].
  destruct b.
  - destruct (Hb eq_refl) as (s' & Hbody & HI' & Hdec). rewrite Hbody. cbn [bind].
    apply IH; [assumption|lia].
  - exists s. auto.
Qed.

(* a loop whose condition stays true forever runs out of any fuel *)
Lemma while_diverges {St} (I : St -> Prop) (c : St -> res bool) (body : St -> res St) :
  (forall s, I s -> c s = Ok true /\ exists s', body s = Ok s' /\ I s') ->
  forall fuel s, I s -> while_ fuel c body s = OutOfFuel.
Proof.
  intros Hstep. induction fuel as [|f IH]; intros s HI; [reflexivity|].
  cbn [while_]. destruct (Hstep s HI) as (Hc & s' & Hb & HI'). rewrite Hc. cbn [bind].
  rewrite Hb. cbn [bind]. now apply IH.
Qed.

Lemma for_aux_inv {St} (T : cty) (I : Z -> St -> Prop) (body : tv -> St -> res St) :
  forall n i s, I i s ->
  (forall j s, i <= j < i + Z.of_nat n -> I j s -> exists s', body (lit T j) s = Ok s' /\ I (j + 1) s') ->
  exists s', for_aux n T i body s = Ok s' /\ I (i + Z.of_nat n) s'.
Proof.
  induction n as [|n IH]; intros i s HI Hstep.
  - exists s. split; [reflexivity|]. now rewrite Z.add_0_r.
  - cbn [for_aux]. destruct (Hstep i s) as (s1 & Hb & HI1); [lia|assumption|].
    rewrite Hb. cbn [bind].
    destruct (IH (i + 1) s1 HI1) as (s2 & Hr & HI2).
    { intros j s' Hj. apply Hstep. lia. }
    exists s2. split; [assumption|]. replace (i + Z.of_nat (S n)) with (i + 1 + Z.of_nat n) by lia.
    assumption.
Qed.

Lemma for_up_inv {St} (T : cty) (I : Z -> St -> Prop) (body : tv -> St -> res St) lo hi s :
  val lo <= val hi -> I (val lo) s ->
  (forall j s, val lo <= j < val hi -> I j s -> exists s', body (lit T j) s = Ok s' /\ I (j + 1) s') ->
  exists s', for_up T lo hi body s = Ok s' /\ I (val hi) s'.
Proof.
  intros Hle HI Hstep. unfold for_up.
  destruct (for_aux_inv T I body (Z.to_nat (val hi - val lo)) (val lo) s HI) as (s' & Hr & HI').
  { intros j s0 Hj. apply Hstep. lia. }
  exists s'. split; [assumption|]. replace (val hi) with (val lo + Z.of_nat (Z.to_nat (val hi - val lo))) by lia.
  assumption.
Qed.

Lemma for_up_empty {St} (T : cty) (body : tv -> St -> res St) lo hi s :
  val hi <= val lo -> for_up T lo hi body s = Ok s.
Proof. intros H. unfold for_up. replace (Z.to_nat (val hi - val lo)) with O by lia. reflexivity. Qed.

(* [for_up] is the while loop  for (T i = lo; i < hi; ++i)  when the bound fits the type:
   justifies the translator's use of the structural form for canonical counted loops. *)
Lemma for_aux_is_while {St} (body : tv -> St -> res St) (hi : Z) :
  in_u64 hi ->
  forall n i s fuel, 0 <= i -> i + Z.of_nat n = hi -> (n < fuel)%nat ->
  while_ fuel
    (fun '(iv, s) => t <- cmp Lt iv (lit U64 hi) ;; Ok (truthy t))
    (fun '(iv, s) => s' <- body iv s ;; t <- arith Add iv (lit I32 1) ;; Ok (cast U64 t, s'))
    (lit U64 i, s)
  = (s' <- for_aux n U64 i body s ;; Ok (lit U64 hi, s')).
Proof.
  intros Hhi. induction n as [|n IH]; intros i s fuel Hi Hsum Hf.
  - destruct fuel as [|fuel]; [lia|]. cbn [while_ for_aux bind].
    rewrite cmp_U64 by (unfold in_u64 in *; lia). cbn [bind]. rewrite truthy_bool.
    replace i with hi by lia. now rewrite Z.ltb_irrefl.
  - destruct fuel as [|fuel]; [lia|]. cbn [while_ for_aux].
    rewrite cmp_U64 by (unfold in_u64 in *; lia). cbn [bind]. rewrite truthy_bool.
    destruct (i <? hi) eqn:E; [|lia].
    destruct (body (lit U64 i) s) as [s1| | |] eqn:Hb; cbn [bind]; try reflexivity.
    assert (Hadd : arith Add (lit U64 i) (lit I32 1) = Ok (lit U64 (i + 1))).
    { unfold arith. cbn [ty lit]. rewrite common_U64_I32. unfold cast; cbn [val lit csigned U64].
      unfold in_u64 in Hhi. rewrite (wrap_U64_small i), (wrap_U64_small 1) by lia.
      rewrite wrap_U64_small by lia. reflexivity. }
    rewrite Hadd. cbn [bind]. rewrite cast_U64_u64 by (unfold in_u64 in *; lia).
    apply IH; lia.
Qed.
