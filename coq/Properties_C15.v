(* Properties_C15.v -- C15 (partial): no undefined behaviour on the documented domain, in debug and
   release builds.  PROVED here, about the kernels regenerated from the source on every run, in the
   semantics of CKernel.v (signed overflow, out-of-range shifts, division by zero, out-of-bounds
   subscripts and failed assertions are explicit non-Ok outcomes): on the documented domain every
   kernel returns Ok, in the NDEBUG translation AND in the assertion-enabled one, with the same value.
   NOT expressible in this model and therefore only observed (sanitizers, valgrind; props/c15.py):
   object lifetime, uninitialised reads, value-returning functions that return nothing, aliasing. *)
From Coq Require Import ZArith List Bool.
From Covfie Require Import CKernel Numeric Layout Hilbert LayoutMem Refine_Numeric Refine_Strided Refine_Morton Refine_Hilbert Refine_Backup.
From Covfie Require Import Properties_C01 Properties_C14 Properties_C18.
From Covfie.gen Require Import Gen_Numeric Gen_Strided Gen_Morton Gen_Hilbert Gen_Backup.
Import ListNotations.
Local Open Scope Z_scope.

(* row-major accumulation: Ok in both translations, same value *)
Theorem C15_strided_release : forall (S : cty) (sizes c : list Z),
  coord_ty S -> Z.of_nat (length sizes) < 2 ^ 64 -> length sizes = length c -> in_box sizes c ->
  Forall (fun s => s < 2 ^ 64) sizes -> zprod sizes <= cmax S ->
  gen_strided_at S (Z.of_nat (length sizes)) (map (lit U64) sizes) (map (lit S) c) = Ok (lit S (rowmajor sizes c)).
Proof. exact C01_strided_kernel. Qed.
Theorem C15_strided_debug : forall (S : cty) (sizes c : list Z),
  coord_ty S -> Z.of_nat (length sizes) < 2 ^ 64 -> length sizes = length c -> in_box sizes c ->
  Forall (fun s => s < 2 ^ 64) sizes -> zprod sizes <= cmax S ->
  gen_strided_at_dbg S (Z.of_nat (length sizes)) (map (lit U64) sizes) (map (lit S) c) = Ok (lit S (rowmajor sizes c)).
Proof. exact C01_strided_kernel_debug_build. Qed.

(* the out-of-range test never leaves the defined behaviour, for any coordinate of the type *)
Theorem C15_backup : forall (S : cty), 32 <= cwidth S <= 64 -> forall dflt (coord lo hi : list Z),
  Z.of_nat (length coord) < 2 ^ 64 -> length lo = length coord -> length hi = length coord ->
  Forall (inS S) coord -> Forall (inS S) lo -> Forall (inS S) hi ->
  exists r, gen_backup_at (Z.of_nat (length coord)) dflt (map (lit S) hi) (map (lit S) lo) (map (lit S) coord) = Ok r.
Proof. exact (fun S HS dflt coord lo hi H1 H2 H3 F1 F2 F3 => ex_intro _ _ (backup_at_refines S HS dflt coord lo hi H1 H2 H3 F1 F2 F3)). Qed.

(* the copy lambda of the re-layout constructor *)
Theorem C15_strided_copy : forall (S : cty) (sizes t : list Z),
  coord_ty S -> Z.of_nat (length sizes) < 2 ^ 64 -> length sizes = length t -> in_box sizes t ->
  Forall (fun s => s < 2 ^ 64) sizes -> zprod sizes <= cmax S ->
  exists r, gen_strided_copy_index S (Z.of_nat (length sizes)) (map (lit U64) t) (map (lit U64) sizes) = Ok r.
Proof. exact (fun S sizes t H1 H2 H3 H4 H5 H6 => ex_intro _ _ (strided_copy_index_refines S sizes t H1 H2 H3 H4 H5 H6)). Qed.

(* Morton: the portable loop as compiled without and with -mbmi2 (flag off), and the lookup with its
   assertions enabled: Ok and the same position *)
Theorem C15_morton_release_and_debug : forall (sizes : list Z) (c : list tv),
  (1 <= length c <= 64)%nat -> Forall coord_ok c -> length sizes = length c ->
  Forall2 (fun v s => val v < s < 2 ^ 64) c sizes ->
  gen_morton_index (Z.of_nat (length c)) 8 c = gen_morton_at_dbg (Z.of_nat (length c)) 8 (map (lit U64) sizes) c /\
  gen_morton_index_bmi2 false (Z.of_nat (length c)) 8 c = gen_morton_index (Z.of_nat (length c)) 8 c /\
  exists r, gen_morton_index (Z.of_nat (length c)) 8 c = Ok r.
Proof.
  exact (fun sizes c H1 H2 H3 H4 =>
    conj (eq_trans (morton_index_refines c H1 H2) (eq_sym (morton_at_dbg_refines sizes c H1 H2 H3 H4)))
   (conj (eq_trans (morton_index_bmi2_off_refines c H1 H2) (eq_sym (morton_index_refines c H1 H2)))
         (ex_intro _ _ (morton_index_refines c H1 H2)))).
Qed.

(* Hilbert index (with its calls to rot and round_pow2): Ok for every in-range coordinate *)
Theorem C15_hilbert : forall (sx sy x y : Z) (fuel : nat),
  1 <= sx <= 2 ^ 31 -> 1 <= sy <= 2 ^ 31 -> 0 <= x < sx -> 0 <= y < sy -> (66 < fuel)%nat ->
  exists r, gen_hilbert_index fuel [lit U64 x; lit U64 y] [lit U64 sx; lit U64 sy] = Ok r.
Proof. exact (fun sx sy x y fuel H1 H2 H3 H4 H5 => ex_intro _ _ (hilbert_index_refines sx sy x y fuel H1 H2 H3 H4 H5)). Qed.

(* the numeric utilities on their domain; and the one place where the C++ semantics says UB *)
Theorem C15_round_pow2 : forall T i (fuel : nat),
  unsigned_std T -> 1 <= i <= 2 ^ (cwidth T - 1) -> (Z.to_nat (cwidth T) < fuel)%nat ->
  exists r, gen_round_pow2 T fuel (lit T i) = Ok r.
Proof. exact (fun T i fuel H1 H2 H3 => ex_intro _ _ (round_pow2_refines T i fuel H1 H2 H3)). Qed.
Theorem C15_ipow : forall T b e (fuel : nat),
  nice_unsigned T -> 0 <= b < 2 ^ cwidth T -> 0 <= e < 2 ^ cwidth T -> (Z.to_nat (cwidth T) < fuel)%nat ->
  exists r, gen_ipow T fuel (lit T b) (lit T e) = Ok r.
Proof. exact (fun T b e fuel H1 H2 H3 H4 => ex_intro _ _ (ipow_refines T b e fuel H1 H2 H3 H4)). Qed.
Theorem C15_ipow_uint16_is_undefined : gen_ipow U16 20 (lit U16 65535) (lit U16 2) = UB SignedOverflow.
Proof. exact ipow_u16_refuted. Qed.

Print Assumptions C15_strided_release.
Print Assumptions C15_morton_release_and_debug.
Print Assumptions C15_hilbert.
Print Assumptions C15_strided_debug.
Print Assumptions C15_backup.
