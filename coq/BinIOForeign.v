(* BinIOForeign.v -- C08, "a stream written by an incompatible layer stack raises an exception":
   if the writer's and the reader's stacks differ in the KIND of a tagged layer (or of the primitive) at
   the first place where they differ, the reader rejects every dump of the writer's stack, whatever the
   field's contents and whatever follows the dump.

   [foreign ls p ls' p']: walking both stacks from the outside, skipping the layers without on-disk
   footprint (interpolators, shuffle, cast, dereference) on either side and descending through tagged
   layers that are THE SAME layer over backends of the same kind (so that the reader consumes exactly the
   configuration bytes the writer produced), one reaches a position where the next tag the reader expects is
   not the tag the writer wrote.  Tags are pairwise distinct (Refine_Tags.tags_distinct, from the source).

   Not covered (data dependent, decided by the model run and compared with the implementation): stacks that
   differ only in a dimension or scalar type of the same layer kind (the tags agree and the stream is parsed
   with a different payload size). *)
From Coq Require Import ZArith List Bool Lia.
From Covfie Require Import Stack BinIO BinIOProofs.
Import ListNotations.
Local Open Scope Z_scope.

Definition prim_tag (p : prim) : option Z :=
  match p with
  | PArray _ _ => Some TAG_ARRAY | PConstant _ _ _ _ => Some TAG_CONSTANT | PIdentity _ _ => Some TAG_IDENTITY
  | PProbe _ _ _ _ => None
  end.

(* the first tag a dump of (ls, p) carries after the field header = the first tag its reader expects *)
Fixpoint lead_tag (ls : list layer) (p : prim) : option Z :=
  match ls with
  | [] => prim_tag p
  | l :: ls' => match layer_tag l with Some t => Some t | None => lead_tag ls' p end
  end.

Inductive foreign : list layer -> prim -> list layer -> prim -> Prop :=
| F_lead ls p ls' p' : lead_tag ls p <> lead_tag ls' p' -> foreign ls p ls' p'
| F_skip_w l ls p ls' p' : layer_tag l = None -> foreign ls p ls' p' -> foreign (l :: ls) p ls' p'
| F_skip_r l' ls p ls' p' : layer_tag l' = None -> foreign ls p ls' p' -> foreign ls p (l' :: ls') p'
| F_same l ls p ls' p' : layer_tag l <> None -> kind_of_layers ls p = kind_of_layers ls' p' ->
    foreign ls p ls' p' -> foreign (l :: ls) p (l :: ls') p'.

Local Opaque hdr ftr u32 u64 encs Z.pow.

Lemma prim_tag_is_tag p t : prim_tag p = Some t -> is_tag t.
Proof.
  destruct tags_ok as [_ [Ta [Tc [Ti _]]]].
  destruct p; cbn; intros E; inversion E; subst; assumption.
Qed.

Lemma lead_tag_is_tag ls p t : lead_tag ls p = Some t -> is_tag t.
Proof.
  induction ls as [|l ls IH]; cbn [lead_tag].
  - apply prim_tag_is_tag.
  - destruct (layer_tag l) as [t'|] eqn:E; [|exact IH]. intros H. injection H as <-. eapply layer_tag_is_tag; eassumption.
Qed.

(* reading a header for tag t' from bytes that start with the header of another tag *)
Lemma read_hdr_other t t' rest : is_tag t -> t <> t' -> read_hdr t' (hdr t ++ rest) = Bad BadTag.
Proof.
  intros [T0 T1] Hne. Transparent hdr. unfold hdr, read_hdr. Opaque hdr.
  rewrite <- app_assoc, read_u32_u32. cbn [rbind]. rewrite read_u32_u32. cbn [rbind].
  replace (MAGIC_HEADER mod 2 ^ 32 =? MAGIC_HEADER) with true by (vm_compute; reflexivity). cbn [negb].
  rewrite (Z.mod_small t) by (unfold is_tag in *; lia).
  destruct (Z.eqb_spec t t'); [contradiction|reflexivity].
Qed.

Section Foreign.
  Variable ops : sops.

  (* a dump starts with the header of its lead tag *)
  Lemma dump_starts ls p : forall gs d bs, wf_layers ls p gs d = true -> dump_layers ls p gs d = Some bs ->
    exists t rest, lead_tag ls p = Some t /\ bs = hdr t ++ rest.
  Proof.
    induction ls as [|l ls IH]; intros gs d bs W E.
    - destruct gs; [|discriminate]. cbn [wf_layers dump_layers lead_tag] in *.
      destruct p as [m t|n tc m tv|n t|n tc m tv]; destruct d as [len data|v|]; cbn [wf_prim dump_prim prim_tag] in *; try discriminate.
      + destruct (float_width t); [|discriminate]. injection E as <-. eexists; eexists. split; [reflexivity|reflexivity].
      + injection E as <-. eexists; eexists. split; reflexivity.
      + injection E as <-. eexists; eexists. split; reflexivity.
    - destruct gs as [|g gs]; [discriminate|]. cbn [wf_layers dump_layers lead_tag] in *.
      destruct (kind_of_layers ls p) as [k|]; [|discriminate].
      apply andb_prop in W. destruct W as [Wg Wr].
      destruct (dump_layers ls p gs d) as [inner|] eqn:Ei; [|discriminate].
      rewrite (dump_layer_shape l k g inner Wg) in E. injection E as <-.
      destruct (layer_tag l) as [t|] eqn:Et.
      + eexists; eexists. split; reflexivity.
      + exact (IH gs d inner Wr Ei).
  Qed.

  (* a reader whose lead tag is another one rejects such bytes *)
  Lemma load_wrong_lead ls' p' t rest : is_tag t -> lead_tag ls' p' <> Some t ->
    exists e, load_layers ops ls' p' (hdr t ++ rest) = Bad e.
  Proof.
    intros Tt. induction ls' as [|l' ls' IH]; cbn [lead_tag load_layers]; intros Hne.
    - destruct p' as [m ty|n tc m tv|n ty|n tc m tv]; cbn [prim_tag load_prim] in *.
      + rewrite (read_hdr_other t TAG_ARRAY rest Tt) by congruence. eexists; reflexivity.
      + rewrite (read_hdr_other t TAG_CONSTANT rest Tt) by congruence. eexists; reflexivity.
      + rewrite (read_hdr_other t TAG_IDENTITY rest Tt) by congruence. eexists; reflexivity.
      + eexists; reflexivity.
    - destruct (kind_of_layers ls' p') as [k|]; [|eexists; reflexivity].
      destruct (layer_tag l') as [t'|] eqn:Et.
      + rewrite (read_hdr_other t t' rest Tt) by congruence. eexists; reflexivity.
      + destruct (IH Hne) as [e E]. rewrite E. eexists; reflexivity.
  Qed.

  Theorem foreign_layers_rejected ls p ls' p' : foreign ls p ls' p' ->
    forall gs d bs tl, wf_layers ls p gs d = true -> dump_layers ls p gs d = Some bs ->
    exists e, load_layers ops ls' p' (bs ++ tl) = Bad e.
  Proof.
    induction 1 as [ls p ls' p' Hne|l ls p ls' p' Ht _ IH|l' ls p ls' p' Ht _ IH|l ls p ls' p' Ht Hk _ IH]; intros gs d bs tl W E.
    - destruct (dump_starts ls p gs d bs W E) as [t [rest [L ->]]]. rewrite <- app_assoc.
      apply load_wrong_lead; [eapply lead_tag_is_tag; eassumption|congruence].
    - destruct gs as [|g gs]; [discriminate|]. cbn [wf_layers dump_layers] in *.
      destruct (kind_of_layers ls p) as [k|]; [|discriminate].
      apply andb_prop in W. destruct W as [Wg Wr].
      destruct (dump_layers ls p gs d) as [inner|] eqn:Ei; [|discriminate].
      rewrite (dump_layer_shape l k g inner Wg), Ht in E. injection E as <-.
      exact (IH gs d inner tl Wr Ei).
    - cbn [load_layers]. destruct (kind_of_layers ls' p') as [k|]; [|eexists; reflexivity]. rewrite Ht.
      destruct (IH gs d bs tl W E) as [e Ee]. rewrite Ee. eexists; reflexivity.
    - destruct gs as [|g gs]; [discriminate|]. cbn [wf_layers dump_layers load_layers] in *.
      rewrite <- Hk. destruct (kind_of_layers ls p) as [k|]; [|discriminate].
      apply andb_prop in W. destruct W as [Wg Wr].
      destruct (dump_layers ls p gs d) as [inner|] eqn:Ei; [|discriminate].
      rewrite (dump_layer_shape l k g inner Wg) in E. injection E as <-.
      destruct (layer_tag l) as [t|] eqn:Et; [|contradiction].
      rewrite <- !app_assoc, read_hdr_hdr by (eapply layer_tag_is_tag; eassumption). cbn [rbind].
      rewrite load_cfg_bytes by assumption. cbn [rbind].
      destruct (IH gs d inner (ftr t ++ tl) Wr Ei) as [e Ee]. rewrite Ee. eexists; reflexivity.
  Qed.

  Theorem foreign_rejected s s' f bs tl : foreign (fst s) (snd s) (fst s') (snd s') ->
    wf_fld s f = true -> dump s f = Some bs -> exists e, load ops s' (bs ++ tl) = Bad e.
  Proof.
    intros Hf W E. unfold dump in E. destruct (dump_layers (fst s) (snd s) (f_cfgs f) (f_prim f)) as [b|] eqn:Eb; [|discriminate].
    injection E as <-. unfold load. destruct tags_ok as [Tf _].
    rewrite <- !app_assoc, read_hdr_hdr by exact Tf. cbn [rbind].
    destruct (foreign_layers_rejected _ _ _ _ Hf _ _ b (ftr TAG_FIELD ++ tl) W Eb) as [e Ee]. rewrite Ee. eexists; reflexivity.
  Qed.
End Foreign.

(* instances: different storage orders; the same outer layers over different storage orders; a missing layer *)
Example foreign_strided_morton : foreign [LStrided 2 U64] (PArray 1 F32) [LMorton 2 U64 false] (PArray 1 F32).
Proof. apply F_lead. vm_compute. congruence. Qed.
Example foreign_under_interpolators :
  foreign [LLinear F32; LClamp; LStrided 2 U64] (PArray 1 F32) [LNearest F32; LClamp; LHilbert U64] (PArray 1 F32).
Proof.
  apply F_skip_w; [reflexivity|]. apply F_skip_r; [reflexivity|]. apply F_same; [discriminate|reflexivity|].
  apply F_lead. vm_compute. congruence.
Qed.
Example foreign_missing_layer : foreign [LClamp; LStrided 2 U64] (PArray 1 F32) [LStrided 2 U64] (PArray 1 F32).
Proof. apply F_lead. vm_compute. congruence. Qed.
