(* Properties_C20.v -- C20: compile-time sort and permutation test, for all index sequences.
   Only the property theorems, closed by [exact]; the model (StaticPerm.v) mirrors
   utility/static_permutation.hpp and is tied to it by the compile-time correspondence check. *)
From Coq Require Import List Arith NArith Sorted Permutation.
From Covfie Require Import StaticPerm Refine_StaticPerm SpermEval.
From Covfie.gen Require Import Gen_StaticPerm.
Import ListNotations.

Theorem C20_sort_is_ascending : forall l, StronglySorted N.le (sort l).
Proof. exact sort_sorted. Qed.

Theorem C20_sort_same_multiset : forall l, Permutation l (sort l).
Proof. exact sort_perm. Qed.

(* it is THE ascending rearrangement *)
Theorem C20_sort_unique : forall l s, StronglySorted N.le s -> Permutation l s -> sort l = s.
Proof. exact sort_unique. Qed.

Theorem C20_is_permutation_iff : forall a b, is_perm a b = true <-> Permutation a b.
Proof. exact is_perm_iff. Qed.

(* the equations of the metaprogram as they stand in static_permutation.hpp on this run are, one for one, the model's *)
Theorem C20_equations_are_the_sources : sp_equations = model_equations /\ sp_bases = model_bases /\ sp_problems = O.
Proof. exact (conj equations_are_the_models (conj predicate_is_the_models source_read_completely)). Qed.

(* a TEST over a finite domain, not a theorem about all sequences: evaluating sort_index_sequence with the source's equations
   (template instantiation by first matching specialisation, pattern variables bound in declaration order) yields the model's
   sort on every sequence over {0,1,2,3} of length <= 5 -- the reading of the type language computes what the model computes *)
Example C20_source_equations_compute_the_model_sort_bounded :
  forallb (fun l => match sort_by_source l with Some r => if list_eq_dec N.eq_dec r (sort l) then true else false | None => false end)
          (up_to [0; 1; 2; 3]%N 5) = true.
Proof. exact source_equations_compute_the_model_sort_bounded. Qed.

Print Assumptions C20_sort_is_ascending.
Print Assumptions C20_sort_same_multiset.
Print Assumptions C20_sort_unique.
Print Assumptions C20_is_permutation_iff.
