(* Refine_Tags.v -- tie of the byte-format model (BinIO.v) to the source: the magic numbers, every
   backend's tag, the rule deriving a footer tag from a header tag (in the writer AND in the reader),
   and WHICH backends write and check a tag at all, as read from clang's AST on this run (Gen_Tags),
   are the ones the model uses.  Closed by computation; a change of any of them in the headers makes
   this file fail to compile. *)
From Coq Require Import String List ZArith Bool.
From Covfie Require Import Stack BinIO.
From Covfie.gen Require Import Gen_Tags.
Import ListNotations.
Local Open Scope Z_scope.

Definition tag_named (n : string) : option Z :=
  match find (fun p => String.eqb (fst p) n) io_tags with Some (_, v) => Some v | None => None end.

Definition model_tags : list (string * Z) :=
  [("field", TAG_FIELD); ("array", TAG_ARRAY); ("constant", TAG_CONSTANT); ("identity", TAG_IDENTITY); ("affine", TAG_AFFINE);
   ("backup", TAG_BACKUP); ("clamp", TAG_CLAMP); ("hilbert", TAG_HILBERT); ("morton", TAG_MORTON); ("strided", TAG_STRIDED)]%string.

Theorem tags_match : forallb (fun p => match tag_named (fst p) with Some v => v =? snd p | None => false end) model_tags = true.
Proof. reflexivity. Qed.

Theorem magic_match : io_magic_header = MAGIC_HEADER /\ io_magic_footer = MAGIC_FOOTER.
Proof. split; reflexivity. Qed.

(* footer tag = header tag + 0x20000000, computed the same way by the writer and by the reader *)
Definition footer_rule : string * Z := ("+="%string, 536870912).
Theorem footer_rule_match : io_footer_writer = footer_rule /\ io_footer_reader = footer_rule.
Proof. split; reflexivity. Qed.

(* exactly the backends the model gives a footprint write and check their tag; the interpolators, the
   permutation, the cast and the dereference layer have none *)
Definition model_tagged : list string := ["affine"; "array"; "backup"; "clamp"; "constant"; "hilbert"; "identity"; "morton"; "strided"]%string.
Theorem tagged_match : io_writes_tag = model_tagged /\ io_checks_tag = model_tagged.
Proof. split; reflexivity. Qed.

(* the tags are pairwise distinct (what makes a foreign stack recognisable) *)
Theorem tags_distinct : NoDup (map snd io_tags).
Proof.
  assert (H : forall l : list Z, (fix nd (l : list Z) : bool := match l with [] => true | x :: r => negb (existsb (Z.eqb x) r) && nd r end) l = true -> NoDup l).
  { induction l as [|x r IH]; intros E; [constructor|]. apply andb_prop in E. destruct E as [E1 E2].
    constructor; [|now apply IH]. intros Hin. apply negb_true_iff in E1.
    assert (existsb (Z.eqb x) r = true) by (apply existsb_exists; exists x; split; [assumption|apply Z.eqb_refl]). congruence. }
  apply H. reflexivity.
Qed.

(* ---- the ORDER of the pieces: every layer's write_binary / read_binary body, statement by statement ---- *)
Local Open Scope string_scope.
Definition lookup (n : string) (t : list (string * list string)) : list string :=
  match find (fun p => String.eqb (fst p) n) t with Some (_, v) => v | None => ["?:missing"] end.

Definition layer_name (l : layer) : string :=
  match l with
  | LStrided _ _ => "strided" | LMorton _ _ _ => "morton" | LHilbert _ => "hilbert" | LClamp => "clamp" | LBackup => "backup"
  | LShuffle _ => "shuffle" | LAffine => "affine" | LCast _ => "covariant_cast" | LDeref => "dereference"
  | LLinear _ => "linear" | LNearest _ => "nearest_neighbour"
  end.

(* what one statement of a write_binary contributes to the stream, in the model's terms *)
Definition item_bytes (l : layer) (k : kind) (g : cfg) (inner : list Z) (it : string) : list Z :=
  let t := match layer_tag l with Some t => t | None => 0%Z end in
  if String.eqb it "H" then hdr t else if String.eqb it "F" then ftr t
  else if String.eqb it "B:m_backend" || String.eqb it "B:m_storage" then inner
  else match g with
       | CSizes s => if String.eqb it "W:m_sizes" then flat_map u64 s else []
       | CBox lo hi => if String.eqb it "W:m_min" then encs (k_tc k) lo else if String.eqb it "W:m_max" then encs (k_tc k) hi else []
       | CBackup lo hi d => if String.eqb it "W:m_min" then encs (k_tc k) lo else if String.eqb it "W:m_max" then encs (k_tc k) hi
                            else if String.eqb it "W:m_default" then encs (k_tv k) d else []
       | CAffine m => if String.eqb it "W:m_transform" then encs (k_tc k) m else []
       | CUnit => []
       end.

(* the model writer of a layer emits exactly the pieces the source's write_binary lists, in the source's order *)
Theorem write_order_is_the_source l k g inner bs : dump_layer l k g inner = Some bs ->
  bs = flat_map (item_bytes l k g inner) (lookup (layer_name l) io_write_seq).
Proof.
  destruct l; destruct g; cbn [dump_layer]; try discriminate; intros E; injection E as <-;
    unfold wrap_tag; cbn; rewrite ?app_nil_r, <- ?app_assoc; reflexivity.
Qed.

(* the readers: header, the configuration members in the order they were written, the backend, footer; and the values
   read are handed to the constructor in the order they were read *)
Definition reads_match_writes (n : string) : bool :=
  let w := lookup n io_write_seq in
  let r := lookup n io_read_seq in
  let tag (s : string) := match s with String c _ => String c EmptyString | EmptyString => EmptyString end in
  let body := removelast r in
  let ctor := last r "" in
  let vars := map (fun s => substring 2 (String.length s - 2) s) (filter (fun s => String.eqb (tag s) "R" || String.eqb (tag s) "B") body) in
  (* same shape: W <-> R position by position *)
  (if list_eq_dec string_dec (map (fun s => if String.eqb (tag s) "W" then "R" else tag s) w) (map tag body) then true else false) &&
  String.eqb ctor ("C:" ++ String.concat "," vars).
Definition seq_layers : list string :=
  ["affine"; "backup"; "clamp"; "constant"; "covariant_cast"; "dereference"; "hilbert"; "identity"; "linear"; "morton"; "nearest_neighbour"; "shuffle"; "strided"].
Theorem read_order_is_write_order : forallb reads_match_writes seq_layers = true.
Proof. vm_compute. reflexivity. Qed.

(* the field itself: dump = header, backend, footer; the stream constructor reads header, backend, footer *)
Theorem field_order : lookup "field" io_write_seq = ["H"; "B:m_backend"; "F"] /\ lookup "field" io_read_seq = ["H"; "B:m_backend"; "F"].
Proof. split; reflexivity. Qed.
Definition field_item_bytes (b : list Z) (it : string) : list Z :=
  if String.eqb it "H" then hdr TAG_FIELD else if String.eqb it "F" then ftr TAG_FIELD else b.
Definition field_write_seq : list string := lookup "field" io_write_seq.
Theorem dump_order_is_the_source s f bs : dump s f = Some bs ->
  exists b, dump_layers (fst s) (snd s) (f_cfgs f) (f_prim f) = Some b /\ bs = flat_map (field_item_bytes b) field_write_seq.
Proof.
  unfold dump. destruct (dump_layers (fst s) (snd s) (f_cfgs f) (f_prim f)) as [b|]; [|discriminate].
  intros E. injection E as <-. exists b. split; [reflexivity|]. cbn. rewrite ?app_nil_r, <- ?app_assoc. reflexivity.
Qed.
