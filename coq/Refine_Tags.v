(* Refine_Tags.v -- tie of the byte-format model (BinIO.v) to the source: the magic numbers, every
   backend's tag, the rule deriving a footer tag from a header tag (in the writer AND in the reader),
   and WHICH backends write and check a tag at all, as read from clang's AST on this run (Gen_Tags),
   are the ones the model uses.  Closed by computation; a change of any of them in the headers makes
   this file fail to compile. *)
From Coq Require Import String List ZArith Bool.
From Covfie Require Import Stack BinIO.
From Covfie.gen Require Import Gen_Tags.
Import ListNotations.
Local Open Scope Z_scope.

Definition tag_named (n : string) : option Z :=
  match find (fun p => String.eqb (fst p) n) io_tags with Some (_, v) => Some v | None => None end.

Definition model_tags : list (string * Z) :=
  [("field", TAG_FIELD); ("array", TAG_ARRAY); ("constant", TAG_CONSTANT); ("identity", TAG_IDENTITY); ("affine", TAG_AFFINE);
   ("backup", TAG_BACKUP); ("clamp", TAG_CLAMP); ("hilbert", TAG_HILBERT); ("morton", TAG_MORTON); ("strided", TAG_STRIDED)]%string.

Theorem tags_match : forallb (fun p => match tag_named (fst p) with Some v => v =? snd p | None => false end) model_tags = true.
Proof. reflexivity. Qed.

Theorem magic_match : io_magic_header = MAGIC_HEADER /\ io_magic_footer = MAGIC_FOOTER.
Proof. split; reflexivity. Qed.

(* footer tag = header tag + 0x20000000, computed the same way by the writer and by the reader *)
Definition footer_rule : string * Z := ("+="%string, 536870912).
Theorem footer_rule_match : io_footer_writer = footer_rule /\ io_footer_reader = footer_rule.
Proof. split; reflexivity. Qed.

(* exactly the backends the model gives a footprint write and check their tag; the interpolators, the
   permutation, the cast and the dereference layer have none *)
Definition model_tagged : list string := ["affine"; "array"; "backup"; "clamp"; "constant"; "hilbert"; "identity"; "morton"; "strided"]%string.
Theorem tagged_match : io_writes_tag = model_tagged /\ io_checks_tag = model_tagged.
Proof. split; reflexivity. Qed.

(* the tags are pairwise distinct (what makes a foreign stack recognisable) *)
Theorem tags_distinct : NoDup (map snd io_tags).
Proof.
  assert (H : forall l : list Z, (fix nd (l : list Z) : bool := match l with [] => true | x :: r => negb (existsb (Z.eqb x) r) && nd r end) l = true -> NoDup l).
  { induction l as [|x r IH]; intros E; [constructor|]. apply andb_prop in E. destruct E as [E1 E2].
    constructor; [|now apply IH]. intros Hin. apply negb_true_iff in E1.
    assert (existsb (Z.eqb x) r = true) by (apply existsb_exists; exists x; split; [assumption|apply Z.eqb_refl]). congruence. }
  apply H. reflexivity.
Qed.
