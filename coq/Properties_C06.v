(* Properties_C06.v -- placeholder until BinIOProofs.v lands: see below *)
From Covfie Require Import Stack BinIO.
