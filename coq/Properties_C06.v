(* Properties_C06.v -- C06: dumping a field and loading it back reproduces it exactly.
   Only the property theorems, closed by [exact].  The model is BinIO.v (byte-level writer and
   reader of every layer) instantiated with the Flocq scalar operations; it is tied to the code by
   the byte-exact correspondence check (props/c06.py). *)
From Coq Require Import ZArith List Bool.
From Covfie Require Import Stack BinIO BinIOProofs FloatOps Refine_Tags Refine_ArrayIO.
From Covfie.gen Require Import Gen_Tags Gen_ArrayIO.
Import ListNotations.
Local Open Scope Z_scope.

Lemma flocq_conv_id : forall t v, is_float t = true -> s_conv flocq_ops t t v = v.
Proof. intros t v H. destruct t; try discriminate; reflexivity. Qed.

(* every stack of the grammar, every well-formed field (any bit patterns: signed zeros, subnormals,
   infinities, NaN payloads are just numbers here), any bytes following the dump *)
Theorem C06_load_dump : forall s f bs tl, wf_fld s f = true -> dump s f = Some bs ->
  load flocq_ops s (bs ++ tl) = Good (f, tl).
Proof. exact (load_dump flocq_ops flocq_conv_id). Qed.

(* dumping the reloaded field produces exactly the same bytes as the first dump *)
Theorem C06_dump_load_dump : forall s f bs f' rest, wf_fld s f = true -> dump s f = Some bs ->
  load flocq_ops s bs = Good (f', rest) -> rest = [] /\ dump s f' = Some bs.
Proof. exact (dump_load_dump flocq_ops flocq_conv_id). Qed.

(* every layer of the grammar is serialisable: a well-formed field always has a dump *)
Theorem C06_dump_total : forall s f, wf_fld s f = true -> exists bs, dump s f = Some bs.
Proof. exact dump_total. Qed.

(* tie to the source: the magic numbers, every backend's tag, the footer rule of writer and reader, and
   WHICH backends write / check a tag, as read from the headers' AST on this run, are the model's *)
Theorem C06_format_constants_are_the_sources :
  forallb (fun p => match tag_named (fst p) with Some v => Z.eqb v (snd p) | None => false end) model_tags = true /\
  (io_magic_header = MAGIC_HEADER /\ io_magic_footer = MAGIC_FOOTER) /\
  (io_footer_writer = footer_rule /\ io_footer_reader = footer_rule) /\
  (io_writes_tag = model_tagged /\ io_checks_tag = model_tagged).
Proof. exact (conj tags_match (conj magic_match (conj footer_rule_match tagged_match))). Qed.

(* ... and the ORDER of the pieces: the model writer of every layer emits exactly what the statements of that layer's
   write_binary list (header, each configuration member, the backend, footer), in the source's order; every read_binary
   reads the members in the order they were written and hands them to the constructor in the order it read them
   (all layers and primitives except the array primitive, whose reader and writer contain loops) *)
Theorem C06_write_order_is_the_source : forall l k g inner bs, dump_layer l k g inner = Some bs ->
  bs = flat_map (item_bytes l k g inner) (lookup (layer_name l) io_write_seq).
Proof. exact write_order_is_the_source. Qed.
Theorem C06_read_order_is_write_order : forallb reads_match_writes seq_layers = true.
Proof. exact read_order_is_write_order. Qed.
(* the field: dump writes header, backend, footer; field(std::istream&) reads them in that order *)
Theorem C06_field_order_is_the_source : forall s f bs, dump s f = Some bs ->
  exists b, dump_layers (fst s) (snd s) (f_cfgs f) (f_prim f) = Some b /\ bs = flat_map (field_item_bytes b) field_write_seq.
Proof. exact dump_order_is_the_source. Qed.

(* the array primitive: its reader and writer have the model's scheme (header, width word by stored type, element count,
   every element component by component -- read at the FILE's width and converted --, footer), and the model dump of an array
   is the writer's pieces in the writer's order *)
Theorem C06_array_io_scheme_is_the_source : arrayio_write = model_array_write /\ arrayio_read = model_array_read /\ arrayio_problems = O.
Proof. exact array_io_scheme_is_the_models. Qed.
Theorem C06_array_write_order_is_the_source : forall m t len data bs w, float_width t = Some w ->
  dump_prim (PArray m t) (DArray len data) = Some bs -> bs = flat_map (array_item_bytes t w len data) arrayio_write.
Proof. exact array_write_order_is_the_source. Qed.

(* non-vacuity: a five-layer stack with every kind of configuration *)
Example C06_example :
  let s := ([LAffine; LLinear F32; LBackup; LClamp; LStrided 2 U64], PArray 1 F32) in
  let f := {| f_cfgs := [CAffine [1065353216; 0; 0; 0; 1065353216; 0]; CUnit; CBackup [0; 0] [1; 0] [2143289344];
                         CBox [0; 0] [1; 0]; CSizes [2; 1]];
              f_prim := DArray 2 [2147483648; 8388607] |} in
  wf_fld s f = true /\ (exists bs, dump s f = Some bs /\ length bs = 224%nat /\ load flocq_ops s bs = Good (f, [])).
Proof. cbn zeta. split; [reflexivity|]. eexists. split; [reflexivity|]. split; vm_compute; reflexivity. Qed.

Print Assumptions C06_load_dump.
Print Assumptions C06_dump_load_dump.
Print Assumptions C06_dump_total.
