(* PackLang.v -- the little language the pack-expansion translator (tools/cxx_packs.py) emits, and its
   meaning.  A helper of the form   return { E(Is)... };   evaluated over the index sequence [is] is the
   list of the values of E at each index; the lookup either hands that list to the backend or returns it. *)
From Coq Require Import String List ZArith Bool.
Import ListNotations.

Inductive pexp :=
| PElem (arr : string)                      (* arr[Is]  or  arr.at(Is) *)
| PCall (f : string) (args : list pexp)     (* f(args...) *)
| PCast (ty : string) (e : pexp)            (* static_cast<ty>(e) *)
| PBackElem (arg : string)                  (* m_backend.at(arg)[Is] *)
| PUnknown (why : string).

Inductive atform :=
| AtBackendOfHelper (arg seq : string)      (* return m_backend.at(helper(arg, seq{})) *)
| AtHelper (arg seq : string)               (* return helper(arg, seq{}) *)
| AtUnknown (why : string).

Section Sem.
  (* environment: the arrays in scope (parameters and members), the meaning of the named functions and
     casts, and the backend (coordinate -> trace and value) *)
  Variable env : string -> option (list Z).
  Variable fn : string -> list Z -> option Z.
  Variable cast : string -> Z -> option Z.
  Variable backend : list Z -> option (list Z * list Z).

  Definition omap2 {A B C} (f : A -> B -> C) (a : option A) (b : option B) : option C :=
    match a, b with Some x, Some y => Some (f x y) | _, _ => None end.

  (* value of E at index i, together with the backend queries it performs *)
  Fixpoint eval_pexp (e : pexp) (i : nat) {struct e} : option (list Z * Z) :=
    match e with
    | PElem a => match env a with Some l => match nth_error l i with Some v => Some ([], v) | None => None end | None => None end
    | PCall f args =>
        match (fix go (l : list pexp) : option (list Z * list Z) :=
                 match l with
                 | [] => Some ([], [])
                 | x :: r => match eval_pexp x i, go r with
                             | Some (t, v), Some (ts, vs) => Some (t ++ ts, v :: vs)
                             | _, _ => None
                             end
                 end) args with
        | Some (t, vs) => match fn f vs with Some v => Some (t, v) | None => None end
        | None => None
        end
    | PCast ty x => match eval_pexp x i with Some (t, v) => match cast ty v with Some w => Some (t, w) | None => None end | None => None end
    | PBackElem a => match env a with
                     | Some c => match backend c with
                                 | Some (t, v) => match nth_error v i with Some x => Some (t, x) | None => None end
                                 | None => None
                                 end
                     | None => None
                     end
    | PUnknown _ => None
    end.

  (* { E(Is)... } over the index sequence *)
  Fixpoint eval_pack (e : pexp) (is_ : list nat) : option (list Z * list Z) :=
    match is_ with
    | [] => Some ([], [])
    | i :: r => match eval_pexp e i, eval_pack e r with
                | Some (t, v), Some (ts, vs) => Some (t ++ ts, v :: vs)
                | _, _ => None
                end
    end.

  (* the lookup *)
  Definition eval_at (a : atform) (e : pexp) (is_ : list nat) : option (list Z * list Z) :=
    match a with
    | AtBackendOfHelper _ _ => match eval_pack e is_ with
                               | Some (t, c') => match backend c' with Some (t', v) => Some (t ++ t', v) | None => None end
                               | None => None
                               end
    | AtHelper _ _ => eval_pack e is_
    | AtUnknown _ => None
    end.
End Sem.
