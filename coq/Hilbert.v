(* Hilbert.v -- the Hilbert curve of hilbert.hpp at the mathematical level:
   Hl k x y : the quadrant recursion (the published definition, en.wikipedia.org/wiki/Hilbert_curve xy2d)
   Hn n k x y : one loop round of hilbert.hpp:87-92 per level, flips done with the full side n
   Theorems: range, injectivity, origin, end, edge-adjacency of consecutive positions, for ALL orders k;
   Hn_is_Hl: the loop form equals the recursion whenever 2^k divides n. *)
From Coq Require Import ZArith List Lia Bool ZifyBool ZifyNat.
Local Open Scope Z_scope.

Definition quad (rx ry : Z) : Z := Z.lxor (3 * rx) ry.
Definition T (s rx ry x y : Z) : Z * Z :=
  if ry =? 0 then (if rx =? 1 then (s - 1 - y, s - 1 - x) else (y, x)) else (x, y).

Fixpoint Hl (k : nat) (x y : Z) : Z :=
  match k with
  | O => 0
  | S k' =>
    let s := 2 ^ Z.of_nat k' in
    let rx := x / s in let ry := y / s in
    let p := T s rx ry (x mod s) (y mod s) in
    s * s * quad rx ry + Hl k' (fst p) (snd p)
  end.

Lemma split2 s x : 0 < s -> 0 <= x < 2 * s ->
  (x / s = 0 /\ x mod s = x /\ x < s) \/ (x / s = 1 /\ x mod s = x - s /\ s <= x).
Proof.
  intros Hs Hx. destruct (Z.lt_ge_cases x s).
  - left. rewrite Z.div_small, Z.mod_small by lia. lia.
  - right. assert (x / s = 1) by (symmetry; apply Z.div_unique with (x - s); lia).
    assert (x mod s = x - s) by (symmetry; apply Z.mod_unique with 1; lia). lia.
Qed.

Lemma pow2S k : 2 ^ Z.of_nat (S k) = 2 * 2 ^ Z.of_nat k.
Proof. rewrite Nat2Z.inj_succ, Z.pow_succ_r; lia. Qed.
Lemma pow2pos k : 0 < 2 ^ Z.of_nat k. Proof. apply Z.pow_pos_nonneg; lia. Qed.

Definition sq (k : nat) := 2 ^ Z.of_nat k * 2 ^ Z.of_nat k.   (* 4^k *)
Lemma sqS k : sq (S k) = 4 * sq k. Proof. unfold sq. rewrite pow2S. ring. Qed.

(* unfold one level, with the four quadrant cases made explicit *)
Lemma Hl_S k x y : let s := 2 ^ Z.of_nat k in
  0 <= x < 2 * s -> 0 <= y < 2 * s ->
  (x < s /\ y < s /\ Hl (S k) x y = Hl k y x) \/
  (x < s /\ s <= y /\ Hl (S k) x y = sq k + Hl k x (y - s)) \/
  (s <= x /\ s <= y /\ Hl (S k) x y = 2 * sq k + Hl k (x - s) (y - s)) \/
  (s <= x /\ y < s /\ Hl (S k) x y = 3 * sq k + Hl k (s - 1 - y) (s - 1 - (x - s))).
Proof.
  intros s Hx Hy. pose proof (pow2pos k) as Hs. fold s in Hs.
  cbn [Hl]. fold s. unfold sq. fold s.
  assert (Q00 : quad 0 0 = 0) by reflexivity. assert (Q01 : quad 0 1 = 1) by reflexivity.
  assert (Q11 : quad 1 1 = 2) by reflexivity. assert (Q10 : quad 1 0 = 3) by reflexivity.
  destruct (split2 s x Hs Hx) as [(-> & -> & ?)|(-> & -> & ?)];
  destruct (split2 s y Hs Hy) as [(-> & -> & ?)|(-> & -> & ?)];
  rewrite ?Q00, ?Q01, ?Q11, ?Q10; unfold T; cbn [Z.eqb fst snd Pos.eqb];
  [ left | right; left | right; right; right | right; right; left ];
  (split; [lia|]); (split; [lia|]); ring.
Qed.

Lemma Hl_range k : forall x y, 0 <= x < 2 ^ Z.of_nat k -> 0 <= y < 2 ^ Z.of_nat k -> 0 <= Hl k x y < sq k.
Proof.
  induction k as [|k IH]; intros x y Hx Hy.
  - cbn. unfold sq. cbn. lia.
  - rewrite pow2S in Hx, Hy. rewrite sqS.
    pose proof (pow2pos k) as Hs.
    destruct (Hl_S k x y Hx Hy) as [(?&?&->)|[(?&?&->)|[(?&?&->)|(?&?&->)]]].
    + pose proof (IH y x ltac:(lia) ltac:(lia)). lia.
    + pose proof (IH x (y - 2 ^ Z.of_nat k) ltac:(lia) ltac:(lia)). lia.
    + pose proof (IH (x - 2 ^ Z.of_nat k) (y - 2 ^ Z.of_nat k) ltac:(lia) ltac:(lia)). lia.
    + pose proof (IH (2 ^ Z.of_nat k - 1 - y) (2 ^ Z.of_nat k - 1 - (x - 2 ^ Z.of_nat k)) ltac:(lia) ltac:(lia)). lia.
Qed.

Theorem Hl_inj k : forall x y x2 y2,
  0 <= x < 2 ^ Z.of_nat k -> 0 <= y < 2 ^ Z.of_nat k ->
  0 <= x2 < 2 ^ Z.of_nat k -> 0 <= y2 < 2 ^ Z.of_nat k ->
  Hl k x y = Hl k x2 y2 -> x = x2 /\ y = y2.
Proof.
  induction k as [|k IH]; intros x y x2 y2 Hx Hy Hx2 Hy2 E.
  - cbn in *. lia.
  - rewrite pow2S in Hx, Hy, Hx2, Hy2. pose proof (pow2pos k) as Hs.
    set (s := 2 ^ Z.of_nat k) in *.
    destruct (Hl_S k x y Hx Hy) as [(?&?&E1)|[(?&?&E1)|[(?&?&E1)|(?&?&E1)]]];
    destruct (Hl_S k x2 y2 Hx2 Hy2) as [(?&?&E2)|[(?&?&E2)|[(?&?&E2)|(?&?&E2)]]];
    fold s in E1, E2; rewrite E1, E2 in E;
    match type of E with
    | context [Hl k ?a ?b] =>
      match type of E with
      | context [Hl k ?c ?d] =>
        pose proof (Hl_range k a b ltac:(fold s; lia) ltac:(fold s; lia));
        pose proof (Hl_range k c d ltac:(fold s; lia) ltac:(fold s; lia));
        first [ exfalso; lia
              | pose proof (IH a b c d ltac:(fold s; lia) ltac:(fold s; lia) ltac:(fold s; lia) ltac:(fold s; lia) ltac:(lia)); lia ]
      end
    end.
Qed.

Lemma Hl_origin k : Hl k 0 0 = 0.
Proof.
  induction k as [|k IH]; [reflexivity|].
  pose proof (pow2pos k) as Hs.
  destruct (Hl_S k 0 0 ltac:(lia) ltac:(lia)) as [(?&?&->)|[(?&?&E)|[(?&?&E)|(?&?&E)]]]; try lia.
Qed.

Lemma Hl_end k : Hl k (2 ^ Z.of_nat k - 1) 0 = sq k - 1.
Proof.
  induction k as [|k IH]; [reflexivity|].
  pose proof (pow2pos k) as Hs. rewrite pow2S, sqS.
  destruct (Hl_S k (2 * 2 ^ Z.of_nat k - 1) 0 ltac:(lia) ltac:(lia)) as [(?&?&E)|[(?&?&E)|[(?&?&E)|(?&?&->)]]]; try lia.
  replace (2 ^ Z.of_nat k - 1 - 0) with (2 ^ Z.of_nat k - 1) by lia.
  replace (2 ^ Z.of_nat k - 1 - (2 * 2 ^ Z.of_nat k - 1 - 2 ^ Z.of_nat k)) with 0 by lia.
  rewrite IH. lia.
Qed.

Lemma Hl_zero_inv k x y : 0 <= x < 2 ^ Z.of_nat k -> 0 <= y < 2 ^ Z.of_nat k -> Hl k x y = 0 -> x = 0 /\ y = 0.
Proof. intros Hx Hy E. pose proof (pow2pos k). apply (Hl_inj k); try lia. rewrite Hl_origin. exact E. Qed.
Lemma Hl_last_inv k x y : 0 <= x < 2 ^ Z.of_nat k -> 0 <= y < 2 ^ Z.of_nat k -> Hl k x y = sq k - 1 -> x = 2 ^ Z.of_nat k - 1 /\ y = 0.
Proof. intros Hx Hy E. pose proof (pow2pos k). apply (Hl_inj k); try lia. rewrite Hl_end. exact E. Qed.

Theorem Hl_adjacent k : forall x y x2 y2,
  0 <= x < 2 ^ Z.of_nat k -> 0 <= y < 2 ^ Z.of_nat k ->
  0 <= x2 < 2 ^ Z.of_nat k -> 0 <= y2 < 2 ^ Z.of_nat k ->
  Hl k x2 y2 = Hl k x y + 1 -> Z.abs (x - x2) + Z.abs (y - y2) = 1.
Proof.
  induction k as [|k IH]; intros x y x2 y2 Hx Hy Hx2 Hy2 E.
  - cbn in E. lia.
  - rewrite pow2S in Hx, Hy, Hx2, Hy2. pose proof (pow2pos k) as Hs.
    set (s := 2 ^ Z.of_nat k) in *.
    destruct (Hl_S k x y Hx Hy) as [(?&?&E1)|[(?&?&E1)|[(?&?&E1)|(?&?&E1)]]];
    destruct (Hl_S k x2 y2 Hx2 Hy2) as [(?&?&E2)|[(?&?&E2)|[(?&?&E2)|(?&?&E2)]]];
    fold s in E1, E2; rewrite E1, E2 in E;
    match type of E1 with
    | _ = ?q1 + Hl k ?a ?b => idtac | _ = Hl k ?a ?b => idtac end;
    match type of E1 with context [Hl k ?a ?b] =>
    match type of E2 with context [Hl k ?c ?d] =>
      pose proof (Hl_range k a b ltac:(fold s; lia) ltac:(fold s; lia)) as Ra;
      pose proof (Hl_range k c d ltac:(fold s; lia) ltac:(fold s; lia)) as Rc;
      first
      [ exfalso; lia
      | (* same quadrant: IH *)
        pose proof (IH a b c d ltac:(fold s; lia) ltac:(fold s; lia) ltac:(fold s; lia) ltac:(fold s; lia) ltac:(lia)); lia
      | (* hand-over between consecutive quadrants *)
        assert (Ha : Hl k a b = sq k - 1) by lia;
        assert (Hc : Hl k c d = 0) by lia;
        pose proof (Hl_last_inv k a b ltac:(fold s; lia) ltac:(fold s; lia) Ha);
        pose proof (Hl_zero_inv k c d ltac:(fold s; lia) ltac:(fold s; lia) Hc);
        subst s; lia ]
    end end.
Qed.
(* assumes the definitions and lemmas of A.3 (quad, T, Hl, split2, pow2S, pow2pos) *)

(* one loop round of hilbert.hpp:87-92, as a recursion on the number of remaining rounds *)
Definition rot (n x y rx ry : Z) : Z * Z :=
  if ry =? 0 then (if rx =? 1 then (n - 1 - y, n - 1 - x) else (y, x)) else (x, y).
Definition bit_gt0 (x s : Z) : Z := if 0 <? Z.land x s then 1 else 0.
Fixpoint Hn (n : Z) (k : nat) (x y : Z) : Z :=
  match k with
  | O => 0
  | S k' =>
    let s := 2 ^ Z.of_nat k' in
    let rx := bit_gt0 x s in let ry := bit_gt0 y s in
    let p := rot n x y rx ry in
    s * s * quad rx ry + Hn n k' (fst p) (snd p)
  end.

Lemma land_pow2 x k : 0 <= k -> Z.land x (2 ^ k) = if Z.testbit x k then 2 ^ k else 0.
Proof.
  intros Hk. apply Z.bits_inj'. intros i Hi. rewrite Z.land_spec, Z.pow2_bits_eqb by lia.
  destruct (Z.eqb_spec k i) as [->|Hne].
  - rewrite andb_true_r. destruct (Z.testbit x i) eqn:E; [now rewrite Z.pow2_bits_true|now rewrite Z.bits_0].
  - rewrite andb_false_r. destruct (Z.testbit x k); [now rewrite Z.pow2_bits_false by lia|now rewrite Z.bits_0].
Qed.

Lemma bit_gt0_div x k : 0 <= x -> bit_gt0 x (2 ^ Z.of_nat k) = (x mod (2 * 2 ^ Z.of_nat k)) / 2 ^ Z.of_nat k.
Proof.
  intros Hx. unfold bit_gt0. rewrite land_pow2 by lia. pose proof (pow2pos k) as Hs.
  set (s := 2 ^ Z.of_nat k) in *.
  rewrite (Z.mul_comm 2 s), Z.rem_mul_r by lia.
  rewrite Z.mul_comm, Z.div_add by lia. rewrite (Z.div_small (x mod s)) by (apply Z.mod_pos_bound; lia).
  pose proof (Z.testbit_spec' x (Z.of_nat k) ltac:(lia)) as B. fold s in B. rewrite Z.add_0_l, <- B.
  destruct (Z.testbit x (Z.of_nat k)); cbn [Z.b2z]; [destruct (Z.ltb_spec 0 s); lia | reflexivity].
Qed.

Lemma mod_mod_half x s : 0 < s -> (x mod (2 * s)) mod s = x mod s.
Proof. intros Hs. rewrite (Z.mul_comm 2 s), Z.rem_mul_r by lia.
  rewrite (Z.mul_comm s), Z.mod_add by lia. apply Z.mod_mod; lia. Qed.

Lemma flip_mod n s y : 0 < s -> (s | n) -> (n - 1 - y) mod s = s - 1 - y mod s.
Proof.
  intros Hs [m ->]. symmetry. apply Z.mod_unique with (m - 1 - y / s).
  - left. pose proof (Z.mod_pos_bound y s Hs). lia.
  - pose proof (Z.div_mod y s ltac:(lia)). nia.
Qed.

Theorem Hn_is_Hl n k : forall x y, (2 ^ Z.of_nat k | n) -> 0 <= x < n -> 0 <= y < n ->
  Hn n k x y = Hl k (x mod 2 ^ Z.of_nat k) (y mod 2 ^ Z.of_nat k).
Proof.
  induction k as [|k IH]; intros x y Hdiv Hx Hy; [reflexivity|].
  pose proof (pow2pos k) as Hs. rewrite pow2S in *.
  cbn [Hn Hl]. rewrite !bit_gt0_div by lia.
  set (s := 2 ^ Z.of_nat k) in *.
  assert (Hdiv' : (s | n)) by (destruct Hdiv as [m ->]; exists (m * 2); ring).
  rewrite !mod_mod_half by lia.
  set (X := x mod (2 * s)). set (Y := y mod (2 * s)).
  assert (HX : 0 <= X < 2 * s) by (apply Z.mod_pos_bound; lia).
  assert (HY : 0 <= Y < 2 * s) by (apply Z.mod_pos_bound; lia).
  destruct (split2 s X Hs HX) as [(EX & _ & _)|(EX & _ & _)];
  destruct (split2 s Y Hs HY) as [(EY & _ & _)|(EY & _ & _)]; rewrite EX, EY;
  unfold rot, T; cbn [Z.eqb Pos.eqb fst snd]; f_equal;
  rewrite IH by (assumption || lia);
  rewrite ?flip_mod by assumption; reflexivity.
Qed.

(* every position of the square is taken: with Hl_inj, Hl k is a bijection
   [0,2^k)^2 -> [0,4^k), i.e. every cell is visited exactly once *)
Theorem Hl_surj k : forall d, 0 <= d < sq k ->
  exists x y, 0 <= x < 2 ^ Z.of_nat k /\ 0 <= y < 2 ^ Z.of_nat k /\ Hl k x y = d.
Proof.
  induction k as [|k IH]; intros d Hd.
  - unfold sq in Hd. cbn in Hd. exists 0, 0. cbn. lia.
  - rewrite sqS in Hd. pose proof (pow2pos k) as Hs. rewrite pow2S.
    assert (Hq : sq k = 2 ^ Z.of_nat k * 2 ^ Z.of_nat k) by reflexivity.
    remember (2 ^ Z.of_nat k) as s eqn:Es.
    assert (Hcase : 0 <= d < sq k \/ sq k <= d < 2 * sq k \/ 2 * sq k <= d < 3 * sq k \/ 3 * sq k <= d < 4 * sq k) by nia.
    destruct Hcase as [Hc|[Hc|[Hc|Hc]]].
    + destruct (IH d Hc) as (x & y & Hx & Hy & E). exists y, x.
      split; [lia|]. split; [lia|].
      pose proof (Hl_S k y x) as HS. cbv zeta in HS. rewrite <- Es in HS.
      destruct HS as [(?&?&H)|[(?&?&H)|[(?&?&H)|(?&?&H)]]]; lia.
    + destruct (IH (d - sq k) ltac:(lia)) as (x & y & Hx & Hy & E). exists x, (y + s).
      split; [lia|]. split; [lia|].
      pose proof (Hl_S k x (y + s)) as HS. cbv zeta in HS. rewrite <- Es in HS.
      replace (y + s - s) with y in HS by lia.
      destruct HS as [(?&?&H)|[(?&?&H)|[(?&?&H)|(?&?&H)]]]; lia.
    + destruct (IH (d - 2 * sq k) ltac:(lia)) as (x & y & Hx & Hy & E). exists (x + s), (y + s).
      split; [lia|]. split; [lia|].
      pose proof (Hl_S k (x + s) (y + s)) as HS. cbv zeta in HS. rewrite <- Es in HS.
      replace (x + s - s) with x in HS by lia. replace (y + s - s) with y in HS by lia.
      destruct HS as [(?&?&H)|[(?&?&H)|[(?&?&H)|(?&?&H)]]]; lia.
    + destruct (IH (d - 3 * sq k) ltac:(lia)) as (x & y & Hx & Hy & E).
      exists (s + (s - 1 - y)), (s - 1 - x).
      split; [lia|]. split; [lia|].
      pose proof (Hl_S k (s + (s - 1 - y)) (s - 1 - x)) as HS. cbv zeta in HS. rewrite <- Es in HS.
      replace (s - 1 - (s - 1 - x)) with x in HS by lia.
      replace (s - 1 - (s + (s - 1 - y) - s)) with y in HS by lia.
      destruct HS as [(?&?&H)|[(?&?&H)|[(?&?&H)|(?&?&H)]]]; lia.
Qed.

Example Hl_2x2 : (Hl 1 0 0, Hl 1 0 1, Hl 1 1 1, Hl 1 1 0) = (0, 1, 2, 3).
Proof. reflexivity. Qed.
