(* Properties_C03.v -- C03: linear interpolation is the N-linear interpolant over the INPUT dimensions.
   Only the property theorems, closed by [exact].
   Exact part (any commutative ring, every N, every M -- components are treated one by one):
   the specialised and the generic branch are the N-linear interpolant of the 2^N corner values with
   weights the products of the per-axis fractional distances; at a lattice corner it is that corner's
   value; over the reals with fractions in [0,1] it stays inside the range of the corner values.
   The per-component function of the executable model, Stack.linear_comp, IS that sum whenever the
   scalar operations are exact; its IEEE instance is compared bit for bit with linear.hpp by
   props/c03.py, which also checks the implementation against the exact rational interpolant within
   a stated (tested, not proved) rounding bound. *)
From Coq Require Import ZArith List Bool Reals Ring_theory.
From Covfie Require Import LinearCore Stack LinearProofs LinearBridge LinearReal.
Import ListNotations.

Theorem C03_generic_branch_is_interpolant : forall T rO rI radd rmul rsub ropp, ring_theory rO rI radd rmul rsub ropp (@eq T) ->
  forall a vals, length vals = (2 ^ length a)%nat ->
  lin_generic_list T rO rI radd rmul rsub a vals = interp T rI radd rmul rsub a (fun n => nth n vals rO).
Proof. exact generic_list_is_interp. Qed.

Theorem C03_specialised_branches_are_interpolant : forall T rO rI radd rmul rsub ropp, ring_theory rO rI radd rmul rsub ropp (@eq T) ->
  forall a vals, length vals = (2 ^ length a)%nat ->
  lin_special_list T rO rI radd rmul rsub a vals = interp T rI radd rmul rsub (rev a) (fun n => nth n vals rO).
Proof. exact special_list_is_interp. Qed.

(* at a lattice point the stored value is returned *)
Theorem C03_interp_at_corner : forall T rO rI radd rmul rsub ropp, ring_theory rO rI radd rmul rsub ropp (@eq T) ->
  forall bs v, interp T rI radd rmul rsub (map (fun b : bool => if b then rI else rO) bs) v = v (corner_index bs).
Proof. exact interp_corner. Qed.

(* never outside the range spanned by the surrounding lattice values *)
Theorem C03_interp_convex : forall (a : list R) (v : nat -> R) (lo hi : R),
  Forall (fun x => (0 <= x <= 1)%R) a -> (forall n, (n < 2 ^ length a)%nat -> (lo <= v n <= hi)%R) ->
  (lo <= rinterp a v <= hi)%R.
Proof. exact interp_convex. Qed.

(* the model function compared with the code, under exact operations *)
Theorem C03_model_specialised : forall ops rO rI radd rmul rsub ropp, ring_theory rO rI radd rmul rsub ropp (@eq Z) ->
  (forall t, f_add ops t = radd) -> (forall t, f_mul ops t = rmul) ->
  (forall t, f_of_Z ops t 0%Z = rO) -> (forall t, f_of_Z ops t 1%Z = rI) -> (forall a b v, s_conv ops a b v = v) ->
  forall tc tv a vals q, length vals = (2 ^ length a)%nat ->
  linear_comp ops tc tv true a (compl Z rI rsub a) vals q =
  interp Z rI radd rmul rsub (rev a) (fun n => nth n (map (fun v => nth q v 0%Z) vals) rO).
Proof. exact linear_comp_special. Qed.
Theorem C03_model_generic : forall ops rO rI radd rmul rsub ropp, ring_theory rO rI radd rmul rsub ropp (@eq Z) ->
  (forall t, f_add ops t = radd) -> (forall t, f_mul ops t = rmul) ->
  (forall t, f_of_Z ops t 0%Z = rO) -> (forall t, f_of_Z ops t 1%Z = rI) -> (forall a b v, s_conv ops a b v = v) ->
  forall tc tv a vals q, length vals = (2 ^ length a)%nat ->
  linear_comp ops tc tv false a (compl Z rI rsub a) vals q =
  interp Z rI radd rmul rsub a (fun n => nth n (map (fun v => nth q v 0%Z) vals) rO).
Proof. exact linear_comp_generic. Qed.

Print Assumptions C03_generic_branch_is_interpolant.
Print Assumptions C03_specialised_branches_are_interpolant.
Print Assumptions C03_interp_convex.
Print Assumptions C03_model_generic.
