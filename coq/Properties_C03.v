(* Properties_C03.v -- C03: linear interpolation is the N-linear interpolant over the INPUT dimensions.
   Only the property theorems, closed by [exact].
   Exact part (any commutative ring, every N, every M -- components are treated one by one):
   the specialised and the generic branch are the N-linear interpolant of the 2^N corner values with
   weights the products of the per-axis fractional distances; at a lattice corner it is that corner's
   value; over the reals with fractions in [0,1] it stays inside the range of the corner values.
   The per-component function of the executable model, Stack.linear_comp, IS that sum whenever the
   scalar operations are exact; its IEEE instance is compared bit for bit with linear.hpp by
   props/c03.py, which also checks the implementation against the exact rational interpolant within
   a stated (tested, not proved) rounding bound.
   Rounded part (IEEE 754 binary32 / binary64 as Flocq defines them, every N, both branches, every
   float / double combination of coordinate and stored type): at a coordinate all of whose components are
   integral the layer returns, per component, a finite value with the same real value as the value the
   backend holds at that lattice point ("stored": converted through the coordinate precision when that is
   the narrower one, and identical to the stored value otherwise) -- provided the 2^N surrounding values
   are finite at the coordinate precision (0 * inf is NaN in the code as well). *)
From Coq Require Import ZArith List Bool Reals Ring_theory.
From Covfie Require Import LinearCore Stack LinearProofs LinearBridge LinearReal FloatOps LinearLattice LinearLatticeFloat LinLang Refine_Linear ClampAbove CellSelect.
From Covfie.gen Require Import Gen_Linear.
Import ListNotations.

Theorem C03_generic_branch_is_interpolant : forall T rO rI radd rmul rsub ropp, ring_theory rO rI radd rmul rsub ropp (@eq T) ->
  forall a vals, length vals = (2 ^ length a)%nat ->
  lin_generic_list T rO rI radd rmul rsub a vals = interp T rI radd rmul rsub a (fun n => nth n vals rO).
Proof. exact generic_list_is_interp. Qed.

Theorem C03_specialised_branches_are_interpolant : forall T rO rI radd rmul rsub ropp, ring_theory rO rI radd rmul rsub ropp (@eq T) ->
  forall a vals, length vals = (2 ^ length a)%nat ->
  lin_special_list T rO rI radd rmul rsub a vals = interp T rI radd rmul rsub (rev a) (fun n => nth n vals rO).
Proof. exact special_list_is_interp. Qed.

(* at a lattice point the stored value is returned *)
Theorem C03_interp_at_corner : forall T rO rI radd rmul rsub ropp, ring_theory rO rI radd rmul rsub ropp (@eq T) ->
  forall bs v, interp T rI radd rmul rsub (map (fun b : bool => if b then rI else rO) bs) v = v (corner_index bs).
Proof. exact interp_corner. Qed.

(* never outside the range spanned by the surrounding lattice values *)
Theorem C03_interp_convex : forall (a : list R) (v : nat -> R) (lo hi : R),
  Forall (fun x => (0 <= x <= 1)%R) a -> (forall n, (n < 2 ^ length a)%nat -> (lo <= v n <= hi)%R) ->
  (lo <= rinterp a v <= hi)%R.
Proof. exact interp_convex. Qed.

(* the model function compared with the code, under exact operations *)
Theorem C03_model_specialised : forall ops rO rI radd rmul rsub ropp, ring_theory rO rI radd rmul rsub ropp (@eq Z) ->
  (forall t, f_add ops t = radd) -> (forall t, f_mul ops t = rmul) ->
  (forall t, f_of_Z ops t 0%Z = rO) -> (forall t, f_of_Z ops t 1%Z = rI) -> (forall a b v, s_conv ops a b v = v) ->
  forall tc tv a vals q, length vals = (2 ^ length a)%nat ->
  linear_comp ops tc tv true a (compl Z rI rsub a) vals q =
  interp Z rI radd rmul rsub (rev a) (fun n => nth n (map (fun v => nth q v 0%Z) vals) rO).
Proof. exact linear_comp_special. Qed.
Theorem C03_model_generic : forall ops rO rI radd rmul rsub ropp, ring_theory rO rI radd rmul rsub ropp (@eq Z) ->
  (forall t, f_add ops t = radd) -> (forall t, f_mul ops t = rmul) ->
  (forall t, f_of_Z ops t 0%Z = rO) -> (forall t, f_of_Z ops t 1%Z = rI) -> (forall a b v, s_conv ops a b v = v) ->
  forall tc tv a vals q, length vals = (2 ^ length a)%nat ->
  linear_comp ops tc tv false a (compl Z rI rsub a) vals q =
  interp Z rI radd rmul rsub a (fun n => nth n (map (fun v => nth q v 0%Z) vals) rO).
Proof. exact linear_comp_generic. Qed.

(* lattice points under ROUNDED arithmetic: the executable model's function, both branches *)
Theorem C03_lattice_exact_specialised : forall tc tv (a : list Z) (vals : list (list Z)) q,
  isf tc -> isf tv -> a <> [] -> Forall (Zr tc) a -> length vals = (2 ^ length a)%nat ->
  comp_fin flocq_ops Fin tc tv q vals -> Fin tv (nth q (nth O vals []) 0%Z) ->
  Veq tv (linear_comp flocq_ops tc tv true a (map (fun x => f_sub flocq_ops tc (f_of_Z flocq_ops tc 1%Z) x) a) vals q)
         (stored flocq_ops tc tv (nth q (nth O vals []) 0%Z)).
Proof. exact linear_lattice_exact_special. Qed.
Theorem C03_lattice_exact_generic : forall tc tv (a : list Z) (vals : list (list Z)) q,
  isf tc -> isf tv -> Forall (Zr tc) a -> length vals = (2 ^ length a)%nat ->
  comp_fin flocq_ops Fin tc tv q vals -> Fin tv (nth q (nth O vals []) 0%Z) ->
  Veq tv (linear_comp flocq_ops tc tv false a (map (fun x => f_sub flocq_ops tc (f_of_Z flocq_ops tc 1%Z) x) a) vals q)
         (stored flocq_ops tc tv (nth q (nth O vals []) 0%Z)).
Proof. exact linear_lattice_exact_generic. Qed.
(* "stored" is the stored value itself unless the coordinate type is the narrower one *)
Theorem C03_stored_is_stored : forall tc tv v, isf tc -> isf tv -> ~ (tc = F32 /\ tv = F64) -> Fin tv v ->
  Veq tv (stored flocq_ops tc tv v) v.
Proof. exact stored_is_stored. Qed.
(* the layer over an arbitrary backend, at a coordinate with integral components *)
Theorem C03_layer_at_lattice_point : forall tc tidx tv (b : query) (c : list Z) tr vs,
  isf tc -> isf tv -> c <> [] -> Forall (integral tc) c ->
  linear_at flocq_ops tc tidx tv b c = Some (tr, vs) ->
  exists vals, length vals = (2 ^ length c)%nat /\
    forall q, (q < length vs)%nat -> comp_fin flocq_ops Fin tc tv q vals -> Fin tv (nth q (nth O vals []) 0%Z) ->
      Veq tv (nth q vs 0%Z) (stored flocq_ops tc tv (nth q (nth O vals []) 0%Z)).
Proof. exact linear_at_lattice. Qed.

(* non-vacuity: x = 3.0f is integral, its fraction is a zero, 1.0f / 2.0f are finite corner values, and the
   model returns the corner value there *)
Example C03_lattice_premises :
  integral F32 1077936128%Z /\ Zr F32 (f_sub flocq_ops F32 1077936128 (f_trunc flocq_ops F32 1077936128))%Z /\
  comp_fin flocq_ops Fin F32 F32 0 [[1065353216]; [1073741824]]%Z /\
  linear_comp flocq_ops F32 F32 true [0%Z] (map (fun x => f_sub flocq_ops F32 (f_of_Z flocq_ops F32 1%Z) x) [0%Z]) [[1065353216]; [1073741824]]%Z 0 = 1065353216%Z.
Proof.
  assert (I : integral F32 1077936128%Z) by (split; vm_compute; reflexivity).
  split; [exact I|]. split; [apply L_frac_zero; [now left|exact (proj1 I)|exact (proj2 I)]|].
  split; [repeat constructor|vm_compute; reflexivity].
Qed.

(* ---- the code itself: every branch of linear.hpp's lookup, translated from the source on this run
   (gen/Gen_Linear.v, LinLang semantics), queries the backend at exactly the neighbour coordinates the model
   queries, in the same order, and computes each output component exactly as Stack.linear_comp does (same
   operations, operands, order and type conversions), for arbitrary scalar operations, type tags, coordinates
   and backend answers; N = 1, 2, 3 (specialised branches) and N = 4, 5 (generic branch) ---- *)
Theorem C03_code_branch_1 : forall ops tc tidx tv vals q x0,
  code ops tc tidx tv vals q lin_branch_1 [x0] = model ops tc tidx tv vals q true [x0].
Proof. exact branch_1_refines. Qed.
Theorem C03_code_branch_2 : forall ops tc tidx tv vals q x0 x1,
  code ops tc tidx tv vals q lin_branch_2 [x0; x1] = model ops tc tidx tv vals q true [x0; x1].
Proof. exact branch_2_refines. Qed.
Theorem C03_code_branch_3 : forall ops tc tidx tv vals q x0 x1 x2,
  code ops tc tidx tv vals q lin_branch_3 [x0; x1; x2] = model ops tc tidx tv vals q true [x0; x1; x2].
Proof. exact branch_3_refines. Qed.
Theorem C03_code_branch_generic_4 : forall ops tc tidx tv vals q x0 x1 x2 x3,
  code ops tc tidx tv vals q lin_branch_generic [x0; x1; x2; x3] = model ops tc tidx tv vals q false [x0; x1; x2; x3].
Proof. exact branch_generic_refines_4. Qed.
Theorem C03_code_branch_generic_5 : forall ops tc tidx tv vals q x0 x1 x2 x3 x4,
  code ops tc tidx tv vals q lin_branch_generic [x0; x1; x2; x3; x4] = model ops tc tidx tv vals q false [x0; x1; x2; x3; x4].
Proof. exact branch_generic_refines_5. Qed.
(* the if-constexpr chain picks the specialised branches where the model does, and [model] is what linear_at is made of *)
Theorem C03_code_branch_selection : forall N, (1 <= N)%nat -> (N <=? 3)%nat = existsb (Nat.eqb N) lin_specialised_dims.
Proof. exact branch_selection. Qed.
Theorem C03_model_is_the_layer : forall (ops : sops) (tc tidx tv : sty) (b : query) (c : list Z) tr vs,
  linear_at ops tc tidx tv b c = Some (tr, vs) ->
  exists valsl, gather b (fst (model ops tc tidx tv (fun n => nth n valsl []) 0 (length c <=? 3)%nat c)) = Some (tr, valsl) /\
    forall q, (q < length vs)%nat -> nth q vs 0%Z = snd (model ops tc tidx tv (fun n => nth n valsl []) q (length c <=? 3)%nat c).
Proof. exact model_is_linear_at. Qed.

(* the cell and the fractions, under IEEE arithmetic: for a finite coordinate component x >= 0 the index the code computes
   is floor(x), the fraction a = x - std::trunc(x) is computed WITHOUT rounding (it is x - floor(x), in [0,1)), and
   floor(x) <= x < floor(x) + 1: the weights are built from the true per-axis fractional distances to the cell corner *)
Theorem C03_cell_and_fraction : forall t x, isfl t -> ffin t x -> (0 <= fval t x)%R ->
  let a := f_sub flocq_ops t x (f_trunc flocq_ops t x) in
  ffin t a /\ fval t a = (fval t x - IZR (f_toZ flocq_ops t x))%R /\ (0 <= fval t a < 1)%R /\
  (IZR (f_toZ flocq_ops t x) <= fval t x < IZR (f_toZ flocq_ops t x) + 1)%R.
Proof. exact model_cell. Qed.

Print Assumptions C03_generic_branch_is_interpolant.
Print Assumptions C03_cell_and_fraction.
Print Assumptions C03_code_branch_generic_5.
Print Assumptions C03_model_is_the_layer.
Print Assumptions C03_lattice_exact_specialised.
Print Assumptions C03_lattice_exact_generic.
Print Assumptions C03_layer_at_lattice_point.
Print Assumptions C03_specialised_branches_are_interpolant.
Print Assumptions C03_interp_convex.
Print Assumptions C03_model_generic.
