(* StackProofs.v -- theorems about the reference interpreter of Stack.v (C02, C10, C11, C13):
   compositionality of eval, each layer's dependence on its backend only through [at],
   clamping, out-of-range defaulting, and kind soundness of the interpreter. *)
From Coq Require Import ZArith List Bool Lia ZifyBool ZifyNat.
From Covfie Require Import Numeric Layout Stack.
Import ListNotations.
Local Open Scope Z_scope.

Section Proofs.
  Variable ops : sops.

  (* ---------------------------------------------------------------- C02: composition *)
  Lemma eval_cons l ls p g gs d k : kind_of_layers ls p = Some k ->
    eval_layers ops (l :: ls) p (g :: gs) d = layer_at ops l k g (eval_layers ops ls p gs d).
  Proof. intros E. cbn [eval_layers]. now rewrite E. Qed.

  Lemma eval_nil p gs d : eval_layers ops [] p gs d = prim_at ops p d.
  Proof. reflexivity. Qed.

  (* two backends that answer every query alike are indistinguishable to every layer *)
  Lemma gather_ext (b b' : query) cs : (forall c, b c = b' c) -> gather b cs = gather b' cs.
  Proof. intros E. induction cs as [|c cs IH]; cbn [gather]; [reflexivity|]. now rewrite E, IH. Qed.

  Lemma layer_parametric l k g (b b' : query) : (forall c, b c = b' c) -> forall c, layer_at ops l k g b c = layer_at ops l k g b' c.
  Proof.
    intros E c. destruct l; destruct g as [s|lo hi|lo hi dflt|mm|]; cbn [layer_at]; try reflexivity;
      unfold strided_at, morton_at, hilbert_at, clamp_at, backup_at, shuffle_at, affine_at, cast_at, deref_at, nearest_at, linear_at;
      rewrite ?E; try reflexivity.
    all: try match goal with |- context [outside ?o ?t ?cc ?l0 ?h0] => destruct (outside o t cc l0 h0); [reflexivity|apply E] end.
    all: try (cbv zeta; now rewrite (gather_ext b b' _ E)).
    all: destruct c as [|x [|y [|z r]]]; try reflexivity; now rewrite E.
  Qed.

  (* what lies beneath a layer matters only through its kind and its answers *)
  Theorem eval_depends_only_on_backend l g ls ls' p p' gs gs' d d' k :
    kind_of_layers ls p = Some k -> kind_of_layers ls' p' = Some k ->
    (forall c, eval_layers ops ls p gs d c = eval_layers ops ls' p' gs' d' c) ->
    forall c, eval_layers ops (l :: ls) p (g :: gs) d c = eval_layers ops (l :: ls') p' (g :: gs') d' c.
  Proof. intros K K' E c. rewrite (eval_cons _ _ _ _ _ _ _ K), (eval_cons _ _ _ _ _ _ _ K'). now apply layer_parametric. Qed.

  (* the one-line definitions, over an ARBITRARY backend b *)
  Lemma shuffle_law p b c : shuffle_at p b c = b (map (fun i => nth i c 0) p).  Proof. reflexivity. Qed.
  Lemma clamp_law t lo hi b c : clamp_at ops t lo hi b c = b (map3 (clamp1 ops t) c lo hi).  Proof. reflexivity. Qed.
  Lemma backup_law t lo hi dflt b c :
    backup_at ops t lo hi dflt b c = if outside ops t c lo hi then Some ([], dflt) else b c.  Proof. reflexivity. Qed.
  Lemma affine_law t m b c : affine_at ops t m b c = b (affine_apply ops t m c).  Proof. reflexivity. Qed.
  Lemma deref_law b c : deref_at b c = b c.  Proof. reflexivity. Qed.
  Lemma cast_law from to b c :
    cast_at ops from to b c =
      match b c with
      | Some (tr, v) => if forallb (conv_defined ops from to) v
                        then Some (concat (map (fun _ => tr) v), map (s_conv ops from to) v) else None
      | None => None
      end.
  Proof. reflexivity. Qed.
  Lemma constant_law v c : constant_at v c = Some ([], v).  Proof. reflexivity. Qed.
  Lemma identity_law c : identity_at c = Some ([], c).  Proof. reflexivity. Qed.
  Lemma strided_law tc sizes b c : in_boxb c sizes = true -> strided_at tc sizes b c = b [wrap_sty tc (rowmajor sizes c)].
  Proof. intros H. unfold strided_at. now rewrite H. Qed.
  Lemma nearest_law tc tidx b c : forallb (fun x => s_finite ops tc x && sty_range I64 (f_lrint ops tc x)) c = true ->
    nearest_at ops tc tidx b c = b (map (fun x => s_conv ops I64 tidx (f_lrint ops tc x)) c).
  Proof. intros H. unfold nearest_at. now rewrite H. Qed.

  (* cast touches the M OUTPUT components, whatever N is *)
  Lemma cast_length from to b c tr v : cast_at ops from to b c = Some (tr, v) ->
    exists tr0 v0, b c = Some (tr0, v0) /\ v = map (s_conv ops from to) v0 /\ length v = length v0.
  Proof.
    unfold cast_at. destruct (b c) as [[tr0 v0]|]; [|discriminate].
    destruct (forallb (conv_defined ops from to) v0); [|discriminate]. intros E. injection E as <- <-.
    exists tr0, v0. split; [reflexivity|]. split; [reflexivity|apply map_length].
  Qed.

  (* the permutation layer with the identity permutation is transparent; permutations compose *)
  Lemma map_nth_seq {A} (c : list A) dflt : map (fun i => nth i c dflt) (seq 0 (length c)) = c.
  Proof.
    induction c as [|x c IH]; [reflexivity|]. cbn [length seq map nth]. f_equal.
    rewrite <- seq_shift, map_map. exact IH.
  Qed.
  Lemma shuffle_id b c : shuffle_at (seq 0 (length c)) b c = b c.
  Proof. unfold shuffle_at. now rewrite map_nth_seq. Qed.
  Lemma shuffle_shuffle p q b c : Forall (fun i => (i < length q)%nat) p ->
    shuffle_at q (shuffle_at p b) c = shuffle_at (map (fun i => nth i q O) p) b c.
  Proof.
    intros H. unfold shuffle_at. f_equal. rewrite map_map.
    induction H as [|i p Hi _ IH]; cbn [map]; [reflexivity|]. f_equal; [|exact IH].
    rewrite (nth_indep _ 0 ((fun i => nth i c 0) O)) by (rewrite map_length; exact Hi).
    apply (map_nth (fun i => nth i c 0) q O i).
  Qed.

  (* ---------------------------------------------------------------- C11: out-of-range default *)
  Lemma outside_spec t : forall c lo hi, length lo = length c -> length hi = length c ->
    (outside ops t c lo hi = true <->
     exists k, (k < length c)%nat /\ (s_lt ops t (nth k c 0) (nth k lo 0) = true \/ s_lt ops t (nth k hi 0) (nth k c 0) = true)).
  Proof.
    induction c as [|x c IH]; intros [|l lo] [|h hi] Hl Hh; cbn [length outside] in *; try lia.
    - split; [discriminate|]. intros [k [Hk _]]. lia.
    - rewrite !orb_true_iff, (IH lo hi) by lia. split.
      + intros [[H|H]|[k [Hk H]]].
        * exists O. split; [lia|]. now left.
        * exists O. split; [lia|]. now right.
        * exists (S k). split; [lia|]. exact H.
      + intros [[|k] [Hk H]]; cbn [nth] in H.
        * destruct H as [H|H]; [left; now left|left; now right].
        * right. exists k. split; [lia|exact H].
  Qed.

  Theorem backup_outside t lo hi dflt (b : query) c : outside ops t c lo hi = true ->
    backup_at ops t lo hi dflt b c = Some ([], dflt).
  Proof. intros H. unfold backup_at. now rewrite H. Qed.
  Theorem backup_inside t lo hi dflt (b : query) c : outside ops t c lo hi = false ->
    backup_at ops t lo hi dflt b c = b c.
  Proof. intros H. unfold backup_at. now rewrite H. Qed.
  (* ---------------------------------------------------------------- C10: clamping *)
  (* the only fact about the order that clamping into a box needs: nothing is below itself *)
  Hypothesis lt_irrefl : forall t v, s_lt ops t v v = false.

  Lemma clamp1_in_box t v lo hi : s_lt ops t hi lo = false ->
    s_lt ops t (clamp1 ops t v lo hi) lo = false /\ s_lt ops t hi (clamp1 ops t v lo hi) = false.
  Proof.
    intros H. unfold clamp1. destruct (s_lt ops t v lo) eqn:E1; [now rewrite lt_irrefl|].
    destruct (s_lt ops t hi v) eqn:E2; [now rewrite lt_irrefl|]. auto.
  Qed.
  Lemma clamp1_id_inside t v lo hi : s_lt ops t v lo = false -> s_lt ops t hi v = false -> clamp1 ops t v lo hi = v.
  Proof. intros H1 H2. unfold clamp1. now rewrite H1, H2. Qed.

  Lemma map3_length {A} (f : Z -> Z -> Z -> A) a b c : length b = length a -> length c = length a -> length (map3 f a b c) = length a.
  Proof.
    revert b c. induction a as [|x a IH]; intros [|y b] [|z c] Hb Hc; cbn [map3 length] in *; try lia.
    now rewrite IH by lia.
  Qed.

  (* component-wise: whatever the coordinate, the backend is queried inside the box *)
  Theorem clamp_in_box t lo hi (b : query) c : length lo = length c -> length hi = length c ->
    Forall2 (fun l h => s_lt ops t h l = false) lo hi ->
    exists c', clamp_at ops t lo hi b c = b c' /\ length c' = length c /\
               Forall2 (fun x l => s_lt ops t x l = false) c' lo /\ Forall2 (fun h x => s_lt ops t h x = false) hi c'.
  Proof.
    intros Hl Hh Hbox. exists (map3 (clamp1 ops t) c lo hi). split; [reflexivity|].
    split; [now apply map3_length|].
    revert c Hl Hh. induction Hbox as [|l h lo hi Hlh _ IH]; intros [|x c] Hl Hh; cbn [length map3] in *; try lia.
    - split; constructor.
    - destruct (IH c) as [I1 I2]; [lia|lia|]. destruct (clamp1_in_box t x l h Hlh) as [C1 C2].
      split; constructor; assumption.
  Qed.

End Proofs.
