(* Refine_Morton.v -- the kernels GENERATED from morton.hpp (portable shift/or loop in both
   pre-processor variants, lookup with assertions) equal the fold model [Layout.morton], whose
   bits are the interleave (Layout.morton_bits), with no wrap-around and no undefined behaviour. *)
From Coq Require Import ZArith List Lia Bool ZifyBool ZifyNat.
From Covfie Require Import CKernel CKernelFacts Layout PdepModel.
From Covfie.gen Require Import Gen_Morton.
Import ListNotations.
Local Open Scope Z_scope.
Local Open Scope ck_scope.

(* a coordinate value as the kernel sees it: any integer type of at most 64 bits, non-negative *)
Definition coord_ok (v : tv) : Prop := 1 <= cwidth (ty v) <= 64 /\ 0 <= val v < 2 ^ 64.

(* bits per coordinate for an index type of 8 bytes *)
Definition mbits (N : nat) : nat := Z.to_nat (64 / Z.of_nat N).

(* ------------------------------------------------------------------ pure facts *)
Lemma lt_pow2_shiftr a n : 0 <= n -> 0 <= a -> (a < 2 ^ n <-> Z.shiftr a n = 0).
Proof.
  intros Hn Ha. rewrite Z.shiftr_div_pow2 by assumption.
  pose proof (pow2_pos n Hn) as Hp. rewrite Z.div_small_iff by lia. lia.
Qed.

Lemma lor_range a b n : 0 <= n -> 0 <= a < 2 ^ n -> 0 <= b < 2 ^ n -> 0 <= Z.lor a b < 2 ^ n.
Proof.
  intros Hn Ha Hb.
  assert (H0 : 0 <= Z.lor a b) by (apply Z.lor_nonneg; lia).
  split; [assumption|]. apply (lt_pow2_shiftr _ n Hn H0). rewrite Z.shiftr_lor.
  rewrite (proj1 (lt_pow2_shiftr a n Hn (proj1 Ha)) (proj2 Ha)).
  rewrite (proj1 (lt_pow2_shiftr b n Hn (proj1 Hb)) (proj2 Hb)). reflexivity.
Qed.

Lemma land_range a b n : 0 <= n -> 0 <= a < 2 ^ n -> 0 <= b -> 0 <= Z.land a b < 2 ^ n.
Proof.
  intros Hn Ha Hb.
  assert (H0 : 0 <= Z.land a b) by (apply Z.land_nonneg; lia).
  split; [assumption|]. apply (lt_pow2_shiftr _ n Hn H0). rewrite Z.shiftr_land.
  rewrite (proj1 (lt_pow2_shiftr a n Hn (proj1 Ha)) (proj2 Ha)). apply Z.land_0_l.
Qed.

Lemma land_pow2' x k : 0 <= k -> Z.land x (2 ^ k) = if Z.testbit x k then 2 ^ k else 0.
Proof.
  intros Hk. apply Z.bits_inj'. intros i Hi. rewrite Z.land_spec, Z.pow2_bits_eqb by lia.
  destruct (Z.eqb_spec k i) as [->|Hne].
  - rewrite andb_true_r. destruct (Z.testbit x i) eqn:E; [now rewrite Z.pow2_bits_true|now rewrite Z.bits_0].
  - rewrite andb_false_r. destruct (Z.testbit x k); [now rewrite Z.pow2_bits_false by lia|now rewrite Z.bits_0].
Qed.

(* position of the bit written at step (i, j) is below 64 *)
Lemma pos_lt_64 N i j : 1 <= N <= 64 -> 0 <= i < 64 / N -> 0 <= j < N -> i * N + j < 64.
Proof.
  intros HN Hi Hj. pose proof (Z.mul_div_le 64 N ltac:(lia)) as H.
  assert (i * N <= (64 / N - 1) * N) by (apply Z.mul_le_mono_nonneg_r; lia). lia.
Qed.

Lemma term_range cj N i j : 1 <= N <= 64 -> 0 <= i < 64 / N -> 0 <= j < N ->
  0 <= Z.land cj (2 ^ i) * 2 ^ (i * (N - 1) + j) < 2 ^ 64.
Proof.
  intros HN Hi Hj. pose proof (pos_lt_64 N i j HN Hi Hj) as Hp.
  assert (Hs : 0 <= i * (N - 1) + j) by nia.
  rewrite land_pow2' by lia. destruct (Z.testbit cj i).
  - rewrite <- Z.pow_add_r by lia. split; [apply Z.pow_nonneg; lia|].
    apply Z.pow_lt_mono_r; lia.
  - rewrite Z.mul_0_l. split; [lia|reflexivity].
Qed.

(* ------------------------------------------------------------------ single operations *)
Lemma nth_tv_ok (c : list tv) j : 0 <= j < Z.of_nat (length c) ->
  nth_tv c (lit U64 j) = Ok (nth (Z.to_nat j) c (lit U64 0)).
Proof.
  intros Hj. unfold nth_tv. cbn [val lit]. destruct (j <? 0) eqn:E; [lia|].
  rewrite (nth_error_nth' c (lit U64 0)) by lia. reflexivity.
Qed.

Lemma nth_coord_ok (c : list tv) j : Forall coord_ok c -> 0 <= j < Z.of_nat (length c) ->
  coord_ok (nth (Z.to_nat j) c (lit U64 0)).
Proof.
  intros Hc Hj. apply (proj1 (Forall_forall _ _) Hc). apply nth_In. lia.
Qed.

Lemma nth_val (c : list tv) n : val (nth n c (lit U64 0)) = nth n (map val c) 0.
Proof. symmetry. exact (map_nth val c (lit U64 0) n). Qed.

Lemma and_coord v m : coord_ok v -> in_u64 m ->
  arith And v (lit U64 m) = Ok (lit U64 (Z.land (val v) m)).
Proof.
  intros [Hw Hv] Hm. unfold in_u64 in Hm. unfold arith. cbn [ty lit].
  rewrite common_any_U64 by assumption. unfold cast; cbn [val lit].
  rewrite (wrap_U64_small (val v)), (wrap_U64_small m) by assumption.
  rewrite wrap_U64_small; [reflexivity|]. apply land_range; lia.
Qed.

Lemma sub1_U64 N : 1 <= N < 2 ^ 64 -> arith Sub (lit U64 N) (lit I32 1) = Ok (lit U64 (N - 1)).
Proof.
  intros HN. unfold arith. cbn [ty lit]. rewrite common_U64_I32. unfold cast; cbn [val lit csigned U64].
  rewrite (wrap_U64_small N), (wrap_U64_small 1) by lia. rewrite wrap_U64_small by lia. reflexivity.
Qed.

(* ------------------------------------------------------------------ the loop nest *)
Definition mbody (c : list tv) (N : Z) (i j idx : tv) : res tv :=
  t7 <- nth_tv c j ;;
  t8 <- shl (cast U64 (cast U64 (lit I32 1))) i ;;
  t9 <- arith And t7 t8 ;;
  t10 <- arith Sub (lit U64 N) (lit I32 1) ;;
  t11 <- arith Mul i t10 ;;
  t12 <- arith Add t11 j ;;
  t13 <- shl t9 t12 ;;
  t14 <- arith Or idx t13 ;;
  Ok (cast U64 t14).

Definition minner (c : list tv) (N : Z) (i idx : tv) : res tv :=
  x <- for_up U64 (cast U64 (cast U64 (lit I32 0))) (cast U64 (lit U64 N))
         (fun j idx => mbody c N i j idx) idx ;;
  Ok x.

Definition mouter (c : list tv) (N : Z) (B : tv) : res tv :=
  x <- for_up U64 (cast U64 (cast U64 (lit I32 0))) (cast U64 B)
         (fun i idx => minner c N i idx) (cast U64 (cast U64 (lit I32 0))) ;;
  Ok x.

Section Loops.
  Variable c : list tv.
  Let n := length c.
  Let N := Z.of_nat n.
  Let vals := map val c.
  Hypothesis Hn : (1 <= n <= 64)%nat.
  Hypothesis Hc : Forall coord_ok c.

  Lemma N_range : 1 <= N <= 64. Proof. unfold N. lia. Qed.

  Lemma lit0 : cast U64 (cast U64 (lit I32 0)) = lit U64 0.
  Proof. reflexivity. Qed.

  Lemma lit1 : cast U64 (cast U64 (lit I32 1)) = lit U64 1.
  Proof. reflexivity. Qed.

  Lemma small_u64 z : 0 <= z <= 64 -> in_u64 z.
  Proof. intros H. unfold in_u64. split; [lia|]. apply Z.le_lt_trans with 64; [lia|reflexivity]. Qed.

  Lemma step_range i j idx : 0 <= i < 64 / N -> 0 <= j < N -> in_u64 idx ->
    in_u64 (step N vals i idx j).
  Proof.
    intros Hi Hj Hidx. pose proof N_range as HN. unfold in_u64 in *. unfold step.
    apply lor_range; [lia|assumption|].
    assert (Hs : 0 <= i * (N - 1) + j) by nia.
    rewrite Z.shiftl_1_l, Z.shiftl_mul_pow2 by lia. apply term_range; assumption.
  Qed.

  Lemma mbody_ok i j idx : 0 <= i < 64 / N -> 0 <= j < N -> in_u64 idx ->
    mbody c N (lit U64 i) (lit U64 j) (lit U64 idx) = Ok (lit U64 (step N vals i idx j)).
  Proof.
    intros Hi Hj Hidx. pose proof N_range as HN.
    pose proof (pos_lt_64 N i j HN Hi Hj) as Hp.
    pose proof (step_range i j idx Hi Hj Hidx) as Hstep.
    assert (Hs : 0 <= i * (N - 1) + j) by nia.
    assert (Hs2 : i * (N - 1) + j < 64) by nia.
    assert (Hs3 : 0 <= i * (N - 1) < 64) by nia.
    assert (Hi64 : 0 <= i < 64) by nia.
    assert (H64 : 64 < 2 ^ 64) by reflexivity.
    assert (Hpi : 0 <= 2 ^ i < 2 ^ 64).
    { split; [apply Z.pow_nonneg; lia|apply Z.pow_lt_mono_r; lia]. }
    unfold mbody.
    rewrite nth_tv_ok by (fold n; fold N; lia). cbn [bind].
    pose proof (nth_coord_ok c j Hc ltac:(fold n; fold N; lia)) as Hv.
    set (v := nth (Z.to_nat j) c (lit U64 0)) in *.
    rewrite lit1. rewrite shl_U64 by (unfold in_u64; lia). cbn [bind].
    rewrite Z.mul_1_l, (Z.mod_small (2 ^ i)) by assumption.
    rewrite and_coord by assumption. cbn [bind].
    rewrite sub1_U64 by lia. cbn [bind].
    rewrite (arith_U64 Mul) by (unfold in_u64; lia). cbn [bind].
    rewrite (Z.mod_small (i * (N - 1))) by lia.
    rewrite (arith_U64 Add) by (unfold in_u64; lia). cbn [bind].
    rewrite (Z.mod_small (i * (N - 1) + j)) by lia.
    assert (Hland : in_u64 (Z.land (val v) (2 ^ i))).
    { unfold in_u64. destruct Hv as [_ Hv]. apply land_range; lia. }
    rewrite shl_U64 by (assumption || lia). cbn [bind].
    pose proof (term_range (val v) N i j HN Hi Hj) as Ht.
    rewrite Z.mod_small by assumption.
    rewrite (arith_U64 Or) by assumption. cbn [bind].
    assert (E : Z.lor idx (Z.land (val v) (2 ^ i) * 2 ^ (i * (N - 1) + j)) = step N vals i idx j).
    { unfold step. rewrite Z.shiftl_1_l, Z.shiftl_mul_pow2 by lia.
      unfold v, vals. rewrite nth_val. reflexivity. }
    rewrite E. rewrite cast_U64_u64 by assumption. reflexivity.
  Qed.

  Lemma zseq_succ j : 0 <= j -> zseq (Z.to_nat (j + 1)) = zseq (Z.to_nat j) ++ [j].
  Proof.
    intros Hj. replace (Z.to_nat (j + 1)) with (S (Z.to_nat j)) by lia.
    rewrite zseq_S. f_equal. f_equal. lia.
  Qed.

  Lemma minner_ok i idx0 : 0 <= i < 64 / N -> in_u64 idx0 ->
    minner c N (lit U64 i) (lit U64 idx0) = Ok (lit U64 (inner n vals idx0 i))
    /\ in_u64 (inner n vals idx0 i).
  Proof.
    intros Hi Hidx. pose proof N_range as HN. unfold minner.
    rewrite lit0. rewrite cast_U64_u64 by (apply small_u64; lia).
    pose (I := fun (j : Z) (s : tv) =>
      s = lit U64 (fold_left (step N vals i) (zseq (Z.to_nat j)) idx0)
      /\ in_u64 (fold_left (step N vals i) (zseq (Z.to_nat j)) idx0)).
    destruct (for_up_inv U64 I (fun j idx => mbody c N (lit U64 i) j idx)
                (lit U64 0) (lit U64 N) (lit U64 idx0)) as (s' & Hrun & Hs' & Hr).
    - cbn [val lit]. lia.
    - cbn [val lit]. unfold I. cbn [Z.to_nat zseq seq map fold_left]. split; [reflexivity|assumption].
    - cbn [val lit]. intros j s Hj [-> Hr]. cbv beta.
      rewrite mbody_ok by (assumption || lia).
      eexists; split; [reflexivity|]. unfold I.
      rewrite zseq_succ, fold_left_app by lia. cbn [fold_left].
      split; [reflexivity|]. apply step_range; (assumption || lia).
    - rewrite Hrun. cbn [bind]. cbn [val lit] in Hs', Hr. unfold N in Hs', Hr at 2.
      unfold N in Hr. rewrite Nat2Z.id in Hs', Hr. unfold inner. fold N. subst s'. split; [reflexivity|assumption].
  Qed.

  Lemma mouter_ok :
    mouter c N (lit U64 (64 / N)) = Ok (lit U64 (morton n (mbits n) vals)).
  Proof.
    pose proof N_range as HN. unfold mouter.
    assert (HB : 0 <= 64 / N <= 64).
    { split; [apply Z.div_pos; lia|]. apply Z.div_le_upper_bound; lia. }
    rewrite lit0. rewrite cast_U64_u64 by (apply small_u64; lia).
    pose (I := fun (i : Z) (s : tv) =>
      s = lit U64 (fold_left (inner n vals) (zseq (Z.to_nat i)) 0)
      /\ in_u64 (fold_left (inner n vals) (zseq (Z.to_nat i)) 0)).
    destruct (for_up_inv U64 I (fun i idx => minner c N i idx)
                (lit U64 0) (lit U64 (64 / N)) (lit U64 0)) as (s' & Hrun & Hs' & Hr).
    - cbn [val lit]. lia.
    - cbn [val lit]. unfold I. cbn [Z.to_nat zseq seq map fold_left]. split; [reflexivity|].
      apply small_u64; lia.
    - cbn [val lit]. intros i s Hi [-> Hr]. cbv beta.
      destruct (minner_ok i _ Hi Hr) as [Hrun Hr'].
      rewrite Hrun. eexists; split; [reflexivity|]. unfold I.
      rewrite zseq_succ, fold_left_app by lia. cbn [fold_left].
      split; [reflexivity|assumption].
    - rewrite Hrun. cbn [bind]. cbn [val lit] in Hs'. subst s'. unfold morton, mbits. fold N. reflexivity.
  Qed.
End Loops.

(* portable loop, no-BMI2 pre-processor variant (sizeof(index scalar) = 8) *)
Theorem morton_index_refines (c : list tv) :
  (1 <= length c <= 64)%nat -> Forall coord_ok c ->
  gen_morton_index (Z.of_nat (length c)) 8 c
  = Ok (lit U64 (morton (length c) (mbits (length c)) (map val c))).
Proof.
  intros Hn Hc. unfold gen_morton_index. cbv zeta.
  change (arith Mul (cast U64 (lit I32 8)) (lit U64 8)) with (Ok (lit U64 64)). cbn [bind].
  rewrite (arith_U64 Div).
  2: { unfold in_u64. split; [lia|reflexivity]. }
  2: { unfold in_u64. split; [lia|]. apply Z.le_lt_trans with 64; [lia|reflexivity]. }
  destruct (Z.of_nat (length c) =? 0) eqn:E; [lia|]. cbn [bind].
  exact (mouter_ok c Hn Hc).
Qed.

(* portable loop as written under HAVE_BMI2 with use_bmi2 = false (1UL instead of
   static_cast<size_t>(1)): the same function *)
Theorem morton_index_bmi2_off_refines (c : list tv) :
  (1 <= length c <= 64)%nat -> Forall coord_ok c ->
  gen_morton_index_bmi2 false (Z.of_nat (length c)) 8 c
  = Ok (lit U64 (morton (length c) (mbits (length c)) (map val c))).
Proof.
  intros Hn Hc. rewrite <- (morton_index_refines c Hn Hc).
  unfold gen_morton_index_bmi2, gen_morton_index.
  change (truthy (lit CBool (if false then 1 else 0))) with false. cbv iota.
  change (cast U64 (cast U64 (lit I32 1))) with (lit U64 1).
  reflexivity.
Qed.

Lemma Forall2_nth {A B} (P : A -> B -> Prop) l l' d d' n :
  Forall2 P l l' -> (n < length l)%nat -> P (nth n l d) (nth n l' d').
Proof.
  intros H. revert n. induction H as [|x y l l' Hxy _ IH]; intros n Hn; cbn [length] in Hn; [lia|].
  destruct n as [|n]; cbn [nth]; [assumption|]. apply IH. lia.
Qed.

(* lookup with the bounds assertions enabled: passes them and computes the same index *)
Theorem morton_at_dbg_refines (sizes : list Z) (c : list tv) :
  (1 <= length c <= 64)%nat -> Forall coord_ok c -> length sizes = length c ->
  Forall2 (fun v s => val v < s < 2 ^ 64) c sizes ->
  gen_morton_at_dbg (Z.of_nat (length c)) 8 (map (lit U64) sizes) c
  = Ok (lit U64 (morton (length c) (mbits (length c)) (map val c))).
Proof.
  intros Hn Hc Hl HF. unfold gen_morton_at_dbg. cbv zeta.
  rewrite (morton_index_refines c Hn Hc).
  assert (HN : in_u64 (Z.of_nat (length c))).
  { unfold in_u64. split; [lia|]. apply Z.le_lt_trans with 64; [lia|reflexivity]. }
  change (cast U64 (cast U64 (lit I32 0))) with (lit U64 0). rewrite cast_U64_u64 by assumption.
  edestruct (for_up_inv U64 (fun (_ : Z) (_ : unit) => True)) as (s' & Hrun & _); cycle 3.
  - rewrite Hrun. reflexivity.
  - cbn [val lit]. lia.
  - exact Logic.I.
  - cbn [val lit]. intros j s Hj _. cbv beta.
    rewrite nth_tv_ok by lia. cbn [bind].
    rewrite nth_tv_ok by (rewrite map_length; lia). cbn [bind].
    pose proof (nth_coord_ok c j Hc Hj) as [Hw Hv].
    pose proof (Forall2_nth _ c sizes (lit U64 0) 0 (Z.to_nat j) HF ltac:(lia)) as Hlt.
    cbv beta in Hlt.
    rewrite (map_nth (lit U64) sizes 0 (Z.to_nat j)).
    set (v := nth (Z.to_nat j) c (lit U64 0)) in *. set (sz := nth (Z.to_nat j) sizes 0) in *.
    assert (Hcmp : cmp Lt v (lit U64 sz) = Ok (lit CBool 1)).
    { unfold cmp. cbn [ty lit]. rewrite common_any_U64 by assumption. unfold cast; cbn [val lit].
      rewrite (wrap_U64_small (val v)) by assumption. rewrite (wrap_U64_small sz) by lia.
      destruct (val v <? sz) eqn:E; [reflexivity|lia]. }
    rewrite Hcmp. cbn [bind]. change (assert_ (to_bool (lit CBool 1))) with (Ok tt). cbn [bind].
    destruct s. eexists; split; [reflexivity|exact Logic.I].
Qed.

Example morton_example : gen_morton_index 3 8 (map (lit U64) [3; 5; 7]) = Ok (lit U64 431).
Proof. vm_compute. reflexivity. Qed.
