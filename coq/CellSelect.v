(* CellSelect.v -- C03: the cell the interpolator works in and the per-axis fractions.
   For a finite coordinate component x >= 0 (IEEE binary32 / binary64, Flocq):
     i = static_cast<index>(x)  is  floor(x);
     std::trunc(x)              is the float with value floor(x), exactly;
     a = x - std::trunc(x)      is EXACT (no rounding: Sterbenz for x >= 1, x - 0 below), so a = x - floor(x), 0 <= a < 1;
   hence floor(x) <= x < floor(x) + 1: the lattice cell [i, i+1] contains the coordinate on every axis, and the weights
   the code multiplies are built from the true fractional distances. *)
From Coq Require Import ZArith Reals Lia Lra Bool.
From Flocq Require Import Core.Core Sterbenz IEEE754.BinarySingleNaN IEEE754.Binary IEEE754.Bits.
Local Open Scope Z_scope.

Section Fmt.
  Variable prec emax : Z.
  Context (Hp : FLX.Prec_gt_0 prec) (Hm Hm2 : Prec_lt_emax prec emax).   (* two proofs: the model's operations carry different ones *)
  Notation bf := (binary_float prec emax).
  Notation fexp := (SpecFloat.fexp prec emax).
  Notation format := (generic_format radix2 fexp).
  Variable nan1 : bf -> {x : bf | is_nan prec emax x = true}.
  Variable nan2 : bf -> bf -> {x : bf | is_nan prec emax x = true}.

  Definition ftrunc (x : bf) : bf := Bnearbyint prec emax Hm nan1 mode_ZR x.
  Definition frac (x : bf) : bf := Bminus prec emax Hp Hm2 nan2 mode_NE x (ftrunc x).

  Lemma ftrunc_value (x : bf) : (0 <= B2R prec emax x)%R ->
    B2R prec emax (ftrunc x) = IZR (Zfloor (B2R prec emax x)) /\ is_finite prec emax (ftrunc x) = is_finite prec emax x.
  Proof.
    intros H0. destruct (Bnearbyint_correct prec emax Hm nan1 mode_ZR x) as [C1 [C2 _]].
    split; [|exact C2]. unfold ftrunc. rewrite C1. cbn [round_mode]. rewrite round_FIX_IZR. now rewrite Ztrunc_floor.
  Qed.

  Lemma index_value (x : bf) : (0 <= B2R prec emax x)%R -> Btrunc prec emax x = Zfloor (B2R prec emax x).
  Proof.
    intros H0. pose proof (Btrunc_correct prec emax Hm x) as C. rewrite round_FIX_IZR in C. apply eq_IZR in C.
    now rewrite C, Ztrunc_floor.
  Qed.

  (* x - floor(x) is representable *)
  Lemma frac_format (x : bf) : (0 <= B2R prec emax x)%R ->
    format (B2R prec emax x - IZR (Zfloor (B2R prec emax x)))%R.
  Proof.
    intros H0. pose proof (ftrunc_value x H0) as [Etr _]. set (r := B2R prec emax x) in *. set (t := IZR (Zfloor r)) in *.
    assert (Fr : format r) by apply generic_format_B2R.
    assert (Hl : (t <= r)%R) by apply Zfloor_lb.
    assert (Hu : (r < t + 1)%R) by apply Zfloor_ub.
    destruct (Rlt_or_le r 1) as [Hs|Hb].
    - (* floor = 0 *)
      assert (Zfloor r = 0%Z) by (apply Zfloor_imp; change (IZR (0 + 1)) with 1%R; change (IZR 0) with 0%R; lra).
      unfold t. rewrite H. cbn. now rewrite Rminus_0_r.
    - (* x >= 1: floor(x) >= 1 is in the format (it is trunc(x), a float), and t <= r <= 2 t *)
      assert (Ft : format t).
      { rewrite <- Etr. apply generic_format_B2R. }
      assert (H1 : (1 <= t)%R).
      { unfold t. apply IZR_le. apply Zfloor_lub. exact Hb. }
      apply (sterbenz radix2 fexp); [exact Fr|exact Ft|]. lra.
  Qed.

  Theorem frac_exact (x : bf) : is_finite prec emax x = true -> (0 <= B2R prec emax x)%R ->
    is_finite prec emax (frac x) = true /\
    B2R prec emax (frac x) = (B2R prec emax x - IZR (Zfloor (B2R prec emax x)))%R /\
    (0 <= B2R prec emax (frac x) < 1)%R.
  Proof.
    intros F H0. destruct (ftrunc_value x H0) as [Et Ft]. rewrite F in Ft.
    pose proof (Bminus_correct prec emax Hp Hm2 nan2 mode_NE x (ftrunc x) F Ft) as C.
    cbn [round_mode] in C. rewrite Et in C.
    pose proof (frac_format x H0) as G.
    rewrite (round_generic radix2 fexp ZnearestE _ G) in C.
    pose proof (Zfloor_lb (B2R prec emax x)) as Hl. pose proof (Zfloor_ub (B2R prec emax x)) as Hu.
    assert (L : Rlt_bool (Rabs (B2R prec emax x - IZR (Zfloor (B2R prec emax x)))) (bpow radix2 emax) = true).
    { apply Rlt_bool_true. rewrite Rabs_pos_eq by lra. apply Rlt_le_trans with 1%R; [lra|].
      replace 1%R with (bpow radix2 0) by reflexivity. apply bpow_le. unfold Prec_lt_emax in Hm. unfold FLX.Prec_gt_0 in Hp. lia. }
    rewrite L in C. destruct C as [C1 [C2 _]]. unfold frac. split; [exact C2|]. split; [exact C1|]. rewrite C1. lra.
  Qed.

  (* the cell: floor(x) <= x < floor(x) + 1 with floor(x) the index the code computes *)
  Theorem cell_contains (x : bf) : (0 <= B2R prec emax x)%R ->
    (IZR (Btrunc prec emax x) <= B2R prec emax x < IZR (Btrunc prec emax x) + 1)%R.
  Proof. intros H0. rewrite (index_value x H0). split; [apply Zfloor_lb|apply Zfloor_ub]. Qed.
End Fmt.

(* ---- on bit patterns, for the model's operations ---- *)
From Coq Require Import List.
From Covfie Require Import Stack FloatOps FloatFacts ClampAbove.

Theorem model_cell t x : isfl t -> ffin t x -> (0 <= fval t x)%R ->
  let a := f_sub flocq_ops t x (f_trunc flocq_ops t x) in
  ffin t a /\ fval t a = (fval t x - IZR (f_toZ flocq_ops t x))%R /\ (0 <= fval t a < 1)%R /\
  (IZR (f_toZ flocq_ops t x) <= fval t x < IZR (f_toZ flocq_ops t x) + 1)%R.
Proof.
  intros [->| ->] F H0; cbn [flocq_ops f_sub f_trunc f_toZ fbin FloatOps.ftrunc toZ]; unfold ffin, finite, fval in *.
  - rewrite !of32_to32. unfold b32_minus.
    match goal with |- context [Bminus 24 128 ?hp ?hm _ _ _ _] =>
      destruct (@frac_exact 24 128 hp Hmax32 hm unop_nan_pl32 binop_nan_pl32 (of32 x) F H0) as [A [B C]] end.
    pose proof (cell_contains 24 128 Hmax32 (of32 x) H0) as D. pose proof (index_value 24 128 Hmax32 (of32 x) H0) as E.
    unfold frac, ftrunc in A, B, C. unfold trunc32. rewrite E in *.
    split; [exact A|]. split; [exact B|]. split; [exact C|exact D].
  - rewrite !of64_to64. unfold b64_minus.
    match goal with |- context [Bminus 53 1024 ?hp ?hm _ _ _ _] =>
      destruct (@frac_exact 53 1024 hp Hmax64 hm unop_nan_pl64 binop_nan_pl64 (of64 x) F H0) as [A [B C]] end.
    pose proof (cell_contains 53 1024 Hmax64 (of64 x) H0) as D. pose proof (index_value 53 1024 Hmax64 (of64 x) H0) as E.
    unfold frac, ftrunc in A, B, C. unfold trunc64. rewrite E in *.
    split; [exact A|]. split; [exact B|]. split; [exact C|exact D].
Qed.
