(* Refine_Packs.v -- the clamp, permutation and cast layers of the reference interpreter (Stack.v) ARE
   what the code says: the pack expansions translated from clamp.hpp, shuffle.hpp and covariant_cast.hpp
   on this run (gen/Gen_Packs.v), evaluated by the semantics of PackLang.v over the index sequence the
   code names, equal clamp_at / shuffle_at / cast_at.  The only interpretation supplied by hand is that
   of the callee names: "clamp" is std::clamp, "target_type" the cast's target scalar. *)
From Coq Require Import String List ZArith Bool Lia.
From Covfie Require Import PackLang Stack.
From Covfie.gen Require Import Gen_Packs.
Import ListNotations.
Local Open Scope Z_scope.

Lemma nth_error_nth_Z (l : list Z) i : (i < length l)%nat -> nth_error l i = Some (nth i l 0).
Proof. intros H. now apply nth_error_nth'. Qed.

Section Generic.
  Variable env : string -> option (list Z).
  Variable fn : string -> list Z -> option Z.
  Variable cast : string -> Z -> option Z.
  Variable backend : list Z -> option (list Z * list Z).

  (* a pack whose element has the empty trace and value g i at every index of the sequence *)
  Lemma eval_pack_pure e (g : nat -> Z) : forall is_,
    (forall i, In i is_ -> eval_pexp env fn cast backend e i = Some ([], g i)) ->
    eval_pack env fn cast backend e is_ = Some ([], map g is_).
  Proof.
    induction is_ as [|i r IH]; intros H; cbn [eval_pack map]; [reflexivity|].
    rewrite (H i (or_introl eq_refl)), IH by (intros j Hj; apply H; now right). reflexivity.
  Qed.
End Generic.

Lemma firstn_S_nth_error {A} (l : list A) k a : nth_error l k = Some a -> firstn (S k) l = firstn k l ++ [a].
Proof.
  revert k. induction l as [|x l IH]; intros [|k] H; cbn in *; try discriminate.
  - now injection H as ->.
  - now rewrite (IH k H).
Qed.

Lemma map_seq_map3 (f : Z -> Z -> Z -> Z) : forall c lo hi, length lo = length c -> length hi = length c ->
  map (fun i => f (nth i c 0) (nth i lo 0) (nth i hi 0)) (seq 0 (length c)) = map3 f c lo hi.
Proof.
  induction c as [|x c IH]; intros [|l lo] [|h hi] Hl Hh; cbn [length] in *; try discriminate; [reflexivity|].
  cbn [seq map map3 nth]. f_equal. rewrite <- seq_shift, map_map. cbn [nth]. apply IH; congruence.
Qed.

Section Layers.
  Variable ops : sops.

  (* ---- clamp ---- *)
  Definition clamp_env (c lo hi : list Z) (n : string) : option (list Z) :=
    if String.eqb n "coord" then Some c else if String.eqb n "m_min" then Some lo else if String.eqb n "m_max" then Some hi else None.
  Definition clamp_fn (t : sty) (f : string) (args : list Z) : option Z :=
    match args with [v; l; h] => if String.eqb f "clamp" then Some (clamp1 ops t v l h) else None | _ => None end.

  Theorem clamp_layer_refines t lo hi (b : query) c : length lo = length c -> length hi = length c ->
    eval_at (clamp_env c lo hi) (clamp_fn t) (fun _ _ => None) b gen_clamp_at gen_clamp_elem (seq 0 (length c))
    = clamp_at ops t lo hi b c.
  Proof.
    intros Hl Hh. unfold gen_clamp_at, gen_clamp_elem, eval_at.
    rewrite (eval_pack_pure _ _ _ _ _ (fun i => clamp1 ops t (nth i c 0) (nth i lo 0) (nth i hi 0))).
    - rewrite map_seq_map3 by assumption. unfold clamp_at. destruct (b (map3 (clamp1 ops t) c lo hi)) as [[t' v]|]; reflexivity.
    - intros i Hi. apply in_seq in Hi. cbn [eval_pexp clamp_env String.eqb Ascii.eqb Bool.eqb].
      cbn. rewrite !nth_error_nth_Z by lia. reflexivity.
  Qed.

  (* ---- permutation ---- *)
  Definition one_env (name : string) (c : list Z) (n : string) : option (list Z) := if String.eqb n name then Some c else None.

  Definition c_env (c : list Z) : string -> option (list Z) := one_env "c" c.

  Theorem shuffle_layer_refines (p : list nat) (b : query) c : Forall (fun i => (i < length c)%nat) p ->
    eval_at (c_env c) (fun _ _ => None) (fun _ _ => None) b gen_shuffle_at gen_shuffle_elem p = shuffle_at p b c.
  Proof.
    intros Hp. unfold c_env, gen_shuffle_at, gen_shuffle_elem, eval_at.
    rewrite (eval_pack_pure _ _ _ _ _ (fun i => nth i c 0)).
    - unfold shuffle_at. destruct (b (map (fun i => nth i c 0) p)) as [[t' v]|]; reflexivity.
    - intros i Hi. rewrite Forall_forall in Hp. cbn. now rewrite nth_error_nth_Z by (now apply Hp).
  Qed.

  (* ---- cast: m_backend.at(c) once per OUTPUT component ---- *)
  Definition cast_fn (from to : sty) (ty : string) (v : Z) : option Z :=
    if String.eqb ty "target_type" then (if conv_defined ops from to v then Some (s_conv ops from to v) else None) else None.

  Lemma cast_elem from to (b : query) c tr v i x : b c = Some (tr, v) -> nth_error v i = Some x ->
    eval_pexp (one_env "c" c) (fun _ _ => None) (cast_fn from to) b gen_covariant_cast_elem i
    = if conv_defined ops from to x then Some (tr, s_conv ops from to x) else None.
  Proof.
    intros Hb Hn. unfold gen_covariant_cast_elem. cbn [eval_pexp]. unfold one_env at 1. cbn [String.eqb Ascii.eqb Bool.eqb].
    rewrite Hb, Hn. unfold cast_fn. cbn [String.eqb Ascii.eqb Bool.eqb]. destruct (conv_defined ops from to x); reflexivity.
  Qed.

  Lemma cast_pack from to (b : query) c tr v : b c = Some (tr, v) -> forall (w : list Z) k, v = firstn k v ++ w ->
    eval_pack (one_env "c" c) (fun _ _ => None) (cast_fn from to) b gen_covariant_cast_elem (seq k (length w))
    = if forallb (conv_defined ops from to) w then Some (concat (map (fun _ => tr) w), map (s_conv ops from to) w) else None.
  Proof.
    intros Hb. induction w as [|x w IH]; intros k Hv; cbn [length seq eval_pack forallb map concat]; [reflexivity|].
    assert (Hk : length (firstn k v) = k).
    { pose proof (f_equal (@length Z) Hv) as HL. rewrite app_length in HL. cbn [length] in HL. rewrite firstn_length in *. lia. }
    assert (Hn : nth_error v k = Some x).
    { rewrite Hv. rewrite nth_error_app2 by lia. now rewrite Hk, Nat.sub_diag. }
    rewrite (cast_elem from to b c tr v k x Hb Hn).
    assert (Hv' : v = firstn (S k) v ++ w).
    { rewrite (firstn_S_nth_error v k x Hn). rewrite <- app_assoc. exact Hv. }
    rewrite (IH (S k) Hv'). destruct (conv_defined ops from to x); [|reflexivity].
    destruct (forallb (conv_defined ops from to) w); reflexivity.
  Qed.

  Theorem cast_layer_refines from to (b : query) c tr v : b c = Some (tr, v) ->
    eval_at (c_env c) (fun _ _ => None) (cast_fn from to) b gen_covariant_cast_at gen_covariant_cast_elem (seq 0 (length v))
    = cast_at ops from to b c.
  Proof.
    intros Hb. unfold c_env, gen_covariant_cast_at, eval_at. rewrite (cast_pack from to b c tr v Hb v 0%nat eq_refl).
    unfold cast_at. rewrite Hb. reflexivity.
  Qed.

  (* the index sequences the code names are the ones used above *)
  Theorem sequences_named :
    gen_clamp_at = AtBackendOfHelper "coord" "std::make_index_sequence<contravariant_input_t::dimensions>" /\
    gen_shuffle_at = AtBackendOfHelper "c" "covfie::backend::shuffle::indices" /\
    gen_covariant_cast_at = AtHelper "c" "std::make_index_sequence<covariant_output_t::dimensions>".
  Proof. repeat split; reflexivity. Qed.
End Layers.
