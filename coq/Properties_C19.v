(* Properties_C19.v -- C19: N-dimensional iteration visits every index exactly once.
   Only the property theorems, closed by [exact]; the model nd_map (NdMap.v) is tied to
   utility/nd_map.hpp by the correspondence check (sequence equality of the callback tuples). *)
From Coq Require Import List Arith Sorted.
From Covfie Require Import NdMap Refine_NdMap.
From Covfie.gen Require Import Gen_NdMap.
Import ListNotations.

(* exactly the tuples inside the box, for every dimensionality and extent vector *)
Theorem C19_complete : forall s t, In t (nd_map s) <-> Forall2 lt t s.
Proof. exact nd_map_complete. Qed.

(* each of them exactly once *)
Theorem C19_no_duplicates : forall s, NoDup (nd_map s).
Proof. exact nd_map_nodup. Qed.

Theorem C19_exactly_once : forall s t (eqd : forall x y : list nat, {x = y} + {x <> y}),
  count_occ eqd (nd_map s) t = if Forall2_lt_dec t s then 1 else 0.
Proof. exact nd_map_count. Qed.

Theorem C19_number_of_calls : forall s, length (nd_map s) = fold_right Nat.mul 1 s.
Proof. exact nd_map_length. Qed.

(* in lexicographic order, first index slowest *)
Theorem C19_lexicographic : forall s, StronglySorted lex_lt (nd_map s).
Proof. exact nd_map_lex. Qed.

(* the recursion scheme of nd_map.hpp as it stands on this run (tail drops the first component, cat concatenates in
   order, each loop runs to the first extent, the loop index goes in front), interpreted, enumerates exactly the model
   sequence -- for every rank and every extent vector *)
Theorem C19_source_scheme_is_the_model : forall s, ndmap_src (length s) s = nd_map s.
Proof. exact source_scheme_is_the_model. Qed.
Theorem C19_source_read_completely : ndm_problems = 0.
Proof. exact source_read_completely. Qed.

Print Assumptions C19_complete.
Print Assumptions C19_source_scheme_is_the_model.
Print Assumptions C19_no_duplicates.
Print Assumptions C19_exactly_once.
Print Assumptions C19_number_of_calls.
Print Assumptions C19_lexicographic.
