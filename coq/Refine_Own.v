(* Refine_Own.v -- C12: the special members of array<..>::owning_data_t as they stand in array.hpp on this run
   (gen/Gen_Own.v) are the ones the ownership model (Ownership.v) gives its concrete level:

   * move construction and move assignment are defaulted, no destructor is declared: the unique_ptr member does the
     transfer and the release (the model's MoveCtor / MoveAssign / Destroy);
   * the copy constructor is  m_size(o.m_size), m_ptr(make_unique(m_size)), memcpy when the source has a buffer
     (the model's CopyCtor);
   * the copy assignment, INTERPRETED action by action on the model's heap with every action reading the state as
     it is at that moment, is observationally the model's copy_assign for every state and every pair of slots --
     which needs the self-assignment guard: without it the same actions are the pinned member (self_assign_refuted). *)
From Coq Require Import List Arith Bool Lia ZArith String.
From Covfie Require Import Ownership OwnershipProofs.
From Covfie.gen Require Import Gen_Own.
Import ListNotations.

(* one action of `this` = slot d, `o` = slot src *)
Definition act_step (d src : nat) (a : act) (s : st) : option st :=
  match slots s d, slots s src with
  | Some od, Some os =>
      match a with
      | SetSize => Some (set_slot s d (Some {| o_ptr := o_ptr od; o_size := o_size os |}))
      | Alloc => let '(s1, a') := alloc s (o_size od) in
                 match free s1 (o_ptr od) with
                 | Some s2 => Some (set_slot s2 d (Some {| o_ptr := Some a'; o_size := o_size od |}))
                 | None => None
                 end
      | Copy => match o_ptr od with Some a' => copy_into s a' os | None => None end
      | Assert => Some s
      | Other _ => None
      end
  | _, _ => None
  end.
Fixpoint acts_run (d src : nat) (l : list act) (s : st) : option st :=
  match l with [] => Some s | a :: r => match act_step d src a s with Some s' => acts_run d src r s' | None => None end end.
Definition assign_sem (guarded : bool) (l : list act) (s : st) (d src : nat) : option st :=
  match slots s d, slots s src with
  | Some _, Some _ => if guarded && Nat.eqb d src then Some s else acts_run d src l s
  | _, _ => None
  end.

Definition opt_st_eq (x y : option st) : Prop :=
  match x, y with Some a, Some b => st_eq a b | None, None => True | _, _ => False end.

Lemma st_eq_refl s : st_eq s s.
Proof. repeat split. Qed.

Theorem source_flags : own_move_ctor_defaulted = true /\ own_move_assign_defaulted = true /\ own_dtor_declared = false /\
  own_copy_assign_guarded = true /\ own_copy_assign_returns_this = true /\
  own_copy_ctor = [SetSize; Alloc; Assert; Copy] /\ own_copy_assign = [SetSize; Alloc; Assert; Copy].
Proof. repeat split; reflexivity. Qed.

Lemma alloc_set_slot s d X n : alloc (set_slot s d X) n = (set_slot (fst (alloc s n)) d X, snd (alloc s n)).
Proof. reflexivity. Qed.
Lemma free_set_slot s d X p : free (set_slot s d X) p = option_map (fun s' => set_slot s' d X) (free s p).
Proof. destruct p as [a|]; cbn; [|reflexivity]. destruct (heap s a); reflexivity. Qed.
Lemma copy_into_set_slot s d X a os : copy_into (set_slot s d X) a os = option_map (fun s' => set_slot s' d X) (copy_into s a os).
Proof.
  unfold copy_into. destruct (o_ptr os) as [b|]; [|reflexivity]. destruct (0 <? o_size os)%nat; [|reflexivity].
  cbn. destruct (heap s b); reflexivity.
Qed.
Lemma slots_set_same s d X : slots (set_slot s d X) d = X.
Proof. cbn. unfold upd. now rewrite Nat.eqb_refl. Qed.
Lemma slots_set_other s d X k : Nat.eqb k d = false -> slots (set_slot s d X) k = slots s k.
Proof. intros H. cbn. unfold upd. now rewrite H. Qed.
Lemma set_set_eq s d X Y : st_eq (set_slot (set_slot s d X) d Y) (set_slot s d Y).
Proof. repeat split. intros k. cbn. unfold upd. destruct (Nat.eqb k d); reflexivity. Qed.
Lemma free_slots s p s' : free s p = Some s' -> slots s' = slots s.
Proof. destruct p as [a|]; cbn; [destruct (heap s a); [|discriminate]|]; intros E; injection E as <-; reflexivity. Qed.
Lemma copy_into_slots s a os s' : copy_into s a os = Some s' -> slots s' = slots s.
Proof.
  unfold copy_into. destruct (o_ptr os) as [b|]; [|intros E; injection E as <-; reflexivity].
  destruct (0 <? o_size os)%nat; [|intros E; injection E as <-; reflexivity].
  destruct (heap s b); [|discriminate]. intros E; injection E as <-; reflexivity.
Qed.

Theorem copy_assign_is_the_source s d src :
  opt_st_eq (assign_sem own_copy_assign_guarded own_copy_assign s d src) (copy_assign s d src).
Proof.
  unfold assign_sem, copy_assign. change own_copy_assign_guarded with true. change own_copy_assign with [SetSize; Alloc; Assert; Copy].
  destruct (slots s d) as [od|] eqn:Ed; [|exact I]. destruct (slots s src) as [os|] eqn:Es; [|exact I].
  cbn [andb]. destruct (Nat.eqb d src) eqn:E; [apply st_eq_refl|].
  assert (Hsd : Nat.eqb src d = false) by (rewrite Nat.eqb_sym; exact E).
  cbn [acts_run]. unfold act_step at 1. rewrite Ed, Es.
  set (X1 := Some {| o_ptr := o_ptr od; o_size := o_size os |}).
  unfold act_step at 1. rewrite slots_set_same, (slots_set_other _ _ _ _ Hsd), Es. unfold X1 at 1. cbn [o_size o_ptr].
  rewrite alloc_set_slot. destruct (alloc s (o_size os)) as [sA a] eqn:EA. cbn [fst snd].
  rewrite free_set_slot. destruct (free sA (o_ptr od)) as [sF|] eqn:EF; cbn [option_map]; [|exact I].
  set (X2 := Some {| o_ptr := Some a; o_size := o_size os |}).
  unfold act_step at 1.
  assert (SsF : slots sF = slots s).
  { rewrite (free_slots _ _ _ EF). unfold alloc in EA. injection EA as <- _. reflexivity. }
  rewrite slots_set_same, (slots_set_other _ _ _ _ Hsd), (slots_set_other _ _ _ _ Hsd), SsF, Es. unfold X2 at 1.
  unfold act_step at 1.
  rewrite slots_set_same, (slots_set_other _ _ _ _ Hsd), (slots_set_other _ _ _ _ Hsd), SsF, Es. unfold X2 at 1. cbn [o_ptr].
  rewrite !copy_into_set_slot. destruct (copy_into sF a os) as [sC|] eqn:EC; cbn [option_map acts_run]; [|exact I].
  apply set_set_eq.
Qed.

(* the guard matters: the same actions without it, on a self-assignment, zero the data ([7;8] becomes [0;0]) *)
Theorem unguarded_self_assignment_loses_data :
  exists s s', run init [Construct 0 [7; 8]%Z] = Some s /\ assign_sem false own_copy_assign s 0 0 = Some s' /\
               absf s 0 = Some (Full [7; 8]%Z) /\ absf s' 0 = Some (Full [0; 0]%Z).
Proof. eexists. eexists. split; [reflexivity|]. split; [reflexivity|]. split; reflexivity. Qed.

(* the copy constructor: the same actions into an empty slot are the model's CopyCtor *)
Definition ctor_sem (l : list act) (s : st) (d src : nat) : option st :=
  match slots s d, slots s src with
  | None, Some os => acts_run d src l (set_slot s d (Some {| o_ptr := None; o_size := 0 |}))
  | _, _ => None
  end.
Theorem copy_ctor_is_the_source s d src : opt_st_eq (ctor_sem own_copy_ctor s d src) (step s (CopyCtor d src)).
Proof.
  unfold ctor_sem, step. change own_copy_ctor with [SetSize; Alloc; Assert; Copy].
  destruct (slots s d) as [od|] eqn:Ed; [exact I|]. destruct (slots s src) as [os|] eqn:Es; [|exact I].
  assert (Hsd : Nat.eqb src d = false).
  { destruct (Nat.eqb src d) eqn:E; [|reflexivity]. apply Nat.eqb_eq in E. subst. congruence. }
  cbn [acts_run]. unfold act_step at 1. rewrite slots_set_same, (slots_set_other _ _ _ _ Hsd), Es. cbn [o_ptr o_size].
  unfold act_step at 1. rewrite slots_set_same, (slots_set_other _ _ _ _ Hsd), (slots_set_other _ _ _ _ Hsd), Es. cbn [o_size o_ptr].
  rewrite !alloc_set_slot. destruct (alloc s (o_size os)) as [sA a] eqn:EA. cbn [fst snd free].
  assert (SsA : slots sA = slots s) by (unfold alloc in EA; injection EA as <- _; reflexivity).
  unfold act_step at 1. rewrite slots_set_same, !(slots_set_other _ _ _ _ Hsd), SsA, Es.
  unfold act_step at 1. rewrite slots_set_same, !(slots_set_other _ _ _ _ Hsd), SsA, Es. cbn [o_ptr].
  rewrite !copy_into_set_slot. destruct (copy_into sA a os) as [sC|] eqn:EC; cbn [option_map acts_run]; [|exact I].
  repeat split. intros k. cbn. unfold upd. destruct (Nat.eqb k d); reflexivity.
Qed.
