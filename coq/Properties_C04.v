(* Properties_C04.v -- C04: nearest-neighbour lookup returns the value at a closest lattice point.
   Only the property theorems, closed by [exact]. *)
From Coq Require Import ZArith Reals List Bool.
From Covfie Require Import Stack FloatOps Nearest Refine_Nearest LinLang Refine_NearestAt.
From Covfie.gen Require Import Gen_Nearest Gen_NearestAt.
Import ListNotations.
Local Open Scope Z_scope.

(* rounding to integral, ties to even, at the argument's own precision: within one half, for float
   and for double alike, for every argument *)
Theorem C04_lrint_within_half : forall t v, is_float t = true ->
  (Rabs (IZR (f_lrint flocq_ops t v) - realval t v) <= / 2)%R.
Proof. exact flrint_half. Qed.

(* the layer, over an arbitrary backend, any N: the backend is queried at a lattice point every
   component of which is within one half of the corresponding coordinate component *)
Theorem C04_nearest_closest : forall tc tidx (b : query) c, is_float tc = true ->
  forallb (fun x => s_finite flocq_ops tc x && sty_range I64 (f_lrint flocq_ops tc x)) c = true ->
  exists p, nearest_at flocq_ops tc tidx b c = b (map (fun z => s_conv flocq_ops I64 tidx z) p) /\
            Forall2 (fun z x => (Rabs (IZR z - realval tc x) <= / 2)%R) p c.
Proof. exact nearest_closest. Qed.

(* tie to the code: the rounding call named in nearest_neighbour::at on this run rounds at the
   coordinate's own precision, for float and double coordinates *)
Theorem C04_code_rounds_at_coordinate_precision : forall tc x, is_float tc = true ->
  nn_round nn_callee tc x = Some (f_lrint flocq_ops tc x).
Proof. exact nn_round_refines. Qed.

(* ... which matters: narrowing a double coordinate to float first is wrong for 2.5 + 2^-33 *)
Theorem C04_narrowing_first_refuted :
  exists x, nn_round Lrintf F64 x = Some 2 /\ flrint F64 x = 3 /\ (Rabs (IZR 2 - realval F64 x) > / 2)%R.
Proof. exact lrintf_on_double_refuted. Qed.

(* the whole lookup, from the source of this run (gen/Gen_NearestAt.v, nn_at): one backend query, at the component-wise
   static_cast<index>(std::lrint(c_k)) -- the coordinate the model layer nearest_at queries -- for arbitrary
   scalar operations and type tags, N = 1..4 *)
Theorem C04_code_query : forall ops tc tidx tv vals q,
  (forall x0, nn_query ops tc tidx tv vals q [x0] = nn_model ops tc tidx [x0]) /\
  (forall x0 x1, nn_query ops tc tidx tv vals q [x0; x1] = nn_model ops tc tidx [x0; x1]) /\
  (forall x0 x1 x2, nn_query ops tc tidx tv vals q [x0; x1; x2] = nn_model ops tc tidx [x0; x1; x2]) /\
  (forall x0 x1 x2 x3, nn_query ops tc tidx tv vals q [x0; x1; x2; x3] = nn_model ops tc tidx [x0; x1; x2; x3]).
Proof.
  exact (fun ops tc tidx tv vals q =>
    conj (nearest_at_refines_1 ops tc tidx tv vals q) (conj (nearest_at_refines_2 ops tc tidx tv vals q)
      (conj (nearest_at_refines_3 ops tc tidx tv vals q) (nearest_at_refines_4 ops tc tidx tv vals q)))).
Qed.

Print Assumptions C04_lrint_within_half.
Print Assumptions C04_code_query.
Print Assumptions C04_nearest_closest.
Print Assumptions C04_code_rounds_at_coordinate_precision.
