(* AlgebraBridge.v -- C09: the affine layer of the executable model (Stack.affine_apply, compared bit
   for bit with algebra/affine.hpp through the correspondence check) is AlgebraCore.affine_apply on
   the rows of the configured matrix; with exact scalar operations it therefore computes A x + t. *)
From Coq Require Import ZArith List Bool Lia Ring Ring_theory.
From Covfie Require Import AlgebraCore Stack AlgebraProofs.
Import ListNotations.

Theorem affine_layer_is_core (ops : sops) t m c :
  Stack.affine_apply ops t m c =
  AlgebraCore.affine_apply (f_of_Z ops t 0%Z) (f_of_Z ops t 1%Z) (f_add ops t) (f_mul ops t) (rows (length c) (S (length c)) m) c.
Proof. reflexivity. Qed.

Theorem affine_layer_law (ops : sops) t m (b : query) c :
  affine_at ops t m b c =
  b (AlgebraCore.affine_apply (f_of_Z ops t 0%Z) (f_of_Z ops t 1%Z) (f_add ops t) (f_mul ops t) (rows (length c) (S (length c)) m) c).
Proof. reflexivity. Qed.
