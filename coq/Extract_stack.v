(* Extract_stack.v -- executable entry points of the stack model: kinds, the reference
   interpreter instantiated with Flocq arithmetic, the binary writer and reader. *)
Require Import ExtrOcamlBasic.
From Coq Require Import ZArith List.
From Covfie Require Import Stack FloatOps BinIO BinIOProofs BinIOFlip StackGlue Convert.
Import ListNotations.

Definition m_eval (s : stack) (f : fld) (c : list Z) : option (list Z * list Z) := eval flocq_ops s f c.
Definition m_load (s : stack) (bs : list Z) : result (fld * list Z) := load flocq_ops s bs.
Definition m_write (s : stack) (f : fld) (c v : list Z) : option fld := write flocq_ops s f c v.
Definition keep_number_types (z : Z) (n : N) (k : nat) := (z, n, k).
Separate Extraction kind_of m_eval dump m_load parse_fld fld_cfg_groups fld_storage keep_number_types dump_segs seg_bytes wf_fld convert m_write.
