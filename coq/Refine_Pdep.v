(* Refine_Pdep.v -- the BMI2 path of morton.hpp (hand-written model PdepModel: _pdep_u64 from the
   Intel SDM pseudo-code and the get_mask metaprogram) computes the same bit interleave as the
   portable loop, for coordinates below 2^floor(64/N). *)
From Coq Require Import ZArith List Lia Bool ZifyBool ZifyNat.
From Covfie Require Import CKernel CKernelFacts Layout PdepModel.
Import ListNotations.
Local Open Scope Z_scope.

(* bit p of pdep(src, mask) is set iff bit p of the mask is set and the bit of src whose index is
   the number of mask bits below p is set *)
Definition popcount_below (mask p : Z) : Z :=
  fold_left (fun acc k => if Z.testbit mask (Z.of_nat k) then acc + 1 else acc) (seq 0 (Z.to_nat p)) 0.

Lemma popcount_below_S mask p : 0 <= p ->
  popcount_below mask (p + 1) = popcount_below mask p + (if Z.testbit mask p then 1 else 0).
Proof.
  intros Hp. unfold popcount_below.
  replace (Z.to_nat (p + 1)) with (S (Z.to_nat p)) by lia.
  rewrite seq_S, fold_left_app. cbn [fold_left]. rewrite Nat.add_0_l, Z2Nat.id by lia.
  destruct (Z.testbit mask p); lia.
Qed.

Definition pbit (src mask p : Z) : bool := Z.testbit mask p && Z.testbit src (popcount_below mask p).

Lemma pdep_loop_spec src mask : forall n m k dest, 0 <= m -> k = popcount_below mask m ->
  (forall p, 0 <= p -> Z.testbit dest p = (p <? m) && pbit src mask p) ->
  forall p, 0 <= p ->
  Z.testbit (pdep_loop n src mask m k dest) p = (p <? m + Z.of_nat n) && pbit src mask p.
Proof.
  induction n as [|n IH]; intros m k dest Hm Hk Hd p Hp.
  - cbn [pdep_loop]. rewrite Hd by assumption. f_equal. lia.
  - cbn [pdep_loop]. destruct (Z.testbit mask m) eqn:Em.
    + rewrite IH; [ f_equal; lia | lia | rewrite popcount_below_S, Em by lia; lia | | assumption].
      intros q Hq. destruct (Z.testbit src k) eqn:Es.
      * rewrite Z.lor_spec, Hd, Z.pow2_bits_eqb by lia. unfold pbit.
        destruct (Z.eqb_spec m q) as [<-|Hne].
        -- rewrite Em, <- Hk, Es. destruct (Z.ltb_spec m m); [lia|]. destruct (Z.ltb_spec m (m + 1)); [|lia]. reflexivity.
        -- rewrite orb_false_r. f_equal. lia.
      * rewrite Hd by lia. unfold pbit.
        destruct (Z.eqb_spec m q) as [<-|Hne].
        -- rewrite Em, <- Hk, Es. destruct (Z.ltb_spec m m); [lia|]. now destruct (m <? m + 1).
        -- f_equal. lia.
    + rewrite IH; [ f_equal; lia | lia | rewrite popcount_below_S, Em by lia; lia | | assumption].
      intros q Hq. rewrite Hd by lia. unfold pbit.
      destruct (Z.eqb_spec m q) as [<-|Hne].
      -- rewrite Em. destruct (Z.ltb_spec m m); [lia|]. now destruct (m <? m + 1).
      -- f_equal. lia.
Qed.

Theorem pdep64_spec (src mask p : Z) : 0 <= src -> 0 <= mask -> 0 <= p < 64 ->
  Z.testbit (pdep64 src mask) p = Z.testbit mask p && Z.testbit src (popcount_below mask p).
Proof.
  intros _ _ Hp. unfold pdep64.
  rewrite (pdep_loop_spec src mask 64 0 0 0); [ | lia | reflexivity | | lia].
  - destruct (Z.ltb_spec p (0 + Z.of_nat 64)); [reflexivity|lia].
  - intros q Hq. rewrite Z.testbit_0_l. destruct (Z.ltb_spec q 0); [lia|reflexivity].
Qed.

Theorem pdep64_high (src mask p : Z) : 0 <= src -> 0 <= mask -> 64 <= p ->
  Z.testbit (pdep64 src mask) p = false.
Proof.
  intros _ _ Hp. unfold pdep64.
  rewrite (pdep_loop_spec src mask 64 0 0 0); [ | lia | reflexivity | | lia].
  - destruct (Z.ltb_spec p (0 + Z.of_nat 64)); [lia|reflexivity].
  - intros q Hq. rewrite Z.testbit_0_l. destruct (Z.ltb_spec q 0); [lia|reflexivity].
Qed.

Lemma base_fold_bits N : forall n q, 0 <= q ->
  Z.testbit (fold_left (fun acc k => if (Z.of_nat k mod N =? 0) then Z.lor acc (2 ^ Z.of_nat k) else acc)
                       (seq 0 n) 0) q
  = (q <? Z.of_nat n) && (q mod N =? 0).
Proof.
  induction n as [|n IH]; intros q Hq.
  - cbn [seq fold_left]. rewrite Z.testbit_0_l. destruct (Z.ltb_spec q (Z.of_nat 0)); [lia|reflexivity].
  - rewrite seq_S, fold_left_app. cbn [fold_left]. rewrite Nat.add_0_l.
    destruct (Z.eqb_spec (Z.of_nat n mod N) 0) as [E|E].
    + rewrite Z.lor_spec, IH, Z.pow2_bits_eqb by lia.
      destruct (Z.eqb_spec (Z.of_nat n) q) as [<-|Hne].
      * rewrite E. cbn [Z.eqb]. rewrite orb_true_r.
        destruct (Z.ltb_spec (Z.of_nat n) (Z.of_nat (S n))); [reflexivity|lia].
      * rewrite orb_false_r. f_equal. lia.
    + rewrite IH by lia.
      destruct (Z.eqb_spec (Z.of_nat n) q) as [<-|Hne].
      * destruct (Z.eqb_spec (Z.of_nat n mod N) 0); [contradiction|]. now rewrite !andb_false_r.
      * f_equal. lia.
Qed.

Lemma mod_shift N j p : 1 <= N -> 0 <= j < N -> ((p - j) mod N =? 0) = (p mod N =? j).
Proof.
  intros HN Hj.
  destruct (Z.eqb_spec (p mod N) j) as [E|E].
  - apply Z.eqb_eq. replace (p - j) with (p / N * N).
    + apply Z.mod_mul. lia.
    + pose proof (Z.div_mod p N ltac:(lia)). lia.
  - apply Z.eqb_neq. intros H. apply E.
    pose proof (Z.div_mod (p - j) N ltac:(lia)) as D. rewrite H in D.
    replace p with (j + (p - j) / N * N) by lia.
    rewrite Z.mod_add by lia. apply Z.mod_small. lia.
Qed.

(* the masks: bit p of morton_mask N j is set iff p < 64 and p mod N = j (for 0 <= j < N <= 64) *)
Theorem morton_mask_spec (N j p : Z) : 1 <= N <= 64 -> 0 <= j < N -> 0 <= p ->
  Z.testbit (morton_mask N j) p = (p <? 64) && (p mod N =? j).
Proof.
  intros HN Hj Hp. unfold morton_mask.
  destruct (Z.ltb_spec p 64) as [Hlt|Hge].
  - rewrite Z.mod_pow2_bits_low by lia. rewrite <- Z.shiftl_mul_pow2 by lia.
    rewrite Z.shiftl_spec by lia. cbn [andb].
    destruct (Z.ltb_spec p j) as [Hpj|Hpj].
    + rewrite Z.testbit_neg_r by lia. symmetry. apply Z.eqb_neq.
      rewrite Z.mod_small by lia. lia.
    + unfold base_mask. rewrite base_fold_bits by lia. rewrite mod_shift by lia.
      destruct (Z.ltb_spec (p - j) (Z.of_nat 64)); [reflexivity|lia].
  - rewrite Z.mod_pow2_bits_high by lia. reflexivity.
Qed.

Lemma div_one N x : N <= x < 2 * N -> x / N = 1.
Proof. intros H. symmetry. apply Z.div_unique with (x - N); lia. Qed.

Lemma div_step N j p : 1 <= N -> 0 <= j < N -> 0 <= p ->
  (p + 1 + N - 1 - j) / N = (p + N - 1 - j) / N + (if p mod N =? j then 1 else 0).
Proof.
  intros HN Hj Hp.
  pose proof (Z.div_mod p N ltac:(lia)) as D. pose proof (Z.mod_pos_bound p N ltac:(lia)) as B.
  set (q := p / N) in *. set (r := p mod N) in *. clearbody q r.
  replace (p + 1 + N - 1 - j) with (q * N + (r + N - j)) by lia.
  replace (p + N - 1 - j) with (q * N + (r + N - 1 - j)) by lia.
  rewrite !Z.div_add_l by lia.
  destruct (Z.eqb_spec r j) as [E|E].
  - subst r. replace (j + N - j) with N by lia. rewrite Z.div_same by lia.
    rewrite (Z.div_small (j + N - 1 - j)) by lia. lia.
  - destruct (Z.lt_ge_cases r j).
    + rewrite !Z.div_small by lia. lia.
    + rewrite !div_one by lia. lia.
Qed.

Lemma popcount_mask N j : 1 <= N <= 64 -> 0 <= j < N -> forall p, 0 <= p -> p <= 64 ->
  popcount_below (morton_mask N j) p = (p + N - 1 - j) / N.
Proof.
  intros HN Hj. apply (natlike_ind (fun p => p <= 64 -> popcount_below (morton_mask N j) p = (p + N - 1 - j) / N)).
  - intros _. cbn. rewrite Z.div_small by lia. reflexivity.
  - intros p Hp IH H64. unfold Z.succ. rewrite popcount_below_S by lia. rewrite IH by lia.
    rewrite morton_mask_spec by lia. rewrite div_step by lia.
    destruct (Z.ltb_spec p 64); [|lia]. cbn [andb]. reflexivity.
Qed.

Lemma popcount_mask_at N p : 1 <= N <= 64 -> 0 <= p < 64 ->
  popcount_below (morton_mask N (p mod N)) p = p / N.
Proof.
  intros HN Hp. pose proof (Z.mod_pos_bound p N ltac:(lia)) as B.
  rewrite popcount_mask by lia.
  pose proof (Z.div_mod p N ltac:(lia)) as D.
  replace (p + N - 1 - p mod N) with (p / N * N + (N - 1)) by lia.
  rewrite Z.div_add_l by lia. rewrite (Z.div_small (N - 1)) by lia. lia.
Qed.

Lemma pdep64_bits src mask p : 0 <= p ->
  Z.testbit (pdep64 src mask) p = (p <? 64) && pbit src mask p.
Proof.
  intros Hp. unfold pdep64.
  rewrite (pdep_loop_spec src mask 64 0 0 0); [ reflexivity | lia | reflexivity | | lia].
  intros q Hq. rewrite Z.testbit_0_l. destruct (Z.ltb_spec q 0); [lia|reflexivity].
Qed.

Definition pstep (N : Z) : Z * Z -> tv -> Z * Z :=
  fun '(acc, j) v => (Z.lor acc (pdep64 (wrap U64 (val v)) (morton_mask N j)), j + 1).

Lemma pfold_spec N : 1 <= N <= 64 -> forall l,
  Z.of_nat (length l) <= N -> Forall (fun x => 0 <= x < 2 ^ 64) l ->
  snd (fold_left (pstep N) (map (lit U64) l) (0, 0)) = Z.of_nat (length l) /\
  forall p, 0 <= p ->
    Z.testbit (fst (fold_left (pstep N) (map (lit U64) l) (0, 0))) p
    = (p <? 64) && (p mod N <? Z.of_nat (length l)) && Z.testbit (nth (Z.to_nat (p mod N)) l 0) (p / N).
Proof.
  intros HN. induction l as [|x l IH] using rev_ind; intros Hlen Hall.
  - cbn [map fold_left fst snd length]. split; [reflexivity|]. intros p Hp.
    rewrite Z.testbit_0_l. pose proof (Z.mod_pos_bound p N ltac:(lia)).
    destruct (Z.ltb_spec (p mod N) (Z.of_nat 0)); [lia|]. now rewrite andb_false_r.
  - rewrite app_length in Hlen. cbn [length] in Hlen.
    apply Forall_app in Hall. destruct Hall as [Hall Hx]. inversion Hx as [|? ? Hx' _]; subst.
    specialize (IH ltac:(lia) Hall).
    rewrite map_app, fold_left_app. cbn [map fold_left].
    destruct (fold_left (pstep N) (map (lit U64) l) (0, 0)) as [acc j].
    cbn [fst snd] in IH. destruct IH as [Hj IH]. subst j.
    cbn [pstep fst snd val lit]. rewrite app_length. cbn [length]. split; [lia|].
    intros p Hp. rewrite (wrap_small_u U64 x) by (try reflexivity; cbn; lia).
    rewrite Z.lor_spec, IH, pdep64_bits by assumption. unfold pbit.
    pose proof (Z.mod_pos_bound p N ltac:(lia)) as B.
    rewrite morton_mask_spec by lia.
    destruct (Z.ltb_spec p 64) as [H64|H64]; [|reflexivity]. cbn [andb].
    destruct (Z.eqb_spec (p mod N) (Z.of_nat (length l))) as [E|E].
    + rewrite <- E at 2. rewrite popcount_mask_at by lia. cbn [andb].
      destruct (Z.ltb_spec (p mod N) (Z.of_nat (length l))); [lia|].
      destruct (Z.ltb_spec (p mod N) (Z.of_nat (length l + 1))); [|lia]. cbn [andb orb].
      rewrite app_nth2 by lia. replace (Z.to_nat (p mod N) - length l)%nat with 0%nat by lia. reflexivity.
    + cbn [andb]. rewrite orb_false_r.
      destruct (Z.ltb_spec (p mod N) (Z.of_nat (length l))).
      * destruct (Z.ltb_spec (p mod N) (Z.of_nat (length l + 1))); [|lia]. cbn [andb].
        rewrite app_nth1 by lia. reflexivity.
      * destruct (Z.ltb_spec (p mod N) (Z.of_nat (length l + 1))); [lia|]. reflexivity.
Qed.

(* BMI2 and portable implementations agree on the documented domain *)
Theorem morton_pdep_eq_portable (c : list Z) :
  (1 <= length c <= 64)%nat ->
  coords_below (64 / Z.of_nat (length c)) c ->
  pdep_compute (Z.of_nat (length c)) (map (lit U64) c)
  = Ok (lit U64 (morton (length c) (Z.to_nat (64 / Z.of_nat (length c))) c)).
Proof.
  intros Hlen Hc. unfold pdep_compute. do 2 f_equal.
  set (N := Z.of_nat (length c)) in *.
  assert (HN : 1 <= N <= 64) by lia.
  assert (Hb : 0 <= 64 / N <= 64).
  { split; [apply Z.div_pos; lia|]. apply Z.div_le_upper_bound; nia. }
  change (fst (fold_left (pstep N) (map (lit U64) c) (0, 0)) = morton (length c) (Z.to_nat (64 / N)) c).
  destruct (pfold_spec N HN c ltac:(lia)) as [_ Hbits].
  { eapply Forall_impl; [|exact Hc]. cbv beta. intros x Hx. split; [lia|].
    apply Z.lt_le_trans with (2 ^ (64 / N)); [lia|]. apply Z.pow_le_mono_r; lia. }
  apply Z.bits_inj'. intros p Hp. rewrite Hbits by assumption.
  rewrite morton_bits by lia. fold N. rewrite Z2Nat.id by lia.
  pose proof (Z.mod_pos_bound p N ltac:(lia)) as B.
  destruct (Z.ltb_spec (p mod N) N); [|lia]. rewrite andb_true_r.
  destruct (Z.ltb_spec (p / N) (64 / N)) as [Hq|Hq].
  - destruct (Z.ltb_spec p 64) as [|H64]; [reflexivity|]. exfalso.
    pose proof (Z.div_mod p N ltac:(lia)). pose proof (Z.div_mod 64 N ltac:(lia)).
    pose proof (Z.mod_pos_bound 64 N ltac:(lia)). nia.
  - rewrite (high_bits_zero (64 / N) c) by (try assumption; lia). now rewrite andb_false_r.
Qed.

(* just outside the domain the two implementations really differ (N = 3, 22nd bit set):
   the portable loop drops the bit, pdep deposits it at position 63 *)
Example morton_pdep_differs_outside_domain :
  pdep_compute 3 (map (lit U64) [2 ^ 21; 0; 0]) <> Ok (lit U64 (morton 3 21 [2 ^ 21; 0; 0])).
Proof. vm_compute. intros H. discriminate H. Qed.
