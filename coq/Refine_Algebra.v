(* Refine_Algebra.v -- C09 / C02: the loop programs of covfie::algebra, as translated from the source on
   this run (gen/Gen_Algebra.v), compute exactly AlgebraCore's list functions -- the definitions the theorems
   of AlgebraProofs.v are about and that the executable model runs with IEEE arithmetic -- for ARBITRARY scalar
   operations (no ring law is used: the equality is syntactic, operation by operation, in the code's summation
   order), for every matrix entry (symbolic), for the shapes the library uses: products of shapes up to 5 x 5
   (N + 1 for N <= 4), affine transforms of dimension N = 1..4.

   Each statement is proved by case analysis on the (bounded) shape and evaluation of both sides to the same
   expression tree over the abstract operations. *)
From Coq Require Import String List Arith Lia.
From Covfie Require Import AlgebraCore MatLang.
From Covfie.gen Require Import Gen_Algebra.
Import ListNotations.
Local Open Scope string_scope.

Section Refine.
  Variable T : Type.
  Variables (zero one : T) (add mul : T -> T -> T).
  Notation mat := (nat -> nat -> T).

  Definition zmat : mat := fun _ _ => zero.
  Definition mk_state (ds : list (string * nat)) (ms : list (string * mat)) (ars : list (string * (nat -> T))) : state T :=
    {| mats := fold_right (fun '(x, v) f => upd f x v) (fun _ => zmat) ms;
       arrs := fold_right (fun '(x, v) f => upd f x v) (fun _ _ => zero) ars;
       locs := fun _ => zero; ivars := fun _ => O;
       dims := fold_right (fun '(x, v) f => upd f x v) (fun _ => O) ds |}.

  (* the two leaf functions: no calls inside (the callee arguments are never used) *)
  Definition no_mul : nat -> nat -> nat -> mat -> mat -> mat := fun _ _ _ a _ => a.
  Definition no_id : nat -> nat -> mat := fun _ _ => zmat.
  Definition no_apply : nat -> mat -> mat -> mat := fun _ a _ => a.
  Definition g_mul (n m p : nat) (A B : mat) : mat :=
    run_func zero one add mul no_mul no_id no_apply g_matmul (mk_state [("N", n); ("M", m); ("P", p)] [("this", A); ("o", B)] []).
  Definition g_id (n m : nat) : mat :=
    run_func zero one add mul no_mul no_id no_apply g_identity (mk_state [("N", n); ("M", m)] [] []).
  (* the affine functions call them *)
  Definition g_apply (n : nat) (A V : mat) : mat :=
    run_func zero one add mul g_mul g_id no_apply g_affine_apply (mk_state [("N", n)] [("this", A); ("v", V)] []).
  Definition g_compose (n : nat) (A B : mat) : mat :=
    run_func zero one add mul g_mul g_id no_apply g_affine_compose (mk_state [("N", n)] [("this", A); ("m", B)] []).
  Definition g_trans (n : nat) (t : nat -> T) : mat :=
    run_func zero one add mul g_mul g_id no_apply g_translation (mk_state [("N", n)] [] [("arr", t)]).
  Definition g_scale (n : nat) (s : nat -> T) : mat :=
    run_func zero one add mul g_mul g_id no_apply g_scaling (mk_state [("N", n)] [] [("arr", s)]).

  (* the affine LAYER's lookup (backend/transformer/affine.hpp): the coordinate handed to the backend *)
  Definition g_layer (n : nat) (A C : mat) : mat :=
    run_func zero one add mul g_mul g_id g_apply g_affine_layer_at (mk_state [("N", n)] [("m_transform", A); ("c", C)] []).

  Ltac upto5 n := destruct n as [|[|[|[|[|[|n]]]]]]; [| | | | | | exfalso; lia].
  Ltac from1to4 n := destruct n as [|[|[|[|[|n]]]]]; [exfalso; lia| | | | | exfalso; lia].

  Theorem matmul_refines n m p (A B : mat) : (n <= 5)%nat -> (m <= 5)%nat -> (p <= 5)%nat ->
    tab n p (g_mul n m p A B) = mat_mul zero add mul p (tab n m A) (tab m p B).
  Proof. intros Hn Hm Hp. upto5 n; upto5 m; upto5 p; vm_compute; reflexivity. Qed.

  Theorem identity_refines n : (1 <= n <= 4)%nat -> tab n (S n) (g_id n (S n)) = affine_identity zero one n.
  Proof. intros Hn. from1to4 n; vm_compute; reflexivity. Qed.

  Theorem affine_apply_refines n (A V : mat) : (1 <= n <= 4)%nat ->
    tabv n (g_apply n A V) = affine_apply zero one add mul (tab n (S n) A) (tabv n V).
  Proof. intros Hn. from1to4 n; vm_compute; reflexivity. Qed.

  Theorem affine_compose_refines n (A B : mat) : (1 <= n <= 4)%nat ->
    tab n (S n) (g_compose n A B) = affine_compose zero one add mul n (tab n (S n) A) (tab n (S n) B).
  Proof. intros Hn. from1to4 n; vm_compute; reflexivity. Qed.

  Theorem translation_refines n (t : nat -> T) : (1 <= n <= 4)%nat ->
    tab n (S n) (g_trans n t) = translation zero one (map t (seq 0 n)).
  Proof. intros Hn. from1to4 n; vm_compute; reflexivity. Qed.

  Theorem scaling_refines n (s : nat -> T) : (1 <= n <= 4)%nat ->
    tab n (S n) (g_scale n s) = scaling zero one (map s (seq 0 n)).
  Proof. intros Hn. from1to4 n; vm_compute; reflexivity. Qed.
  (* the layer hands its backend  A.c + t  as this algebra computes it *)
  Theorem affine_layer_refines n (A C : mat) : (1 <= n <= 4)%nat ->
    tabv n (g_layer n A C) = affine_apply zero one add mul (tab n (S n) A) (tabv n C).
  Proof. intros Hn. from1to4 n; vm_compute; reflexivity. Qed.
End Refine.
