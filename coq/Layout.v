(* Layout.v -- specification-level index functions of the storage-order layers and their
   theorems (C14, C01, C18's sizing consequence):
     rowmajor  : sum_k c_k * prod_{l>k} sizes_l
     morton    : the double shift/or loop of morton.hpp as a fold over pure Z, characterised bit by
                 bit as the interleave (bit i of coordinate j at position i*N+j)
   The Hilbert curve lives in Hilbert.v. *)
From Coq Require Import ZArith List Lia Bool ZifyBool ZifyNat.
Import ListNotations.
Local Open Scope Z_scope.
Ltac Zify.zify_post_hook ::= Z.div_mod_to_equations.

Definition zprod (l : list Z) : Z := fold_right Z.mul 1 l.

(* ------------------------------------------------------------------ row-major *)
Fixpoint rowmajor (sizes c : list Z) : Z :=
  match sizes, c with
  | _ :: ss, x :: cs => x * zprod ss + rowmajor ss cs
  | _, _ => 0
  end.

(* a second, independent reading of "row-major": Horner's scheme *)
Fixpoint horner (sizes c : list Z) (acc : Z) : Z :=
  match sizes, c with
  | s :: ss, x :: cs => horner ss cs (acc * s + x)
  | _, _ => acc
  end.

Definition in_box (sizes c : list Z) : Prop := Forall2 (fun x s => 0 <= x < s) c sizes.

Lemma zprod_pos sizes : Forall (fun s => 0 < s) sizes -> 0 < zprod sizes.
Proof. induction 1 as [|s ss Hs _ IH]; cbn [zprod fold_right]; [lia|]. fold (zprod ss). nia. Qed.

Lemma horner_acc sizes : forall c acc, length sizes = length c ->
  horner sizes c acc = acc * zprod sizes + rowmajor sizes c.
Proof.
  induction sizes as [|s ss IH]; intros [|x cs] acc Hl;
    cbn [horner rowmajor zprod fold_right length] in *; try lia.
  rewrite IH by lia. fold (zprod ss). ring.
Qed.

Theorem rowmajor_horner sizes c : length sizes = length c -> rowmajor sizes c = horner sizes c 0.
Proof. intros H. rewrite horner_acc by assumption. ring. Qed.

Lemma in_box_pos sizes c : in_box sizes c -> Forall (fun s => 0 < s) sizes.
Proof. induction 1; constructor; [lia|assumption]. Qed.

Theorem rowmajor_range sizes c : in_box sizes c -> 0 <= rowmajor sizes c < zprod sizes.
Proof.
  induction 1 as [|x s cs ss Hx Hrest IH]; cbn [rowmajor zprod fold_right]; [lia|].
  fold (zprod ss). pose proof (zprod_pos ss (in_box_pos _ _ Hrest)). nia.
Qed.

Theorem rowmajor_inj sizes c c' : in_box sizes c -> in_box sizes c' ->
  rowmajor sizes c = rowmajor sizes c' -> c = c'.
Proof.
  intros H. revert c'. induction H as [|x s cs ss Hx Hrest IH]; intros c' H' E.
  - now inversion H'.
  - inversion H' as [|x' s' cs' ss' Hx' Hrest']; subst. cbn [rowmajor] in E.
    pose proof (rowmajor_range ss cs Hrest) as R1. pose proof (rowmajor_range ss cs' Hrest') as R2.
    assert (x = x') by nia. subst x'. f_equal. apply IH; [assumption|lia].
Qed.

(* ------------------------------------------------------------------ Morton *)
(* the term OR-ed in at step (i,j) has exactly one candidate bit: i*N+j *)
Lemma term_bit (cj i j N p : Z) :
  0 <= i -> 0 <= j < N -> 0 <= p ->
  Z.testbit (Z.shiftl (Z.land cj (Z.shiftl 1 i)) (i * (N - 1) + j)) p
  = (p =? i * N + j) && Z.testbit cj i.
Proof.
  intros Hi Hj Hp.
  assert (Hs : 0 <= i * (N - 1) + j) by nia.
  rewrite Z.shiftl_spec by lia.
  destruct (Z.ltb_spec p (i * (N - 1) + j)) as [Hlt|Hge].
  - rewrite Z.testbit_neg_r by lia. destruct (Z.eqb_spec p (i * N + j)); [nia|reflexivity].
  - rewrite Z.land_spec. rewrite Z.shiftl_1_l. rewrite Z.pow2_bits_eqb by lia.
    destruct (Z.eqb_spec i (p - (i * (N - 1) + j))) as [E|E].
    + rewrite <- E. rewrite andb_true_r. destruct (Z.eqb_spec p (i * N + j)); [reflexivity|nia].
    + rewrite andb_false_r. destruct (Z.eqb_spec p (i * N + j)); [nia|reflexivity].
Qed.

(* model of the double loop, over lists of coordinates *)
Definition step (N : Z) (c : list Z) (i : Z) (idx : Z) (j : Z) : Z :=
  Z.lor idx (Z.shiftl (Z.land (nth (Z.to_nat j) c 0) (Z.shiftl 1 i)) (i * (N - 1) + j)).
Definition zseq (n : nat) : list Z := map Z.of_nat (seq 0 n).
Definition inner (N : nat) (c : list Z) (idx : Z) (i : Z) : Z :=
  fold_left (step (Z.of_nat N) c i) (zseq N) idx.
Definition morton (N b : nat) (c : list Z) : Z := fold_left (inner N c) (zseq b) 0.

Definition bitspec (N : Z) (c : list Z) (done : Z -> Z -> bool) (p : Z) : bool :=
  done (p / N) (p mod N) && Z.testbit (nth (Z.to_nat (p mod N)) c 0) (p / N).

Lemma zseq_S n : zseq (S n) = zseq n ++ [Z.of_nat n].
Proof. unfold zseq. rewrite seq_S, map_app. reflexivity. Qed.

Lemma inner_spec (N : nat) c i idx (done : Z -> Z -> bool) :
  (0 < N)%nat -> 0 <= i ->
  (forall p, 0 <= p -> Z.testbit idx p = bitspec (Z.of_nat N) c done p) ->
  (forall j, done i j = false) ->
  forall m, (m <= N)%nat ->
  forall p, 0 <= p ->
    Z.testbit (fold_left (step (Z.of_nat N) c i) (zseq m) idx) p
    = bitspec (Z.of_nat N) c (fun i' j' => done i' j' || ((i' =? i) && (j' <? Z.of_nat m))) p.
Proof.
  intros HN Hi Hidx Hfresh. induction m as [|m IH]; intros Hm p Hp.
  - cbn [zseq seq map fold_left]. rewrite Hidx by assumption. unfold bitspec. f_equal.
    destruct (p mod Z.of_nat N <? Z.of_nat 0) eqn:E; [lia|]. now rewrite andb_false_r, orb_false_r.
  - rewrite zseq_S, fold_left_app. cbn [fold_left]. unfold step at 1.
    rewrite Z.lor_spec, IH by (lia || assumption).
    rewrite term_bit by lia. unfold bitspec.
    set (q := p / Z.of_nat N). set (r := p mod Z.of_nat N).
    assert (Hqr : p = q * Z.of_nat N + r /\ 0 <= r < Z.of_nat N) by (unfold q, r; lia).
    destruct (Z.eqb_spec p (i * Z.of_nat N + Z.of_nat m)) as [E|E].
    + assert (Hq : q = i) by (unfold q; rewrite E; symmetry; apply Z.div_unique with (Z.of_nat m); lia).
      assert (Hr : r = Z.of_nat m) by lia. clearbody q r. subst q r.
      rewrite Hfresh, Z.eqb_refl, Nat2Z.id. cbn [orb andb].
      destruct (Z.ltb_spec (Z.of_nat m) (Z.of_nat m)); [lia|].
      destruct (Z.ltb_spec (Z.of_nat m) (Z.of_nat (S m))); [|lia]. cbn. reflexivity.
    + cbn [andb]. rewrite orb_false_r. f_equal. f_equal.
      destruct (Z.eqb_spec q i) as [->|]; [|reflexivity]. cbn [andb].
      assert ((r <? Z.of_nat m) = (r <? Z.of_nat (S m))) as -> by lia. reflexivity.
Qed.

(* THE INTERLEAVE: bit p of the index is bit (p / N) of coordinate (p mod N), for p / N < b;
   in particular coordinate 0 occupies the least significant position of every group *)
Theorem morton_bits (N b : nat) c p : (0 < N)%nat -> 0 <= p ->
  Z.testbit (morton N b c) p
  = (p / Z.of_nat N <? Z.of_nat b) && Z.testbit (nth (Z.to_nat (p mod Z.of_nat N)) c 0) (p / Z.of_nat N).
Proof.
  intros HN. unfold morton. revert p.
  enough (G : forall m p, 0 <= p -> Z.testbit (fold_left (inner N c) (zseq m) 0) p =
             bitspec (Z.of_nat N) c (fun i' _ => i' <? Z.of_nat m) p) by (intros; now rewrite G).
  induction m as [|m IH]; intros p Hp.
  - cbn [zseq seq map fold_left]. rewrite Z.testbit_0_l. unfold bitspec. symmetry. apply andb_false_iff. left. pose proof (Z.div_pos p (Z.of_nat N) Hp ltac:(lia)). lia.
  - rewrite zseq_S, fold_left_app. cbn [fold_left]. unfold inner at 1.
    rewrite (inner_spec N c (Z.of_nat m) _ (fun i' _ => i' <? Z.of_nat m)); try lia; try assumption.
    unfold bitspec. f_equal.
    set (q := p / Z.of_nat N). set (r := p mod Z.of_nat N).
    assert (0 <= r < Z.of_nat N) by (unfold r; lia). clearbody q r. lia.
Qed.

Lemma divmod_lin i N n : 0 <= n < N -> (i * N + n) / N = i /\ (i * N + n) mod N = n.
Proof. intros H. split.
  - rewrite Z.div_add_l by lia. rewrite Z.div_small by lia. lia.
  - rewrite Z.add_comm, Z.mod_add by lia. apply Z.mod_small; lia. Qed.

Definition coords_below (b : Z) (c : list Z) : Prop := Forall (fun x => 0 <= x < 2 ^ b) c.

Lemma high_bits_zero b l n i : 0 <= b -> coords_below b l -> (n < length l)%nat -> b <= i ->
  Z.testbit (nth n l 0) i = false.
Proof.
  intros Hb Hf Hlen Hi.
  pose proof (proj1 (Forall_forall _ _) Hf (nth n l 0) (nth_In _ _ Hlen)) as Hx. cbv beta in Hx.
  destruct (Z.eq_dec (nth n l 0) 0) as [->|]; [apply Z.testbit_0_l|].
  apply Z.bits_above_log2; [lia|]. apply Z.lt_le_trans with b; [|lia].
  apply Z.log2_lt_pow2; lia.
Qed.

Theorem morton_inj (N b : nat) c c' : (0 < N)%nat ->
  length c = N -> length c' = N ->
  coords_below (Z.of_nat b) c -> coords_below (Z.of_nat b) c' ->
  morton N b c = morton N b c' -> c = c'.
Proof.
  intros HN Hl Hl' Hc Hc' E.
  apply nth_ext with (d := 0) (d' := 0); [congruence|]. intros n Hn.
  apply Z.bits_inj'. intros i Hi.
  destruct (Z.ltb_spec i (Z.of_nat b)) as [Hib|Hib].
  - pose proof (morton_bits N b c (i * Z.of_nat N + Z.of_nat n) HN ltac:(nia)) as B.
    pose proof (morton_bits N b c' (i * Z.of_nat N + Z.of_nat n) HN ltac:(nia)) as B'.
    rewrite E in B. rewrite B in B'.
    destruct (divmod_lin i (Z.of_nat N) (Z.of_nat n) ltac:(lia)) as [Ed Em]. rewrite Ed, Em in B'.
    rewrite Nat2Z.id in B'. destruct (Z.ltb_spec i (Z.of_nat b)); [|lia]. exact B'.
  - rewrite !(high_bits_zero (Z.of_nat b)); auto; try lia; congruence.
Qed.

Lemma morton_nonneg (N b : nat) c : Forall (fun x => 0 <= x) c -> 0 <= morton N b c.
Proof.
  intros Hc. unfold morton.
  assert (Hnth : forall j, 0 <= nth j c 0).
  { intros j. destruct (Nat.lt_ge_cases j (length c)) as [H|H].
    - exact (proj1 (Forall_forall _ _) Hc _ (nth_In _ _ H)).
    - rewrite nth_overflow by lia. lia. }
  assert (Hstep : forall i l idx, 0 <= idx -> 0 <= fold_left (step (Z.of_nat N) c i) l idx).
  { intros i l. induction l as [|j l IH]; intros idx Hidx; cbn [fold_left]; [assumption|].
    apply IH. unfold step. apply Z.lor_nonneg. split; [assumption|].
    apply Z.shiftl_nonneg. apply Z.land_nonneg. left. apply Hnth. }
  assert (G : forall l idx, 0 <= idx -> 0 <= fold_left (inner N c) l idx).
  { induction l as [|i l IH]; intros idx Hidx; cbn [fold_left]; [assumption|].
    apply IH. unfold inner. now apply Hstep. }
  apply G. lia.
Qed.

(* sizing: if every coordinate is below 2^m (m <= b) the index is below (2^m)^N = 2^(N*m) *)
Theorem morton_lt_cap (N b : nat) c m : (0 < N)%nat -> length c = N -> 0 <= m <= Z.of_nat b ->
  coords_below m c -> 0 <= morton N b c < 2 ^ (Z.of_nat N * m).
Proof.
  intros HN Hl Hm Hc.
  assert (Hnn : 0 <= morton N b c).
  { apply morton_nonneg. eapply Forall_impl; [|exact Hc]. cbv beta. intros; lia. }
  split; [assumption|].
  destruct (Z.eq_dec (morton N b c) 0) as [->|Hne]; [apply Z.pow_pos_nonneg; nia|].
  apply Z.log2_lt_pow2; [lia|].
  destruct (Z.lt_ge_cases (Z.log2 (morton N b c)) (Z.of_nat N * m)) as [|Hge]; [assumption|exfalso].
  pose proof (Z.bit_log2 (morton N b c) ltac:(lia)) as Hbit.
  rewrite morton_bits in Hbit by (try apply Z.log2_nonneg; lia).
  apply andb_true_iff in Hbit. destruct Hbit as [_ Hbit].
  set (p := Z.log2 (morton N b c)) in *.
  assert (Hq : m <= p / Z.of_nat N) by (apply Z.div_le_lower_bound; lia).
  assert (Hr : (Z.to_nat (p mod Z.of_nat N) < length c)%nat).
  { rewrite Hl. assert (0 <= p mod Z.of_nat N < Z.of_nat N) by (apply Z.mod_pos_bound; lia). lia. }
  rewrite (high_bits_zero m c _ _ ltac:(lia) Hc Hr Hq) in Hbit. discriminate.
Qed.

(* non-vacuity *)
Example rowmajor_4x5x6 : rowmajor [4; 5; 6] [1; 2; 3] = 45. Proof. reflexivity. Qed.
Example morton_3_5_7 : morton 3 21 [3; 5; 7] = 431. Proof. vm_compute. reflexivity. Qed.
