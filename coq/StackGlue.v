(* StackGlue.v -- token-level glue between the text cases and the model of Stack.v / BinIO.v:
   building a field from the flat list of numbers a case line carries, and flattening it back.
   (Shared by the OCaml driver; mirrors harness/vh_stack.hpp build<B> / show_configs / show_storage.) *)
From Coq Require Import ZArith List Bool.
From Covfie Require Import Stack.
Import ListNotations.
Local Open Scope Z_scope.

Definition takeN (n : nat) (l : list Z) : option (list Z * list Z) :=
  if (n <=? length l)%nat then Some (firstn n l, skipn n l) else None.

Definition parse_cfg (l : layer) (k : kind) (ts : list Z) : option (cfg * list Z) :=
  match l with
  | LStrided n _ | LMorton n _ _ => match takeN n ts with Some (s, r) => Some (CSizes s, r) | None => None end
  | LHilbert _ => match takeN 2 ts with Some (s, r) => Some (CSizes s, r) | None => None end
  | LClamp =>
      match takeN (k_n k) ts with
      | Some (lo, r) => match takeN (k_n k) r with Some (hi, r') => Some (CBox lo hi, r') | None => None end
      | None => None
      end
  | LBackup =>
      match takeN (k_n k) ts with
      | Some (lo, r) =>
          match takeN (k_n k) r with
          | Some (hi, r') => match takeN (k_m k) r' with Some (d, r'') => Some (CBackup lo hi d, r'') | None => None end
          | None => None
          end
      | None => None
      end
  | LAffine => match takeN (k_n k * S (k_n k)) ts with Some (m, r) => Some (CAffine m, r) | None => None end
  | _ => Some (CUnit, ts)
  end.

Definition parse_prim (p : prim) (ts : list Z) : option (pdat * list Z) :=
  match p with
  | PArray m _ =>
      match ts with
      | len :: r => match takeN (Z.to_nat len * m) r with Some (d, r') => Some (DArray len d, r') | None => None end
      | [] => None
      end
  | PConstant _ _ m _ => match takeN m ts with Some (v, r) => Some (DConst v, r) | None => None end
  | PIdentity _ _ => Some (DIdent, ts)
  | PProbe _ _ _ _ => Some (DIdent, ts)
  end.

Fixpoint parse_layers (ls : list layer) (p : prim) (ts : list Z) : option (list cfg * pdat * list Z) :=
  match ls with
  | [] => match parse_prim p ts with Some (d, r) => Some ([], d, r) | None => None end
  | l :: ls' =>
      match kind_of_layers ls' p with
      | None => None
      | Some k =>
          match parse_cfg l k ts with
          | None => None
          | Some (g, r) =>
              match parse_layers ls' p r with
              | Some (gs, d, r') => Some (g :: gs, d, r')
              | None => None
              end
          end
      end
  end.

Definition parse_fld (s : stack) (ts : list Z) : option fld :=
  match parse_layers (fst s) (snd s) ts with
  | Some (gs, d, _) => Some {| f_cfgs := gs; f_prim := d |}
  | None => None
  end.

Definition cfg_tokens (g : cfg) : list Z :=
  match g with
  | CSizes s => s
  | CBox lo hi => lo ++ hi
  | CBackup lo hi d => lo ++ hi ++ d
  | CAffine m => m
  | CUnit => []
  end.
Definition prim_cfg_tokens (d : pdat) : list Z :=
  match d with DArray len _ => [len] | DConst v => v | DIdent => [] end.
(* one group per layer, outermost first, then the primitive *)
Definition fld_cfg_groups (f : fld) : list (list Z) := map cfg_tokens (f_cfgs f) ++ [prim_cfg_tokens (f_prim f)].
Definition fld_storage (f : fld) : option (list Z) :=
  match f_prim f with DArray len d => Some (len :: d) | _ => None end.
