(* LinearCore.v -- the arithmetic skeleton of linear.hpp's four branches, polymorphic in the scalar
   type so that the SAME definitions are instantiated (a) with IEEE arithmetic on bit patterns
   (Stack.linear_at, the executable model compared with the code) and (b) with an arbitrary
   commutative ring (LinearProofs.v, where they are proved to be the N-linear interpolant).

   Specialised branches (N = 1, 2, 3): neighbour n uses bit (N-1-k) of n for axis k, its weight is
   the product w_0 * w_1 * ... from left to right WITHOUT a leading 1, the terms are summed from left
   to right starting with the first term.  Generic branch: bit k of n for axis k, weight
   1 * w_0 * w_1 ..., accumulated from an initial zero by a step function. *)
From Coq Require Import List Arith.
Import ListNotations.

Section Core.
  Variable T : Type.
  Variable one : T.
  Variable mul : T -> T -> T.

  Definition sel (bit : bool) (a ra : T) : T := if bit then a else ra.

  (* f * prod_{k >= m} sel (bit k of n) a_k ra_k, multiplying on the right, axis by axis *)
  Fixpoint weight_from (m : nat) (a ra : list T) (n : nat) (f : T) : T :=
    match a, ra with
    | am :: a', rm :: ra' => weight_from (S m) a' ra' n (mul f (sel (Nat.testbit n m) am rm))
    | _, _ => f
    end.
  Definition weight_generic (a ra : list T) (n : nat) : T := weight_from 0 a ra n one.

  (* the same with axis k on bit (N-1-k) *)
  Fixpoint weight_rev_from (N k : nat) (a ra : list T) (n : nat) (f : T) : T :=
    match a, ra with
    | ak :: a', rk :: ra' => weight_rev_from N (S k) a' ra' n (mul f (sel (Nat.testbit n (N - 1 - k)) ak rk))
    | _, _ => f
    end.
  Definition weight_special (a ra : list T) (n : nat) : T :=
    let N := length a in
    match a, ra with
    | a0 :: a', r0 :: ra' => weight_rev_from N 1 a' ra' n (sel (Nat.testbit n (N - 1)) a0 r0)
    | _, _ => one
    end.

  Variable zero : T.
  Variable add : T -> T -> T.
  Definition sum_special (terms : list T) : T :=
    match terms with [] => zero | t0 :: rest => fold_left add rest t0 end.
End Core.
Arguments sel {T}. Arguments weight_from {T}. Arguments weight_generic {T}. Arguments weight_rev_from {T}.
Arguments weight_special {T}. Arguments sum_special {T}.
