(* Extract_numeric.v -- executable entry points for the correspondence check of
   utility/numeric.hpp: the GENERATED kernels and the specification functions. *)
Require Import ExtrOcamlBasic.
From Coq Require Import ZArith Zpow_facts.
From Covfie Require Import CKernel Numeric.
From Covfie.gen Require Import Gen_Numeric.
Local Open Scope Z_scope.

Definition uty (w : Z) : cty := {| csigned := false; cwidth := w |}.
(* outcomes other than a value are encoded as negative numbers *)
Definition res_code (r : res tv) : Z :=
  match r with Ok v => val v | UB _ => -1 | AssertFail => -2 | OutOfFuel => -3 end.
Definition run_round_pow2 (w i : Z) : Z :=
  res_code (gen_round_pow2 (uty w) (Z.to_nat w + 2) (lit (uty w) i)).
Definition run_ipow (w b e : Z) : Z :=
  res_code (gen_ipow (uty w) (Z.to_nat w + 2) (lit (uty w) b) (lit (uty w) e)).
Definition spec_round_pow2 (w i : Z) : Z := if i =? 0 then 1 else pow2_ceil i.
(* b ^ e mod 2 ^ w, computed by the standard library's modular exponentiation
   (Zpow_facts.Zpow_mod_correct : n <> 0 -> Zpow_mod a m n = a ^ m mod n) *)
Definition spec_ipow (w b e : Z) : Z := Zpow_mod b e (2 ^ w).

Definition keep_number_types (z : Z) (n : N) (k : nat) := (z, n, k).
Separate Extraction run_round_pow2 run_ipow spec_round_pow2 spec_ipow keep_number_types.
