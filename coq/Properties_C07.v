(* Properties_C07.v -- C07: files are portable across interpolation method and storage precision.
   Only the property theorems, closed by [exact].  The grammar clause ("the byte stream always
   follows the nested header / payload / footer grammar") is C08_segments_are_the_dump together with
   the definition of dump_segs; golden files and revisions are the correspondence part (props/c07.py). *)
From Coq Require Import ZArith List Bool Reals.
From Flocq Require Import Core.Core IEEE754.Binary.
From Covfie Require Import Stack BinIO BinIOProofs BinIOPortable FloatOps FloatFacts.
Import ListNotations.
Local Open Scope Z_scope.

(* stacks that differ only in the interpolation method (linear <-> nearest neighbour at the same
   positions, same coordinate type) have THE SAME writer and THE SAME reader: any file of one loads
   into the other with identical configuration and storage *)
Theorem C07_interp_blind : forall ops ls ls' p k k', map erase ls = map erase ls' ->
  kind_of_layers ls p = Some k -> kind_of_layers ls' p = Some k' ->
  (forall f, dump (ls, p) f = dump (ls', p) f) /\ (forall bs, load ops (ls, p) bs = load ops (ls', p) bs).
Proof. exact interp_blind. Qed.

(* a file written over array<t> loads into the same stack over array<t'>: every stored scalar is
   converted by static_cast, every configuration and the element count are unchanged *)
Theorem C07_load_cross : forall ops ls m t t' f len data bs tl,
  no_backup ls = true -> is_float t' = true -> f_prim f = DArray len data ->
  wf_fld (ls, PArray m t) f = true -> dump (ls, PArray m t) f = Some bs ->
  load ops (ls, PArray m t') (bs ++ tl) =
    Good ({| f_cfgs := f_cfgs f; f_prim := DArray len (map (s_conv ops t t') data) |}, tl).
Proof. exact load_cross. Qed.

(* ... and what that conversion is, in real numbers: exact when widening, round-to-nearest-even when
   narrowing a value whose rounding is below 2^128 *)
Theorem C07_widen_exact : forall v, is_finite 24 128 (of32 v) = true ->
  B2R 53 1024 (of64 (s_conv flocq_ops F32 F64 v)) = B2R 24 128 (of32 v) /\
  is_finite 53 1024 (of64 (s_conv flocq_ops F32 F64 v)) = true.
Proof. exact conv_widen_exact. Qed.
Theorem C07_narrow_rounds_to_nearest_even : forall v, is_finite 53 1024 (of64 v) = true ->
  (Rabs (round radix2 fexp32 ZnearestE (B2R 53 1024 (of64 v))) < bpow radix2 128)%R ->
  B2R 24 128 (of32 (s_conv flocq_ops F64 F32 v)) = round radix2 fexp32 ZnearestE (B2R 53 1024 (of64 v)) /\
  is_finite 24 128 (of32 (s_conv flocq_ops F64 F32 v)) = true.
Proof. exact conv_narrow_RNE. Qed.

(* non-vacuity: 0.1 (double) narrows to 0x3DCCCCCD; 0.1f widens to 0x3FB99999A0000000 *)
Example C07_example : s_conv flocq_ops F64 F32 4591870180066957722 = 1036831949 /\
                      s_conv flocq_ops F32 F64 1036831949 = 4591870180174331904.
Proof. split; vm_compute; reflexivity. Qed.

Print Assumptions C07_interp_blind.
Print Assumptions C07_load_cross.
Print Assumptions C07_widen_exact.
Print Assumptions C07_narrow_rounds_to_nearest_even.
