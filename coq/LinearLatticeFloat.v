(* LinearLatticeFloat.v -- the laws LinearLattice.v asks of the scalar operations, proved of IEEE 754
   binary32 / binary64 arithmetic as FloatOps.flocq_ops (Flocq) defines it, and the resulting theorems:
   at a lattice point the interpolation code (both branches, every N, every float / double combination)
   returns a finite value with the same real value as the stored one -- converted through the coordinate
   precision when that is the narrower one -- provided the surrounding stored values are finite at the
   coordinate precision (0 * inf is NaN in the code as well). *)
From Coq Require Import ZArith Reals Lia Lra Bool List.
From Flocq Require Import Core.Core IEEE754.BinarySingleNaN IEEE754.Binary IEEE754.Bits.
From Covfie Require Import LinearCore Stack FloatOps FloatFacts LinearLattice.
Import ListNotations.
Local Open Scope Z_scope.

(* ---- at the level of one format ---- *)
Section Fmt.
  Variable prec emax : Z.
  Context (Hp : FLX.Prec_gt_0 prec) (Hm : Prec_lt_emax prec emax).
  Notation bf := (binary_float prec emax).
  Notation fexp := (SpecFloat.fexp prec emax).
  Notation rnd := (round radix2 fexp ZnearestE).
  Variable nanf : bf -> bf -> {x : bf | is_nan prec emax x = true}.

  Definition vz (x : bf) := is_finite prec emax x = true /\ B2R prec emax x = 0%R.
  Definition veq (x y : bf) := is_finite prec emax x = true /\ is_finite prec emax y = true /\ B2R prec emax x = B2R prec emax y.

  Lemma rnd_B2R (x : bf) : rnd (B2R prec emax x) = B2R prec emax x.
  Proof. apply round_generic; [typeclasses eauto|apply generic_format_B2R]. Qed.

  Lemma lt_emax (x : bf) : Rlt_bool (Rabs (rnd (B2R prec emax x))) (bpow radix2 emax) = true.
  Proof. apply Rlt_bool_true. rewrite rnd_B2R. apply abs_B2R_lt_emax. Qed.

  Lemma lt_emax0 : Rlt_bool (Rabs (rnd 0)) (bpow radix2 emax) = true.
  Proof. apply Rlt_bool_true. rewrite round_0 by typeclasses eauto. rewrite Rabs_R0. apply bpow_gt_0. Qed.

  Lemma plus_zero_r (u z : bf) : is_finite prec emax u = true -> vz z -> veq (Bplus prec emax Hp Hm nanf mode_NE u z) u.
  Proof.
    intros Fu [Fz Bz]. pose proof (Bplus_correct prec emax Hp Hm nanf mode_NE u z Fu Fz) as C.
    cbn [round_mode] in C. rewrite Bz, Rplus_0_r, lt_emax in C. destruct C as [C1 [C2 _]].
    split; [exact C2|]. split; [exact Fu|]. now rewrite C1, rnd_B2R.
  Qed.
  Lemma plus_zero_l (u z : bf) : is_finite prec emax u = true -> vz z -> veq (Bplus prec emax Hp Hm nanf mode_NE z u) u.
  Proof.
    intros Fu [Fz Bz]. pose proof (Bplus_correct prec emax Hp Hm nanf mode_NE z u Fz Fu) as C.
    cbn [round_mode] in C. rewrite Bz, Rplus_0_l, lt_emax in C. destruct C as [C1 [C2 _]].
    split; [exact C2|]. split; [exact Fu|]. now rewrite C1, rnd_B2R.
  Qed.
  Lemma plus_zero_zero (x y : bf) : vz x -> vz y -> vz (Bplus prec emax Hp Hm nanf mode_NE x y).
  Proof.
    intros [Fx Bx] Hy. destruct (plus_zero_r x y Fx Hy) as [A [_ B]]. split; [exact A|]. now rewrite B.
  Qed.
  Lemma minus_zero_r (u z : bf) : is_finite prec emax u = true -> vz z -> veq (Bminus prec emax Hp Hm nanf mode_NE u z) u.
  Proof.
    intros Fu [Fz Bz]. pose proof (Bminus_correct prec emax Hp Hm nanf mode_NE u z Fu Fz) as C.
    cbn [round_mode] in C. rewrite Bz, Rminus_0_r, lt_emax in C. destruct C as [C1 [C2 _]].
    split; [exact C2|]. split; [exact Fu|]. now rewrite C1, rnd_B2R.
  Qed.
  Lemma mult_one_l (f u : bf) : is_finite prec emax f = true -> B2R prec emax f = 1%R -> is_finite prec emax u = true ->
    veq (Bmult prec emax Hp Hm nanf mode_NE f u) u.
  Proof.
    intros Ff Bf Fu. pose proof (Bmult_correct prec emax Hp Hm nanf mode_NE f u) as C.
    cbn [round_mode] in C. rewrite Bf, Rmult_1_l, lt_emax in C. destruct C as [C1 [C2 _]].
    split; [now rewrite C2, Ff, Fu|]. split; [exact Fu|]. now rewrite C1, rnd_B2R.
  Qed.
  Lemma mult_zero_l (z u : bf) : vz z -> is_finite prec emax u = true -> vz (Bmult prec emax Hp Hm nanf mode_NE z u).
  Proof.
    intros [Fz Bz] Fu. pose proof (Bmult_correct prec emax Hp Hm nanf mode_NE z u) as C.
    cbn [round_mode] in C. rewrite Bz, Rmult_0_l, lt_emax0 in C. destruct C as [C1 [C2 _]].
    split; [now rewrite C2, Fz, Fu|]. rewrite C1. apply round_0. typeclasses eauto.
  Qed.
  Lemma mult_zero_r (z u : bf) : is_finite prec emax u = true -> vz z -> vz (Bmult prec emax Hp Hm nanf mode_NE u z).
  Proof.
    intros Fu [Fz Bz]. pose proof (Bmult_correct prec emax Hp Hm nanf mode_NE u z) as C.
    cbn [round_mode] in C. rewrite Bz, Rmult_0_r, lt_emax0 in C. destruct C as [C1 [C2 _]].
    split; [now rewrite C2, Fz, Fu|]. rewrite C1. apply round_0. typeclasses eauto.
  Qed.

  Lemma minus_self (x : bf) : is_finite prec emax x = true -> vz (Bminus prec emax Hp Hm nanf mode_NE x x).
  Proof.
    intros F. pose proof (Bminus_correct prec emax Hp Hm nanf mode_NE x x F F) as C.
    cbn [round_mode] in C. rewrite Rminus_diag_eq in C by reflexivity.
    rewrite lt_emax0 in C. destruct C as [C1 [C2 _]].
    split; [exact C2|]. rewrite C1. apply round_0. typeclasses eauto.
  Qed.

  (* the float with a small integer value *)
  Lemma normalize_small (m : Z) : generic_format radix2 fexp (IZR m) -> (Rabs (IZR m) < bpow radix2 emax)%R ->
    is_finite prec emax (binary_normalize prec emax Hp Hm mode_NE m 0 false) = true /\
    B2R prec emax (binary_normalize prec emax Hp Hm mode_NE m 0 false) = IZR m.
  Proof.
    intros G L. pose proof (binary_normalize_correct prec emax Hp Hm mode_NE m 0 false) as C.
    cbn [round_mode] in C.
    assert (E : F2R (Float radix2 m 0) = IZR m) by (unfold F2R; cbn; lra).
    rewrite E in C. rewrite (round_generic radix2 fexp ZnearestE _ G) in C.
    rewrite (Rlt_bool_true _ _ L) in C. destruct C as [C1 [C2 _]]. split; assumption.
  Qed.

  (* finite values with the same real value are the same float, or both zeros *)
  Lemma same_value (x y : bf) : veq x y -> x = y \/ (vz x /\ vz y).
  Proof.
    intros [Fx [Fy E]].
    destruct (is_finite_strict prec emax x) eqn:Sx, (is_finite_strict prec emax y) eqn:Sy.
    - left. now apply B2R_inj.
    - right. assert (B2R prec emax y = 0%R) by (destruct y; try discriminate; reflexivity).
      split; split; try assumption. congruence.
    - right. assert (B2R prec emax x = 0%R) by (destruct x; try discriminate; reflexivity).
      split; split; try assumption. congruence.
    - right. assert (B2R prec emax x = 0%R) by (destruct x; try discriminate; reflexivity).
      assert (B2R prec emax y = 0%R) by (destruct y; try discriminate; reflexivity).
      split; split; assumption.
  Qed.
End Fmt.

(* ---- on bit patterns ---- *)
Definition Fin (t : sty) (x : Z) : Prop := finite t x = true.
Definition Zr (t : sty) (x : Z) : Prop :=
  match t with
  | F32 => vz 24 128 (of32 x)
  | F64 => vz 53 1024 (of64 x)
  | _ => False
  end.
Definition Veq (t : sty) (x y : Z) : Prop :=
  match t with
  | F32 => veq 24 128 (of32 x) (of32 y)
  | F64 => veq 53 1024 (of64 x) (of64 y)
  | _ => False
  end.

Lemma one32 : is_finite 24 128 (of32 (fofZ F32 1)) = true /\ B2R 24 128 (of32 (fofZ F32 1)) = 1%R.
Proof.
  unfold fofZ, conv. rewrite of32_to32. apply (normalize_small 24 128 Hprec32 Hmax32 1).
  - replace 1%R with (bpow radix2 0) by reflexivity. apply generic_format_bpow. unfold SpecFloat.fexp, SpecFloat.emin. lia.
  - rewrite Rabs_R1. replace 1%R with (bpow radix2 0) by reflexivity. apply bpow_lt. lia.
Qed.
Lemma one64 : is_finite 53 1024 (of64 (fofZ F64 1)) = true /\ B2R 53 1024 (of64 (fofZ F64 1)) = 1%R.
Proof.
  unfold fofZ, conv. rewrite of64_to64. apply (normalize_small 53 1024 Hprec64 Hmax64 1).
  - replace 1%R with (bpow radix2 0) by reflexivity. apply generic_format_bpow. unfold SpecFloat.fexp, SpecFloat.emin. lia.
  - rewrite Rabs_R1. replace 1%R with (bpow radix2 0) by reflexivity. apply bpow_lt. lia.
Qed.
Lemma zero32 : vz 24 128 (of32 (fofZ F32 0)).
Proof.
  unfold fofZ, conv. rewrite of32_to32. apply (normalize_small 24 128 Hprec32 Hmax32 0).
  - apply generic_format_0.
  - rewrite Rabs_R0. apply bpow_gt_0.
Qed.
Lemma zero64 : vz 53 1024 (of64 (fofZ F64 0)).
Proof.
  unfold fofZ, conv. rewrite of64_to64. apply (normalize_small 53 1024 Hprec64 Hmax64 0).
  - apply generic_format_0.
  - rewrite Rabs_R0. apply bpow_gt_0.
Qed.

Ltac two t Ht := destruct Ht as [Ht|Ht]; subst t.

Lemma L_zero_zr t : isf t -> Zr t (f_of_Z flocq_ops t 0).
Proof. intros Ht. two t Ht; [exact zero32|exact zero64]. Qed.
Lemma L_zr_fin t x : isf t -> Zr t x -> Fin t x.
Proof. intros Ht. two t Ht; intros [A _]; exact A. Qed.
Lemma L_one_fin t : isf t -> Fin t (f_of_Z flocq_ops t 1).
Proof. intros Ht. two t Ht; [exact (proj1 one32)|exact (proj1 one64)]. Qed.
Lemma L_veq_refl t x : isf t -> Fin t x -> Veq t x x.
Proof. intros Ht H. two t Ht; (split; [exact H|split; [exact H|reflexivity]]). Qed.
Lemma L_veq_trans t x y z : isf t -> Veq t x y -> Veq t y z -> Veq t x z.
Proof. intros Ht. two t Ht; intros [A [B C]] [D [E F]]; (split; [exact A|split; [exact E|congruence]]). Qed.
Lemma L_veq_fin t x y : isf t -> Veq t x y -> Fin t x /\ Fin t y.
Proof. intros Ht. two t Ht; intros [A [B _]]; split; assumption. Qed.
Lemma L_veq_zr t x y : isf t -> Veq t x y -> Zr t y -> Zr t x.
Proof. intros Ht. two t Ht; intros [A [B C]] [D E]; (split; [exact A|congruence]). Qed.

Lemma L_sub_one t z : isf t -> Zr t z -> Veq t (f_sub flocq_ops t (f_of_Z flocq_ops t 1) z) (f_of_Z flocq_ops t 1).
Proof.
  intros Ht Hz. two t Ht; cbn [flocq_ops f_sub f_of_Z fbin Veq].
  - rewrite of32_to32. apply minus_zero_r; [exact (proj1 one32)|exact Hz].
  - rewrite of64_to64. apply minus_zero_r; [exact (proj1 one64)|exact Hz].
Qed.
Lemma L_mul_one t f u : isf t -> Veq t f (f_of_Z flocq_ops t 1) -> Fin t u -> Veq t (f_mul flocq_ops t f u) u.
Proof.
  intros Ht Hf Hu. two t Ht; cbn [flocq_ops f_mul f_of_Z fbin Veq] in *.
  - rewrite of32_to32. destruct Hf as [A [_ B]]. apply mult_one_l; [exact A|rewrite B; exact (proj2 one32)|exact Hu].
  - rewrite of64_to64. destruct Hf as [A [_ B]]. apply mult_one_l; [exact A|rewrite B; exact (proj2 one64)|exact Hu].
Qed.
Lemma L_mul_zr_l t z u : isf t -> Zr t z -> Fin t u -> Zr t (f_mul flocq_ops t z u).
Proof.
  intros Ht Hz Hu. two t Ht; cbn [flocq_ops f_mul fbin Zr] in *.
  - rewrite of32_to32. now apply mult_zero_l.
  - rewrite of64_to64. now apply mult_zero_l.
Qed.
Lemma L_mul_zr_r t z u : isf t -> Fin t u -> Zr t z -> Zr t (f_mul flocq_ops t u z).
Proof.
  intros Ht Hu Hz. two t Ht; cbn [flocq_ops f_mul fbin Zr] in *.
  - rewrite of32_to32. now apply mult_zero_r.
  - rewrite of64_to64. now apply mult_zero_r.
Qed.
Lemma L_add_zz t x y : isf t -> Zr t x -> Zr t y -> Zr t (f_add flocq_ops t x y).
Proof.
  intros Ht Hx Hy. two t Ht; cbn [flocq_ops f_add fbin Zr] in *.
  - rewrite of32_to32. now apply plus_zero_zero.
  - rewrite of64_to64. now apply plus_zero_zero.
Qed.
Lemma L_add_zl t z u : isf t -> Zr t z -> Fin t u -> Veq t (f_add flocq_ops t z u) u.
Proof.
  intros Ht Hz Hu. two t Ht; cbn [flocq_ops f_add fbin Zr Veq] in *.
  - rewrite of32_to32. now apply plus_zero_l.
  - rewrite of64_to64. now apply plus_zero_l.
Qed.
Lemma L_add_zr t z u : isf t -> Fin t u -> Zr t z -> Veq t (f_add flocq_ops t u z) u.
Proof.
  intros Ht Hu Hz. two t Ht; cbn [flocq_ops f_add fbin Zr Veq] in *.
  - rewrite of32_to32. now apply plus_zero_r.
  - rewrite of64_to64. now apply plus_zero_r.
Qed.
Lemma L_conv_id t x : isf t -> s_conv flocq_ops t t x = x.
Proof. intros Ht. two t Ht; reflexivity. Qed.

Lemma narrow_zero (y : binary64) : vz 53 1024 y -> vz 24 128 (f32_of_f64 y).
Proof.
  intros [F B]. assert (Hb : (Rabs (round radix2 fexp32 ZnearestE (B2R 53 1024 y)) < bpow radix2 128)%R).
  { rewrite B, round_0 by typeclasses eauto. rewrite Rabs_R0. apply bpow_gt_0. }
  destruct (narrow_RNE y F Hb) as [C1 C2]. split; [exact C2|]. rewrite C1, B. apply round_0. typeclasses eauto.
Qed.
Lemma widen_zero (x : binary32) : vz 24 128 x -> vz 53 1024 (f64_of_f32 x).
Proof. intros [F B]. destruct (widen_exact x F) as [C1 C2]. split; [exact C2|congruence]. Qed.

Lemma L_conv_zr t t' x : isf t -> isf t' -> Zr t x -> Zr t' (s_conv flocq_ops t t' x).
Proof.
  intros Ht Ht' Hx. two t Ht; two t' Ht'; cbn [flocq_ops s_conv conv Zr] in *; try exact Hx.
  - rewrite of64_to64. now apply widen_zero.
  - rewrite of32_to32. now apply narrow_zero.
Qed.

Lemma L_conv_veq t t' x y : isf t -> isf t' -> Veq t x y -> Fin t' (s_conv flocq_ops t t' y) ->
  Veq t' (s_conv flocq_ops t t' x) (s_conv flocq_ops t t' y).
Proof.
  intros Ht Ht' Hxy Hf. two t Ht; two t' Ht'; cbn [flocq_ops s_conv conv Veq Fin finite] in *; try exact Hxy.
  - rewrite !of64_to64 in *. destruct Hxy as [A [B C]].
    destruct (widen_exact _ A) as [X1 X2], (widen_exact _ B) as [Y1 Y2]. split; [exact X2|split; [exact Y2|congruence]].
  - unfold Fin, finite in Hf. rewrite !of32_to32 in *.
    destruct (same_value 53 1024 _ _ Hxy) as [E|[Zx Zy]].
    + rewrite E. split; [exact Hf|split; [exact Hf|reflexivity]].
    + destruct (narrow_zero _ Zx) as [X1 X2], (narrow_zero _ Zy) as [Y1 Y2]. split; [exact X1|split; [exact Y1|congruence]].
Qed.
Lemma L_widen_fin x : Fin F32 x -> Fin F64 (s_conv flocq_ops F32 F64 x).
Proof. intros H. cbn [flocq_ops s_conv conv]. unfold Fin, finite. rewrite of64_to64. exact (proj2 (widen_exact _ H)). Qed.
Lemma L_roundtrip x : Fin F32 x -> Veq F32 (s_conv flocq_ops F64 F32 (s_conv flocq_ops F32 F64 x)) x.
Proof.
  intros H. cbn [flocq_ops s_conv conv Veq]. rewrite of64_to64, of32_to32.
  destruct (widen_exact _ H) as [W1 W2].
  assert (G : round radix2 fexp32 ZnearestE (B2R 53 1024 (f64_of_f32 (of32 x))) = B2R 24 128 (of32 x)).
  { rewrite W1. apply round_generic; [typeclasses eauto|apply generic_format_B2R]. }
  assert (Hb : (Rabs (round radix2 fexp32 ZnearestE (B2R 53 1024 (f64_of_f32 (of32 x)))) < bpow radix2 128)%R).
  { rewrite G. apply abs_B2R_lt_emax. }
  destruct (narrow_RNE _ W2 Hb) as [C1 C2]. split; [exact C2|split; [exact H|congruence]].
Qed.

(* ---- the theorems for the executable model with IEEE arithmetic ---- *)
Ltac laws := first [ assumption | exact L_zero_zr | exact L_zr_fin | exact L_one_fin | exact L_veq_refl | exact L_veq_trans | exact L_veq_fin
  | exact L_veq_zr | exact L_sub_one | exact L_mul_one | exact L_mul_zr_l | exact L_mul_zr_r | exact L_add_zz | exact L_add_zl | exact L_add_zr
  | exact L_conv_id | exact L_conv_zr | exact L_conv_veq | exact L_widen_fin | exact L_roundtrip ].
Definition lattice_frac (t : sty) (x : Z) : Prop := Zr t x.

Theorem linear_lattice_exact_special tc tv (a : list Z) (vals : list (list Z)) q :
  isf tc -> isf tv -> a <> [] -> Forall (Zr tc) a -> length vals = (2 ^ length a)%nat ->
  comp_fin flocq_ops Fin tc tv q vals -> Fin tv (nth q (nth O vals []) 0) ->
  Veq tv (linear_comp flocq_ops tc tv true a (map (fun x => f_sub flocq_ops tc (f_of_Z flocq_ops tc 1) x) a) vals q)
         (stored flocq_ops tc tv (nth q (nth O vals []) 0)).
Proof. intros. apply (lattice_exact_special flocq_ops Zr Fin Veq); laws. Qed.

Theorem linear_lattice_exact_generic tc tv (a : list Z) (vals : list (list Z)) q :
  isf tc -> isf tv -> Forall (Zr tc) a -> length vals = (2 ^ length a)%nat ->
  comp_fin flocq_ops Fin tc tv q vals -> Fin tv (nth q (nth O vals []) 0) ->
  Veq tv (linear_comp flocq_ops tc tv false a (map (fun x => f_sub flocq_ops tc (f_of_Z flocq_ops tc 1) x) a) vals q)
         (stored flocq_ops tc tv (nth q (nth O vals []) 0)).
Proof. intros. apply (lattice_exact_generic flocq_ops Zr Fin Veq); laws. Qed.

Theorem stored_is_stored tc tv v : isf tc -> isf tv -> ~ (tc = F32 /\ tv = F64) -> Fin tv v -> Veq tv (stored flocq_ops tc tv v) v.
Proof. intros. apply (stored_same flocq_ops Fin Veq); laws. Qed.

(* the fraction computed at a lattice point IS a zero: x - trunc x with x integral (trunc x = x) *)
Lemma L_frac_zero t x : isf t -> Fin t x -> f_trunc flocq_ops t x = x -> Zr t (f_sub flocq_ops t x (f_trunc flocq_ops t x)).
Proof.
  intros Ht Hx E. rewrite E. two t Ht; cbn [flocq_ops f_sub fbin Zr].
  - rewrite of32_to32. now apply minus_self.
  - rewrite of64_to64. now apply minus_self.
Qed.

(* ---- the layer: Stack.linear_at at a coordinate whose components are all integral ---- *)
Lemma gather_length (b : query) cs : forall tr vals, gather b cs = Some (tr, vals) -> length vals = length cs.
Proof.
  induction cs as [|c cs IH]; cbn; intros tr vals H.
  - injection H as _ <-. reflexivity.
  - destruct (b c) as [[t v]|]; [|discriminate]. destruct (gather b cs) as [[ts vs]|] eqn:G; [|discriminate].
    injection H as _ <-. cbn. f_equal. exact (IH _ _ eq_refl).
Qed.

Definition integral (t : sty) (x : Z) : Prop := Fin t x /\ f_trunc flocq_ops t x = x.

Theorem linear_at_lattice tc tidx tv (b : query) (c : list Z) tr vs :
  isf tc -> isf tv -> c <> [] -> Forall (integral tc) c ->
  linear_at flocq_ops tc tidx tv b c = Some (tr, vs) ->
  exists vals, length vals = (2 ^ length c)%nat /\
    (* the 2^N backend answers, neighbour 0 first (the cell corner itself) *)
    forall q, (q < length vs)%nat -> comp_fin flocq_ops Fin tc tv q vals -> Fin tv (nth q (nth O vals []) 0) ->
      Veq tv (nth q vs 0) (stored flocq_ops tc tv (nth q (nth O vals []) 0)).
Proof.
  intros Htc Htv Hne Hc H. unfold linear_at in H. cbv zeta in H.
  destruct (negb (forallb (conv_defined flocq_ops tc tidx) c)); [discriminate|].
  set (a := map (fun x => f_sub flocq_ops tc x (f_trunc flocq_ops tc x)) c) in *.
  match type of H with match gather b ?cs with _ => _ end = _ => set (corners := cs) in *; destruct (gather b corners) as [[tr' vals]|] eqn:G; [|discriminate] end.
  injection H as <- <-. exists vals.
  assert (Hlen : length vals = (2 ^ length c)%nat).
  { rewrite (gather_length _ _ _ _ G). unfold corners. now rewrite map_length, seq_length. }
  split; [exact Hlen|]. intros q Hq Hf Hv.
  rewrite map_length, seq_length in Hq.
  assert (Ha : Forall (Zr tc) a).
  { unfold a. clear -Hc Htc. induction Hc as [|x c [Fx Ex] _ IH]; cbn; constructor; [now apply L_frac_zero|exact IH]. }
  assert (La : length a = length c) by (unfold a; now rewrite map_length).
  rewrite <- La in Hlen.
  rewrite (nth_indep _ 0 (linear_comp flocq_ops tc tv (length c <=? 3)%nat a
             (map (fun x => f_sub flocq_ops tc (f_of_Z flocq_ops tc 1) x) a) vals O)) by (now rewrite map_length, seq_length).
  rewrite map_nth, seq_nth by exact Hq. cbn [Nat.add].
  destruct (length c <=? 3)%nat.
  - apply linear_lattice_exact_special; try assumption. unfold a. destruct c; [contradiction|discriminate].
  - apply linear_lattice_exact_generic; assumption.
Qed.
