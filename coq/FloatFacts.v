(* FloatFacts.v -- real-number meaning of the float operations of FloatOps.v (Flocq):
     widen_exact  : float -> double conversion of a finite value is exact
     narrow_RNE   : double -> float conversion of a finite value in range is rounding to nearest even
     narrow_widen : float -> double -> float is the identity *)
From Coq Require Import ZArith Reals Lia Lra Bool.
From Flocq Require Import Core.Core IEEE754.BinarySingleNaN IEEE754.Binary IEEE754.Bits.
From Covfie Require Import Stack FloatOps.
Local Open Scope Z_scope.

Definition fexp32 := SpecFloat.fexp 24 128.
Definition fexp64 := SpecFloat.fexp 53 1024.

Lemma fexp64_le_fexp32 e : (fexp64 e <= fexp32 e)%Z.
Proof. unfold fexp64, fexp32, SpecFloat.fexp, SpecFloat.emin. lia. Qed.

Lemma generic32_generic64 (x : R) : generic_format radix2 fexp32 x -> generic_format radix2 fexp64 x.
Proof.
  intros H. apply (generic_inclusion_mag radix2 fexp32 fexp64); [|exact H].
  intros _. apply fexp64_le_fexp32.
Qed.

Lemma widen_exact (x : binary32) : is_finite 24 128 x = true ->
  B2R 53 1024 (f64_of_f32 x) = B2R 24 128 x /\ is_finite 53 1024 (f64_of_f32 x) = true.
Proof.
  destruct x as [s|s|s pl H|s m e H]; try discriminate; intros _.
  - split; reflexivity.
  - unfold f64_of_f32, norm64.
    pose proof (binary_normalize_correct 53 1024 Hprec64 Hmax64 mode_NE (cond_Zopp s (Zpos m)) e s) as C.
    assert (G : generic_format radix2 fexp64 (F2R (Float radix2 (cond_Zopp s (Zpos m)) e))).
    { apply generic32_generic64. apply (generic_format_B2R 24 128 (B754_finite 24 128 s m e H)). }
    change (SpecFloat.fexp 53 1024) with fexp64 in C.
    rewrite (round_generic radix2 fexp64 (round_mode mode_NE) _ G) in C.
    assert (L : Rlt_bool (Rabs (F2R (Float radix2 (cond_Zopp s (Zpos m)) e))) (bpow radix2 1024) = true).
    { apply Rlt_bool_true. apply Rlt_trans with (bpow radix2 128).
      - apply (abs_B2R_lt_emax 24 128 (B754_finite 24 128 s m e H)).
      - apply bpow_lt. lia. }
    rewrite L in C. destruct C as [C1 [C2 _]]. split; [exact C1|exact C2].
Qed.

Lemma narrow_RNE (x : binary64) : is_finite 53 1024 x = true ->
  (Rabs (round radix2 fexp32 ZnearestE (B2R 53 1024 x)) < bpow radix2 128)%R ->
  B2R 24 128 (f32_of_f64 x) = round radix2 fexp32 ZnearestE (B2R 53 1024 x) /\ is_finite 24 128 (f32_of_f64 x) = true.
Proof.
  destruct x as [s|s|s pl H|s m e H]; try discriminate; intros _ B.
  - cbn. rewrite round_0 by typeclasses eauto. split; reflexivity.
  - unfold f32_of_f64, norm32.
    pose proof (binary_normalize_correct 24 128 Hprec32 Hmax32 mode_NE (cond_Zopp s (Zpos m)) e s) as C.
    change (SpecFloat.fexp 24 128) with fexp32 in C. cbn [round_mode] in C.
    change (B2R 53 1024 (B754_finite 53 1024 s m e H)) with (F2R (Float radix2 (cond_Zopp s (Zpos m)) e)) in B |- *.
    rewrite (Rlt_bool_true _ _ B) in C. destruct C as [C1 [C2 _]]. split; [exact C1|exact C2].
Qed.

(* ---- on bit patterns, as the model carries them ---- *)
Lemma of64_to64 (y : binary64) : of64 (to64 y) = y.
Proof. unfold of64, to64, b64_of_bits, bits_of_b64. exact (binary_float_of_bits_of_binary_float 52 11 eq_refl eq_refl eq_refl y). Qed.
Lemma of32_to32 (y : binary32) : of32 (to32 y) = y.
Proof. unfold of32, to32, b32_of_bits, bits_of_b32. exact (binary_float_of_bits_of_binary_float 23 8 eq_refl eq_refl eq_refl y). Qed.

(* C07: widening a stored float is exact *)
Theorem conv_widen_exact (v : Z) : is_finite 24 128 (of32 v) = true ->
  B2R 53 1024 (of64 (conv F32 F64 v)) = B2R 24 128 (of32 v) /\ is_finite 53 1024 (of64 (conv F32 F64 v)) = true.
Proof. intros H. unfold conv. rewrite of64_to64. now apply widen_exact. Qed.

(* C07: narrowing a stored double that fits rounds to nearest, ties to even *)
Theorem conv_narrow_RNE (v : Z) : is_finite 53 1024 (of64 v) = true ->
  (Rabs (round radix2 fexp32 ZnearestE (B2R 53 1024 (of64 v))) < bpow radix2 128)%R ->
  B2R 24 128 (of32 (conv F64 F32 v)) = round radix2 fexp32 ZnearestE (B2R 53 1024 (of64 v)) /\
  is_finite 24 128 (of32 (conv F64 F32 v)) = true.
Proof. intros H B. unfold conv. rewrite of32_to32. now apply narrow_RNE. Qed.
