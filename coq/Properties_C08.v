(* Properties_C08.v -- C08: truncated or mis-tagged input is rejected.
   Only the property theorems, closed by [exact].  In the model a rejection is [Bad e] -- the
   reader has no other outcome (no abort, hang or undefined state); that the C++ reader throws an
   exception exactly where the model says [Bad] is what the fault-injecting correspondence check
   (props/c08.py) observes at every byte offset. *)
From Coq Require Import ZArith List Bool.
From Covfie Require Import Stack BinIO BinIOProofs BinIOFlip BinIOForeign FloatOps Properties_C06.
Import ListNotations.
Local Open Scope Z_scope.

(* a writer interrupted at ANY byte: every proper prefix of every dump is rejected *)
Theorem C08_prefix_rejected : forall s f bs p, wf_fld s f = true -> dump s f = Some bs ->
  sprefix p bs -> exists e, load flocq_ops s p = Bad e.
Proof. exact (prefix_rejected flocq_ops flocq_conv_id). Qed.

(* the reader is a prefix-safe deterministic parser on EVERY input it accepts, not only on dumps *)
Theorem C08_reader_prefix_safe : forall s, ok_reader (load flocq_ops s).
Proof. exact (load_ok_reader flocq_ops). Qed.

(* any global or per-layer header / footer magic or tag word replaced by a different value, or the
   float-width word replaced by a value other than 4 and 8: rejected, whatever follows *)
Theorem C08_flip_rejected : forall s f sg sg' tl, wf_fld s f = true -> dump_segs s f = Some sg ->
  flipped sg sg' -> exists e, load flocq_ops s (flat sg' ++ tl) = Bad e.
Proof. exact (flip_rejected flocq_ops flocq_conv_id). Qed.
(* ... where the segments are the dump *)
Theorem C08_segments_are_the_dump : forall s f sg, wf_fld s f = true -> dump_segs s f = Some sg ->
  dump s f = Some (flat sg).
Proof. exact flat_dump_segs. Qed.

(* the model reader is total: every byte string gives Good or Bad (by construction of [result]) *)
Theorem C08_load_never_stuck : forall s bs, (exists x, load flocq_ops s bs = Good x) \/ (exists e, load flocq_ops s bs = Bad e).
Proof. exact (fun s bs => match load flocq_ops s bs as r return (exists x, r = Good x) \/ (exists e, r = Bad e) with
                          | Good x => or_introl (ex_intro _ x eq_refl) | Bad e => or_intror (ex_intro _ e eq_refl) end). Qed.

(* a stream written by an INCOMPATIBLE layer stack: when the two stacks, read from the outside and ignoring the
   layers without on-disk footprint, first differ in the KIND of a tagged layer or of the primitive (everything
   before being the same layer over backends of the same kind), every dump of the one is rejected by the reader
   of the other, whatever the contents and whatever follows.  (Stacks that differ only in a dimension or scalar
   type of the same layer kind are data dependent: the model decides and the implementation must agree.) *)
Theorem C08_foreign_stack_rejected : forall s s' f bs tl, foreign (fst s) (snd s) (fst s') (snd s') ->
  wf_fld s f = true -> dump s f = Some bs -> exists e, load flocq_ops s' (bs ++ tl) = Bad e.
Proof. exact (foreign_rejected flocq_ops). Qed.
Example C08_foreign_examples :
  foreign [LStrided 2 U64] (PArray 1 F32) [LMorton 2 U64 false] (PArray 1 F32) /\
  foreign [LLinear F32; LClamp; LStrided 2 U64] (PArray 1 F32) [LNearest F32; LClamp; LHilbert U64] (PArray 1 F32) /\
  foreign [LClamp; LStrided 2 U64] (PArray 1 F32) [LStrided 2 U64] (PArray 1 F32).
Proof. exact (conj foreign_strided_morton (conj foreign_under_interpolators foreign_missing_layer)). Qed.

Print Assumptions C08_prefix_rejected.
Print Assumptions C08_foreign_stack_rejected.
Print Assumptions C08_reader_prefix_safe.
Print Assumptions C08_flip_rejected.
