(* NdMap.v -- model of utility/nd_map.hpp:50-79 and the theorems of C19.
   nd_map s enumerates the callback sequence: for dimension 1 the tuples [i], i < s0; otherwise
   for each i < s0 (ascending) the enumeration of the tail with i consed on. *)
From Coq Require Import List Arith Lia Sorted Permutation.
Import ListNotations.

Fixpoint nd_map (s : list nat) : list (list nat) :=
  match s with
  | [] => [[]]
  | n :: rest => flat_map (fun i => map (cons i) (nd_map rest)) (seq 0 n)
  end.

(* lexicographic order on tuples *)
Inductive lex_lt : list nat -> list nat -> Prop :=
| lex_head a b l m : a < b -> lex_lt (a :: l) (b :: m)
| lex_tail a l m : lex_lt l m -> lex_lt (a :: l) (a :: m).

Lemma nd_map_complete s t : In t (nd_map s) <-> Forall2 lt t s.
Proof.
  revert t. induction s as [|n rest IH]; intros t; cbn [nd_map].
  - split.
    + intros [<-|[]]. constructor.
    + intros H. inversion H. now left.
  - rewrite in_flat_map. split.
    + intros (i & Hi & Ht). apply in_map_iff in Ht. destruct Ht as (t' & <- & Ht').
      apply in_seq in Hi. constructor; [lia|]. now apply IH.
    + intros H. inversion H as [|i n' t' rest' Hlt Hrest]; subst.
      exists i. split; [apply in_seq; lia|]. apply in_map. now apply IH.
Qed.

Lemma nd_map_length s : length (nd_map s) = fold_right Nat.mul 1 s.
Proof.
  induction s as [|n rest IH]; [reflexivity|]. cbn [nd_map fold_right].
  rewrite <- IH. generalize (nd_map rest) as L. intros L.
  assert (H : forall a k, length (flat_map (fun i => map (cons i) L) (seq a k)) = k * length L).
  { intros a k. revert a. induction k as [|k IHk]; intros a; [reflexivity|].
    cbn [seq flat_map]. rewrite app_length, map_length, IHk. lia. }
  apply H.
Qed.

Lemma lex_lt_map_cons i l : StronglySorted lex_lt l -> StronglySorted lex_lt (map (cons i) l).
Proof.
  induction 1 as [|a l Hs IH Hall]; cbn [map]; constructor; [assumption|].
  rewrite Forall_forall in *. intros x Hx. apply in_map_iff in Hx. destruct Hx as (y & <- & Hy).
  apply lex_tail. now apply Hall.
Qed.

Lemma StronglySorted_app {A} (R : A -> A -> Prop) l1 l2 :
  StronglySorted R l1 -> StronglySorted R l2 ->
  (forall x y, In x l1 -> In y l2 -> R x y) -> StronglySorted R (l1 ++ l2).
Proof.
  induction 1 as [|a l Hs IH Hall]; intros H2 Hx; cbn [app]; [assumption|].
  constructor.
  - apply IH; [assumption|]. intros x y Hx1 Hy. apply Hx; [now right|assumption].
  - rewrite Forall_forall in *. intros x Hin. apply in_app_or in Hin. destruct Hin as [Hin|Hin].
    + now apply Hall.
    + apply Hx; [now left|assumption].
Qed.

Lemma nd_map_lex s : StronglySorted lex_lt (nd_map s).
Proof.
  induction s as [|n rest IH]; cbn [nd_map].
  - repeat constructor.
  - assert (H : forall a k, StronglySorted lex_lt (flat_map (fun i => map (cons i) (nd_map rest)) (seq a k)) /\
                 forall t, In t (flat_map (fun i => map (cons i) (nd_map rest)) (seq a k)) ->
                           exists i t', t = i :: t' /\ a <= i).
    { intros a k. revert a. induction k as [|k IHk]; intros a; cbn [seq flat_map].
      - split; [constructor|intros t []].
      - destruct (IHk (S a)) as (Hs & Hin). split.
        + apply StronglySorted_app; [now apply lex_lt_map_cons|assumption|].
          intros x y Hx Hy. apply in_map_iff in Hx. destruct Hx as (x' & <- & _).
          destruct (Hin y Hy) as (i & t' & -> & Hi). apply lex_head. lia.
        + intros t Ht. apply in_app_or in Ht. destruct Ht as [Ht|Ht].
          * apply in_map_iff in Ht. destruct Ht as (t' & <- & _). exists a, t'. split; [reflexivity|lia].
          * destruct (Hin t Ht) as (i & t' & -> & Hi). exists i, t'. split; [reflexivity|lia]. }
    apply H.
Qed.

Lemma lex_lt_irrefl t : ~ lex_lt t t.
Proof. induction t as [|a t IH]; intros H; inversion H; subst; [lia|auto]. Qed.

Lemma StronglySorted_irrefl_NoDup {A} (R : A -> A -> Prop) l :
  (forall x, ~ R x x) -> StronglySorted R l -> NoDup l.
Proof.
  intros Hirr. induction 1 as [|a l Hs IH Hall]; constructor; [|assumption].
  intros Hin. rewrite Forall_forall in Hall. exact (Hirr a (Hall a Hin)).
Qed.

Lemma nd_map_nodup s : NoDup (nd_map s).
Proof. apply (StronglySorted_irrefl_NoDup lex_lt); [apply lex_lt_irrefl|apply nd_map_lex]. Qed.

(* "exactly once": the number of times a tuple is passed to the callback *)
Lemma Forall2_lt_dec (t s : list nat) : {Forall2 lt t s} + {~ Forall2 lt t s}.
Proof.
  revert s. induction t as [|a t IH]; intros [|n s].
  - left; constructor.
  - right; intros H; inversion H.
  - right; intros H; inversion H.
  - destruct (lt_dec a n) as [Hl|Hl]; [|right; intros H; inversion H; contradiction].
    destruct (IH s) as [Hr|Hr]; [left; now constructor|right; intros H; inversion H; contradiction].
Defined.

Lemma nd_map_count s t (eqd : forall x y : list nat, {x = y} + {x <> y}) :
  count_occ eqd (nd_map s) t = if Forall2_lt_dec t s then 1 else 0.
Proof.
  destruct (Forall2_lt_dec t s) as [H|H].
  - apply NoDup_count_occ'; [apply nd_map_nodup|now apply nd_map_complete].
  - apply count_occ_not_In. intros Hin. apply H. now apply nd_map_complete.
Qed.

(* non-vacuity *)
Example nd_map_2x3 : nd_map [2; 3] = [[0;0];[0;1];[0;2];[1;0];[1;1];[1;2]].
Proof. reflexivity. Qed.
Example nd_map_zero_extent : nd_map [2; 0; 3] = [].
Proof. reflexivity. Qed.
