(* PdepModel.v -- hand-written model of the BMI2 path of morton.hpp:35-74:
     _pdep_u64 (Intel SDM, PDEP pseudo-code) and the mask metaprogram get_mask<I>.
   Modelled from their specifications, not translated; validated against the real instruction
   and the real template by the correspondence check in the -mbmi2 build. *)
From Coq Require Import ZArith List Bool.
From Covfie Require Import CKernel.
Import ListNotations.
Local Open Scope Z_scope.

(* TEMP := SRC; MASK; DEST := 0; m := 0, k := 0;
   DO WHILE m < 64: IF MASK[m] = 1 THEN DEST[m] := TEMP[k]; k := k + 1 FI; m := m + 1 OD *)
Fixpoint pdep_loop (n : nat) (src mask m k dest : Z) : Z :=
  match n with
  | O => dest
  | S n' =>
      if Z.testbit mask m
      then pdep_loop n' src mask (m + 1) (k + 1) (if Z.testbit src k then Z.lor dest (2 ^ m) else dest)
      else pdep_loop n' src mask (m + 1) k dest
  end.
Definition pdep64 (src mask : Z) : Z := pdep_loop 64 src mask 0 0 0.

(* get_mask<I>::value = (OR over Js in 0..63 with Js % N == 0 of 1 << Js) << I, in a 64-bit type *)
Definition base_mask (N : Z) : Z :=
  fold_left (fun acc k => if (Z.of_nat k mod N =? 0) then Z.lor acc (2 ^ Z.of_nat k) else acc) (seq 0 64) 0.
Definition morton_mask (N I : Z) : Z := (base_mask N * 2 ^ I) mod 2 ^ 64.

(* compute(c) = _pdep_u64(c[0], mask<0>) | ... | _pdep_u64(c[N-1], mask<N-1>) *)
Definition pdep_compute (N : Z) (c : list tv) : res tv :=
  Ok (lit U64 (fst (fold_left (fun '(acc, j) v => (Z.lor acc (pdep64 (wrap U64 (val v)) (morton_mask N j)), j + 1))
                              c (0, 0)))).

Example pdep_compute_3_5_7 : pdep_compute 3 [lit U64 3; lit U64 5; lit U64 7] = Ok (lit U64 431).
Proof. vm_compute. reflexivity. Qed.
