(* AlgebraProofs.v -- C09: over an arbitrary commutative ring, for every N:
     affine_apply_spec     : (A x)_i = sum_j A_ij x_j + A_iN
     compose_apply         : (A * B) x = A (B x)          -- transforms compose as functions
     translation / scaling / identity have their textbook meaning *)
From Coq Require Import Arith List Lia Ring Ring_theory.
From Covfie Require Import AlgebraCore.
Import ListNotations.

Section Alg.
  Variable T : Type.
  Variables (rO rI : T) (radd rmul rsub : T -> T -> T) (ropp : T -> T).
  Hypothesis Rth : ring_theory rO rI radd rmul rsub ropp (@eq T).
  Add Ring Tring : Rth.
  Notation "0" := rO. Notation "1" := rI.
  Infix "+" := radd. Infix "*" := rmul.

  Notation dot := (dot radd rmul).
  Notation mat_vec := (mat_vec rO radd rmul).
  Notation mat_mul := (mat_mul rO radd rmul).
  Notation col := (col rO).
  Notation apply := (affine_apply rO rI radd rmul).
  Notation compose := (affine_compose rO rI radd rmul).

  (* the textbook sum *)
  Fixpoint sdot (row r : list T) : T :=
    match row, r with
    | a :: row', x :: r' => a * x + sdot row' r'
    | _, _ => 0
    end.
  Lemma dot_sdot row : forall r acc, dot acc row r = acc + sdot row r.
  Proof.
    induction row as [|a row IH]; intros [|x r] acc; cbn [AlgebraCore.dot sdot]; try ring.
    rewrite IH. ring.
  Qed.
  Lemma dot0 row r : dot 0 row r = sdot row r.
  Proof. rewrite dot_sdot. ring. Qed.

  Lemma sdot_app a1 a2 r1 r2 : length a1 = length r1 -> sdot (a1 ++ a2) (r1 ++ r2) = sdot a1 r1 + sdot a2 r2.
  Proof.
    revert r1. induction a1 as [|a a1 IH]; intros [|x r1] H; cbn [app sdot length] in *; try discriminate.
    - ring.
    - rewrite IH by congruence. ring.
  Qed.
  Lemma sdot_zeros n r : sdot (repeat 0 n) r = 0.
  Proof. revert r. induction n as [|n IH]; intros [|x r]; cbn [repeat sdot]; try reflexivity. rewrite IH. ring. Qed.

  (* C09: A x + t, componentwise *)
  Theorem affine_apply_spec (A : list (list T)) v i row : nth_error A i = Some row ->
    forall coeffs t, row = coeffs ++ [t] -> length coeffs = length v ->
    nth_error (apply A v) i = Some (sdot coeffs v + t).
  Proof.
    intros Hi coeffs t -> Hl. unfold affine_apply, AlgebraCore.mat_vec. rewrite nth_error_map, Hi. cbn [option_map].
    rewrite dot0, sdot_app by assumption. cbn [sdot]. f_equal. ring.
  Qed.

  (* ---- matrix product acts as composition ---- *)
  Lemma sdot_map_add (f g : nat -> T) l v :
    sdot (map (fun j => f j + g j) l) v = sdot (map f l) v + sdot (map g l) v.
  Proof. revert v. induction l as [|j l IH]; intros [|x v]; cbn [map sdot]; try ring. rewrite IH. ring. Qed.
  Lemma sdot_map_scale a (f : nat -> T) l v : sdot (map (fun j => a * f j) l) v = a * sdot (map f l) v.
  Proof. revert v. induction l as [|j l IH]; intros [|x v]; cbn [map sdot]; try ring. rewrite IH. ring. Qed.
  Lemma sdot_map_zero l v : sdot (map (fun _ : nat => 0) l) v = 0.
  Proof. revert v. induction l as [|j l IH]; intros [|x v]; cbn [map sdot]; try ring. rewrite IH. ring. Qed.
  Lemma map_nth_seq_id (row : list T) : map (fun j => nth j row 0) (seq 0 (length row)) = row.
  Proof.
    induction row as [|x row IH]; [reflexivity|]. cbn [length seq map nth]. f_equal.
    rewrite <- seq_shift, map_map. exact IH.
  Qed.

  Lemma row_times_matrix (P : nat) : forall (row : list T) (B : list (list T)) v,
    Forall (fun brow => length brow = P) B ->
    sdot (map (fun j => sdot row (col j B)) (seq 0 P)) v = sdot row (map (fun brow => sdot brow v) B).
  Proof.
    induction row as [|a row IH]; intros B v HB.
    - cbn [sdot]. apply sdot_map_zero.
    - destruct B as [|brow B]; [cbn [AlgebraCore.col map sdot]; apply sdot_map_zero|].
      apply Forall_cons_iff in HB. destruct HB as [Hb HB].
      cbn [AlgebraCore.col map sdot]. fold (col 0). 
      rewrite (sdot_map_add (fun j => a * nth j brow 0) (fun j => sdot row (AlgebraCore.col 0 j B))).
      rewrite sdot_map_scale. rewrite (IH B v HB). f_equal. f_equal.
      rewrite <- Hb, map_nth_seq_id. reflexivity.
  Qed.

  Theorem mat_mul_vec (P : nat) A B v : Forall (fun brow => length brow = P) B ->
    mat_vec (mat_mul P A B) v = mat_vec A (mat_vec B v).
  Proof.
    intros HB. unfold AlgebraCore.mat_vec, AlgebraCore.mat_mul. rewrite map_map. apply map_ext. intros row.
    rewrite !dot0. 
    rewrite (map_ext (fun j => AlgebraCore.dot radd rmul 0 row (AlgebraCore.col 0 j B)) (fun j => sdot row (AlgebraCore.col 0 j B))) by (intros j; apply dot0).
    rewrite (row_times_matrix P row B v HB). f_equal. apply map_ext. intros brow. now rewrite dot0.
  Qed.

  Lemma mat_vec_embed N B v : length v = N -> mat_vec (embed 0 1 N B) (v ++ [1]) = apply B v ++ [1].
  Proof.
    intros Hv. unfold embed, AlgebraCore.mat_vec, affine_apply, AlgebraCore.mat_vec. rewrite map_app. f_equal.
    cbn [map]. f_equal. rewrite dot0, sdot_app by (now rewrite repeat_length). rewrite sdot_zeros. cbn [sdot]. ring.
  Qed.
  Lemma mat_vec_firstn n A r : mat_vec (firstn n A) r = firstn n (mat_vec A r).
  Proof. unfold AlgebraCore.mat_vec. now rewrite firstn_map. Qed.

  (* C09: the product of two affine transforms applied to a vector is the right factor, then the left *)
  Theorem compose_apply N A B v : length A = N -> length B = N -> length v = N ->
    Forall (fun row => length row = S N) B ->
    apply (compose N A B) v = apply A (apply B v).
  Proof.
    intros HA HB Hv HBr. unfold affine_compose. unfold affine_apply at 1. rewrite mat_vec_firstn.
    rewrite mat_mul_vec.
    2:{ unfold embed. apply Forall_app. split; [exact HBr|]. constructor; [|constructor].
        rewrite app_length, repeat_length. cbn. lia. }
    rewrite mat_vec_embed by assumption.
    assert (Hl : length (apply B v) = N) by (unfold affine_apply, AlgebraCore.mat_vec; now rewrite map_length).
    rewrite mat_vec_embed by assumption.
    rewrite firstn_app. assert (Hl' : length (apply A (apply B v)) = N) by (unfold affine_apply, AlgebraCore.mat_vec; now rewrite map_length).
    rewrite <- Hl' at 1. rewrite firstn_all, Hl', Nat.sub_diag. cbn [firstn]. now rewrite app_nil_r.
  Qed.

  Lemma sdot_identity_row dim i v : (i < dim)%nat -> length v = dim -> sdot (identity_row 0 1 dim i) (v ++ [1]) = nth i v 0.
  Proof.
    intros Hi Hv. unfold identity_row.
    assert (G : forall (l : list T) k, (k + length l = dim)%nat ->
      sdot (map (fun j => if Nat.eqb i j then 1 else 0) (seq k (S (length l)))) (l ++ [1]) = if Nat.ltb i k then 0 else nth (i - k) l 0).
    { induction l as [|x l IH]; intros k Hk; cbn [length seq map app sdot] in *.
      - destruct (Nat.eqb_spec i k); [lia|]. destruct (Nat.ltb_spec i k); [|lia]. ring.
      - specialize (IH (S k) ltac:(lia)). cbn [seq map] in IH. rewrite IH.
        destruct (Nat.eqb_spec i k) as [->|Hne].
        + rewrite Nat.sub_diag. destruct (Nat.ltb_spec k (S k)); [|lia]. destruct (Nat.ltb_spec k k); [lia|]. cbn [nth]. ring.
        + destruct (Nat.ltb_spec i (S k)); destruct (Nat.ltb_spec i k); try lia; try ring.
          replace (i - k)%nat with (S (i - S k)) by lia. cbn [nth]. ring. }
    specialize (G v O ltac:(lia)). rewrite Hv in G. rewrite G. cbn. now rewrite Nat.sub_0_r.
  Qed.

  Theorem identity_apply N v : length v = N -> apply (affine_identity 0 1 N) v = v.
  Proof.
    intros Hv. unfold affine_identity, affine_apply, AlgebraCore.mat_vec. rewrite map_map.
    transitivity (map (fun i => nth i v 0) (seq 0 N)).
    - apply map_ext_in. intros i Hi. apply in_seq in Hi. rewrite dot0. apply sdot_identity_row; [lia|assumption].
    - rewrite <- Hv. apply map_nth_seq_id.
  Qed.

  Lemma Forall_firstn {A} (P : A -> Prop) n : forall l, Forall P l -> Forall P (firstn n l).
  Proof. induction n as [|n IH]; intros [|x l] H; cbn [firstn]; try constructor; inversion H; subst; auto. Qed.

  Definition is_affine (N : nat) (A : list (list T)) : Prop := length A = N /\ Forall (fun row => length row = S N) A.

  Lemma identity_is_affine N : is_affine N (affine_identity 0 1 N).
  Proof.
    split; unfold affine_identity; [now rewrite map_length, seq_length|].
    apply Forall_forall. intros row Hr. apply in_map_iff in Hr. destruct Hr as [i [<- _]].
    unfold identity_row. now rewrite map_length, seq_length.
  Qed.
  Lemma compose_is_affine N A B : length A = N -> is_affine N (compose N A B).
  Proof.
    intros HA. unfold affine_compose, AlgebraCore.mat_mul, embed. split.
    - rewrite firstn_length, map_length, app_length. cbn. lia.
    - apply Forall_firstn. apply Forall_forall. intros row Hr. apply in_map_iff in Hr. destruct Hr as [r [<- _]].
      now rewrite map_length, seq_length.
  Qed.

  (* products of any length act as the composite of their factors *)
  Theorem compose_list_apply N (As : list (list (list T))) v : length v = N -> Forall (is_affine N) As ->
    apply (fold_right (compose N) (affine_identity 0 1 N) As) v = fold_right (fun A x => apply A x) v As.
  Proof.
    intros Hv HAs. induction HAs as [|A As [HA HAr] HAs IH]; cbn [fold_right].
    - now apply identity_apply.
    - assert (R : is_affine N (fold_right (compose N) (affine_identity 0 1 N) As)).
      { destruct HAs as [|A' As' [HA' _] _]; cbn [fold_right]; [apply identity_is_affine|now apply compose_is_affine]. }
      destruct R as [R1 R2]. rewrite compose_apply by assumption. now rewrite IH.
  Qed.

  (* translation and scaling *)
  Lemma set_nth_length (l : list T) j x : length (set_nth l j x) = length l.
  Proof. revert j. induction l as [|y l IH]; intros [|j]; cbn [set_nth length]; auto. Qed.

  (* row i of the identity with entry j replaced by x, against (v, 1):  v_i (if j <> i) + x * (v,1)_j *)
  Lemma sdot_unit_row dim i : forall (w : list T) k, (k + length w = S dim)%nat -> (i < dim)%nat ->
    sdot (map (fun j => if Nat.eqb i j then 1 else 0) (seq k (length w))) w = if Nat.ltb i k then 0 else nth (i - k) w 0.
  Proof.
    induction w as [|x w IH]; intros k Hk Hi; cbn [length seq map sdot] in *.
    - destruct (Nat.ltb_spec i k); [reflexivity|lia].
    - rewrite IH by lia. destruct (Nat.eqb_spec i k) as [->|Hne].
      + rewrite Nat.sub_diag. destruct (Nat.ltb_spec k (S k)); [|lia]. destruct (Nat.ltb_spec k k); [lia|]. cbn [nth]. ring.
      + destruct (Nat.ltb_spec i (S k)); destruct (Nat.ltb_spec i k); try lia; try ring.
        replace (i - k)%nat with (S (i - S k)) by lia. cbn [nth]. ring.
  Qed.

  Lemma sdot_set_nth (row : list T) : forall (w : list T) j x, length row = length w -> (j < length w)%nat ->
    sdot (set_nth row j x) w = sdot row w + (rsub x (nth j row 0)) * nth j w 0.
  Proof.
    induction row as [|a row IH]; intros [|b w] j x Hl Hj; cbn [length] in *; try lia.
    destruct j as [|j]; cbn [set_nth sdot nth].
    - ring.
    - rewrite IH by lia. ring.
  Qed.

  Lemma nth_identity_row dim i j : (j < S dim)%nat -> nth j (identity_row 0 1 dim i) 0 = if Nat.eqb i j then 1 else 0.
  Proof.
    intros Hj. unfold identity_row. rewrite (nth_indep _ 0 ((fun j0 => if Nat.eqb i j0 then 1 else 0) O)) by (now rewrite map_length, seq_length).
    rewrite (map_nth (fun j0 => if Nat.eqb i j0 then 1 else 0)). now rewrite seq_nth.
  Qed.

  Lemma sdot_identity_row' dim i v : (i < dim)%nat -> length v = dim -> sdot (identity_row 0 1 dim i) (v ++ [1]) = nth i v 0.
  Proof. intros Hi Hv. now apply sdot_identity_row. Qed.

  (* C09: translation(t) x = x + t   and   scaling(s) x = s * x, componentwise *)
  Theorem translation_apply t v : length v = length t ->
    apply (translation 0 1 t) v = map (fun i => nth i v 0 + nth i t 0) (seq 0 (length t)).
  Proof.
    intros Hl. unfold translation, affine_apply, AlgebraCore.mat_vec. rewrite map_map.
    apply map_ext_in. intros i Hi. apply in_seq in Hi. rewrite dot0, sdot_set_nth.
    - rewrite sdot_identity_row' by lia. rewrite nth_identity_row by lia.
      destruct (Nat.eqb_spec i (length t)); [lia|].
      rewrite app_nth2 by lia. replace (length t - length v)%nat with O by lia. cbn [nth]. ring.
    - unfold identity_row. rewrite map_length, seq_length, app_length. cbn [length]. lia.
    - rewrite app_length. cbn [length]. lia.
  Qed.

  Theorem scaling_apply s v : length v = length s ->
    apply (scaling 0 1 s) v = map (fun i => nth i s 0 * nth i v 0) (seq 0 (length s)).
  Proof.
    intros Hl. unfold scaling, affine_apply, AlgebraCore.mat_vec. rewrite map_map.
    apply map_ext_in. intros i Hi. apply in_seq in Hi. rewrite dot0, sdot_set_nth.
    - rewrite sdot_identity_row' by lia. rewrite nth_identity_row by lia. rewrite Nat.eqb_refl.
      rewrite app_nth1 by lia. ring.
    - unfold identity_row. rewrite map_length, seq_length, app_length. cbn [length]. lia.
    - rewrite app_length. cbn [length]. lia.
  Qed.
End Alg.
