(* Properties_C12.v -- C12: fields stay independent values under any history of copy, move, assign,
   destroy.  Only the property theorems, closed by [exact].  The concrete level is a hand model of
   what array.hpp's special members do with their unique_ptr (allocate / release / memcpy order
   included); it is tied to the code by running the same histories on real fields under ASan/LSan
   (props/c12.py) and comparing every live field at every coordinate after every operation with
   the value-semantics run. *)
From Coq Require Import List Arith ZArith.
From Covfie Require Import Ownership OwnershipProofs Refine_Own.
From Covfie.gen Require Import Gen_Own.
Import ListNotations.

(* ANY history that value semantics accepts: no double free, no use after free, no null dereference
   (the concrete run does not fail), the ownership invariant holds, every slot holds the value that
   value semantics gives it *)
Theorem C12_history_refines : forall ops a', arun ainit ops = Some a' ->
  exists s', run init ops = Some s' /\ Inv s' /\ (forall k, absf s' k = a' k).
Proof. exact history_from_init. Qed.
Theorem C12_history_refines_from_any_state : forall ops s a a', Inv s -> (forall k, absf s k = a k) -> arun a ops = Some a' ->
  exists s', run s ops = Some s' /\ Inv s' /\ (forall k, absf s' k = a' k).
Proof. exact history_refines. Qed.

(* nothing is leaked *)
Theorem C12_no_leak : forall s, Inv s -> (forall k, slots s k = None) -> forall a, heap s a = None.
Proof. exact no_leak. Qed.

(* a write to one field is never visible through another *)
Theorem C12_write_is_private : forall a k i v a' x, astep a (Write k i v) = Some a' -> x <> k -> a' x = a x.
Proof. exact write_is_private. Qed.

(* the copy-assignment of the pinned tree is NOT a refinement: self-assignment zeroes the data *)
Theorem C12_pinned_self_assignment_refuted :
  exists s s', run init [Construct 0 [7; 8]%Z] = Some s /\ step_pinned s (CopyAssign 0 0) = Some s' /\
               absf s 0 = Some (Full [7; 8]%Z) /\ absf s' 0 = Some (Full [0; 0]%Z).
Proof. exact self_assign_refuted. Qed.

(* non-vacuity: a history with every kind of operation *)
Example C12_example :
  exists a', arun ainit [Construct 0 [1; 2; 3]%Z; CopyCtor 1 0; Write 1 0 9%Z; MoveCtor 2 0; CopyAssign 0 1; CopyAssign 1 1;
                         MoveAssign 1 2; Destroy 2; MoveAssign 0 0; Destroy 0; Destroy 1] = Some a' /\ a' 0 = None /\ a' 1 = None.
Proof. eexists. split; [reflexivity|]. split; reflexivity. Qed.

(* the special members as they stand in array.hpp on this run (gen/Gen_Own.v): defaulted moves, no destructor, and a copy
   constructor / copy assignment whose statements, interpreted one by one on the model's heap (each reading the state as it
   is at that moment), are observationally the model's CopyCtor / copy_assign for EVERY state and pair of slots *)
Theorem C12_source_special_members :
  own_move_ctor_defaulted = true /\ own_move_assign_defaulted = true /\ own_dtor_declared = false /\
  own_copy_assign_guarded = true /\ own_copy_assign_returns_this = true /\
  own_copy_ctor = [SetSize; Alloc; Assert; Copy] /\ own_copy_assign = [SetSize; Alloc; Assert; Copy].
Proof. exact source_flags. Qed.
Theorem C12_copy_assign_is_the_source : forall s d src,
  opt_st_eq (assign_sem own_copy_assign_guarded own_copy_assign s d src) (copy_assign s d src).
Proof. exact copy_assign_is_the_source. Qed.
Theorem C12_copy_ctor_is_the_source : forall s d src,
  opt_st_eq (ctor_sem own_copy_ctor s d src) (step s (CopyCtor d src)).
Proof. exact copy_ctor_is_the_source. Qed.
(* and the self-assignment guard is what the refinement needs: without it the same statements zero the data *)
Theorem C12_unguarded_self_assignment_refuted :
  exists s s', run init [Construct 0 [7; 8]%Z] = Some s /\ assign_sem false own_copy_assign s 0 0 = Some s' /\
               absf s 0 = Some (Full [7; 8]%Z) /\ absf s' 0 = Some (Full [0; 0]%Z).
Proof. exact unguarded_self_assignment_loses_data. Qed.

Print Assumptions C12_history_refines.
Print Assumptions C12_copy_assign_is_the_source.
Print Assumptions C12_no_leak.
