(* Refine_Asserts.v -- C13: the class-scope static_asserts of the layer and view templates as they stand on this run
   (gen/Gen_Asserts.v) are exactly the ten statements of kind the model's [layer_kind] / [prim_kind] carry:

     hilbert            input dimensions == 2                               layer_kind (LHilbert _) gives k_n = 2
     linear             coordinate scalar is floating point                 is_float tc
                        stored (covariant input) scalar is floating point   is_float (k_tv k)
                        as many coordinates as the backend takes            k_n carried over
                        the output is an object (not a reference)           k_ref := false
     nearest_neighbour  coordinate scalar is floating point                 is_float tc
                        as many coordinates as the backend takes            k_n carried over
     identity           input and output have the same dimensionality       prim_kind (PIdentity n t): k_m = k_n = n
                        the input scalar is constructible from the output   one scalar type t
     field_view         the view is at most 256 bytes                       (measured with sizeof by props/c13.py)

   A weakened, dropped or added assert changes the generated list and this file no longer compiles -- also where no
   program could demonstrate the difference at run time (a rejected composition cannot be run).  The model's side of each
   line is proved below. *)
From Coq Require Import String List Bool Arith.
From Covfie Require Import Stack.
From Covfie.gen Require Import Gen_Asserts.
Import ListNotations.
Local Open Scope string_scope.

Definition model_kind_asserts : list (string * string) :=
  [("field_view", "sizeof(storage_t)<=256");
   ("hilbert", "contravariant_input_t::dimensions==2");
   ("identity", "contravariant_input_t::dimensions==covariant_output_t::dimensions");
   ("identity", "std::is_constructible_v<typenamecontravariant_input_t::scalar_t,typenamecovariant_output_t::scalar_t>");
   ("linear", "_input_vector_d::size==backend_t::contravariant_input_t::dimensions");
   ("linear", "std::is_floating_point_v<typename_input_vector_d::type>");
   ("linear", "std::is_floating_point_v<typenamecovariant_input_t::scalar_t>");
   ("linear", "std::is_object_v<typenamecovariant_output_t::vector_t>");
   ("nearest_neighbour", "_input_vector_d::size==backend_t::contravariant_input_t::dimensions");
   ("nearest_neighbour", "std::is_floating_point_v<typename_input_vector_d::type>")].

Theorem kind_asserts_are_the_models : kind_asserts = model_kind_asserts /\ kind_assert_problems = 0.
Proof. split; reflexivity. Qed.

(* the model's side *)
Lemma hilbert_kind tc k k' : layer_kind (LHilbert tc) k = Some k' -> k_n k' = 2.
Proof. cbn. destruct ((k_n k =? 1)%nat), (is_float tc); cbn; try discriminate. intros E. injection E as <-. reflexivity. Qed.
Lemma linear_kind tc k k' : layer_kind (LLinear tc) k = Some k' ->
  is_float tc = true /\ is_float (k_tv k) = true /\ k_n k' = k_n k /\ k_ref k' = false.
Proof.
  cbn. destruct (k_scalar k), (is_float (k_tc k)), (is_float tc), (is_float (k_tv k)); cbn; try discriminate.
  intros E. injection E as <-. repeat split.
Qed.
Lemma nearest_kind tc k k' : layer_kind (LNearest tc) k = Some k' -> is_float tc = true /\ k_n k' = k_n k.
Proof.
  cbn. destruct (k_scalar k), (is_float (k_tc k)), (is_float tc); cbn; try discriminate.
  intros E. injection E as <-. split; reflexivity.
Qed.
Lemma identity_kind n t k : prim_kind (PIdentity n t) = Some k -> k_m k = k_n k /\ k_tv k = k_tc k.
Proof. unfold prim_kind. destruct (0 <? n)%nat; [|discriminate]. intros E. injection E as <-. split; reflexivity. Qed.
