(* Refine_Backup.v -- the kernel generated from backup.hpp (gen_backup_at: the loop with early
   return of backup::non_owning_data_t::at) equals the specification of C11: the default value and
   NO backend query when some component lies outside the closed box, the backend query at the
   unchanged coordinate otherwise.  For every integer coordinate type of 32..64 bits (signed or
   unsigned), every N. *)
From Coq Require Import ZArith List Bool Lia ZifyBool ZifyNat.
From Covfie Require Import CKernel CKernelFacts.
From Covfie.gen Require Import Gen_Backup.
Import ListNotations.
Local Open Scope Z_scope.

Fixpoint outsideZ (c lo hi : list Z) : bool :=
  match c, lo, hi with
  | x :: c', l :: lo', h :: hi' => (x <? l) || (h <? x) || outsideZ c' lo' hi'
  | _, _, _ => false
  end.

Lemma skipn_nth_cons {A} : forall (i : nat) (l : list A) d, (i < length l)%nat ->
  skipn i l = nth i l d :: skipn (Datatypes.S i) l.
Proof.
  induction i as [|i IH]; intros [|x l] d H; cbn [length skipn nth] in *; try lia; [reflexivity|].
  apply IH. lia.
Qed.

Section Typed.
  Variable S : cty.
  Hypothesis HS : 32 <= cwidth S <= 64.

  Definition inS (z : Z) : Prop := cmin S <= z <= cmax S.

  Lemma wrap_inS z : inS z -> wrap S z = z.
  Proof.
    unfold inS, cmin, cmax, wrap. intros Hz.
    assert (P : 2 ^ cwidth S = 2 * 2 ^ (cwidth S - 1)) by (rewrite <- Z.pow_succ_r by lia; f_equal; lia).
    pose proof (pow2_pos (cwidth S - 1) ltac:(lia)) as Q.
    destruct (csigned S).
    - rewrite P. rewrite Z.mod_small; lia.
    - rewrite Z.mod_small; lia.
  Qed.

  Lemma cmp_S o x y : inS x -> inS y ->
    cmp o (lit S x) (lit S y) =
    Ok (lit CBool (if match o with
                    | Lt => x <? y | Le => x <=? y | Gt => y <? x | Ge => y <=? x
                    | Eq => x =? y | Ne => negb (x =? y) end then 1 else 0)).
  Proof.
    intros Hx Hy. unfold cmp. cbn [ty lit]. rewrite common_self_wide by lia.
    unfold cast. cbn [val lit]. now rewrite !wrap_inS.
  Qed.

  Lemma nth_tv_map (l : list Z) (i : nat) T : (i < length l)%nat ->
    nth_tv (map (lit S) l) (lit T (Z.of_nat i)) = Ok (lit S (nth i l 0)).
  Proof.
    intros Hi. unfold nth_tv. cbn [val lit]. destruct (Z.ltb_spec (Z.of_nat i) 0); [lia|].
    rewrite Nat2Z.id. rewrite nth_error_map.
    rewrite (nth_error_nth' l 0 Hi). reflexivity.
  Qed.

  (* the loop, from position i on *)
  Lemma backup_loop dflt : forall (n i : nat) (coord lo hi : list Z),
    length coord = (i + n)%nat -> length lo = (i + n)%nat -> length hi = (i + n)%nat ->
    Forall inS coord -> Forall inS lo -> Forall inS hi ->
    for_ret_aux n U64 (Z.of_nat i)
      (fun i0 _ =>
         t4 <- nth_tv (map (lit S) coord) i0 ;;
         t5 <- nth_tv (map (lit S) lo) i0 ;;
         t6 <- cmp Lt t4 t5 ;;
         t10 <- (if truthy t6 then Ok (lit CBool 1)
                 else (t7 <- nth_tv (map (lit S) coord) i0 ;; t8 <- nth_tv (map (lit S) hi) i0 ;;
                       t9 <- cmp Gt t7 t8 ;; Ok (to_bool t9))) ;;
         if truthy t10 then Ok (inr (Value dflt)) else Ok (inl tt)) tt
    = Ok (if outsideZ (skipn i coord) (skipn i lo) (skipn i hi) then inr (Value dflt) else inl tt).
  Proof.
    induction n as [|n IH]; intros i coord lo hi Hc Hl Hh Fc Fl Fh.
    - cbn [for_ret_aux]. rewrite !skipn_all2 by lia. reflexivity.
    - cbn [for_ret_aux].
      assert (Hi : (i < length coord)%nat) by lia.
      rewrite !nth_tv_map by lia. cbn [bind].
      assert (Ix : inS (nth i coord 0)) by (apply Forall_nth; [assumption|lia]).
      assert (Il : inS (nth i lo 0)) by (apply Forall_nth; [assumption|lia]).
      assert (Ih : inS (nth i hi 0)) by (apply Forall_nth; [assumption|lia]).
      rewrite cmp_S by assumption. cbn [bind]. rewrite truthy_bool.
      rewrite (skipn_nth_cons i coord 0), (skipn_nth_cons i lo 0), (skipn_nth_cons i hi 0) by lia.
      cbn [outsideZ].
      destruct (nth i coord 0 <? nth i lo 0) eqn:E1; cbn [bind orb].
      + change (truthy (lit CBool 1)) with true. cbn iota. reflexivity.
      + rewrite cmp_S by assumption. cbn [bind]. unfold to_bool. rewrite !truthy_bool.
        destruct (nth i hi 0 <? nth i coord 0) eqn:E2; cbn [orb].
        * reflexivity.
        * cbn [bind]. replace (Z.of_nat i + 1) with (Z.of_nat (Datatypes.S i)) by lia.
          apply IH; try assumption; lia.
  Qed.

  Theorem backup_at_refines dflt (coord lo hi : list Z) :
    Z.of_nat (length coord) < 2 ^ 64 -> length lo = length coord -> length hi = length coord ->
    Forall inS coord -> Forall inS lo -> Forall inS hi ->
    gen_backup_at (Z.of_nat (length coord)) dflt (map (lit S) hi) (map (lit S) lo) (map (lit S) coord)
    = Ok (if outsideZ coord lo hi then Value dflt else Query (map (lit S) coord)).
  Proof.
    intros HN Hl Hh Fc Fl Fh. unfold gen_backup_at.
    unfold cast. cbn [val lit]. rewrite !wrap_U64_small by (unfold in_u64; cbn; lia).
    unfold for_up_ret. cbn [val lit]. rewrite Z.sub_0_r, Nat2Z.id.
    pose proof (backup_loop dflt (length coord) O coord lo hi eq_refl Hl Hh Fc Fl Fh) as L.
    cbn [Z.of_nat skipn] in L. rewrite L. cbn [bind].
    destruct (outsideZ coord lo hi); reflexivity.
  Qed.
End Typed.

(* non-vacuity, on the generated kernel itself: unsigned 2-D box [1,3]x[0,2] *)
Example backup_kernel_inside :
  gen_backup_at 2 [lit I32 7] (map (lit U32) [3; 2]) (map (lit U32) [1; 0]) (map (lit U32) [3; 0])
  = Ok (Query (map (lit U32) [3; 0])).
Proof. vm_compute. reflexivity. Qed.
Example backup_kernel_outside :
  gen_backup_at 2 [lit I32 7] (map (lit I32) [3; 2]) (map (lit I32) [1; 0]) (map (lit I32) [2; -1])
  = Ok (Value [lit I32 7]).
Proof. vm_compute. reflexivity. Qed.
