(* Properties_C05.v -- C05: changing representation preserves the field.
   Only the property theorems, closed by [exact].  Stated over ANY two layouts (index function
   injective and in range on the box) and every extent vector; row-major, Morton (for extents within
   the per-coordinate bit budget) and Hilbert are such layouts (LayoutMem.v, C01), hence every ordered
   pair of storage orders.  The executable list-level conversion Convert.convert (same copy loop,
   configurations carried over, interpolators exchanged freely) is what props/c05.py compares with the
   real converting constructors, storage contents included. *)
From Coq Require Import ZArith List Bool.
From Covfie Require Import Layout LayoutMem NdMap Relayout.
Import ListNotations.
Local Open Scope Z_scope.

Theorem C05_relayout_preserves : forall V (s : list nat) (L1 L2 : layout),
  (forall c, dom L2 c <-> in_box (map Z.of_nat s) c) ->
  forall (m zero : mem V) c, in_box (map Z.of_nat s) c ->
  rd V (relayout V s L1 L2 m zero) (idx L2 c) = rd V m (idx L1 c).
Proof. exact relayout_preserves. Qed.

Theorem C05_relayout_back : forall V (s : list nat) (L1 L2 : layout),
  (forall c, dom L1 c <-> in_box (map Z.of_nat s) c) -> (forall c, dom L2 c <-> in_box (map Z.of_nat s) c) ->
  forall m z1 z2 c, in_box (map Z.of_nat s) c ->
  rd V (relayout V s L2 L1 (relayout V s L1 L2 m z1) z2) (idx L1 c) = rd V m (idx L1 c).
Proof. exact relayout_back. Qed.

(* cells no coordinate maps to (the padding of the curve layouts) keep the zero value *)
Theorem C05_relayout_frame : forall V (s : list nat) (L1 L2 : layout),
  (forall c, dom L2 c <-> in_box (map Z.of_nat s) c) ->
  forall (m zero : mem V) j, (forall c, in_box (map Z.of_nat s) c -> idx L2 c <> j) ->
  rd V (relayout V s L1 L2 m zero) j = rd V zero j.
Proof. exact relayout_frame. Qed.

(* the copy loop visits exactly the box *)
Theorem C05_loop_visits_the_box : forall s c, in_box (map Z.of_nat s) c <-> In c (box_coords s).
Proof. exact in_box_coords. Qed.

Print Assumptions C05_relayout_preserves.
Print Assumptions C05_relayout_back.
