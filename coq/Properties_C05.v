(* Properties_C05.v -- C05: changing representation preserves the field.
   Only the property theorems, closed by [exact].  Stated over ANY two layouts (index function
   injective and in range on the box) and every extent vector; row-major, Morton (for extents within
   the per-coordinate bit budget) and Hilbert are such layouts (LayoutMem.v, C01), hence every ordered
   pair of storage orders.  The executable list-level conversion Convert.convert (same copy loop,
   configurations carried over, interpolators exchanged freely) is what props/c05.py compares with the
   real converting constructors, storage contents included. *)
From Coq Require Import ZArith List Bool.
From Covfie Require Import Layout LayoutMem NdMap Stack Relayout Convert ConvertProofs Refine_Copy.
From Covfie.gen Require Import Gen_Copy Gen_Conv.
Import ListNotations.
Local Open Scope Z_scope.

Theorem C05_relayout_preserves : forall V (s : list nat) (L1 L2 : layout),
  (forall c, dom L2 c <-> in_box (map Z.of_nat s) c) ->
  forall (m zero : mem V) c, in_box (map Z.of_nat s) c ->
  rd V (relayout V s L1 L2 m zero) (idx L2 c) = rd V m (idx L1 c).
Proof. exact relayout_preserves. Qed.

Theorem C05_relayout_back : forall V (s : list nat) (L1 L2 : layout),
  (forall c, dom L1 c <-> in_box (map Z.of_nat s) c) -> (forall c, dom L2 c <-> in_box (map Z.of_nat s) c) ->
  forall m z1 z2 c, in_box (map Z.of_nat s) c ->
  rd V (relayout V s L2 L1 (relayout V s L1 L2 m z1) z2) (idx L1 c) = rd V m (idx L1 c).
Proof. exact relayout_back. Qed.

(* cells no coordinate maps to (the padding of the curve layouts) keep the zero value *)
Theorem C05_relayout_frame : forall V (s : list nat) (L1 L2 : layout),
  (forall c, dom L2 c <-> in_box (map Z.of_nat s) c) ->
  forall (m zero : mem V) j, (forall c, in_box (map Z.of_nat s) c -> idx L2 c <> j) ->
  rd V (relayout V s L1 L2 m zero) j = rd V zero j.
Proof. exact relayout_frame. Qed.

(* the copy loop visits exactly the box *)
Theorem C05_loop_visits_the_box : forall s c, in_box (map Z.of_nat s) c <-> In c (box_coords s).
Proof. exact in_box_coords. Qed.

(* the EXECUTABLE list-level conversion (the one compared with the real converting constructors) is that
   loop: the cell of every in-range coordinate in the list it produces is the source's cell *)
Theorem C05_executable_conversion_preserves_cells : forall (m : nat) (L1 L2 : layout) (s : list nat) (src : list Z) (cap2 : nat),
  (forall c, dom L1 c <-> in_box (map Z.of_nat s) c) -> (forall c, dom L2 c <-> in_box (map Z.of_nat s) c) ->
  (forall c, dom L1 c -> 0 <= idx L1 c /\ ((Z.to_nat (idx L1 c) + 1) * m <= length src)%nat) ->
  (forall c, dom L2 c -> 0 <= idx L2 c < Z.of_nat cap2) ->
  forall c, in_box (map Z.of_nat s) c ->
  get_cell m (loop_list m L1 L2 src (box_coords s) (repeat 0 (cap2 * m))) (idx L2 c) = get_cell m src (idx L1 c).
Proof. exact convert_preserves_cells. Qed.
Theorem C05_relayout_list_is_that_loop : forall (m : nat) (l1 l2 : layer) (sizes data : list Z) (L1 L2 : layout),
  (forall c, idx L1 c = layer_index l1 sizes c) -> (forall c, idx L2 c = layer_index l2 sizes c) ->
  relayout_list m l1 l2 sizes data =
  loop_list m L1 L2 data (box_coords (map Z.to_nat sizes)) (repeat 0 (Z.to_nat (layer_cap l2 sizes) * m)).
Proof. exact relayout_list_is_loop. Qed.
(* end to end on Convert.relayout_list: row-major -> Hilbert, every extent vector *)
Theorem C05_rowmajor_to_hilbert : forall (m sx sy : nat) (tc tc' : sty) (data : list Z),
  length data = (sx * sy * m)%nat ->
  forall c, in_box [Z.of_nat sx; Z.of_nat sy] c ->
  get_cell m (relayout_list m (LStrided 2 tc) (LHilbert tc') [Z.of_nat sx; Z.of_nat sy] data) (layer_index (LHilbert tc') [Z.of_nat sx; Z.of_nat sy] c)
  = get_cell m data (layer_index (LStrided 2 tc) [Z.of_nat sx; Z.of_nat sy] c).
Proof. exact convert_rowmajor_to_hilbert. Qed.

(* the three copy functions of the source have the scheme the conversion model executes: extents from the source,
   value-initialised storage of the target layout's capacity, every index tuple of the box visited, the target
   position from the target layer's own index function, all M components copied from the source's lookup *)
Theorem C05_copy_schemes_are_the_sources :
  scheme_ok copy_strided (model_capacity (LStrided 2 U64)) Inline = true /\
  scheme_ok copy_morton (model_capacity (LMorton 2 U64 false)) Calc = true /\
  scheme_ok copy_hilbert (model_capacity (LHilbert U64)) CalcSizes = true /\ copy_problems = O.
Proof. exact copy_schemes_are_the_models. Qed.

(* whole stacks: the converting constructors of the layers that have one are the model's (configuration carried over by
   the wrappers, the backend converted by its own constructor, a storage order re-laid out by its copy function) *)
Theorem C05_converting_constructors_are_the_sources : conv_ctors = model_conv_ctors /\ conv_problems = O.
Proof. exact converting_constructors_are_the_models. Qed.

Print Assumptions C05_relayout_preserves.
Print Assumptions C05_executable_conversion_preserves_cells.
Print Assumptions C05_rowmajor_to_hilbert.
Print Assumptions C05_relayout_back.
