(* LayoutMem.v -- storage seen through a layout behaves as an N-dimensional array (C01):
   an abstract layout = index function + domain + capacity with injectivity and range;
   read-own-write, frame and in-storage follow; instantiated for row-major, Morton, Hilbert
   with the capacity expressions of the library (ipow(round_pow2(max extent), N)). *)
From Coq Require Import ZArith List Lia Bool ZifyBool ZifyNat.
From Covfie Require Import Numeric Layout Hilbert.
Import ListNotations.
Local Open Scope Z_scope.

Section Mem.
  Variable V : Type.
  Definition mem := Z -> V.
  Definition rd (m : mem) (i : Z) : V := m i.
  Definition wr (m : mem) (i : Z) (v : V) : mem := fun j => if j =? i then v else m j.

  Record layout := {
    idx : list Z -> Z;
    dom : list Z -> Prop;
    cap : Z;
    idx_inj : forall c c', dom c -> dom c' -> idx c = idx c' -> c = c';
    idx_range : forall c, dom c -> 0 <= idx c < cap }.

  Theorem layout_read_own_write (L : layout) m c v : rd (wr m (idx L c) v) (idx L c) = v.
  Proof. unfold rd, wr. now rewrite Z.eqb_refl. Qed.

  Theorem layout_write_frames (L : layout) m c c' v : dom L c -> dom L c' -> c <> c' ->
    rd (wr m (idx L c) v) (idx L c') = rd m (idx L c').
  Proof.
    intros Hc Hc' Hne. unfold rd, wr. destruct (idx L c' =? idx L c) eqn:E; [|reflexivity].
    apply Z.eqb_eq in E. exfalso. apply Hne. symmetry. now apply (idx_inj L).
  Qed.

  Theorem layout_in_storage (L : layout) c : dom L c -> 0 <= idx L c < cap L.
  Proof. apply idx_range. Qed.
End Mem.

Definition zmax (l : list Z) : Z := fold_right Z.max 0 l.
(* the library's sizing expression: ipow(round_pow2(max extent), N) *)
Definition curve_cap (sizes : list Z) : Z := pow2_ceil (zmax sizes) ^ Z.of_nat (length sizes).
Definition curve_bits (sizes : list Z) : Z := Z.log2_up (zmax sizes).

Lemma zmax_ge l x : In x l -> x <= zmax l.
Proof.
  induction l as [|a l IH]; intros Hin; [contradiction|]. destruct Hin as [->|H]; cbn [zmax fold_right]; [lia|].
  specialize (IH H). unfold zmax in IH. lia.
Qed.

Lemma curve_cap_pow sizes : curve_cap sizes = 2 ^ (Z.of_nat (length sizes) * curve_bits sizes).
Proof.
  unfold curve_cap, curve_bits, pow2_ceil. rewrite <- Z.pow_mul_r; [f_equal; lia| |lia].
  apply Z.log2_up_nonneg.
Qed.

Lemma in_box_below sizes c : in_box sizes c -> coords_below (curve_bits sizes) c.
Proof.
  intros H. unfold coords_below. apply Forall_forall. intros x Hx.
  assert (exists s, In s sizes /\ 0 <= x < s) as (s & Hs & Hxs).
  { clear -H Hx. induction H as [|a s cs ss Ha _ IH]; [contradiction|].
    destruct Hx as [->|Hx]; [exists s; split; [now left|assumption]|].
    destruct (IH Hx) as (s' & ? & ?). exists s'. split; [now right|assumption]. }
  split; [lia|]. apply Z.lt_le_trans with s; [lia|].
  apply Z.le_trans with (zmax sizes); [now apply zmax_ge|].
  unfold curve_bits. destruct (Z.le_gt_cases (zmax sizes) 1) as [Hle|Hgt].
  - rewrite Z.log2_up_eqn0 by lia. cbn. lia.
  - apply Z.log2_up_spec. lia.
Qed.

Lemma in_box_length sizes c : in_box sizes c -> length c = length sizes.
Proof. induction 1; cbn; congruence. Qed.

(* ---------- row-major ---------- *)
Definition rowmajor_layout (V : Type) (sizes : list Z) : layout :=
  {| idx := rowmajor sizes; dom := in_box sizes; cap := zprod sizes;
     idx_inj := rowmajor_inj sizes; idx_range := rowmajor_range sizes |}.

(* ---------- Morton: valid when the extents fit the per-coordinate bit budget ---------- *)
Section MortonLayout.
  Variable sizes : list Z.
  Let N := length sizes.
  Variable b : nat.                         (* bits per coordinate: floor(64 / N) in the library *)
  Hypothesis HN : (0 < N)%nat.
  Hypothesis Hfit : curve_bits sizes <= Z.of_nat b.   (* max extent <= 2^b *)

  Lemma morton_layout_inj c c' : in_box sizes c -> in_box sizes c' ->
    morton N b c = morton N b c' -> c = c'.
  Proof.
    intros Hc Hc' E. apply (morton_inj N b); try assumption.
    - now apply in_box_length.
    - now apply in_box_length.
    - eapply Forall_impl; [|apply (in_box_below _ _ Hc)]. cbv beta. intros x Hx. split; [lia|].
      apply Z.lt_le_trans with (2 ^ curve_bits sizes); [lia|]. apply Z.pow_le_mono_r; lia.
    - eapply Forall_impl; [|apply (in_box_below _ _ Hc')]. cbv beta. intros x Hx. split; [lia|].
      apply Z.lt_le_trans with (2 ^ curve_bits sizes); [lia|]. apply Z.pow_le_mono_r; lia.
  Qed.

  Lemma morton_layout_range c : in_box sizes c -> 0 <= morton N b c < curve_cap sizes.
  Proof.
    intros Hc. rewrite curve_cap_pow. apply morton_lt_cap; try assumption.
    - now apply in_box_length.
    - split; [apply Z.log2_up_nonneg|assumption].
    - now apply in_box_below.
  Qed.

  Definition morton_layout (V : Type) : layout :=
    {| idx := morton N b; dom := in_box sizes; cap := curve_cap sizes;
       idx_inj := morton_layout_inj; idx_range := morton_layout_range |}.
End MortonLayout.

(* ---------- Hilbert: the curve of the smallest power-of-two square covering the extents ---------- *)
Section HilbertLayout.
  Variable sx sy : Z.
  Let sizes := [sx; sy].
  Let k := Z.to_nat (curve_bits sizes).
  Definition hidx (c : list Z) : Z := match c with [x; y] => Hl k x y | _ => 0 end.

  Lemma hk : Z.of_nat k = curve_bits sizes.
  Proof. unfold k. rewrite Z2Nat.id; [reflexivity|apply Z.log2_up_nonneg]. Qed.

  Lemma hilbert_dom c : in_box sizes c ->
    exists x y, c = [x; y] /\ 0 <= x < 2 ^ Z.of_nat k /\ 0 <= y < 2 ^ Z.of_nat k.
  Proof.
    intros H. pose proof (in_box_below _ _ H) as Hb. unfold coords_below in Hb. rewrite <- hk in Hb.
    inversion H as [|x s1 cs ss1 Hx H1]; subst. inversion H1 as [|y s2 cs2 ss2 Hy H2]; subst.
    inversion H2; subst. exists x, y. split; [reflexivity|].
    inversion Hb as [|? ? Hbx Hb1]; subst. inversion Hb1 as [|? ? Hby _]; subst. split; assumption.
  Qed.

  Lemma hilbert_layout_inj c c' : in_box sizes c -> in_box sizes c' -> hidx c = hidx c' -> c = c'.
  Proof.
    intros Hc Hc' E. destruct (hilbert_dom c Hc) as (x & y & -> & Hx & Hy).
    destruct (hilbert_dom c' Hc') as (x' & y' & -> & Hx' & Hy'). cbn [hidx] in E.
    destruct (Hl_inj k x y x' y' Hx Hy Hx' Hy' E) as [-> ->]. reflexivity.
  Qed.

  Lemma hilbert_layout_range c : in_box sizes c -> 0 <= hidx c < curve_cap sizes.
  Proof.
    intros Hc. destruct (hilbert_dom c Hc) as (x & y & -> & Hx & Hy). cbn [hidx].
    pose proof (Hl_range k x y Hx Hy) as R. rewrite curve_cap_pow. rewrite <- hk.
    unfold sq in R. cbn [length sizes]. replace (Z.of_nat 2 * Z.of_nat k) with (Z.of_nat k + Z.of_nat k) by lia.
    rewrite Z.pow_add_r by lia. exact R.
  Qed.

  Definition hilbert_layout (V : Type) : layout :=
    {| idx := hidx; dom := in_box sizes; cap := curve_cap sizes;
       idx_inj := hilbert_layout_inj; idx_range := hilbert_layout_range |}.
End HilbertLayout.

(* non-vacuity: a 3 x 5 Morton field: 64 cells, position of (2,4) *)
Example morton_3x5 : curve_cap [3; 5] = 64 /\ morton 2 32 [2; 4] = 36 /\ in_box [3; 5] [2; 4].
Proof. split; [reflexivity|]. split; [vm_compute; reflexivity|]. repeat constructor; lia. Qed.
