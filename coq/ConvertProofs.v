(* ConvertProofs.v -- the executable list-level conversion (Convert.relayout_list, the one compared
   with the real converting constructors, storage contents included) IS the copy loop of Relayout.v:
   seen as a memory of cells, the list it produces equals relayout_on applied to the source list seen
   the same way; hence, by relayout_preserves, the cell of every in-range coordinate in the target
   list is the source's cell. *)
From Coq Require Import ZArith List Lia Bool Arith.
From Covfie Require Import Layout LayoutMem NdMap Stack Relayout Convert.
Import ListNotations.
Local Open Scope Z_scope.

Definition lmem (m : nat) (data : list Z) : mem (list Z) := fun j => get_cell m data j.

Lemma skipn_skipn' {A} (a b : nat) (l : list A) : skipn a (skipn b l) = skipn (a + b) l.
Proof.
  revert l. induction b as [|b IH]; intros l; [now rewrite Nat.add_0_r|].
  destruct l as [|x l]; [now rewrite !skipn_nil|]. rewrite Nat.add_succ_r. cbn [skipn]. apply IH.
Qed.

(* reading a cell of a list in which another (or the same) cell has been replaced *)
Lemma get_set_cell (m : nat) (acc cell : list Z) (j j' : Z) :
  0 <= j -> 0 <= j' -> length cell = m ->
  ((Z.to_nat j + 1) * m <= length acc)%nat -> ((Z.to_nat j' + 1) * m <= length acc)%nat ->
  get_cell m (set_cell m acc j cell) j' = if j' =? j then cell else get_cell m acc j'.
Proof.
  intros Hj Hj' Hc Hb Hb'. unfold get_cell, set_cell.
  set (a := Z.to_nat j) in *. set (b := Z.to_nat j') in *.
  assert (Ha : length (firstn (a * m) acc) = (a * m)%nat) by (apply firstn_length_le; lia).
  destruct (Z.eqb_spec j' j) as [->|Hne].
  - fold a. rewrite skipn_app, Ha, Nat.sub_diag. rewrite (skipn_all2 (firstn (a * m) acc)) by lia. cbn [skipn app].
    rewrite firstn_app, Hc, Nat.sub_diag. cbn [firstn]. rewrite app_nil_r. rewrite <- Hc. apply firstn_all.
  - assert (Hab : a <> b) by (unfold a, b; lia).
    destruct (Nat.lt_ge_cases b a) as [Hlt|Hge].
    + (* the cell lies before the replaced one *)
      assert (b * m + m <= a * m)%nat by nia.
      rewrite skipn_app, Ha. replace (b * m - a * m)%nat with O by lia. cbn [skipn].
      rewrite firstn_app. rewrite skipn_length, Ha.
      replace (m - (a * m - b * m))%nat with O by lia. cbn [firstn]. rewrite app_nil_r.
      rewrite skipn_firstn_comm. rewrite firstn_firstn. f_equal. lia.
    + (* after it *)
      assert (a * m + m <= b * m)%nat by nia.
      rewrite skipn_app, Ha. rewrite (skipn_all2 (firstn (a * m) acc)) by lia. cbn [app].
      rewrite skipn_app, Hc. rewrite (skipn_all2 cell) by lia. cbn [app].
      rewrite skipn_skipn'. f_equal. f_equal. lia.
Qed.

Lemma set_cell_length (m : nat) acc cell j : 0 <= j -> length cell = m -> ((Z.to_nat j + 1) * m <= length acc)%nat ->
  length (set_cell m acc j cell) = length acc.
Proof.
  intros Hj Hc Hb. unfold set_cell. rewrite !app_length, skipn_length, Hc.
  rewrite firstn_length_le by lia. lia.
Qed.

Lemma get_cell_length (m : nat) data j : 0 <= j -> ((Z.to_nat j + 1) * m <= length data)%nat -> length (get_cell m data j) = m.
Proof. intros Hj Hb. unfold get_cell. rewrite firstn_length, skipn_length. lia. Qed.

Section Bridge.
  Variable m : nat.
  Variable L1 L2 : layout.
  Variable src : list Z.
  Variable cap2 : nat.                      (* cells of the target storage *)

  (* the list-level loop over an arbitrary list of coordinates *)
  Definition loop_list (cs : list (list Z)) (acc : list Z) : list Z :=
    fold_left (fun acc c => set_cell m acc (idx L2 c) (get_cell m src (idx L1 c))) cs acc.

  Hypothesis Hsrc : forall c, dom L1 c -> 0 <= idx L1 c /\ ((Z.to_nat (idx L1 c) + 1) * m <= length src)%nat.
  Hypothesis H2 : forall c, dom L2 c -> 0 <= idx L2 c < Z.of_nat cap2.

  Lemma loop_list_spec : forall cs acc, length acc = (cap2 * m)%nat ->
    (forall c, In c cs -> dom L1 c /\ dom L2 c) ->
    length (loop_list cs acc) = (cap2 * m)%nat /\
    forall j, 0 <= j < Z.of_nat cap2 ->
      lmem m (loop_list cs acc) j = relayout_on (list Z) L1 L2 cs (lmem m src) (lmem m acc) j.
  Proof.
    intros cs. induction cs as [|c0 cs IH] using rev_ind; intros acc Hl Hd.
    - split; [exact Hl|]. intros j _. reflexivity.
    - unfold loop_list, relayout_on. rewrite !fold_left_app. cbn [fold_left].
      fold (loop_list cs acc). fold (relayout_on (list Z) L1 L2 cs (lmem m src) (lmem m acc)).
      destruct (IH acc Hl (fun c Hc => Hd c (in_or_app _ _ _ (or_introl Hc)))) as [I1 I2].
      assert (Hin0 : In c0 (cs ++ [c0])) by (apply in_or_app; right; now left).
      destruct (Hd c0 Hin0) as [D1 D2].
      destruct (Hsrc c0 D1) as [S1 S2]. pose proof (H2 c0 D2) as R2.
      assert (Hb2 : ((Z.to_nat (idx L2 c0) + 1) * m <= length (loop_list cs acc))%nat) by (rewrite I1; nia).
      assert (Hcl : length (get_cell m src (idx L1 c0)) = m) by (apply get_cell_length; lia).
      split; [rewrite set_cell_length; [exact I1|lia|exact Hcl|exact Hb2]|].
      intros j Hj. unfold lmem at 1. rewrite get_set_cell; try lia; try assumption.
      + unfold wr, rd. destruct (j =? idx L2 c0); [reflexivity|]. apply I2. exact Hj.
      + rewrite I1. nia.
  Qed.
End Bridge.

(* the cell of every in-range coordinate in the converted list is the source's cell *)
Theorem convert_preserves_cells (m : nat) (L1 L2 : layout) (s : list nat) (src : list Z) (cap2 : nat) :
  (forall c, dom L1 c <-> in_box (map Z.of_nat s) c) -> (forall c, dom L2 c <-> in_box (map Z.of_nat s) c) ->
  (forall c, dom L1 c -> 0 <= idx L1 c /\ ((Z.to_nat (idx L1 c) + 1) * m <= length src)%nat) ->
  (forall c, dom L2 c -> 0 <= idx L2 c < Z.of_nat cap2) ->
  forall c, in_box (map Z.of_nat s) c ->
  get_cell m (loop_list m L1 L2 src (box_coords s) (repeat 0 (cap2 * m))) (idx L2 c) = get_cell m src (idx L1 c).
Proof.
  intros D1 D2 Hs H2 c Hc.
  destruct (loop_list_spec m L1 L2 src cap2 Hs H2 (box_coords s) (repeat 0 (cap2 * m)) (repeat_length _ _)) as [_ Sp].
  { intros c0 Hc0. apply in_box_coords in Hc0. split; [now apply D1|now apply D2]. }
  change (lmem m (loop_list m L1 L2 src (box_coords s) (repeat 0 (cap2 * m))) (idx L2 c) = lmem m src (idx L1 c)).
  rewrite Sp by (apply H2; now apply D2).
  exact (relayout_preserves (list Z) s L1 L2 D2 (lmem m src) (lmem m (repeat 0 (cap2 * m))) c Hc).
Qed.

(* relayout_list of Convert.v is this loop with the layers' index functions *)
Lemma relayout_list_is_loop (m : nat) (l1 l2 : layer) (sizes : list Z) (data : list Z) (L1 L2 : layout) :
  (forall c, idx L1 c = layer_index l1 sizes c) -> (forall c, idx L2 c = layer_index l2 sizes c) ->
  relayout_list m l1 l2 sizes data =
  loop_list m L1 L2 data (box_coords (map Z.to_nat sizes)) (repeat 0 (Z.to_nat (layer_cap l2 sizes) * m)).
Proof.
  intros E1 E2. unfold relayout_list, loop_list. generalize (repeat 0 (Z.to_nat (layer_cap l2 sizes) * m)).
  induction (box_coords (map Z.to_nat sizes)) as [|c cs IH]; intros acc; cbn [fold_left]; [reflexivity|].
  now rewrite IH, E1, E2.
Qed.

(* a concrete instance, end to end on the executable function: re-laying a row-major field of extents
   sx x sy out along the Hilbert curve keeps the cell of every in-range coordinate *)
Theorem convert_rowmajor_to_hilbert (m sx sy : nat) (tc tc' : sty) (data : list Z) :
  length data = (sx * sy * m)%nat ->
  let sizes := [Z.of_nat sx; Z.of_nat sy] in
  forall c, in_box sizes c ->
  get_cell m (relayout_list m (LStrided 2 tc) (LHilbert tc') sizes data) (layer_index (LHilbert tc') sizes c)
  = get_cell m data (layer_index (LStrided 2 tc) sizes c).
Proof.
  intros Hlen sizes c Hc.
  set (L1 := rowmajor_layout (list Z) sizes). set (L2 := hilbert_layout (Z.of_nat sx) (Z.of_nat sy) (list Z)).
  assert (E1 : forall c0, idx L1 c0 = layer_index (LStrided 2 tc) sizes c0) by reflexivity.
  assert (E2 : forall c0, idx L2 c0 = layer_index (LHilbert tc') sizes c0) by reflexivity.
  rewrite (relayout_list_is_loop m _ _ sizes data L1 L2 E1 E2).
  replace (map Z.to_nat sizes) with [sx; sy] by (unfold sizes; cbn [map]; now rewrite !Nat2Z.id).
  rewrite <- E1, <- E2.
  assert (Hcap : 0 <= layer_cap (LHilbert tc') sizes).
  { cbn [layer_cap]. rewrite curve_cap_pow. apply Z.pow_nonneg. lia. }
  apply (convert_preserves_cells m L1 L2 [sx; sy] data (Z.to_nat (layer_cap (LHilbert tc') sizes))).
  - intros c0. reflexivity.
  - intros c0. reflexivity.
  - intros c0 D. pose proof (rowmajor_range sizes c0 D) as R. change (idx L1 c0) with (rowmajor sizes c0).
    split; [lia|]. rewrite Hlen.
    assert (zprod sizes = Z.of_nat (sx * sy)) by (unfold sizes, zprod; cbn [fold_right]; lia).
    assert (Z.to_nat (rowmajor sizes c0) + 1 <= sx * sy)%nat by lia. nia.
  - intros c0 D. pose proof (hilbert_layout_range (Z.of_nat sx) (Z.of_nat sy) c0 D) as R.
    change (idx L2 c0) with (hidx (Z.of_nat sx) (Z.of_nat sy) c0). rewrite Z2Nat.id by exact Hcap. exact R.
  - exact Hc.
Qed.
