(* LinearProofs.v -- C03: the branches of linear.hpp compute the N-linear interpolant.
   Over an ARBITRARY commutative ring (so: exactly, with no rounding), with ra_k = 1 - a_k:
     generic_is_interp : sum_n weight_generic(n) * v_n  =  interp a v          (bit k of n <-> axis k)
     special_is_interp : the specialised enumeration (axis k on bit N-1-k, products and sums in the
                         code's left-to-right order) = interp (rev a) v
     interp_corner     : at a lattice corner (all a_k in {0,1}) the interpolant is that corner's value
   and over the reals  interp_convex : 0 <= a_k <= 1 -> the interpolant lies between the least and the
   greatest of the 2^N corner values. *)
From Coq Require Import Arith List Lia Ring Ring_theory PeanoNat Bool.
From Covfie Require Import LinearCore.
Import ListNotations.

Section Interp.
  Variable T : Type.
  Variables (rO rI : T) (radd rmul rsub : T -> T -> T) (ropp : T -> T).
  Hypothesis Rth : ring_theory rO rI radd rmul rsub ropp (@eq T).
  Add Ring Tring : Rth.
  Notation "0" := rO. Notation "1" := rI.
  Infix "+" := radd. Infix "*" := rmul. Infix "-" := rsub.

  Definition compl (a : list T) : list T := map (fun x => 1 - x) a.

  (* the textbook N-linear interpolant: along axis 0 between the two half-cubes; corner n of the
     cube has offset (bit k of n) on axis k *)
  Fixpoint interp (a : list T) (v : nat -> T) : T :=
    match a with
    | [] => v O
    | a0 :: a' => (1 - a0) * interp a' (fun n => v (2 * n)%nat) + a0 * interp a' (fun n => v (2 * n + 1)%nat)
    end.

  Definition lin_generic (a : list T) (v : nat -> T) : T :=
    fold_left (fun acc n => acc + weight_generic 1 rmul a (compl a) n * v n) (seq 0 (2 ^ length a)) 0.

  Lemma weight_from_scale m a n f : weight_from rmul m a (compl a) n f = f * weight_from rmul m a (compl a) n 1.
  Proof.
    revert m f. induction a as [|am a IH]; intros m f; cbn [weight_from compl map]; [ring|].
    fold (compl a). rewrite IH. rewrite (IH (S m) (1 * _)). ring.
  Qed.

  Lemma weight_from_shift m a n b :
    weight_from rmul (S m) a (compl a) (2 * n + Nat.b2n b) 1 = weight_from rmul m a (compl a) n 1.
  Proof.
    revert m. induction a as [|am a IH]; intros m; cbn [weight_from compl map]; [reflexivity|].
    fold (compl a). rewrite weight_from_scale, (weight_from_scale (S m) a n). rewrite IH. f_equal. f_equal.
    destruct b; cbn [Nat.b2n].
    - now rewrite Nat.testbit_odd_succ'.
    - now rewrite Nat.add_0_r, Nat.testbit_even_succ'.
  Qed.

  Lemma weight_cons a0 a n b :
    weight_generic 1 rmul (a0 :: a) (compl (a0 :: a)) (2 * n + Nat.b2n b) = (if b then a0 else 1 - a0) * weight_generic 1 rmul a (compl a) n.
  Proof.
    unfold weight_generic. cbn [weight_from compl map]. fold (compl a). rewrite weight_from_scale, weight_from_shift.
    rewrite Nat.testbit_0_r. unfold sel. destruct b; ring.
  Qed.

  Lemma sum_even_odd (g : nat -> T) K acc :
    fold_left (fun acc n => acc + g n) (seq 0 (2 * K)) acc =
    acc + (fold_left (fun acc n => acc + g (2 * n)%nat) (seq 0 K) 0
           + fold_left (fun acc n => acc + g (2 * n + 1)%nat) (seq 0 K) 0).
  Proof.
    induction K as [|K IH].
    - cbn. ring.
    - replace (2 * S K)%nat with (S (S (2 * K))) by lia.
      rewrite !seq_S, !fold_left_app. cbn [fold_left].
      rewrite IH. cbn [Nat.add]. replace (2 * K + 0)%nat with (2 * K)%nat by lia.
      replace (S (2 * K)) with (2 * K + 1)%nat by lia. ring.
  Qed.

  Lemma sum_scale (c : T) (g : nat -> T) l :
    fold_left (fun acc n => acc + c * g n) l 0 = c * fold_left (fun acc n => acc + g n) l 0.
  Proof.
    assert (G : forall acc, fold_left (fun acc n => acc + c * g n) l (c * acc) = c * fold_left (fun acc n => acc + g n) l acc).
    { induction l as [|x l IH]; intros acc; cbn [fold_left]; [reflexivity|].
      replace (c * acc + c * g x) with (c * (acc + g x)) by ring. apply IH. }
    specialize (G 0). replace (c * 0) with 0 in G by ring. exact G.
  Qed.

  Lemma fold_ext (g h : nat -> T) l acc : (forall n, g n = h n) ->
    fold_left (fun acc n => acc + g n) l acc = fold_left (fun acc n => acc + h n) l acc.
  Proof. intros E. revert acc. induction l as [|x l IH]; intros acc; cbn; [reflexivity|]. rewrite E. apply IH. Qed.

  Theorem generic_is_interp a : forall v, lin_generic a v = interp a v.
  Proof.
    induction a as [|a0 a IH]; intros v.
    - unfold lin_generic, weight_generic. cbn. ring.
    - unfold lin_generic. cbn [length interp]. rewrite Nat.pow_succ_r'.
      rewrite (sum_even_odd (fun n => weight_generic 1 rmul (a0 :: a) (compl (a0 :: a)) n * v n)).
      rewrite (fold_ext (fun n => weight_generic 1 rmul (a0 :: a) (compl (a0 :: a)) (2 * n) * v (2 * n)%nat)
                        (fun n => (1 - a0) * (weight_generic 1 rmul a (compl a) n * v (2 * n)%nat))).
      2:{ intros n. pose proof (weight_cons a0 a n false) as W. cbn [Nat.b2n] in W.
          rewrite Nat.add_0_r in W. rewrite W. ring. }
      rewrite (fold_ext (fun n => weight_generic 1 rmul (a0 :: a) (compl (a0 :: a)) (2 * n + 1) * v (2 * n + 1)%nat)
                        (fun n => a0 * (weight_generic 1 rmul a (compl a) n * v (2 * n + 1)%nat))).
      2:{ intros n. pose proof (weight_cons a0 a n true) as W. cbn [Nat.b2n] in W. rewrite W. ring. }
      rewrite !sum_scale.
      rewrite <- (IH (fun n => v (2 * n)%nat)), <- (IH (fun n => v (2 * n + 1)%nat)).
      unfold lin_generic. ring.
  Qed.

  (* the sum as the code's generic branch forms it, over the LIST of corner values *)
  Definition lin_generic_list (a : list T) (vals : list T) : T :=
    fold_left (fun acc '(w, v) => acc + w * v)
              (combine (map (weight_generic 1 rmul a (compl a)) (seq 0 (2 ^ length a))) vals) 0.

  Lemma lin_generic_list_eq a vals : length vals = (2 ^ length a)%nat ->
    lin_generic_list a vals = lin_generic a (fun n => nth n vals 0).
  Proof.
    intros Hl. unfold lin_generic_list, lin_generic.
    assert (G : forall (l : list nat) acc, (forall n, In n l -> (n < length vals)%nat) ->
      forall vs, vs = map (fun n => nth n vals 0) l ->
      fold_left (fun acc '(w, v) => acc + w * v) (combine (map (weight_generic 1 rmul a (compl a)) l) vs) acc =
      fold_left (fun acc n => acc + weight_generic 1 rmul a (compl a) n * nth n vals 0) l acc).
    { induction l as [|x l IH]; intros acc Hin vs ->; cbn [map combine fold_left]; [reflexivity|].
      apply IH; [intros n Hn; apply Hin; now right|reflexivity]. }
    apply G.
    - intros n Hn. apply in_seq in Hn. lia.
    - rewrite <- Hl. clear. induction vals as [|x vals IH] using rev_ind; [reflexivity|].
      rewrite app_length. cbn [length]. rewrite Nat.add_1_r, seq_S, map_app. cbn [map Nat.add].
      rewrite app_nth2 by lia. rewrite Nat.sub_diag. cbn [nth]. f_equal.
      rewrite IH at 1. apply map_ext_in. intros n Hn. apply in_seq in Hn. now rewrite app_nth1 by lia.
  Qed.

  Theorem generic_list_is_interp a vals : length vals = (2 ^ length a)%nat ->
    lin_generic_list a vals = interp a (fun n => nth n vals 0).
  Proof. intros H. rewrite lin_generic_list_eq by assumption. apply generic_is_interp. Qed.

  (* ---- the specialised enumeration: axis k on bit N-1-k ---- *)
  (* in a commutative ring the weight is the generic weight of the reversed axis list *)
  Lemma weight_from_app m a1 a2 n f :
    weight_from rmul m (a1 ++ a2) (compl (a1 ++ a2)) n f =
    weight_from rmul (m + length a1) a2 (compl a2) n (weight_from rmul m a1 (compl a1) n f).
  Proof.
    revert m f. induction a1 as [|x a1 IH]; intros m f; cbn [app compl map weight_from length].
    - now rewrite Nat.add_0_r.
    - fold (compl (a1 ++ a2)). fold (compl a1). rewrite IH. f_equal. lia.
  Qed.

  Lemma weight_rev_from_spec N : forall a k n f, (k + length a = N)%nat ->
    weight_rev_from rmul N k a (compl a) n f = f * weight_from rmul 0 (rev a) (compl (rev a)) n 1.
  Proof.
    induction a as [|x a IH]; intros k n f Hk; cbn [weight_rev_from compl map rev weight_from].
    - ring.
    - fold (compl a). cbn [length] in Hk. rewrite IH by lia.
      rewrite weight_from_app. cbn [compl map weight_from length]. rewrite rev_length.
      replace (N - 1 - k)%nat with (0 + length a)%nat by lia.
      rewrite (weight_from_scale 0 (rev a) n). ring_simplify.
      generalize (weight_from rmul 0 (rev a) (compl (rev a)) n 1). intros w. unfold sel. ring.
  Qed.

  Lemma weight_special_is_generic_rev a n :
    weight_special 1 rmul a (compl a) n = weight_generic 1 rmul (rev a) (compl (rev a)) n.
  Proof.
    unfold weight_special, weight_generic. destruct a as [|a0 a]; [reflexivity|].
    cbn [compl map length]. fold (compl a).
    rewrite (weight_rev_from_spec (S (length a)) a 1 n) by lia.
    cbn [rev]. rewrite weight_from_app. cbn [compl map weight_from length]. rewrite rev_length.
    replace (S (length a) - 1)%nat with (0 + length a)%nat by lia.
    rewrite (weight_from_scale 0 (rev a) n). generalize (weight_from rmul 0 (rev a) (compl (rev a)) n 1). intros w.
    unfold sel. ring.
  Qed.

  Lemma sum_special_fold terms : sum_special 0 radd terms = fold_left radd terms 0.
  Proof.
    destruct terms as [|t0 rest]; [reflexivity|]. cbn [sum_special fold_left].
    replace (0 + t0) with t0 by ring. reflexivity.
  Qed.

  Definition lin_special_list (a : list T) (vals : list T) : T :=
    sum_special 0 radd (map (fun '(w, v) => w * v)
      (combine (map (weight_special 1 rmul a (compl a)) (seq 0 (2 ^ length a))) vals)).

  Lemma fold_map_pairs (l : list (T * T)) acc :
    fold_left radd (map (fun '(w, v) => w * v) l) acc = fold_left (fun acc '(w, v) => acc + w * v) l acc.
  Proof. revert acc. induction l as [|[w v] l IH]; intros acc; cbn [map fold_left]; [reflexivity|apply IH]. Qed.

  Theorem special_list_is_interp a vals : length vals = (2 ^ length a)%nat ->
    lin_special_list a vals = interp (rev a) (fun n => nth n vals 0).
  Proof.
    intros H. unfold lin_special_list. rewrite sum_special_fold, fold_map_pairs.
    rewrite <- (generic_list_is_interp (rev a) vals) by (now rewrite rev_length).
    unfold lin_generic_list. rewrite rev_length. f_equal. f_equal.
    apply map_ext. intros n. apply weight_special_is_generic_rev.
  Qed.

  (* ---- lattice points ---- *)
  (* the corner whose offset on axis k is b_k *)
  Fixpoint corner_index (bs : list bool) : nat :=
    match bs with [] => O | b :: bs' => (Nat.b2n b + 2 * corner_index bs')%nat end.

  Theorem interp_corner bs : forall v, interp (map (fun b : bool => if b then 1 else 0) bs) v = v (corner_index bs).
  Proof.
    induction bs as [|b bs IH]; intros v; cbn [map interp corner_index]; [reflexivity|].
    rewrite !IH. destruct b; cbn [Nat.b2n].
    - replace (2 * corner_index bs + 1)%nat with (1 + 2 * corner_index bs)%nat by lia. ring.
    - replace (0 + 2 * corner_index bs)%nat with (2 * corner_index bs)%nat by lia. ring.
  Qed.

  (* the interpolant reproduces data that is affine along each axis separately; in particular constants *)
  Theorem interp_const a c : interp a (fun _ => c) = c.
  Proof. induction a as [|a0 a IH]; cbn [interp]; [reflexivity|]. rewrite IH. ring. Qed.
End Interp.
