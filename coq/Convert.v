(* Convert.v -- executable, list-level model of constructing a field of one stack from a field of a
   compatible stack (C05): the layers correspond one by one (equal, or both storage orders over the
   same extents, or both interpolators), configurations carry over, and the storage is re-laid out by
   the copy loop of Relayout.v:  for every index tuple c of the box: target[L2 c] = source[L1 c]. *)
From Coq Require Import ZArith List Bool Lia.
From Covfie Require Import Numeric Layout Hilbert LayoutMem NdMap Stack Relayout.
Import ListNotations.
Local Open Scope Z_scope.

Definition is_storage (l : layer) : bool := match l with LStrided _ _ | LMorton _ _ _ | LHilbert _ => true | _ => false end.
Definition is_interp (l : layer) : bool := match l with LLinear _ | LNearest _ => true | _ => false end.

Definition layer_index (l : layer) (sizes c : list Z) : Z :=
  match l with
  | LStrided _ tc => rowmajor sizes c
  | LMorton n _ _ => morton n (Z.to_nat (64 / Z.of_nat n)) c
  | LHilbert _ => match c with [x; y] => Hl (Z.to_nat (curve_bits sizes)) x y | _ => 0 end
  | _ => 0
  end.
Definition layer_cap (l : layer) (sizes : list Z) : Z :=
  match l with LStrided _ _ => zprod sizes | _ => curve_cap sizes end.

Definition get_cell (m : nat) (data : list Z) (j : Z) : list Z := firstn m (skipn (Z.to_nat j * m) data).
Definition set_cell (m : nat) (data : list Z) (j : Z) (cell : list Z) : list Z :=
  firstn (Z.to_nat j * m) data ++ cell ++ skipn ((Z.to_nat j + 1) * m) data.

Definition relayout_list (m : nat) (l1 l2 : layer) (sizes : list Z) (data : list Z) : list Z :=
  let zero := repeat 0 (Z.to_nat (layer_cap l2 sizes) * m) in
  fold_left (fun acc c => set_cell m acc (layer_index l2 sizes c) (get_cell m data (layer_index l1 sizes c)))
            (box_coords (map Z.to_nat sizes)) zero.

Definition layer_eqb (a b : layer) : bool :=
  match a, b with
  | LClamp, LClamp | LBackup, LBackup | LAffine, LAffine | LDeref, LDeref => true
  | LCast t, LCast t' => sty_eqb t t'
  | LShuffle p, LShuffle q => if list_eq_dec Nat.eq_dec p q then true else false
  | _, _ => false
  end.

(* which storage-order layers the conversion crosses, with the extents *)
Fixpoint find_relayout (ls1 ls2 : list layer) (gs : list cfg) : option (option (layer * layer * list Z)) :=
  match ls1, ls2, gs with
  | [], [], [] => Some None
  | l1 :: r1, l2 :: r2, g :: gr =>
      match find_relayout r1 r2 gr with
      | None => None
      | Some inner =>
          if is_storage l1 && is_storage l2 then
            match g, inner with CSizes s, None => Some (Some (l1, l2, s)) | _, _ => None end
          else if (is_interp l1 && is_interp l2) || layer_eqb l1 l2 then Some inner else None
      end
  | _, _, _ => None
  end.

Definition convert (s1 s2 : stack) (f : fld) : option fld :=
  match snd s1, snd s2, f_prim f with
  | PArray m t, PArray m' t', DArray len data =>
      if (m =? m')%nat && sty_eqb t t' then
        match find_relayout (fst s1) (fst s2) (f_cfgs f) with
        | Some (Some (l1, l2, sizes)) =>
            Some {| f_cfgs := f_cfgs f; f_prim := DArray (layer_cap l2 sizes) (relayout_list m l1 l2 sizes data) |}
        | Some None => Some f
        | None => None
        end
      else None
  | _, _, _ => None
  end.

Example convert_3x2 :
  convert ([LStrided 2 U64], PArray 1 F32) ([LMorton 2 U64 false], PArray 1 F32)
          {| f_cfgs := [CSizes [3; 2]]; f_prim := DArray 6 [10; 11; 20; 21; 30; 31] |}
  = Some {| f_cfgs := [CSizes [3; 2]]; f_prim := DArray 16 [10; 20; 11; 21; 30; 0; 31; 0; 0; 0; 0; 0; 0; 0; 0; 0] |}.
Proof. vm_compute. reflexivity. Qed.

(* writing through a view: the lookup of a reference-returning stack reads exactly one cell; the write
   replaces that cell *)
Definition write (ops : sops) (s : stack) (f : fld) (c v : list Z) : option fld :=
  match eval ops s f c, f_prim f, snd s with
  | Some ([i], _), DArray len data, PArray m _ =>
      if (length v =? m)%nat then Some {| f_cfgs := f_cfgs f; f_prim := DArray len (set_cell m data i v) |} else None
  | _, _, _ => None
  end.
