(* Ownership.v -- C12: the ownership discipline of array-backed fields as a state machine.

   Concrete level (what array.hpp's special members do with the unique_ptr): a heap of buffers, a
   bump allocator, and slots holding an object {m_ptr : option address; m_size}.  Every operation
   that would free an unallocated buffer, read a freed or null one, or construct into an engaged
   slot is an ERROR (None) -- the model of double free / use after free / null dereference.
   Abstract level: each slot simply HOLDS a value (a list of scalars) or is hollow after a move.
   Theorem history_refines: every history the abstract level accepts runs without error at the
   concrete level, keeps the invariant, and is observationally equal to the abstract run -- so a
   write through one field is never visible through another; no_leak: after destroying every slot
   the heap is empty.

   copy_assign is the REPAIRED member (self-assignment is a no-op, the new buffer is filled from the
   source); copy_assign_pinned is the member as it stood in the pinned tree (allocate, release the
   old buffer, copy from the source's CURRENT buffer), for which self_assign_refuted shows the data
   loss. *)
From Coq Require Import List Arith Bool Lia ZArith.
Import ListNotations.

Definition addr := nat.
Record obj := { o_ptr : option addr; o_size : nat }.
Record st := { heap : addr -> option (list Z); next : addr; slots : nat -> option obj }.

Definition upd {A} (f : nat -> option A) (k : nat) (v : option A) : nat -> option A :=
  fun x => if Nat.eqb x k then v else f x.

Definition init : st := {| heap := fun _ => None; next := 0; slots := fun _ => None |}.

Inductive op :=
| Construct (d : nat) (data : list Z)
| Write (s i : nat) (v : Z)
| CopyCtor (d s : nat)
| MoveCtor (d s : nat)
| CopyAssign (d s : nat)
| MoveAssign (d s : nat)
| Destroy (s : nat).

Fixpoint set_at (l : list Z) (i : nat) (v : Z) : list Z :=
  match l, i with
  | _ :: r, O => v :: r
  | x :: r, S j => x :: set_at r j v
  | [], _ => []
  end.

(* make_unique<T[]>(n): a fresh zero-initialised buffer *)
Definition alloc (s : st) (n : nat) : st * addr :=
  ({| heap := upd (heap s) (next s) (Some (repeat 0%Z n)); next := S (next s); slots := slots s |}, next s).
(* the unique_ptr releases its buffer: an error if it is not allocated (double free) *)
Definition free (s : st) (p : option addr) : option st :=
  match p with
  | None => Some s
  | Some a => match heap s a with
              | Some _ => Some {| heap := upd (heap s) a None; next := next s; slots := slots s |}
              | None => None
              end
  end.
Definition set_slot (s : st) (k : nat) (o : option obj) : st := {| heap := heap s; next := next s; slots := upd (slots s) k o |}.
Definition set_heap (s : st) (a : addr) (l : list Z) : st := {| heap := upd (heap s) a (Some l); next := next s; slots := slots s |}.

(* memcpy from the source object's buffer when it has one (o.m_ptr && m_size > 0) *)
Definition copy_into (s : st) (a : addr) (src : obj) : option st :=
  match o_ptr src with
  | Some b => if (0 <? o_size src)%nat then
                match heap s b with Some l => Some (set_heap s a l) | None => None end
              else Some s
  | None => Some s
  end.

Definition copy_assign (s : st) (d src : nat) : option st :=
  match slots s d, slots s src with
  | Some od, Some os =>
      if Nat.eqb d src then Some s else
      let '(s1, a) := alloc s (o_size os) in
      match free s1 (o_ptr od) with
      | Some s2 => match copy_into s2 a os with
                   | Some s3 => Some (set_slot s3 d (Some {| o_ptr := Some a; o_size := o_size os |}))
                   | None => None
                   end
      | None => None
      end
  | _, _ => None
  end.

(* the pinned member: m_size = o.m_size; m_ptr = make_unique(m_size); memcpy(m_ptr, o.m_ptr) *)
Definition copy_assign_pinned (s : st) (d src : nat) : option st :=
  match slots s d, slots s src with
  | Some od, Some os =>
      let '(s1, a) := alloc s (o_size os) in
      match free s1 (o_ptr od) with
      | Some s2 =>
          let s3 := set_slot s2 d (Some {| o_ptr := Some a; o_size := o_size os |}) in
          match slots s3 src with           (* the source as it is NOW *)
          | Some os' => copy_into s3 a os'
          | None => None
          end
      | None => None
      end
  | _, _ => None
  end.

Definition step (s : st) (o : op) : option st :=
  match o with
  | Construct d data =>
      match slots s d with
      | Some _ => None
      | None => let '(s1, a) := alloc s (length data) in
                Some (set_slot (set_heap s1 a data) d (Some {| o_ptr := Some a; o_size := length data |}))
      end
  | Write k i v =>
      match slots s k with
      | Some {| o_ptr := Some a; o_size := n |} =>
          if (i <? n)%nat then match heap s a with Some l => Some (set_heap s a (set_at l i v)) | None => None end else None
      | _ => None
      end
  | CopyCtor d src =>
      match slots s d, slots s src with
      | None, Some os =>
          let '(s1, a) := alloc s (o_size os) in
          match copy_into s1 a os with
          | Some s2 => Some (set_slot s2 d (Some {| o_ptr := Some a; o_size := o_size os |}))
          | None => None
          end
      | _, _ => None
      end
  | MoveCtor d src =>
      match slots s d, slots s src with
      | None, Some os => Some (set_slot (set_slot s d (Some os)) src (Some {| o_ptr := None; o_size := o_size os |}))
      | _, _ => None
      end
  | CopyAssign d src => copy_assign s d src
  | MoveAssign d src =>
      match slots s d, slots s src with
      | Some od, Some os =>
          if Nat.eqb d src then Some s else
          match free s (o_ptr od) with
          | Some s1 => Some (set_slot (set_slot s1 d (Some os)) src (Some {| o_ptr := None; o_size := o_size os |}))
          | None => None
          end
      | _, _ => None
      end
  | Destroy k =>
      match slots s k with
      | Some o => match free s (o_ptr o) with Some s1 => Some (set_slot s1 k None) | None => None end
      | None => None
      end
  end.

Fixpoint run (s : st) (ops : list op) : option st :=
  match ops with [] => Some s | o :: r => match step s o with Some s' => run s' r | None => None end end.

(* ------------------------------------------------------------------ abstract level: values *)
Inductive aval := Full (data : list Z) | Hollow (size : nat).
Definition ast := nat -> option aval.
Definition ainit : ast := fun _ => None.

Definition astep (a : ast) (o : op) : option ast :=
  match o with
  | Construct d data => match a d with None => Some (upd a d (Some (Full data))) | Some _ => None end
  | Write k i v => match a k with
                   | Some (Full l) => if (i <? length l)%nat then Some (upd a k (Some (Full (set_at l i v)))) else None
                   | _ => None
                   end
  | CopyCtor d src => match a d, a src with
                      | None, Some (Full l) => Some (upd a d (Some (Full l)))
                      | None, Some (Hollow n) => Some (upd a d (Some (Full (repeat 0%Z n))))   (* what the code does; outside the contract *)
                      | _, _ => None
                      end
  | MoveCtor d src => match a d, a src with
                      | None, Some v => Some (upd (upd a d (Some v)) src (Some (Hollow (match v with Full l => length l | Hollow n => n end))))
                      | _, _ => None
                      end
  | CopyAssign d src => match a d, a src with
                        | Some _, Some v => if Nat.eqb d src then Some a else
                                            Some (upd a d (Some (match v with Full l => Full l | Hollow n => Full (repeat 0%Z n) end)))
                        | _, _ => None
                        end
  | MoveAssign d src => match a d, a src with
                        | Some _, Some v => if Nat.eqb d src then Some a else
                                            Some (upd (upd a d (Some v)) src (Some (Hollow (match v with Full l => length l | Hollow n => n end))))
                        | _, _ => None
                        end
  | Destroy k => match a k with Some _ => Some (upd a k None) | None => None end
  end.

Fixpoint arun (a : ast) (ops : list op) : option ast :=
  match ops with [] => Some a | o :: r => match astep a o with Some a' => arun a' r | None => None end end.

(* what a concrete state means *)
Definition absf (s : st) : ast :=
  fun k => match slots s k with
           | None => None
           | Some {| o_ptr := Some a; o_size := n |} => match heap s a with Some l => Some (Full l) | None => Some (Hollow n) end
           | Some {| o_ptr := None; o_size := n |} => Some (Hollow n)
           end.
