(* Refine_StaticPerm.v -- C20: the equations of the metaprogram in utility/static_permutation.hpp as they stand on this
   run (gen/Gen_StaticPerm.v: for every specialisation the shape of its argument patterns and the type expression its member
   `type` is defined as) are, one for one, the defining equations of the model StaticPerm.v:

     concat<(L...), (H...)>                = (L..., H...)                                         app
     filter_lt<N, ()>                      = ()                                                   filter_lt n [] = []
     filter_lt<N, (V, Vs...)>              = concat<(V < N ? (V) : ()), filter_lt<N, (Vs...)>>    (if v <? n then [v] else []) ++ filter_lt n vs
     filter_geq<N, ()> / <N, (V, Vs...)>   likewise with V >= N                                   (if n <=? v then [v] else []) ++ filter_geq n vs
     sort<()>                              = ()                                                   sort [] = []
     sort<(N, Ns...)>                      = concat<sort<filter_lt<N, (Ns...)>>, concat<(N), sort<filter_geq<N, (Ns...)>>>>
                                                                              sort_fuel f (filter_lt n ns) ++ ([n] ++ sort_fuel f (filter_geq n ns))
     is_permutation<A, B> : false_type ;  is_permutation<(Us...), (Vs...)> : is_same<sort<(Us...)>, sort<(Vs...)>>       is_perm a b

   The comparison is syntactic (the right-hand sides are the model's equations written in the little type language of the
   generated file); the reading of that language is by inspection and the model is additionally compared with the compiled
   templates on every sequence up to a bound (props/c20.py). *)
From Coq Require Import String List.
From Covfie.gen Require Import Gen_StaticPerm.
Import ListNotations.
Local Open Scope string_scope.

Definition filter_eqs (name op : string) : list (string * list pat * ty) :=
  [(name, [PConst; PNil], TSeq []);
   (name, [PConst; PCons 1], TConcat (TCond op "V" "N" (TSeq ["V"]) (TSeq [])) (TCall name [TConst "N"; TSeq ["Vs..."]]))].

Definition model_equations : list (string * list pat * ty) :=
  [("concat_index_sequence", [PAny; PAny], TSeq ["L..."; "H..."])] ++
  filter_eqs "filter_index_sequence_lt" "<" ++ filter_eqs "filter_index_sequence_geq" ">=" ++
  [("sort_index_sequence", [PNil], TSeq []);
   ("sort_index_sequence", [PCons 1],
      TConcat (TCall "sort_index_sequence" [TCall "filter_index_sequence_lt" [TConst "N"; TSeq ["Ns..."]]])
              (TConcat (TSeq ["N"]) (TCall "sort_index_sequence" [TCall "filter_index_sequence_geq" [TConst "N"; TSeq ["Ns..."]]])))].

Definition model_bases : list (string * list pat * ty) :=
  [("is_permutation", [PPrimary], TCall "false_type" []);
   ("is_permutation", [PAny; PAny], TCall "is_same" [TCall "sort_index_sequence" [TSeq ["Us..."]]; TCall "sort_index_sequence" [TSeq ["Vs..."]]])].

Theorem equations_are_the_models : sp_equations = model_equations.
Proof. reflexivity. Qed.
Theorem predicate_is_the_models : sp_bases = model_bases.
Proof. reflexivity. Qed.
Theorem source_read_completely : sp_problems = 0.
Proof. reflexivity. Qed.
