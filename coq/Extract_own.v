(* Extract_own.v -- the ownership state machine, both levels, for the C12 correspondence driver. *)
Require Import ExtrOcamlBasic.
From Coq Require Import ZArith List.
From Covfie Require Import Ownership.
Definition keep_number_types (z : Z) (n : N) (k : nat) := (z, n, k).
Separate Extraction step absf astep ainit init keep_number_types.
