(* Properties_C11.v -- C11: out-of-range lookups return the default without touching the backend.
   Only the property theorems, closed by [exact].  Two levels: the model layer backup_at over an
   ARBITRARY backend and any order (N, M arbitrary: they are list lengths), and the kernel GENERATED
   from backup.hpp on this run, which computes exactly that test for every integer coordinate type. *)
From Coq Require Import ZArith List Bool.
From Covfie Require Import CKernel Stack StackProofs FloatOps StackFloat Refine_Backup.
From Covfie.gen Require Import Gen_Backup.
Import ListNotations.
Local Open Scope Z_scope.

(* some component outside the closed box: the default, and the EMPTY trace -- the backend is not asked *)
Theorem C11_outside_default_no_query : forall ops t lo hi dflt (b : query) c,
  outside ops t c lo hi = true -> backup_at ops t lo hi dflt b c = Some ([], dflt).
Proof. exact backup_outside. Qed.
(* every component inside: exactly the backend's answer (value and trace) at that coordinate *)
Theorem C11_inside_backend : forall ops t lo hi dflt (b : query) c,
  outside ops t c lo hi = false -> backup_at ops t lo hi dflt b c = b c.
Proof. exact backup_inside. Qed.
(* what "outside" means: some component below its lower or above its upper bound *)
Theorem C11_outside_spec : forall ops t c lo hi, length lo = length c -> length hi = length c ->
  (outside ops t c lo hi = true <->
   exists k, (k < length c)%nat /\ (s_lt ops t (nth k c 0) (nth k lo 0) = true \/ s_lt ops t (nth k hi 0) (nth k c 0) = true)).
Proof. exact outside_spec. Qed.

(* tie to the code: the loop with early return generated from backup.hpp *)
Theorem C11_generated_kernel : forall (S : cty), 32 <= cwidth S <= 64 ->
  forall dflt (coord lo hi : list Z),
  Z.of_nat (length coord) < 2 ^ 64 -> length lo = length coord -> length hi = length coord ->
  Forall (inS S) coord -> Forall (inS S) lo -> Forall (inS S) hi ->
  gen_backup_at (Z.of_nat (length coord)) dflt (map (lit S) hi) (map (lit S) lo) (map (lit S) coord)
  = Ok (if outsideZ coord lo hi then Value dflt else Query (map (lit S) coord)).
Proof. exact backup_at_refines. Qed.
(* ... whose test is the model's test on integer coordinate types *)
Theorem C11_kernel_test_is_model_test : forall t, is_float t = false ->
  forall c lo hi, outside flocq_ops t c lo hi = outsideZ c lo hi.
Proof. exact outside_is_outsideZ. Qed.

Print Assumptions C11_outside_default_no_query.
Print Assumptions C11_inside_backend.
Print Assumptions C11_outside_spec.
Print Assumptions C11_generated_kernel.
