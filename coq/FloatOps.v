(* FloatOps.v -- the scalar operations of Stack.v ([sops]) instantiated with Flocq's IEEE 754
   binary32 / binary64 (round to nearest even), acting on bit patterns.  This is the executable
   float side of the model: + - * as Bplus/Bminus/Bmult, std::trunc as Bnearbyint mode_ZR,
   std::lrint as Btrunc o Bnearbyint mode_NE, conversions through binary_normalize. *)
From Coq Require Import ZArith Bool.
From Flocq Require Import Core.Core IEEE754.BinarySingleNaN IEEE754.Binary IEEE754.Bits.
From Covfie Require Import Stack.
Local Open Scope Z_scope.

Definition of32 : Z -> binary32 := b32_of_bits.
Definition to32 : binary32 -> Z := bits_of_b32.
Definition of64 : Z -> binary64 := b64_of_bits.
Definition to64 : binary64 -> Z := bits_of_b64.

Lemma Hprec32 : FLX.Prec_gt_0 24. Proof. unfold FLX.Prec_gt_0. reflexivity. Qed.
Lemma Hmax32 : Prec_lt_emax 24 128. Proof. unfold Prec_lt_emax. reflexivity. Qed.
Lemma Hprec64 : FLX.Prec_gt_0 53. Proof. unfold FLX.Prec_gt_0. reflexivity. Qed.
Lemma Hmax64 : Prec_lt_emax 53 1024. Proof. unfold Prec_lt_emax. reflexivity. Qed.

(* conversion of a finite value m * 2^e (sign s for zero) to a format *)
Definition norm32 (m e : Z) (s : bool) : binary32 := binary_normalize 24 128 Hprec32 Hmax32 mode_NE m e s.
Definition norm64 (m e : Z) (s : bool) : binary64 := binary_normalize 53 1024 Hprec64 Hmax64 mode_NE m e s.

Definition f64_of_f32 (x : binary32) : binary64 :=
  match x with
  | B754_zero _ _ s => B754_zero _ _ s
  | B754_infinity _ _ s => B754_infinity _ _ s
  | B754_nan _ _ s _ _ => proj1_sig default_nan_pl64
  | B754_finite _ _ s m e _ => norm64 (cond_Zopp s (Zpos m)) e s
  end.
Definition f32_of_f64 (x : binary64) : binary32 :=
  match x with
  | B754_zero _ _ s => B754_zero _ _ s
  | B754_infinity _ _ s => B754_infinity _ _ s
  | B754_nan _ _ s _ _ => proj1_sig default_nan_pl32
  | B754_finite _ _ s m e _ => norm32 (cond_Zopp s (Zpos m)) e s
  end.

Definition wrap_int (t : sty) (z : Z) : Z :=
  match t with
  | U64 => z mod 2 ^ 64 | U32 => z mod 2 ^ 32
  | I64 => (z + 2 ^ 63) mod 2 ^ 64 - 2 ^ 63 | I32 => (z + 2 ^ 31) mod 2 ^ 32 - 2 ^ 31
  | _ => z
  end.

Definition trunc32 (x : binary32) : Z := Btrunc 24 128 x.
Definition trunc64 (x : binary64) : Z := Btrunc 53 1024 x.

Definition conv (from to : sty) (v : Z) : Z :=
  match from, to with
  | F32, F32 | F64, F64 => v
  | F32, F64 => to64 (f64_of_f32 (of32 v))
  | F64, F32 => to32 (f32_of_f64 (of64 v))
  | F32, _ => wrap_int to (trunc32 (of32 v))      (* float -> integer: truncation (in range) *)
  | F64, _ => wrap_int to (trunc64 (of64 v))
  | _, F32 => to32 (norm32 v 0 false)
  | _, F64 => to64 (norm64 v 0 false)
  | _, _ => wrap_int to v
  end.

Definition lt (t : sty) (a b : Z) : bool :=
  match t with
  | F32 => match b32_compare (of32 a) (of32 b) with Some Lt => true | _ => false end
  | F64 => match b64_compare (of64 a) (of64 b) with Some Lt => true | _ => false end
  | _ => a <? b
  end.

Definition fbin (f32 : binary32 -> binary32 -> binary32) (f64 : binary64 -> binary64 -> binary64)
           (iop : Z -> Z -> Z) (t : sty) (a b : Z) : Z :=
  match t with
  | F32 => to32 (f32 (of32 a) (of32 b))
  | F64 => to64 (f64 (of64 a) (of64 b))
  | _ => wrap_int t (iop a b)
  end.

Definition ftrunc (t : sty) (a : Z) : Z :=
  match t with
  | F32 => to32 (Bnearbyint 24 128 Hmax32 unop_nan_pl32 mode_ZR (of32 a))
  | F64 => to64 (Bnearbyint 53 1024 Hmax64 unop_nan_pl64 mode_ZR (of64 a))
  | _ => a
  end.
Definition flrint (t : sty) (a : Z) : Z :=
  match t with
  | F32 => trunc32 (Bnearbyint 24 128 Hmax32 unop_nan_pl32 mode_NE (of32 a))
  | F64 => trunc64 (Bnearbyint 53 1024 Hmax64 unop_nan_pl64 mode_NE (of64 a))
  | _ => a
  end.
Definition fofZ (t : sty) (z : Z) : Z := conv I64 t z.
Definition finite (t : sty) (a : Z) : bool :=
  match t with
  | F32 => is_finite 24 128 (of32 a)
  | F64 => is_finite 53 1024 (of64 a)
  | _ => true
  end.
Definition toZ (t : sty) (a : Z) : Z :=
  match t with F32 => trunc32 (of32 a) | F64 => trunc64 (of64 a) | _ => a end.

Definition flocq_ops : sops :=
  {| s_lt := lt;
     s_conv := conv;
     f_add := fbin (b32_plus mode_NE) (b64_plus mode_NE) Z.add;
     f_sub := fbin (b32_minus mode_NE) (b64_minus mode_NE) Z.sub;
     f_mul := fbin (b32_mult mode_NE) (b64_mult mode_NE) Z.mul;
     f_trunc := ftrunc;
     f_lrint := flrint;
     f_of_Z := fofZ;
     s_finite := finite;
     f_toZ := toZ |}.

(* sanity: 1.5f + 2.25f = 3.75f ; lrint(2.5) = 2 ; (double)0.1f ; (float)0.1 ; trunc(-1.5) = -1.0 *)
Example ex_add : f_add flocq_ops F32 1069547520 1074790400 = 1081081856. Proof. vm_compute. reflexivity. Qed.
Example ex_lrint : f_lrint flocq_ops F64 4612811918334230528 = 2. Proof. vm_compute. reflexivity. Qed.
Example ex_widen : s_conv flocq_ops F32 F64 1036831949 = 4591870180174331904. Proof. vm_compute. reflexivity. Qed.
Example ex_narrow : s_conv flocq_ops F64 F32 4591870180066957722 = 1036831949. Proof. vm_compute. reflexivity. Qed.
Example ex_trunc : f_trunc flocq_ops F32 3217031168 = 3212836864. Proof. vm_compute. reflexivity. Qed.
Example ex_of_int : s_conv flocq_ops U64 F32 16777217 = 1266679808. Proof. vm_compute. reflexivity. Qed.
