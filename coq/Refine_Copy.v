(* Refine_Copy.v -- C05: the three re-layout copy functions (make_strided_copy, make_morton_copy, make_hilbert_copy) as
   they stand on this run (gen/Gen_Copy.v) have the scheme the conversion model Convert.relayout_list executes and
   Relayout.v proves correct:

     the extents are the source's; the target storage is value-initialised with the target layout's capacity
     (product of the extents for row-major = Convert.layer_cap (LStrided ..), ipow(round_pow2(max extent), N) for the
     curves = curve_cap); nd_map visits every index tuple of the box (C19); the coordinate handed to both sides is that
     tuple; the target position is the target layer's own index function (row-major: the inline stride computation,
     translated separately as gen_strided_copy_index and proved to be rowmajor in Refine_Strided; Morton / Hilbert:
     calculate_index, C14) = Convert.layer_index; and every one of the M output components is copied from the source's
     lookup at that coordinate.

   The comparison is of the scheme (a record of what each statement is), not of arbitrary code: any other shape is a
   problem reported by the translator; the values themselves are compared on every run by props/c05.py. *)
From Coq Require Import String List Bool ZArith.
From Covfie Require Import Numeric Layout Hilbert LayoutMem Stack Convert.
From Covfie.gen Require Import Gen_Copy.
Import ListNotations.
Local Open Scope string_scope.

Definition capacity_eqb (a b : capacity) : bool :=
  match a, b with Product, Product | Curve, Curve => true | _, _ => false end.
Definition index_eqb (a b : index_kind) : bool :=
  match a, b with Inline, Inline | Calc, Calc | CalcSizes, CalcSizes => true | _, _ => false end.

Definition scheme_ok (cs : copy_scheme) (cap : capacity) (idx : index_kind) : bool :=
  cs_sizes_from_source cs && capacity_eqb (cs_capacity cs) cap && cs_iterates_box cs && cs_coord_is_tuple cs &&
  index_eqb (cs_index cs) idx && String.eqb (cs_components cs) "Each_covariant_output_t" && cs_returns_res cs &&
  Nat.eqb (cs_extra_statements cs) 0.

(* which capacity / index the model gives each target layer *)
Definition model_capacity (l : layer) : capacity := match l with LStrided _ _ => Product | _ => Curve end.
Lemma model_capacity_reading l sizes :
  layer_cap l sizes = match model_capacity l with Product => zprod sizes | _ => curve_cap sizes end.
Proof. destruct l; reflexivity. Qed.

Theorem copy_schemes_are_the_models :
  scheme_ok copy_strided (model_capacity (LStrided 2 U64)) Inline = true /\
  scheme_ok copy_morton (model_capacity (LMorton 2 U64 false)) Calc = true /\
  scheme_ok copy_hilbert (model_capacity (LHilbert U64)) CalcSizes = true /\
  copy_problems = 0.
Proof. repeat split; reflexivity. Qed.

(* ---- whole stacks: the converting constructors owning_data_t(const T & o) of the layers that have one ----
   A wrapper that carries configuration (affine) copies it from the source and converts its backend with the backend's own
   converting constructor; the interpolators (no configuration) only convert their backend; a storage order takes the
   source's extents and re-lays the storage out with its copy function into storage of its own capacity.  This is
   Convert.convert: equal upper layers keep their configuration, the interpolators may differ, and the first pair of
   storage-order layers is re-laid out. *)
From Covfie.gen Require Import Gen_Conv.
Definition model_conv_ctors : list (string * list (string * string)) :=
  [("affine", [("m_transform", "SameMemberOfSource"); ("m_backend", "BackendOfSource")]);
   ("linear", [("m_backend", "BackendOfSource")]);
   ("nearest_neighbour", [("m_backend", "BackendOfSource")]);
   ("strided", [("m_sizes", "ConfigurationOfSource"); ("m_storage", "ProductAnd_make_strided_copy")]);
   ("morton", [("m_sizes", "ConfigurationOfSource"); ("m_storage", "CurveAnd_make_morton_copy")]);
   ("hilbert", [("m_sizes", "ConfigurationOfSource"); ("m_storage", "CurveAnd_make_hilbert_copy")])].
Theorem converting_constructors_are_the_models : conv_ctors = model_conv_ctors /\ conv_problems = 0.
Proof. split; reflexivity. Qed.
