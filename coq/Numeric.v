(* Numeric.v -- specification-level functions for utility/numeric.hpp and their properties. *)
From Coq Require Import ZArith List Lia ZifyBool.
Import ListNotations.
Local Open Scope Z_scope.

(* least power of two not below i (for i >= 1) *)
Definition pow2_ceil (i : Z) : Z := 2 ^ Z.log2_up i.

Lemma pow2_ceil_ge i : 1 <= i -> i <= pow2_ceil i.
Proof.
  intros Hi. unfold pow2_ceil. destruct (Z.eq_dec i 1) as [->|Hn]; [reflexivity|].
  apply Z.log2_up_spec. lia.
Qed.

Lemma pow2_ceil_least i k : 1 <= i -> 0 <= k -> i <= 2 ^ k -> pow2_ceil i <= 2 ^ k.
Proof.
  intros Hi Hk Hle. unfold pow2_ceil. apply Z.pow_le_mono_r; [lia|].
  destruct (Z.eq_dec i 1) as [->|Hn]; [cbn; lia|].
  apply Z.log2_up_le_pow2; lia.
Qed.

Lemma pow2_ceil_is_pow2 i : exists k, 0 <= k /\ pow2_ceil i = 2 ^ k.
Proof. exists (Z.log2_up i). split; [apply Z.log2_up_nonneg|reflexivity]. Qed.

(* characterisation used by the loop invariant: 2^k with k = 0 or 2^(k-1) < i <= 2^k *)
Lemma pow2_ceil_unique i k : 1 <= i -> 0 <= k -> i <= 2 ^ k -> (k = 0 \/ 2 ^ (k - 1) < i) ->
  pow2_ceil i = 2 ^ k.
Proof.
  intros Hi Hk Hle Hmin. unfold pow2_ceil. f_equal.
  destruct Hmin as [->|Hlt].
  - assert (i = 1) by (cbn in Hle; lia). subst. reflexivity.
  - destruct (Z.eq_dec k 0) as [->|Hk0].
    + assert (i = 1) by (cbn in Hle; lia). subst. reflexivity.
    + apply Z.log2_up_unique; [lia|]. replace (Z.pred k) with (k - 1) by lia. lia.
Qed.

(* binary exponentiation step *)
Lemma pow_step_odd (i p : Z) : 0 <= p -> p mod 2 = 1 -> i ^ p = i * (i * i) ^ (p / 2).
Proof.
  intros Hp Hodd. rewrite <- Z.pow_2_r, <- Z.pow_mul_r by (try apply Z.div_pos; lia).
  rewrite <- Z.pow_succ_r by (apply Z.mul_nonneg_nonneg; [lia|apply Z.div_pos; lia]).
  f_equal. pose proof (Z.div_mod p 2). lia.
Qed.

Lemma pow_step_even (i p : Z) : 0 <= p -> p mod 2 = 0 -> i ^ p = (i * i) ^ (p / 2).
Proof.
  intros Hp Hev. rewrite <- Z.pow_2_r, <- Z.pow_mul_r by (try apply Z.div_pos; lia).
  f_equal. pose proof (Z.div_mod p 2). lia.
Qed.

(* number of binary digits: the loop measure of ipow *)
Definition bitlen (p : Z) : Z := if p <=? 0 then 0 else Z.log2 p + 1.

Lemma bitlen_half p : 0 < p -> bitlen (p / 2) = bitlen p - 1.
Proof.
  intros Hp. unfold bitlen. destruct (Z.eq_dec p 1) as [->|Hn].
  - reflexivity.
  - assert (1 <= p / 2) by (apply Z.div_le_lower_bound; lia).
    destruct (p / 2 <=? 0) eqn:E1; [lia|]. destruct (p <=? 0) eqn:E2; [lia|].
    assert (1 <= Z.log2 p) by (apply Z.log2_le_pow2; [lia|change (2 ^ 1) with 2; lia]).
    rewrite <- Z.div2_div, Z.div2_spec, Z.log2_shiftr by lia. lia.
Qed.

Lemma bitlen_bound p w : 0 <= w -> 0 <= p < 2 ^ w -> bitlen p <= w.
Proof.
  intros Hw Hp. unfold bitlen. destruct (p <=? 0) eqn:E; [lia|].
  assert (Z.log2 p < w) by (apply Z.log2_lt_pow2; lia). lia.
Qed.

Lemma bitlen_nonneg p : 0 <= bitlen p.
Proof. unfold bitlen. destruct (p <=? 0); [lia|]. pose proof (Z.log2_nonneg p). lia. Qed.
