(* Extract_layout.v -- executable entry points for the storage-order layers: the GENERATED
   kernels (strided lookup in both translations, copy index, Morton in every variant, Hilbert)
   and the specification functions of Layout.v / Hilbert.v / Numeric.v. *)
Require Import ExtrOcamlBasic.
From Coq Require Import ZArith List.
From Covfie Require Import CKernel Numeric Layout Hilbert PdepModel NdMap.
From Covfie.gen Require Import Gen_Strided Gen_Morton Gen_Hilbert.
Import ListNotations.
Local Open Scope Z_scope.

Definition res_code (r : res tv) : Z :=
  match r with Ok v => val v | UB _ => -1 | AssertFail => -2 | OutOfFuel => -3 end.
Definition ity (signed : bool) (w : Z) : cty := {| csigned := signed; cwidth := w |}.

Definition run_strided_at (signed : bool) (w : Z) (dbg : bool) (sizes c : list Z) : Z :=
  let S := ity signed w in
  let n := Z.of_nat (length sizes) in
  res_code ((if dbg then gen_strided_at_dbg else gen_strided_at) S n (map (lit U64) sizes) (map (lit S) c)).
Definition run_strided_copy_index (signed : bool) (w : Z) (sizes t : list Z) : Z :=
  let S := ity signed w in
  res_code (gen_strided_copy_index S (Z.of_nat (length sizes)) (map (lit U64) t) (map (lit U64) sizes)).
Definition spec_rowmajor (sizes c : list Z) : Z := rowmajor sizes c.

Definition run_morton_index (c : list Z) : Z :=
  res_code (gen_morton_index (Z.of_nat (length c)) 8 (map (lit U64) c)).
Definition run_morton_index_bmi2 (use_bmi2 : bool) (c : list Z) : Z :=
  res_code (gen_morton_index_bmi2 use_bmi2 (Z.of_nat (length c)) 8 (map (lit U64) c)).
Definition run_morton_at_dbg (sizes c : list Z) : Z :=
  res_code (gen_morton_at_dbg (Z.of_nat (length c)) 8 (map (lit U64) sizes) (map (lit U64) c)).
Definition spec_morton (c : list Z) : Z :=
  morton (length c) (Z.to_nat (64 / Z.of_nat (length c))) c.

(* Hilbert: the order of the curve is that of the smallest power-of-two square covering the
   extents, which is also what the storage is sized for *)
Definition hilbert_order (sizes : list Z) : nat := Z.to_nat (Z.log2_up (fold_right Z.max 1 sizes)).
Definition spec_hilbert (sizes : list Z) (x y : Z) : Z := Hl (hilbert_order sizes) x y.
Definition run_hilbert_index (sizes : list Z) (x y : Z) : Z :=
  res_code (gen_hilbert_index 70 [lit U64 x; lit U64 y] (map (lit U64) sizes)).

(* storage length of the curve layers: ipow(round_pow2(max extent), N) *)
Definition spec_curve_cap (sizes : list Z) : Z :=
  pow2_ceil (fold_right Z.max 0 sizes) ^ Z.of_nat (length sizes).

Definition znd_map (sizes : list Z) : list (list Z) :=
  map (map Z.of_nat) (nd_map (map Z.to_nat sizes)).

Definition keep_number_types (z : Z) (n : N) (k : nat) := (z, n, k).
Separate Extraction run_strided_at run_strided_copy_index spec_rowmajor run_morton_index
  run_morton_index_bmi2 run_morton_at_dbg spec_morton spec_hilbert spec_curve_cap zprod znd_map
  run_hilbert_index keep_number_types.
