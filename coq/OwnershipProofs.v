(* OwnershipProofs.v -- C12: invariant and refinement for the ownership state machine. *)
From Coq Require Import List Arith Bool Lia ZArith.
From Covfie Require Import Ownership.
Import ListNotations.

Record Inv (s : st) : Prop := {
  inv_alloc : forall k o a, slots s k = Some o -> o_ptr o = Some a -> exists l, heap s a = Some l /\ length l = o_size o;
  inv_excl  : forall k k' o o' a, slots s k = Some o -> slots s k' = Some o' -> o_ptr o = Some a -> o_ptr o' = Some a -> k = k';
  inv_fresh : forall a, next s <= a -> heap s a = None;
  inv_owned : forall a l, heap s a = Some l -> exists k o, slots s k = Some o /\ o_ptr o = Some a
}.

Lemma inv_init : Inv init.
Proof. constructor; cbn; intros; try discriminate; reflexivity. Qed.

Ltac ups :=
  repeat match goal with
         | H : context [upd _ _ _ _] |- _ => unfold upd in H
         | |- context [upd _ _ _ _] => unfold upd
         end;
  repeat match goal with
         | H : context [Nat.eqb ?x ?y] |- _ => destruct (Nat.eqb_spec x y)
         | |- context [Nat.eqb ?x ?y] => destruct (Nat.eqb_spec x y)
         end.

Lemma set_at_length l : forall i v, length (set_at l i v) = length l.
Proof. induction l as [|x l IH]; intros [|i] v; cbn [set_at length]; auto. Qed.

(* a fresh buffer for slot d (engaged or not), the old buffer of d (if any) released *)
Lemma inv_replace s d (old : option obj) data :
  Inv s -> slots s d = old ->
  Inv {| heap := fun x => if Nat.eqb x (next s) then Some data
                          else match old with
                               | Some {| o_ptr := Some b |} => if Nat.eqb x b then None else heap s x
                               | _ => heap s x
                               end;
         next := S (next s);
         slots := upd (slots s) d (Some {| o_ptr := Some (next s); o_size := length data |}) |}.
Proof.
  intros [A E F O] Hd.
  assert (Hn : forall k o a, slots s k = Some o -> o_ptr o = Some a -> a < next s).
  { intros k o a Hk Ha. destruct (A _ _ _ Hk Ha) as [l [Hl _]]. destruct (Nat.lt_ge_cases a (next s)); [assumption|].
    rewrite F in Hl by assumption. discriminate. }
  constructor; cbn [heap next slots].
  - intros k o a Hk Ha. unfold upd in Hk. destruct (Nat.eqb_spec k d) as [->|Hkd].
    + injection Hk as <-. cbn in Ha. injection Ha as <-. rewrite Nat.eqb_refl. eauto.
    + pose proof (Hn _ _ _ Hk Ha). destruct (Nat.eqb_spec a (next s)); [lia|].
      destruct old as [[[b|] n0]|]; try (exact (A _ _ _ Hk Ha)).
      destruct (Nat.eqb_spec a b) as [->|]; [|exact (A _ _ _ Hk Ha)].
      exfalso. apply Hkd. exact (E _ _ _ _ _ Hk Hd Ha eq_refl).
  - intros k k' o o' a Hk Hk' Ha Ha'. unfold upd in Hk, Hk'.
    destruct (Nat.eqb_spec k d) as [->|]; destruct (Nat.eqb_spec k' d) as [->|]; try reflexivity.
    + injection Hk as <-. cbn in Ha. injection Ha as <-. pose proof (Hn _ _ _ Hk' Ha'). lia.
    + injection Hk' as <-. cbn in Ha'. injection Ha' as <-. pose proof (Hn _ _ _ Hk Ha). lia.
    + exact (E _ _ _ _ _ Hk Hk' Ha Ha').
  - intros a Ha. destruct (Nat.eqb_spec a (next s)); [lia|].
    assert (heap s a = None) by (apply F; lia).
    destruct old as [[[b|] n0]|]; try assumption. destruct (Nat.eqb a b); [reflexivity|assumption].
  - intros a l Hl. destruct (Nat.eqb_spec a (next s)) as [->|].
    + exists d. eexists. unfold upd. rewrite Nat.eqb_refl. split; reflexivity.
    + assert (Hh : heap s a = Some l /\ (forall b n0, old = Some {| o_ptr := Some b; o_size := n0 |} -> a <> b)).
      { destruct old as [[[b|] n0]|]; try (split; [assumption|congruence]).
        destruct (Nat.eqb_spec a b); [discriminate|]. split; [assumption|]. intros b0 nn Eq. congruence. }
      destruct Hh as [Hh Hne]. destruct (O _ _ Hh) as [k [o [Hk Ho]]].
      exists k, o. split; [|assumption]. unfold upd. destruct (Nat.eqb_spec k d) as [->|]; [|assumption].
      exfalso. rewrite Hk in Hd. destruct o as [[b|] n0]; cbn in Ho; [|discriminate]. injection Ho as ->.
      exact (Hne a n0 (eq_sym Hd) eq_refl).
Qed.

Definition st_eq (s s' : st) : Prop :=
  (forall a, heap s a = heap s' a) /\ next s = next s' /\ (forall k, slots s k = slots s' k).

Lemma Inv_ext s s' : st_eq s s' -> Inv s -> Inv s'.
Proof.
  intros [Hh [Hn Hs]] [A E F O]. constructor.
  - intros k o a. rewrite <- Hs, <- Hh. apply A.
  - intros k k' o o' a. rewrite <- !Hs. apply E.
  - intros a. rewrite <- Hn, <- Hh. apply F.
  - intros a l. rewrite <- Hh. intros H. destruct (O _ _ H) as [k [o [Hk Ho]]]. exists k, o. now rewrite <- Hs.
Qed.

Lemma absf_ext s s' : st_eq s s' -> forall k, absf s k = absf s' k.
Proof. intros [Hh [_ Hs]] k. unfold absf. rewrite Hs. destruct (slots s' k) as [[[a|] n]|]; try reflexivity. now rewrite Hh. Qed.

(* facts the invariant gives about a live slot *)
Lemma inv_ptr_lt s k o a : Inv s -> slots s k = Some o -> o_ptr o = Some a -> a < next s.
Proof.
  intros [A E F O] Hk Ha. destruct (A _ _ _ Hk Ha) as [l [Hl _]]. destruct (Nat.lt_ge_cases a (next s)); [assumption|].
  rewrite F in Hl by assumption. discriminate.
Qed.

Lemma absf_full s k l : Inv s -> absf s k = Some (Full l) ->
  exists a, slots s k = Some {| o_ptr := Some a; o_size := length l |} /\ heap s a = Some l.
Proof.
  intros I H. unfold absf in H. destruct (slots s k) as [[[a|] n]|] eqn:Hk; try discriminate.
  destruct (inv_alloc s I _ _ _ Hk eq_refl) as [l0 [Hl0 Hlen]]. rewrite Hl0 in H. injection H as ->.
  exists a. cbn in Hlen. now rewrite Hlen.
Qed.
Lemma absf_hollow s k n : Inv s -> absf s k = Some (Hollow n) -> slots s k = Some {| o_ptr := None; o_size := n |}.
Proof.
  intros I H. unfold absf in H. destruct (slots s k) as [[[a|] n0]|] eqn:Hk; try discriminate.
  - destruct (inv_alloc s I _ _ _ Hk eq_refl) as [l0 [Hl0 _]]. rewrite Hl0 in H. discriminate.
  - now injection H as ->.
Qed.
Lemma absf_none s k : absf s k = None -> slots s k = None.
Proof. unfold absf. destruct (slots s k) as [[[a|] n]|]; try discriminate; [destruct (heap s a); discriminate|reflexivity]. Qed.

(* ---- the canonical results of the operations ---- *)
(* slot d gets a fresh buffer holding [data]; its old buffer, if any, is released *)
Definition replaced (s : st) (d : nat) (data : list Z) : st :=
  {| heap := fun x => if Nat.eqb x (next s) then Some data
                      else match slots s d with
                           | Some {| o_ptr := Some b |} => if Nat.eqb x b then None else heap s x
                           | _ => heap s x
                           end;
     next := S (next s);
     slots := upd (slots s) d (Some {| o_ptr := Some (next s); o_size := length data |}) |}.

Lemma inv_replaced s d data : Inv s -> Inv (replaced s d data).
Proof. intros I. exact (inv_replace s d (slots s d) data I eq_refl). Qed.

Lemma absf_replaced s d data : Inv s -> forall k, absf (replaced s d data) k = upd (absf s) d (Some (Full data)) k.
Proof.
  intros I k. unfold absf, replaced, upd. cbn [heap slots next]. unfold upd.
  destruct (Nat.eqb_spec k d) as [->|Hkd].
  - now rewrite Nat.eqb_refl.
  - destruct (slots s k) as [[[a|] n]|] eqn:Hk; try reflexivity.
    pose proof (inv_ptr_lt s k _ a I Hk eq_refl). destruct (Nat.eqb_spec a (next s)); [lia|].
    destruct (slots s d) as [[[b|] nd]|] eqn:Hd; try reflexivity.
    destruct (Nat.eqb_spec a b) as [->|]; [|reflexivity].
    exfalso. apply Hkd. exact (inv_excl s I _ _ _ _ _ Hk Hd eq_refl eq_refl).
Qed.

(* an owned buffer overwritten by a list of the same length *)
Lemma inv_set_heap s k a n l l' : Inv s -> slots s k = Some {| o_ptr := Some a; o_size := n |} ->
  heap s a = Some l -> length l' = length l -> Inv (set_heap s a l').
Proof.
  intros [A E F O] Hk Hl Hlen. constructor; cbn [set_heap heap next slots].
  - intros k0 o a0 Hk0 Ha0. unfold upd. destruct (Nat.eqb_spec a0 a) as [->|]; [|exact (A _ _ _ Hk0 Ha0)].
    destruct (A _ _ _ Hk0 Ha0) as [l0 [Hl0 Hn0]]. rewrite Hl in Hl0. injection Hl0 as <-. eexists; split; [reflexivity|congruence].
  - exact E.
  - intros a0 Ha0. unfold upd. destruct (Nat.eqb_spec a0 a) as [->|]; [|now apply F]. rewrite F in Hl by assumption. discriminate.
  - intros a0 l0 H0. unfold upd in H0. destruct (Nat.eqb_spec a0 a) as [->|]; [|exact (O _ _ H0)]. exists k. eexists. split; [exact Hk|reflexivity].
Qed.

(* release the buffer of slot d (if it has one) and disengage / hollow it *)
Definition released (s : st) (d : nat) (now : option obj) : st :=
  {| heap := fun x => match slots s d with
                      | Some {| o_ptr := Some b |} => if Nat.eqb x b then None else heap s x
                      | _ => heap s x
                      end;
     next := next s; slots := upd (slots s) d now |}.

Lemma inv_released s d n : Inv s -> Inv (released s d None) /\ Inv (released s d (Some {| o_ptr := None; o_size := n |})).
Proof.
  intros [A E F O].
  assert (G : forall now, (forall o, now = Some o -> o_ptr o = None) -> Inv (released s d now)).
  { intros now Hnow. constructor; cbn [released heap next slots].
    - intros k o a Hk Ha. unfold upd in Hk. destruct (Nat.eqb_spec k d) as [->|Hkd].
      + rewrite (Hnow _ Hk) in Ha. discriminate.
      + destruct (slots s d) as [[[b|] nd]|] eqn:Hd; try exact (A _ _ _ Hk Ha).
        destruct (Nat.eqb_spec a b) as [->|]; [|exact (A _ _ _ Hk Ha)].
        exfalso. apply Hkd. exact (E _ _ _ _ _ Hk Hd Ha eq_refl).
    - intros k k' o o' a Hk Hk' Ha Ha'. unfold upd in Hk, Hk'.
      destruct (Nat.eqb_spec k d) as [->|]; [rewrite (Hnow _ Hk) in Ha; discriminate|].
      destruct (Nat.eqb_spec k' d) as [->|]; [rewrite (Hnow _ Hk') in Ha'; discriminate|].
      exact (E _ _ _ _ _ Hk Hk' Ha Ha').
    - intros a Ha. pose proof (F a Ha) as Hf. destruct (slots s d) as [[[b|] nd]|]; try assumption. destruct (Nat.eqb a b); [reflexivity|assumption].
    - intros a l Hl.
      assert (Hh : heap s a = Some l /\ (forall b nd, slots s d = Some {| o_ptr := Some b; o_size := nd |} -> a <> b)).
      { destruct (slots s d) as [[[b|] nd]|]; try (split; [assumption|congruence]).
        destruct (Nat.eqb_spec a b); [discriminate|]. split; [assumption|]. intros b0 nn Eq. congruence. }
      destruct Hh as [Hh Hne]. destruct (O _ _ Hh) as [k [o [Hk Ho]]]. exists k, o. split; [|assumption].
      unfold upd. destruct (Nat.eqb_spec k d) as [->|]; [|assumption].
      exfalso. destruct o as [[b|] n0]; cbn in Ho; [|discriminate]. injection Ho as ->. exact (Hne a n0 Hk eq_refl). }
  split; apply G; intros o Ho; [discriminate|]. injection Ho as <-. reflexivity.
Qed.

Lemma absf_released s d now : Inv s -> (forall o, now = Some o -> o_ptr o = None) ->
  forall k, absf (released s d now) k = upd (absf s) d (match now with Some o => Some (Hollow (o_size o)) | None => None end) k.
Proof.
  intros I Hnow k. unfold absf, released, upd. cbn [heap slots next]. unfold upd.
  destruct (Nat.eqb_spec k d) as [->|Hkd].
  - destruct now as [[[a|] n]|]; try reflexivity. specialize (Hnow _ eq_refl). discriminate.
  - destruct (slots s k) as [[[a|] n]|] eqn:Hk; try reflexivity.
    destruct (slots s d) as [[[b|] nd]|] eqn:Hd; try reflexivity.
    destruct (Nat.eqb_spec a b) as [->|]; [|reflexivity].
    exfalso. apply Hkd. exact (inv_excl s I _ _ _ _ _ Hk Hd eq_refl eq_refl).
Qed.

(* hand the buffer of src to the (empty or just released) slot d *)
Lemma inv_transfer s d src os : Inv s -> d <> src -> slots s src = Some os ->
  (forall o, slots s d = Some o -> o_ptr o = None) ->
  Inv (set_slot (set_slot s d (Some os)) src (Some {| o_ptr := None; o_size := o_size os |})).
Proof.
  intros [A E F O] Hne Hs Hd. constructor; cbn [set_slot heap next slots].
  - intros k o a Hk Ha. unfold upd in Hk. destruct (Nat.eqb_spec k src) as [->|].
    + injection Hk as <-. discriminate.
    + destruct (Nat.eqb_spec k d) as [->|]; [injection Hk as <-; exact (A _ _ _ Hs Ha)|exact (A _ _ _ Hk Ha)].
  - intros k k' o o' a Hk Hk' Ha Ha'. unfold upd in Hk, Hk'.
    destruct (Nat.eqb_spec k src) as [->|]; [injection Hk as <-; discriminate|].
    destruct (Nat.eqb_spec k' src) as [->|]; [injection Hk' as <-; discriminate|].
    destruct (Nat.eqb_spec k d) as [->|]; destruct (Nat.eqb_spec k' d) as [->|]; try reflexivity.
    + injection Hk as <-. exfalso. apply n0. symmetry. exact (E _ _ _ _ _ Hs Hk' Ha Ha').
    + injection Hk' as <-. exfalso. apply n. exact (E _ _ _ _ _ Hk Hs Ha Ha').
    + exact (E _ _ _ _ _ Hk Hk' Ha Ha').
  - exact F.
  - intros a l Hl. destruct (O _ _ Hl) as [k [o [Hk Ho]]].
    destruct (Nat.eqb_spec k src) as [->|Hks].
    + exists d, os. unfold upd. destruct (Nat.eqb_spec d src); [contradiction|]. rewrite Nat.eqb_refl. split; [reflexivity|congruence].
    + exists k, o. unfold upd. destruct (Nat.eqb_spec k src); [contradiction|].
      destruct (Nat.eqb_spec k d) as [->|]; [|split; assumption]. rewrite (Hd _ Hk) in Ho. discriminate.
Qed.

(* ------------------------------------------------------------------ one step refines *)
Definition agree (s : st) (a : ast) : Prop := forall k, absf s k = a k.

Lemma live_obj s k v : absf s k = Some v -> exists o, slots s k = Some o.
Proof. unfold absf. destruct (slots s k) as [o|]; [eauto|discriminate]. Qed.

Lemma free_ok s o k : Inv s -> slots s k = Some o ->
  exists s1, free s (o_ptr o) = Some s1 /\ st_eq s1 {| heap := heap (released s k None); next := next s; slots := slots s |}.
Proof.
  intros I Hk. unfold free, released. cbn [heap]. rewrite Hk. destruct o as [[b|] n]; cbn [o_ptr].
  - destruct (inv_alloc s I _ _ _ Hk eq_refl) as [l [Hl _]]. rewrite Hl. eexists. split; [reflexivity|].
    split; [|split]; cbn; reflexivity.
  - eexists. split; [reflexivity|]. split; [|split]; reflexivity.
Qed.

Lemma step_construct s d data : Inv s -> absf s d = None ->
  exists s', step s (Construct d data) = Some s' /\ Inv s' /\ agree s' (upd (absf s) d (Some (Full data))).
Proof.
  intros I Hd. apply absf_none in Hd. cbn [step]. rewrite Hd. cbn [alloc]. eexists. split; [reflexivity|].
  assert (Q : st_eq (replaced s d data)
     (set_slot (set_heap {| heap := upd (heap s) (next s) (Some (repeat 0%Z (length data))); next := S (next s); slots := slots s |} (next s) data) d
        (Some {| o_ptr := Some (next s); o_size := length data |}))).
  { split; [|split]; cbn; try reflexivity. intros a. unfold upd. rewrite Hd. destruct (Nat.eqb a (next s)); reflexivity. }
  split; [exact (Inv_ext _ _ Q (inv_replaced s d data I))|].
  intros k. rewrite <- (absf_ext _ _ Q). now apply absf_replaced.
Qed.

Lemma step_destroy s k v : Inv s -> absf s k = Some v ->
  exists s', step s (Destroy k) = Some s' /\ Inv s' /\ agree s' (upd (absf s) k None).
Proof.
  intros I Hk. destruct (live_obj _ _ _ Hk) as [o Ho]. cbn [step]. rewrite Ho.
  destruct (free_ok s o k I Ho) as [s1 [F1 Q1]]. rewrite F1. eexists. split; [reflexivity|].
  assert (Q : st_eq (released s k None) (set_slot s1 k None)).
  { destruct Q1 as [Qh [Qn Qs]]. split; [|split]; cbn [set_slot released heap next slots].
    - intros a. now rewrite Qh.
    - now rewrite Qn.
    - intros x. unfold upd. now rewrite Qs. }
  split; [exact (Inv_ext _ _ Q (proj1 (inv_released s k 0 I)))|].
  intros x. rewrite <- (absf_ext _ _ Q). rewrite (absf_released s k None I); [reflexivity|discriminate].
Qed.

Lemma absf_set_heap s k a n l' : Inv s -> slots s k = Some {| o_ptr := Some a; o_size := n |} ->
  forall x, absf (set_heap s a l') x = if Nat.eqb x k then Some (Full l') else absf s x.
Proof.
  intros I Hk x. unfold absf, set_heap. cbn [heap slots]. unfold upd.
  destruct (Nat.eqb_spec x k) as [->|Hxk].
  - rewrite Hk. now rewrite Nat.eqb_refl.
  - destruct (slots s x) as [[[b|] m]|] eqn:Hx; try reflexivity.
    destruct (Nat.eqb_spec b a) as [->|]; [|reflexivity].
    exfalso. apply Hxk. exact (inv_excl s I _ _ _ _ _ Hx Hk eq_refl eq_refl).
Qed.

Lemma step_write s k i v l : Inv s -> absf s k = Some (Full l) -> i < length l ->
  exists s', step s (Write k i v) = Some s' /\ Inv s' /\ agree s' (upd (absf s) k (Some (Full (set_at l i v)))).
Proof.
  intros I Hk Hi. destruct (absf_full _ _ _ I Hk) as [a [Hs Hh]]. cbn [step]. rewrite Hs.
  destruct (Nat.ltb_spec i (length l)); [|lia]. rewrite Hh. eexists. split; [reflexivity|]. split.
  - exact (inv_set_heap s k a (length l) l _ I Hs Hh (set_at_length l i v)).
  - intros x. rewrite (absf_set_heap s k a (length l) _ I Hs). unfold upd. reflexivity.
Qed.

(* the value a copy takes from its source *)
Definition copied (v : aval) : list Z := match v with Full l => l | Hollow n => repeat 0%Z n end.
Definition vsize (v : aval) : nat := match v with Full l => length l | Hollow n => n end.

Lemma src_obj s k v : Inv s -> absf s k = Some v ->
  exists os, slots s k = Some os /\ o_size os = vsize v /\
    match v with
    | Full l => exists b, o_ptr os = Some b /\ heap s b = Some l
    | Hollow _ => o_ptr os = None
    end.
Proof.
  intros I H. destruct v as [l|n].
  - destruct (absf_full _ _ _ I H) as [a [Hs Hh]]. eexists. split; [exact Hs|]. split; [reflexivity|]. exists a. auto.
  - pose proof (absf_hollow _ _ _ I H) as Hs. eexists. split; [exact Hs|]. split; reflexivity.
Qed.

(* allocate a buffer of the source's size for slot d (old buffer of d released), fill it from the source *)
Lemma copy_result s d src v od_ptr (s2 : st) a :
  Inv s -> d <> src \/ slots s d = None -> absf s src = Some v ->
  a = next s ->
  (* s2: the state after the allocation and the release of d's old buffer *)
  (forall x, heap s2 x = if Nat.eqb x a then Some (repeat 0%Z (vsize v))
                         else match od_ptr with Some b => if Nat.eqb x b then None else heap s x | None => heap s x end) ->
  next s2 = S (next s) -> (forall k, slots s2 k = slots s k) ->
  od_ptr = match slots s d with Some o => o_ptr o | None => None end ->
  forall os, slots s src = Some os ->
  exists s3, copy_into s2 a os = Some s3 /\
             st_eq (replaced s d (copied v)) (set_slot s3 d (Some {| o_ptr := Some a; o_size := o_size os |})).
Proof.
  intros I Hne Hv -> Hh Hn Hs Hod os Hos.
  destruct (src_obj _ _ _ I Hv) as [os' [Hos' [Hsz Hp]]]. rewrite Hos in Hos'. injection Hos' as <-.
  assert (Lc : length (copied v) = o_size os).
  { rewrite Hsz. destruct v; cbn [copied vsize]; [reflexivity|apply repeat_length]. }
  unfold copy_into. destruct v as [l|n]; cbn [copied vsize] in *.
  - destruct Hp as [b [Hb Hhb]]. rewrite Hb.
    assert (Hblt : b < next s) by exact (inv_ptr_lt s src os b I Hos Hb).
    assert (Hbne : forall b0, od_ptr = Some b0 -> b <> b0).
    { intros b0 E ->. subst od_ptr. destruct (slots s d) as [od|] eqn:Hd; [|discriminate].
      destruct Hne as [Hne|Hne]; [|discriminate]. apply Hne. exact (inv_excl s I _ _ _ _ _ Hd Hos E Hb). }
    assert (Hs2b : heap s2 b = Some l).
    { rewrite Hh. destruct (Nat.eqb_spec b (next s)); [lia|]. destruct od_ptr as [b0|]; [|assumption].
      destruct (Nat.eqb_spec b b0); [exfalso; eapply Hbne; eauto|assumption]. }
    destruct (Nat.ltb_spec 0 (o_size os)).
    + rewrite Hs2b. eexists. split; [reflexivity|]. split; [|split]; cbn [replaced set_slot set_heap heap next slots].
      * intros x. unfold upd. rewrite Hh. destruct (Nat.eqb x (next s)); [reflexivity|].
        rewrite Hod. destruct (slots s d) as [[[b0|] n0]|]; reflexivity.
      * now rewrite Hn.
      * intros k. unfold upd. rewrite Hs, Lc. reflexivity.
    + eexists. split; [reflexivity|]. assert (l = []) by (destruct l; [reflexivity|cbn in Lc; lia]). subst l.
      split; [|split]; cbn [replaced set_slot heap next slots].
      * intros x. rewrite Hh. cbn [vsize length repeat]. destruct (Nat.eqb x (next s)); [reflexivity|].
        rewrite Hod. destruct (slots s d) as [[[b0|] n0]|]; reflexivity.
      * now rewrite Hn.
      * intros k. unfold upd. rewrite Hs, <- Lc. reflexivity.
  - rewrite Hp. eexists. split; [reflexivity|]. split; [|split]; cbn [replaced set_slot heap next slots].
    + intros x. rewrite Hh. destruct (Nat.eqb x (next s)); [reflexivity|].
      rewrite Hod. destruct (slots s d) as [[[b0|] n0]|]; reflexivity.
    + now rewrite Hn.
    + intros k. unfold upd. rewrite Hs, <- Lc. reflexivity.
Qed.

Lemma step_copyctor s d src v : Inv s -> absf s d = None -> absf s src = Some v ->
  exists s', step s (CopyCtor d src) = Some s' /\ Inv s' /\ agree s' (upd (absf s) d (Some (Full (copied v)))).
Proof.
  intros I Hd Hv. apply absf_none in Hd. destruct (live_obj _ _ _ Hv) as [os Hos].
  cbn [step]. rewrite Hd, Hos. cbn [alloc].
  destruct (src_obj _ _ _ I Hv) as [os' [Hos' [Hsz _]]]. rewrite Hos in Hos'. injection Hos' as <-.
  destruct (copy_result s d src v None
              {| heap := upd (heap s) (next s) (Some (repeat 0%Z (o_size os))); next := S (next s); slots := slots s |} (next s)
              I (or_intror Hd) Hv eq_refl) with (os := os) as [s3 [C Q]]; try reflexivity; try assumption.
  { intros x. cbn [heap]. unfold upd. now rewrite Hsz. }
  { now rewrite Hd. }
  rewrite C. eexists. split; [reflexivity|]. split; [exact (Inv_ext _ _ Q (inv_replaced s d _ I))|].
  intros k. rewrite <- (absf_ext _ _ Q). now apply absf_replaced.
Qed.

Lemma step_copyassign s d src vd v : Inv s -> absf s d = Some vd -> absf s src = Some v ->
  exists s', step s (CopyAssign d src) = Some s' /\ Inv s' /\
             agree s' (if Nat.eqb d src then absf s else upd (absf s) d (Some (Full (copied v)))).
Proof.
  intros I Hd Hv. destruct (live_obj _ _ _ Hd) as [od Hod]. destruct (live_obj _ _ _ Hv) as [os Hos].
  cbn [step]. unfold copy_assign. rewrite Hod, Hos. destruct (Nat.eqb_spec d src) as [->|Hne].
  - exists s. split; [reflexivity|]. split; [assumption|]. intros k. reflexivity.
  - cbn [alloc].
    destruct (src_obj _ _ _ I Hv) as [os' [Hos' [Hsz _]]]. rewrite Hos in Hos'. injection Hos' as <-.
    set (s1 := {| heap := upd (heap s) (next s) (Some (repeat 0%Z (o_size os))); next := S (next s); slots := slots s |}).
    assert (F : exists s2, free s1 (o_ptr od) = Some s2 /\
                (forall x, heap s2 x = if Nat.eqb x (next s) then Some (repeat 0%Z (vsize v))
                                       else match o_ptr od with Some b => if Nat.eqb x b then None else heap s x | None => heap s x end) /\
                next s2 = S (next s) /\ (forall k, slots s2 k = slots s k)).
    { unfold free. destruct (o_ptr od) as [b|] eqn:Hb.
      - assert (Hblt : b < next s) by exact (inv_ptr_lt s d od b I Hod Hb).
        destruct (inv_alloc s I _ _ _ Hod Hb) as [l [Hl _]].
        assert (Hs1b : heap s1 b = Some l) by (unfold s1; cbn [heap]; unfold upd; destruct (Nat.eqb_spec b (next s)); [lia|assumption]).
        rewrite Hs1b. eexists. split; [reflexivity|]. split; [|split]; cbn; try reflexivity.
        intros x. unfold s1. cbn [heap]. unfold upd.
        destruct (Nat.eqb_spec x b) as [E1|N1]; destruct (Nat.eqb_spec x (next s)) as [E2|N2]; try reflexivity; try lia.
        now rewrite Hsz.
      - eexists. split; [reflexivity|]. split; [|split]; try reflexivity. intros x. unfold s1. cbn [heap]. unfold upd. now rewrite Hsz. }
    destruct F as [s2 [F2 [Hh [Hn Hs]]]]. rewrite F2.
    destruct (copy_result s d src v (o_ptr od) s2 (next s) I (or_introl Hne) Hv eq_refl Hh Hn Hs) with (os := os) as [s3 [C Q]]; try assumption.
    { now rewrite Hod. }
    rewrite C. eexists. split; [reflexivity|]. split; [exact (Inv_ext _ _ Q (inv_replaced s d _ I))|].
    intros k. rewrite <- (absf_ext _ _ Q). now apply absf_replaced.
Qed.

Lemma absf_transfer s d src os v : Inv s -> d <> src -> slots s src = Some os -> absf s src = Some v ->
  (forall o, slots s d = Some o -> o_ptr o = None) ->
  forall k, absf (set_slot (set_slot s d (Some os)) src (Some {| o_ptr := None; o_size := o_size os |})) k
            = upd (upd (absf s) d (Some v)) src (Some (Hollow (vsize v))) k.
Proof.
  intros I Hne Hs Hv Hd k. destruct (src_obj _ _ _ I Hv) as [os' [Hos' [Hsz Hp]]]. rewrite Hs in Hos'. injection Hos' as <-.
  unfold absf at 1. cbn [set_slot heap slots]. unfold upd.
  destruct (Nat.eqb_spec k src) as [->|]; [now rewrite Hsz|].
  destruct (Nat.eqb_spec k d) as [->|]; [|reflexivity].
  unfold absf in Hv. rewrite Hs in Hv. exact Hv.
Qed.

Lemma step_movector s d src v : Inv s -> absf s d = None -> absf s src = Some v ->
  exists s', step s (MoveCtor d src) = Some s' /\ Inv s' /\
             agree s' (upd (upd (absf s) d (Some v)) src (Some (Hollow (vsize v)))).
Proof.
  intros I Hd Hv. apply absf_none in Hd. destruct (live_obj _ _ _ Hv) as [os Hos].
  cbn [step]. rewrite Hd, Hos. eexists. split; [reflexivity|].
  assert (Hne : d <> src) by (intros ->; congruence).
  assert (Hd' : forall o, slots s d = Some o -> o_ptr o = None) by (intros o Ho; congruence).
  split; [exact (inv_transfer s d src os I Hne Hos Hd')|]. intros k. now apply absf_transfer.
Qed.

Lemma step_moveassign s d src vd v : Inv s -> absf s d = Some vd -> absf s src = Some v ->
  exists s', step s (MoveAssign d src) = Some s' /\ Inv s' /\
             agree s' (if Nat.eqb d src then absf s else upd (upd (absf s) d (Some v)) src (Some (Hollow (vsize v)))).
Proof.
  intros I Hd Hv. destruct (live_obj _ _ _ Hd) as [od Hod]. destruct (live_obj _ _ _ Hv) as [os Hos].
  cbn [step]. rewrite Hod, Hos. destruct (Nat.eqb_spec d src) as [->|Hne].
  - exists s. split; [reflexivity|]. split; [assumption|]. intros k. reflexivity.
  - destruct (free_ok s od d I Hod) as [s1 [F1 Q1]]. rewrite F1. eexists. split; [reflexivity|].
    (* the intermediate state with d hollow *)
    set (h := released s d (Some {| o_ptr := None; o_size := o_size od |})).
    assert (Ih : Inv h) by exact (proj2 (inv_released s d (o_size od) I)).
    assert (Hsrc : slots h src = Some os).
    { unfold h, released. cbn [slots]. unfold upd. destruct (Nat.eqb_spec src d); [congruence|assumption]. }
    assert (Hdh : forall o, slots h d = Some o -> o_ptr o = None).
    { intros o Ho. unfold h, released in Ho. cbn [slots] in Ho. unfold upd in Ho. rewrite Nat.eqb_refl in Ho. now injection Ho as <-. }
    assert (Q : st_eq (set_slot (set_slot h d (Some os)) src (Some {| o_ptr := None; o_size := o_size os |}))
                      (set_slot (set_slot s1 d (Some os)) src (Some {| o_ptr := None; o_size := o_size os |}))).
    { destruct Q1 as [Qh [Qn Qs]]. split; [|split]; cbn [set_slot released h heap next slots].
      - intros a. now rewrite Qh.
      - now rewrite Qn.
      - intros x. unfold upd. rewrite Qs. cbn [slots]. destruct (Nat.eqb x src); [reflexivity|]. destruct (Nat.eqb x d); reflexivity. }
    split; [exact (Inv_ext _ _ Q (inv_transfer h d src os Ih Hne Hsrc Hdh))|].
    assert (Hvh : absf h src = Some v).
    { unfold h. rewrite (absf_released s d _ I); [|intros o Ho; now injection Ho as <-].
      unfold upd. destruct (Nat.eqb_spec src d); [congruence|assumption]. }
    intros k. rewrite <- (absf_ext _ _ Q). rewrite (absf_transfer h d src os v Ih Hne Hsrc Hvh Hdh).
    unfold upd. destruct (Nat.eqb_spec k src); [reflexivity|]. destruct (Nat.eqb_spec k d); [reflexivity|].
    unfold h. rewrite (absf_released s d _ I); [|intros o Ho; now injection Ho as <-].
    unfold upd. destruct (Nat.eqb_spec k d); [contradiction|reflexivity].
Qed.

(* ------------------------------------------------------------------ the theorems *)
Lemma astep_ext a a' o : (forall k, a k = a' k) ->
  match astep a o, astep a' o with
  | Some b, Some b' => forall k, b k = b' k
  | None, None => True
  | _, _ => False
  end.
Proof.
  intros E. destruct o; cbn [astep]; rewrite <- ?E;
    repeat match goal with |- context [match a ?k with _ => _ end] => destruct (a k) as [[?|?]|] end;
    repeat match goal with |- context [if ?b then _ else _] => destruct b end;
    try exact I; try (intros k; unfold upd; repeat match goal with |- context [Nat.eqb ?x ?y] => destruct (Nat.eqb x y) end; auto).
Qed.

Theorem step_refines s o a' : Inv s -> astep (absf s) o = Some a' ->
  exists s', step s o = Some s' /\ Inv s' /\ agree s' a'.
Proof.
  intros I H. destruct o as [d data|k i v|d src|d src|d src|d src|k]; cbn [astep] in H.
  - destruct (absf s d) eqn:Hd; [discriminate|]. injection H as <-. now apply step_construct.
  - destruct (absf s k) as [[l|n]|] eqn:Hk; try discriminate. destruct (Nat.ltb_spec i (length l)); [|discriminate].
    injection H as <-. now apply step_write.
  - destruct (absf s d) eqn:Hd; [discriminate|]. destruct (absf s src) as [v|] eqn:Hv; [|discriminate].
    destruct (step_copyctor s d src v I Hd Hv) as [s' [S1 [S2 S3]]]. exists s'. split; [assumption|]. split; [assumption|].
    destruct v; injection H as <-; exact S3.
  - destruct (absf s d) eqn:Hd; [discriminate|]. destruct (absf s src) as [v|] eqn:Hv; [|discriminate].
    injection H as <-. destruct (step_movector s d src v I Hd Hv) as [s' [S1 [S2 S3]]]. exists s'. split; [assumption|]. split; [assumption|].
    destruct v; exact S3.
  - destruct (absf s d) as [vd|] eqn:Hd; [|discriminate]. destruct (absf s src) as [v|] eqn:Hv; [|discriminate].
    destruct (step_copyassign s d src vd v I Hd Hv) as [s' [S1 [S2 S3]]]. exists s'. split; [assumption|]. split; [assumption|].
    destruct (Nat.eqb d src); injection H as <-; [exact S3|]. destruct v; exact S3.
  - destruct (absf s d) as [vd|] eqn:Hd; [|discriminate]. destruct (absf s src) as [v|] eqn:Hv; [|discriminate].
    destruct (step_moveassign s d src vd v I Hd Hv) as [s' [S1 [S2 S3]]]. exists s'. split; [assumption|]. split; [assumption|].
    destruct (Nat.eqb d src); injection H as <-; [exact S3|]. destruct v; exact S3.
  - destruct (absf s k) as [v|] eqn:Hk; [|discriminate]. injection H as <-. exact (step_destroy s k v I Hk).
Qed.

(* every history the value semantics accepts runs without error, keeps the invariant, and is
   observationally the value-semantics run *)
Theorem history_refines : forall ops s a a', Inv s -> agree s a -> arun a ops = Some a' ->
  exists s', run s ops = Some s' /\ Inv s' /\ agree s' a'.
Proof.
  induction ops as [|o ops IH]; intros s a a' I A H; cbn [arun run] in *.
  - injection H as <-. eauto.
  - destruct (astep a o) as [a1|] eqn:E1; [|discriminate].
    pose proof (astep_ext (absf s) a o A) as X. rewrite E1 in X.
    destruct (astep (absf s) o) as [a1'|] eqn:E2; [|contradiction].
    destruct (step_refines s o a1' I E2) as [s1 [S1 [I1 A1]]]. rewrite S1.
    apply (IH s1 a1 a' I1); [|assumption]. intros k. now rewrite A1, X.
Qed.

Corollary history_from_init ops a' : arun ainit ops = Some a' ->
  exists s', run init ops = Some s' /\ Inv s' /\ agree s' a'.
Proof. apply history_refines; [exact inv_init|intros k; reflexivity]. Qed.

(* nothing leaks: when no slot is engaged any more, no buffer is allocated *)
Theorem no_leak s : Inv s -> (forall k, slots s k = None) -> forall a, heap s a = None.
Proof.
  intros I H a. destruct (heap s a) as [l|] eqn:Hl; [|reflexivity].
  destruct (inv_owned s I _ _ Hl) as [k [o [Hk _]]]. rewrite H in Hk. discriminate.
Qed.

(* a write through one field is never visible through another (value semantics; by history_refines the
   concrete run shows exactly this) *)
Lemma write_is_private a k i v a' x : astep a (Write k i v) = Some a' -> x <> k -> a' x = a x.
Proof.
  cbn [astep]. destruct (a k) as [[l|n]|]; try discriminate. destruct (i <? length l); [|discriminate].
  intros H Hx. injection H as <-. unfold upd. destruct (Nat.eqb_spec x k); [contradiction|reflexivity].
Qed.
(* and a copy is independent of its source from then on: writing the source leaves the copy alone *)
Lemma copy_then_write_source a d src i v a1 a2 : astep a (CopyCtor d src) = Some a1 -> astep a1 (Write src i v) = Some a2 ->
  d <> src -> a2 d = a1 d.
Proof. intros _ H2 Hne. exact (write_is_private a1 src i v a2 d H2 Hne). Qed.

(* the pinned copy-assignment loses the data on self-assignment: [7;8] becomes [0;0] *)
Definition step_pinned (s : st) (o : op) : option st :=
  match o with CopyAssign d src => copy_assign_pinned s d src | _ => step s o end.
Theorem self_assign_refuted :
  exists s s', run init [Construct 0 [7; 8]%Z] = Some s /\ step_pinned s (CopyAssign 0 0) = Some s' /\
               absf s 0 = Some (Full [7; 8]%Z) /\ absf s' 0 = Some (Full [0; 0]%Z).
Proof. eexists. eexists. split; [reflexivity|]. split; [reflexivity|]. split; reflexivity. Qed.
(* ... while the repaired member keeps it *)
Example self_assign_fixed :
  exists s s', run init [Construct 0 [7; 8]%Z] = Some s /\ step s (CopyAssign 0 0) = Some s' /\ absf s' 0 = Some (Full [7; 8]%Z).
Proof. eexists. eexists. split; [reflexivity|]. split; reflexivity. Qed.
