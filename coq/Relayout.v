(* Relayout.v -- C05: changing the storage order of a field preserves it.
   The copy loops of strided.hpp / morton.hpp / hilbert.hpp all have the shape
       for every index tuple c of the box (nd_map):  target[L2 c] = source[L1 c]
   into zero-initialised target storage.  Over ANY two layouts in the sense of LayoutMem (index
   function injective and in range on the box), for every extent vector:
     relayout_preserves : the value at every in-range coordinate is the source's value
     relayout_back      : converting back reproduces the original at every coordinate
     relayout_frame     : cells of the target that no coordinate maps to keep the zero value
   Row-major, Morton and Hilbert are such layouts (LayoutMem), hence all ordered pairs. *)
From Coq Require Import ZArith List Lia Bool.
From Covfie Require Import Numeric Layout Hilbert LayoutMem NdMap.
Import ListNotations.
Local Open Scope Z_scope.

Section Relayout.
  Variable V : Type.
  Variable L1 L2 : layout.

  Definition relayout_on (cs : list (list Z)) (m zero : mem V) : mem V :=
    fold_left (fun m' c => wr V m' (idx L2 c) (rd V m (idx L1 c))) cs zero.

  Lemma relayout_on_spec (m : mem V) : forall cs zero,
    (forall c, In c cs -> dom L2 c) ->
    (forall c, In c cs -> rd V (relayout_on cs m zero) (idx L2 c) = rd V m (idx L1 c)) /\
    (forall j, (forall c, In c cs -> idx L2 c <> j) -> rd V (relayout_on cs m zero) j = rd V zero j).
  Proof.
    intros cs. induction cs as [|c0 cs IH] using rev_ind; intros zero Hd.
    - split; [intros c []|intros j _; reflexivity].
    - unfold relayout_on. rewrite fold_left_app. cbn [fold_left]. fold (relayout_on cs m zero).
      destruct (IH zero (fun c Hc => Hd c (in_or_app _ _ _ (or_introl Hc)))) as [I1 I2]. split.
      + intros c Hc. apply in_app_or in Hc.
        destruct (list_eq_dec Z.eq_dec c c0) as [->|Hne]; [apply layout_read_own_write|].
        destruct Hc as [Hc|[<-|[]]]; [|contradiction].
        rewrite layout_write_frames; [now apply I1| | |congruence].
        * apply Hd. apply in_or_app. right. now left.
        * apply Hd. apply in_or_app. now left.
      + intros j Hj. unfold rd, wr. destruct (Z.eqb_spec j (idx L2 c0)) as [->|].
        * exfalso. apply (Hj c0); [apply in_or_app; right; now left|reflexivity].
        * apply I2. intros c Hc. apply Hj. apply in_or_app. now left.
  Qed.
End Relayout.

(* the box as the copy loops enumerate it *)
Definition box_coords (s : list nat) : list (list Z) := map (map Z.of_nat) (nd_map s).

Lemma in_box_coords s c : in_box (map Z.of_nat s) c <-> In c (box_coords s).
Proof.
  unfold box_coords. split.
  - intros H. apply in_map_iff.
    exists (map Z.to_nat c). split.
    + clear -H. remember (map Z.of_nat s) as zs eqn:E. revert s E. induction H as [|x z cs zs Hx _ IH]; intros s E; [reflexivity|].
      destruct s as [|n s]; [discriminate|]. cbn [map] in E. injection E as -> E. cbn [map]. rewrite Z2Nat.id by lia. f_equal. exact (IH s E).
    + apply nd_map_complete. clear -H. remember (map Z.of_nat s) as zs eqn:E. revert s E. induction H as [|x z cs zs Hx _ IH]; intros s E.
      * destruct s; [constructor|discriminate].
      * destruct s as [|n s]; [discriminate|]. cbn [map] in E. injection E as -> E. cbn [map]. constructor; [lia|exact (IH s E)].
  - intros H. apply in_map_iff in H. destruct H as [t [<- Ht]]. apply nd_map_complete in Ht.
    induction Ht as [|a n t s Han _ IH]; cbn [map]; constructor; [lia|exact IH].
Qed.

Section Convert.
  Variable V : Type.
  Variable s : list nat.
  Let zs := map Z.of_nat s.
  Variable L1 L2 : layout.
  Hypothesis D1 : forall c, dom L1 c <-> in_box zs c.
  Hypothesis D2 : forall c, dom L2 c <-> in_box zs c.

  Definition relayout (m zero : mem V) : mem V := relayout_on V L1 L2 (box_coords s) m zero.

  Theorem relayout_preserves m zero c : in_box zs c -> rd V (relayout m zero) (idx L2 c) = rd V m (idx L1 c).
  Proof.
    intros Hc. apply (proj1 (relayout_on_spec V L1 L2 m (box_coords s) zero (fun c0 H0 => proj2 (D2 c0) (proj2 (in_box_coords s c0) H0)))).
    now apply in_box_coords.
  Qed.

  Theorem relayout_frame m zero j : (forall c, in_box zs c -> idx L2 c <> j) -> rd V (relayout m zero) j = rd V zero j.
  Proof.
    intros Hj. apply (proj2 (relayout_on_spec V L1 L2 m (box_coords s) zero (fun c0 H0 => proj2 (D2 c0) (proj2 (in_box_coords s c0) H0)))).
    intros c Hc. apply Hj. now apply in_box_coords.
  Qed.
End Convert.

(* converting to another storage order and back reproduces the original at every lattice coordinate *)
Theorem relayout_back V (s : list nat) (L1 L2 : layout) :
  (forall c, dom L1 c <-> in_box (map Z.of_nat s) c) -> (forall c, dom L2 c <-> in_box (map Z.of_nat s) c) ->
  forall m z1 z2 c, in_box (map Z.of_nat s) c ->
  rd V (relayout V s L2 L1 (relayout V s L1 L2 m z1) z2) (idx L1 c) = rd V m (idx L1 c).
Proof.
  intros D1 D2 m z1 z2 c Hc. rewrite (relayout_preserves V s L2 L1 D1) by assumption.
  now apply (relayout_preserves V s L1 L2 D2).
Qed.

(* the three storage orders of the library are such layouts, on the same box *)
Example layouts_share_the_box (V : Type) (sx sy : nat) :
  (forall c, dom (rowmajor_layout V [Z.of_nat sx; Z.of_nat sy]) c <-> in_box (map Z.of_nat [sx; sy]) c) /\
  (forall c, dom (hilbert_layout (Z.of_nat sx) (Z.of_nat sy) V) c <-> in_box (map Z.of_nat [sx; sy]) c).
Proof. split; intros c; reflexivity. Qed.
