(* Refine_Hilbert.v -- the kernel GENERATED from hilbert.hpp (calculate_index with its call to
   rot and to round_pow2) equals the quadrant recursion Hilbert.Hl of the smallest power-of-two
   square covering the extents, with no wrap-around and no undefined behaviour. *)
From Coq Require Import ZArith List Lia Bool ZifyBool ZifyNat.
From Covfie Require Import CKernel CKernelFacts Numeric Refine_Numeric Layout Hilbert LayoutMem.
From Covfie.gen Require Import Gen_Numeric Gen_Hilbert.
Import ListNotations.
Local Open Scope Z_scope.
Local Open Scope ck_scope.

(* ---------- small facts about the constants and casts of this kernel ---------- *)
Lemma C0 : cast U64 (lit I32 0) = lit U64 0. Proof. reflexivity. Qed.
Lemma C1 : cast U64 (lit I32 1) = lit U64 1. Proof. reflexivity. Qed.
Lemma C2 : cast U64 (lit I32 2) = lit U64 2. Proof. reflexivity. Qed.
Lemma C3 : cast U64 (lit I32 3) = lit U64 3. Proof. reflexivity. Qed.
Lemma C00 : cast U64 (cast U64 (lit I32 0)) = lit U64 0. Proof. reflexivity. Qed.

Lemma cast_bool_U64 (b : bool) :
  cast U64 (cast U64 (lit CBool (if b then 1 else 0))) = lit U64 (if b then 1 else 0).
Proof. destruct b; reflexivity. Qed.

Lemma nth2_0 (a b : tv) : nth_tv [a; b] (lit I32 0) = Ok a. Proof. reflexivity. Qed.
Lemma nth2_1 (a b : tv) : nth_tv [a; b] (lit I32 1) = Ok b. Proof. reflexivity. Qed.

(* ---------- pure facts about Hilbert.rot / bit_gt0 / quad / Hn ---------- *)
Lemma rot_range n x y rx ry : 0 <= x < n -> 0 <= y < n ->
  0 <= fst (rot n x y rx ry) < n /\ 0 <= snd (rot n x y rx ry) < n.
Proof.
  intros Hx Hy. unfold rot. destruct (ry =? 0); [destruct (rx =? 1)|]; cbn [fst snd]; lia.
Qed.

Lemma bit_gt0_range x s : 0 <= bit_gt0 x s <= 1.
Proof. unfold bit_gt0. destruct (0 <? Z.land x s); lia. Qed.

Lemma quad_range rx ry : 0 <= rx <= 1 -> 0 <= ry <= 1 -> 0 <= quad rx ry <= 3.
Proof.
  intros Hx Hy. assert (Ex : rx = 0 \/ rx = 1) by lia. assert (Ey : ry = 0 \/ ry = 1) by lia.
  destruct Ex as [-> | ->]; destruct Ey as [-> | ->]; cbn; lia.
Qed.

Lemma pow2_divides (j k : nat) : (j <= k)%nat -> (2 ^ Z.of_nat j | 2 ^ Z.of_nat k).
Proof.
  intros H. exists (2 ^ (Z.of_nat k - Z.of_nat j)). rewrite <- Z.pow_add_r by lia. f_equal. lia.
Qed.

Lemma Hn_range n j x y : (2 ^ Z.of_nat j | n) -> 0 <= x < n -> 0 <= y < n ->
  0 <= Hn n j x y < sq j.
Proof.
  intros Hd Hx Hy. rewrite Hn_is_Hl by assumption. pose proof (pow2pos j).
  apply Hl_range; apply Z.mod_pos_bound; assumption.
Qed.

Lemma land_pow2_u64 x (j : nat) : (j <= 30)%nat -> in_u64 (Z.land x (2 ^ Z.of_nat j)).
Proof.
  intros Hj. rewrite land_pow2 by lia. unfold in_u64.
  assert (0 < 2 ^ Z.of_nat j <= 2 ^ 30).
  { split; [apply pow2pos|]. apply Z.pow_le_mono_r; lia. }
  destruct (Z.testbit x (Z.of_nat j)); lia.
Qed.

Lemma half_pow_S (j : nat) : 2 ^ Z.of_nat (S j) / 2 = 2 ^ Z.of_nat j.
Proof. rewrite pow2S, Z.mul_comm, Z.div_mul by lia. reflexivity. Qed.

Lemma half_pow_bound (j : nat) : (j <= 31)%nat -> 0 <= 2 ^ Z.of_nat j / 2 < 2 ^ 31.
Proof.
  intros Hj. destruct j as [|j]; [cbn; lia|]. rewrite half_pow_S. split; [pose proof (pow2pos j); lia|].
  apply Z.pow_lt_mono_r; lia.
Qed.

(* ---------- rot ---------- *)
Lemma rot_refines n x y rx ry :
  0 <= n < 2 ^ 64 -> 0 <= x < n -> 0 <= y < n -> 0 <= rx <= 1 -> 0 <= ry <= 1 ->
  gen_hilbert_rot (lit U64 n) (lit U64 x) (lit U64 y) (lit U64 rx) (lit U64 ry)
  = Ok (lit U64 (fst (rot n x y rx ry)), lit U64 (snd (rot n x y rx ry))).
Proof.
  intros Hn Hx Hy Hrx Hry. unfold gen_hilbert_rot, rot. rewrite !C0, !C1.
  rewrite (cmp_U64 Eq ry 0) by (unfold in_u64; lia). cbn [bind]. rewrite truthy_bool.
  destruct (ry =? 0) eqn:Ery.
  - rewrite (cmp_U64 Eq rx 1) by (unfold in_u64; lia). cbn [bind]. rewrite truthy_bool.
    destruct (rx =? 1) eqn:Erx.
    + rewrite (arith_U64 Sub n 1) by (unfold in_u64; lia). cbn [bind].
      rewrite (Z.mod_small (n - 1)) by lia.
      rewrite (arith_U64 Sub (n - 1) x) by (unfold in_u64; lia). cbn [bind].
      rewrite (arith_U64 Sub (n - 1) y) by (unfold in_u64; lia). cbn [bind].
      rewrite (Z.mod_small (n - 1 - x)), (Z.mod_small (n - 1 - y)) by lia.
      rewrite !cast_U64_u64 by (unfold in_u64; lia). reflexivity.
    + cbn [bind]. rewrite !cast_U64_u64 by (unfold in_u64; lia). reflexivity.
  - cbn [bind]. reflexivity.
Qed.

(* ---------- the index kernel ---------- *)
(* extents up to 2^31 per axis: then s*s*3 and d stay below 2^64 *)
Theorem hilbert_index_refines (sx sy x y : Z) (fuel : nat) :
  1 <= sx <= 2 ^ 31 -> 1 <= sy <= 2 ^ 31 -> 0 <= x < sx -> 0 <= y < sy -> (66 < fuel)%nat ->
  gen_hilbert_index fuel [lit U64 x; lit U64 y] [lit U64 sx; lit U64 sy]
  = Ok (lit U64 (Hl (Z.to_nat (curve_bits [sx; sy])) x y)).
Proof.
  intros Hsx Hsy Hx Hy Hf.
  remember (Z.max sx sy) as m eqn:Em.
  assert (Hm : 1 <= m <= 2 ^ 31) by lia.
  remember (Z.log2_up m) as K eqn:EK.
  assert (HK : 0 <= K <= 31).
  { subst K. split; [apply Z.log2_up_nonneg|]. apply Z.log2_up_le_pow2; lia. }
  assert (Hcb : curve_bits [sx; sy] = K).
  { unfold curve_bits, zmax. cbn [fold_right]. subst K m. f_equal. lia. }
  rewrite Hcb. remember (Z.to_nat K) as k eqn:Ek.
  assert (Hkk : Z.of_nat k = K) by lia.
  assert (Hk31 : (k <= 31)%nat) by lia.
  remember (2 ^ Z.of_nat k) as n eqn:En.
  assert (Hpc : pow2_ceil m = n) by (unfold pow2_ceil; subst n K; now rewrite Hkk).
  assert (Hmn : m <= n) by (rewrite <- Hpc; apply pow2_ceil_ge; lia).
  assert (Hn31 : n <= 2 ^ 31) by (subst n; apply Z.pow_le_mono_r; lia).
  assert (Hxn : 0 <= x < n) by lia. assert (Hyn : 0 <= y < n) by lia.
  unfold gen_hilbert_index.
  rewrite !nth2_0, !nth2_1. cbn [bind]. rewrite C00.
  rewrite (cast_U64_u64 x), (cast_U64_u64 y) by (unfold in_u64; lia).
  rewrite (cmp_U64 Gt sx sy) by (unfold in_u64; lia). cbn [bind]. rewrite truthy_bool.
  replace (if sy <? sx then Ok (lit U64 sx) else Ok (lit U64 sy)) with (@Ok tv (lit U64 m))
    by (destruct (Z.ltb_spec sy sx); do 2 f_equal; lia).
  cbn [bind ty lit].
  rewrite (round_pow2_refines U64 m fuel);
    [ | split; [reflexivity | right; cbn; lia] | cbn [cwidth U64]; lia | cbn [cwidth U64]; lia ].
  cbn [bind]. rewrite Hpc, C2, C0, C3.
  rewrite (cast_U64_u64 n) by (unfold in_u64; lia).
  rewrite (arith_U64 Div n 2) by (unfold in_u64; lia).
  change (2 =? 0) with false. cbv iota. cbn [bind].
  assert (Hn2 : 0 <= n / 2 < 2 ^ 31).
  { split; [apply Z.div_pos; lia|]. apply Z.div_lt_upper_bound; lia. }
  rewrite (cast_U64_u64 (n / 2)) by (unfold in_u64; lia).
  pose (I := fun st : tv * tv * tv * tv * tv * tv =>
     let '(s, rx, ry, d, xx, yy) := st in
     exists (j : nat) dz xz yz, (j <= k)%nat /\ s = lit U64 (2 ^ Z.of_nat j / 2) /\
       d = lit U64 dz /\ xx = lit U64 xz /\ yy = lit U64 yz /\
       0 <= xz < n /\ 0 <= yz < n /\ 0 <= dz /\ dz + Hn n j xz yz = Hn n k x y).
  pose (mm := fun st : tv * tv * tv * tv * tv * tv =>
     let '(s, rx, ry, d, xx, yy) := st in Z.to_nat (bitlen (val s))).
  assert (Hsqk : sq k <= 2 ^ 62) by (unfold sq; rewrite <- En; timeout 20 nia).
  edestruct (while_inv I mm) as (st & Hrun & HI & Hexit); cycle 3.
  - rewrite Hrun. cbn [bind]. destruct st as [[[[[s rx] ry] d] xx] yy].
    destruct HI as (j & dz & xz & yz & Hj & -> & -> & -> & -> & Hxz & Hyz & Hdz & Hinv).
    cbv beta iota in Hexit.
    pose proof (half_pow_bound j ltac:(lia)) as Hsj.
    rewrite (cmp_U64 Gt) in Hexit by (unfold in_u64; lia). cbn [bind] in Hexit.
    rewrite truthy_bool in Hexit. injection Hexit as Hexit.
    assert (j = 0%nat).
    { destruct j as [|j']; [reflexivity|]. rewrite half_pow_S in Hexit. pose proof (pow2pos j'). lia. }
    subst j. cbn [Hn] in Hinv. rewrite Z.add_0_r in Hinv. rewrite Hinv.
    rewrite Hn_is_Hl by (try rewrite <- En; assumption || apply Z.divide_refl).
    rewrite <- En, !Z.mod_small by assumption. reflexivity.
  - (* one round *)
    intros [[[[[s rx] ry] d] xx] yy] (j & dz & xz & yz & Hj & -> & -> & -> & -> & Hxz & Hyz & Hdz & Hinv).
    pose proof (half_pow_bound j ltac:(lia)) as Hsj.
    cbv beta iota. rewrite (cmp_U64 Gt) by (unfold in_u64; lia). cbn [bind]. rewrite truthy_bool.
    eexists; split; [reflexivity|]. intros E.
    destruct j as [|j']; [cbn in E; discriminate|]. clear E.
    rewrite half_pow_S in *. cbn [Hn] in Hinv.
    assert (Hj30 : (j' <= 30)%nat) by lia.
    pose proof (pow2pos j') as Hspos.
    assert (Hs30 : 2 ^ Z.of_nat j' <= 2 ^ 30) by (apply Z.pow_le_mono_r; lia).
    remember (2 ^ Z.of_nat j') as sz eqn:Esz.
    assert (Hlx : in_u64 (Z.land xz sz)) by (subst sz; now apply land_pow2_u64).
    assert (Hly : in_u64 (Z.land yz sz)) by (subst sz; now apply land_pow2_u64).
    pose proof (bit_gt0_range xz sz) as Hrx. pose proof (bit_gt0_range yz sz) as Hry.
    pose proof (quad_range _ _ Hrx Hry) as Hq.
    pose proof (rot_range n xz yz (bit_gt0 xz sz) (bit_gt0 yz sz) Hxz Hyz) as [Hrx' Hry'].
    assert (Hdiv : (2 ^ Z.of_nat j' | n)) by (subst n; apply pow2_divides; lia).
    pose proof (Hn_range n j' _ _ Hdiv Hrx' Hry') as Hrest.
    assert (Htot : 0 <= Hn n k x y < sq k).
    { apply Hn_range; try assumption. subst n. apply Z.divide_refl. }
    rewrite (arith_U64 And xz sz) by (unfold in_u64; lia). cbn [bind].
    rewrite (cmp_U64 Gt (Z.land xz sz) 0) by (assumption || unfold in_u64; lia). cbn [bind].
    rewrite (arith_U64 And yz sz) by (unfold in_u64; lia). cbn [bind].
    rewrite (cmp_U64 Gt (Z.land yz sz) 0) by (assumption || unfold in_u64; lia). cbn [bind].
    rewrite !cast_bool_U64. fold (bit_gt0 xz sz) (bit_gt0 yz sz).
    remember (bit_gt0 xz sz) as rxz eqn:Erx. remember (bit_gt0 yz sz) as ryz eqn:Ery.
    remember (quad rxz ryz) as q eqn:Eq.
    assert (Hss : 0 <= sz * sz <= 2 ^ 60) by (timeout 20 nia).
    rewrite (arith_U64 Mul sz sz) by (unfold in_u64; lia). cbn [bind].
    rewrite (Z.mod_small (sz * sz)) by lia.
    rewrite (arith_U64 Mul 3 rxz) by (unfold in_u64; lia). cbn [bind].
    rewrite (Z.mod_small (3 * rxz)) by lia.
    rewrite (arith_U64 Xor (3 * rxz) ryz) by (unfold in_u64; lia). cbn [bind].
    fold (quad rxz ryz). rewrite <- Eq.
    assert (Hssq : 0 <= sz * sz * q <= 3 * 2 ^ 60) by (timeout 20 nia).
    rewrite (arith_U64 Mul (sz * sz) q) by (unfold in_u64; lia). cbn [bind].
    rewrite (Z.mod_small (sz * sz * q)) by lia.
    rewrite (arith_U64 Add dz (sz * sz * q)) by (unfold in_u64; lia). cbn [bind].
    rewrite (Z.mod_small (dz + sz * sz * q)) by lia.
    rewrite (cast_U64_u64 (dz + sz * sz * q)) by (unfold in_u64; lia).
    rewrite (rot_refines n xz yz rxz ryz) by lia. cbn [bind].
    rewrite (arith_U64 Div sz 2) by (unfold in_u64; lia).
    change (2 =? 0) with false. cbv iota. cbn [bind].
    assert (Hs2 : 0 <= sz / 2 < sz).
    { split; [apply Z.div_pos; lia|]. apply Z.div_lt_upper_bound; lia. }
    rewrite (cast_U64_u64 (sz / 2)) by (unfold in_u64; lia).
    eexists; split; [reflexivity|]. split.
    + exists j', (dz + sz * sz * q), (fst (rot n xz yz rxz ryz)), (snd (rot n xz yz rxz ryz)).
      split; [lia|]. split; [now rewrite Esz|].
      do 3 (split; [reflexivity|]). split; [assumption|]. split; [assumption|].
      split; [lia|]. lia.
    + unfold mm; cbn [val lit]. rewrite bitlen_half by lia.
      pose proof (bitlen_nonneg (sz / 2)) as Hb. rewrite bitlen_half in Hb by lia. lia.
  - (* initially *)
    exists k, 0, x, y. split; [lia|]. split; [now rewrite En|].
    do 3 (split; [reflexivity|]). split; [assumption|]. split; [assumption|]. split; lia.
  - unfold mm; cbn [val lit].
    pose proof (bitlen_bound (n / 2) 31 ltac:(lia) Hn2). pose proof (bitlen_nonneg (n / 2)). lia.
Qed.

Example hilbert_example :
  gen_hilbert_index 70 [lit U64 3; lit U64 0] [lit U64 3; lit U64 4] = Ok (lit U64 15).
Proof. vm_compute. reflexivity. Qed.
