(* Refine_NdMap.v -- C19: the recursion scheme of utility/nd_map.hpp as it stands on this run (gen/Gen_NdMap.v),
   interpreted with the parameters read from the source (which element tail drops, in which order cat concatenates,
   which extent bounds each loop, whether the loop index is put in front), enumerates exactly the model sequence
   NdMap.nd_map -- for EVERY rank and every extent vector (induction on the extents), not per dimension. *)
From Coq Require Import List Arith Lia.
From Covfie Require Import NdMap.
From Covfie.gen Require Import Gen_NdMap.
Import ListNotations.

(* tail(t) = array<T, N - DROP>{ t.at(k + OFFSET) for k < N - DROP } *)
Definition tail_src (l : list nat) : list nat :=
  map (fun k => nth (k + ndm_tail_offset) l 0) (seq 0 (length l - ndm_tail_drop)).
(* cat(a1, a2): the pack expansions in the order of the initialiser list *)
Definition cat_src (a1 a2 : list nat) : list nat :=
  flat_map (fun w => match w with 1 => a1 | 2 => a2 | _ => [] end) ndm_cat_order.

(* nd_map<Tuple>(f, s) for a tuple of [rank] components: the arguments f is called with, in order *)
Fixpoint ndmap_src (rank : nat) (s : list nat) : list (list nat) :=
  match rank with
  | O => if ndm_rank0_calls_f_once then [[]] else []
  | S r =>
      match r with
      | O => if ndm_rank1_calls_f_i then map (fun i => [i]) (seq 0 (nth ndm_rank1_bound s 0)) else []
      | S _ =>
          flat_map (fun i => map (fun rr => if ndm_prefix_front then cat_src [i] rr else cat_src rr [i])
                                 (ndmap_src r (if ndm_rec_on_tail then tail_src s else s)))
                   (seq 0 (nth ndm_rec_bound s 0))
      end
  end.

Lemma tail_src_cons n rest : tail_src (n :: rest) = rest.
Proof.
  unfold tail_src. change ndm_tail_offset with 1. change ndm_tail_drop with 1.
  replace (length (n :: rest) - 1) with (length rest) by (cbn [length]; lia).
  transitivity (map (fun k => nth k rest 0) (seq 0 (length rest))).
  - apply map_ext. intros k. now rewrite Nat.add_1_r.
  - clear. induction rest as [|x l IH] using rev_ind; [reflexivity|].
    rewrite app_length. cbn [length]. rewrite Nat.add_1_r, seq_S, map_app. cbn [map Nat.add].
    rewrite app_nth2 by lia. rewrite Nat.sub_diag. cbn [nth]. f_equal.
    rewrite <- IH at 2. apply map_ext_in. intros k Hk. apply in_seq in Hk. now rewrite app_nth1 by lia.
Qed.

Lemma cat_src_front i rr : cat_src [i] rr = i :: rr.
Proof. unfold cat_src. change ndm_cat_order with [1; 2]. cbn. now rewrite app_nil_r. Qed.

Theorem source_scheme_is_the_model : forall s, ndmap_src (length s) s = nd_map s.
Proof.
  induction s as [|n rest IH]; [reflexivity|].
  cbn [length ndmap_src]. destruct rest as [|m rest'].
  - change ndm_rank1_calls_f_i with true. change ndm_rank1_bound with 0. cbn [nth nd_map map length].
    induction (seq 0 n) as [|i l IHl]; [reflexivity|]. cbn. now rewrite IHl.
  - cbn [length]. change ndm_rec_on_tail with true. change ndm_prefix_front with true. change ndm_rec_bound with 0.
    rewrite tail_src_cons. cbn [nth]. change (S (length rest')) with (length (m :: rest')). rewrite IH.
    cbn [nd_map]. apply flat_map_ext. intros i. apply map_ext. intros rr. apply cat_src_front.
Qed.

Theorem source_read_completely : ndm_problems = 0.
Proof. reflexivity. Qed.
