(* Extract_util.v -- executable entry points for nd_map (C19) and static_permutation (C20) *)
Require Import ExtrOcamlBasic.
From Coq Require Import List Arith ZArith NArith.
From Covfie Require Import NdMap StaticPerm.
(* ocaml/zutil.ml mentions all number types *)
Definition keep_number_types (z : Z) (n : N) (k : nat) := (z, n, k).
Separate Extraction nd_map sort is_perm keep_number_types.
