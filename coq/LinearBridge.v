(* LinearBridge.v -- C03: the per-component function of the executable model (Stack.linear_comp,
   the one compared bit for bit with linear.hpp) IS the ring-level sum of LinearProofs.v whenever the
   scalar operations are exact, i.e. form a commutative ring and conversions are the identity; hence it
   is the N-linear interpolant of the 2^N corner values with weights the products of the per-axis
   fractions.  [exact_ops] (unbounded integers) is one such instance; the IEEE instance [flocq_ops]
   differs from it only by the rounding of each operation. *)
From Coq Require Import ZArith List Bool Lia Ring Ring_theory.
From Covfie Require Import LinearCore Stack LinearProofs.
Import ListNotations.

Section Bridge.
  Variable ops : sops.
  Variables (rO rI : Z) (radd rmul rsub : Z -> Z -> Z) (ropp : Z -> Z).
  Hypothesis Rth : ring_theory rO rI radd rmul rsub ropp (@eq Z).
  (* exactness: the operations do not depend on the type tag and conversions do nothing *)
  Hypothesis Hadd : forall t, f_add ops t = radd.
  Hypothesis Hmul : forall t, f_mul ops t = rmul.
  Hypothesis Hsub : forall t, f_sub ops t = rsub.
  Hypothesis H0 : forall t, f_of_Z ops t 0%Z = rO.
  Hypothesis H1 : forall t, f_of_Z ops t 1%Z = rI.
  Hypothesis Hconv : forall a b v, s_conv ops a b v = v.

  Notation compl := (compl Z rI rsub).

  Lemma combine_map_r {A B C} (f : B -> C) (l : list A) (r : list B) :
    combine l (map f r) = map (fun '(x, y) => (x, f y)) (combine l r).
  Proof. revert r. induction l as [|x l IH]; intros [|y r]; cbn; try reflexivity. now rewrite IH. Qed.

  Lemma terms_eq tc tv (w : list Z) (vals : list (list Z)) q :
    map (fun '(wn, v) => f_mul ops tc wn (s_conv ops tv tc (nth q v 0%Z))) (combine w vals) =
    map (fun '(wn, x) => rmul wn x) (combine w (map (fun v => nth q v 0%Z) vals)).
  Proof.
    rewrite combine_map_r, map_map. apply map_ext. intros [wn v]. now rewrite Hmul, Hconv.
  Qed.

  Theorem linear_comp_special tc tv (a : list Z) (vals : list (list Z)) q :
    length vals = (2 ^ length a)%nat ->
    linear_comp ops tc tv true a (compl a) vals q =
    interp Z rI radd rmul rsub (rev a) (fun n => nth n (map (fun v => nth q v 0%Z) vals) rO).
  Proof.
    intros Hl. unfold linear_comp. cbv zeta. rewrite Hconv, terms_eq, H0, Hadd.
    rewrite <- (special_list_is_interp Z rO rI radd rmul rsub ropp Rth a) by (now rewrite map_length).
    unfold lin_special_list. f_equal. f_equal. f_equal.
    apply map_ext. intros n. unfold Stack.weight_special. now rewrite H1, Hmul.
  Qed.

  Theorem linear_comp_generic tc tv (a : list Z) (vals : list (list Z)) q :
    length vals = (2 ^ length a)%nat ->
    linear_comp ops tc tv false a (compl a) vals q =
    interp Z rI radd rmul rsub a (fun n => nth n (map (fun v => nth q v 0%Z) vals) rO).
  Proof.
    intros Hl. unfold linear_comp. cbv zeta. rewrite terms_eq, H0.
    rewrite <- (generic_list_is_interp Z rO rI radd rmul rsub ropp Rth a) by (now rewrite map_length).
    unfold lin_generic_list.
    assert (W : map (Stack.weight_generic ops tc a (compl a)) (seq 0 (2 ^ length a)) =
                map (LinearCore.weight_generic rI rmul a (compl a)) (seq 0 (2 ^ length a))).
    { apply map_ext. intros n. unfold Stack.weight_generic. now rewrite H1, Hmul. }
    rewrite W.
    generalize (combine (map (LinearCore.weight_generic rI rmul a (compl a)) (seq 0 (2 ^ length a))) (map (fun v => nth q v 0%Z) vals)).
    intros l. rewrite Hadd. generalize rO. induction l as [|[w x] l IH]; intros acc; cbn [map fold_left]; [reflexivity|].
    rewrite !Hconv. exact (IH (radd acc (rmul w x))).
  Qed.
End Bridge.

(* an exact instance: unbounded integers (every coordinate is then a lattice point, which is all an
   integer ring can express; the theorems above hold for any commutative ring on the carrier) *)
Definition exact_ops : sops :=
  {| s_lt := fun _ a b => (a <? b)%Z; s_conv := fun _ _ v => v;
     f_add := fun _ => Z.add; f_sub := fun _ => Z.sub; f_mul := fun _ => Z.mul;
     f_trunc := fun _ v => v; f_lrint := fun _ v => v; f_of_Z := fun _ z => z;
     s_finite := fun _ _ => true; f_toZ := fun _ v => v |}.

Lemma Zring : ring_theory 0%Z 1%Z Z.add Z.mul Z.sub Z.opp (@eq Z).
Proof. constructor; intros; ring. Qed.

Example exact_special_2d :
  (* a = (1, 0): the corner with offset 1 on axis 0 -- neighbour n = 2 of the specialised order *)
  linear_comp exact_ops F32 F32 true [1; 0]%Z (compl Z 1%Z Z.sub [1; 0]%Z) [[10]; [20]; [30]; [40]]%Z 0 = 30%Z.
Proof. reflexivity. Qed.
Example exact_generic_4d :
  linear_comp exact_ops F32 F32 false [0; 1; 0; 0]%Z (compl Z 1%Z Z.sub [0; 1; 0; 0]%Z)
    (map (fun n => [Z.of_nat n]) (seq 0 16)) 0 = 2%Z.
Proof. vm_compute. reflexivity. Qed.
