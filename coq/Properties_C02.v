(* Properties_C02.v -- C02: a stack's lookup is the composition of its layers' maps.
   Only the property theorems, closed by [exact].  [ops] (the scalar arithmetic) is arbitrary: none
   of these facts depends on floating point.  The reference interpreter is tied to the code by the
   correspondence check props/c02.py (per-layer over the probe backend for N, M in 1..4
   independently; sampled stacks from the grammar). *)
From Coq Require Import ZArith List Bool.
From Covfie Require AlgebraCore.
From Covfie Require Refine_NearestAt.
From Covfie Require Import Layout Stack StackProofs PackLang Refine_Packs MatLang Refine_Algebra LinLang Refine_Linear.
From Covfie.gen Require Import Gen_Packs Gen_Linear.
Import ListNotations.
Local Open Scope Z_scope.

(* the composition law, for stacks of any depth: the outermost layer applied to the rest *)
Theorem C02_eval_cons : forall ops l ls p g gs d k, kind_of_layers ls p = Some k ->
  eval_layers ops (l :: ls) p (g :: gs) d = layer_at ops l k g (eval_layers ops ls p gs d).
Proof. exact eval_cons. Qed.
Theorem C02_eval_nil : forall ops p gs d, eval_layers ops [] p gs d = prim_at ops p d.
Proof. exact eval_nil. Qed.

(* what a layer does never depends on which layers lie beneath it: only on their kind and answers *)
Theorem C02_layer_parametric : forall ops l k g (b b' : query), (forall c, b c = b' c) ->
  forall c, layer_at ops l k g b c = layer_at ops l k g b' c.
Proof. exact layer_parametric. Qed.
Theorem C02_eval_depends_only_on_backend : forall ops l g ls ls' p p' gs gs' d d' k,
  kind_of_layers ls p = Some k -> kind_of_layers ls' p' = Some k ->
  (forall c, eval_layers ops ls p gs d c = eval_layers ops ls' p' gs' d' c) ->
  forall c, eval_layers ops (l :: ls) p (g :: gs) d c = eval_layers ops (l :: ls') p' (g :: gs') d' c.
Proof. exact eval_depends_only_on_backend. Qed.

(* the one-line definitions, each over an arbitrary backend, any N and M *)
Theorem C02_shuffle : forall p (b : query) c, shuffle_at p b c = b (map (fun i => nth i c 0) p).
Proof. exact shuffle_law. Qed.
Theorem C02_clamp : forall ops t lo hi (b : query) c, clamp_at ops t lo hi b c = b (map3 (clamp1 ops t) c lo hi).
Proof. exact clamp_law. Qed.
Theorem C02_backup : forall ops t lo hi dflt (b : query) c,
  backup_at ops t lo hi dflt b c = if outside ops t c lo hi then Some ([], dflt) else b c.
Proof. exact backup_law. Qed.
Theorem C02_affine : forall ops t m (b : query) c, affine_at ops t m b c = b (affine_apply ops t m c).
Proof. exact affine_law. Qed.
Theorem C02_cast : forall ops from to (b : query) c,
  cast_at ops from to b c =
    match b c with
    | Some (tr, v) => if forallb (conv_defined ops from to) v
                      then Some (concat (map (fun _ => tr) v), map (s_conv ops from to) v) else None
    | None => None
    end.
Proof. exact cast_law. Qed.
Theorem C02_cast_touches_output_components : forall ops from to (b : query) c tr v,
  cast_at ops from to b c = Some (tr, v) ->
  exists tr0 v0, b c = Some (tr0, v0) /\ v = map (s_conv ops from to) v0 /\ length v = length v0.
Proof. exact cast_length. Qed.
Theorem C02_dereference : forall (b : query) c, deref_at b c = b c.
Proof. exact deref_law. Qed.
Theorem C02_constant : forall v c, constant_at v c = Some ([], v).
Proof. exact constant_law. Qed.
Theorem C02_identity : forall c, identity_at c = Some ([], c).
Proof. exact identity_law. Qed.
Theorem C02_strided : forall tc sizes (b : query) c, in_boxb c sizes = true ->
  strided_at tc sizes b c = b [wrap_sty tc (rowmajor sizes c)].
Proof. exact strided_law. Qed.
Theorem C02_nearest : forall ops tc tidx (b : query) c,
  forallb (fun x => s_finite ops tc x && sty_range I64 (f_lrint ops tc x)) c = true ->
  nearest_at ops tc tidx b c = b (map (fun x => s_conv ops I64 tidx (f_lrint ops tc x)) c).
Proof. exact nearest_law. Qed.
(* permutations: the identity permutation is transparent, two permutation layers compose *)
Theorem C02_shuffle_id : forall (b : query) c, shuffle_at (seq 0 (length c)) b c = b c.
Proof. exact shuffle_id. Qed.
Theorem C02_shuffle_shuffle : forall p q (b : query) c, Forall (fun i => (i < length q)%nat) p ->
  shuffle_at q (shuffle_at p b) c = shuffle_at (map (fun i => nth i q O) p) b c.
Proof. exact shuffle_shuffle. Qed.

(* tie to the source: the clamp, permutation and cast layers of the interpreter ARE the pack expansions
   translated from clamp.hpp / shuffle.hpp / covariant_cast.hpp on this run *)
Theorem C02_clamp_is_the_source : forall ops t lo hi (b : query) c, length lo = length c -> length hi = length c ->
  eval_at (clamp_env c lo hi) (clamp_fn ops t) (fun _ _ => None) b gen_clamp_at gen_clamp_elem (seq 0 (length c)) = clamp_at ops t lo hi b c.
Proof. exact clamp_layer_refines. Qed.
Theorem C02_shuffle_is_the_source : forall (p : list nat) (b : query) c, Forall (fun i => (i < length c)%nat) p ->
  eval_at (c_env c) (fun _ _ => None) (fun _ _ => None) b gen_shuffle_at gen_shuffle_elem p = shuffle_at p b c.
Proof. exact shuffle_layer_refines. Qed.
Theorem C02_cast_is_the_source : forall ops from to (b : query) c tr v, b c = Some (tr, v) ->
  eval_at (c_env c) (fun _ _ => None) (cast_fn ops from to) b gen_covariant_cast_at gen_covariant_cast_elem (seq 0 (length v)) = cast_at ops from to b c.
Proof. exact cast_layer_refines. Qed.

(* the arithmetic layers, from the source of this run: the affine layer hands its backend A.c + t as AlgebraCore
   computes it (which is what the model layer affine_at does, C02_affine), and every branch of the linear
   layer issues the model layer's neighbour queries and combines the answers as the model does *)
Theorem C02_affine_layer_is_the_source : forall (T : Type) (zero one : T) (add mul : T -> T -> T) (n : nat) (A C : nat -> nat -> T),
  (1 <= n <= 4)%nat ->
  tabv n (g_layer T zero one add mul n A C) = AlgebraCore.affine_apply zero one add mul (tab n (S n) A) (tabv n C).
Proof. exact affine_layer_refines. Qed.
Theorem C02_linear_layer_is_the_source :
  (forall ops tc tidx tv vals q x0, code ops tc tidx tv vals q lin_branch_1 [x0] = model ops tc tidx tv vals q true [x0]) /\
  (forall ops tc tidx tv vals q x0 x1, code ops tc tidx tv vals q lin_branch_2 [x0; x1] = model ops tc tidx tv vals q true [x0; x1]) /\
  (forall ops tc tidx tv vals q x0 x1 x2, code ops tc tidx tv vals q lin_branch_3 [x0; x1; x2] = model ops tc tidx tv vals q true [x0; x1; x2]) /\
  (forall ops tc tidx tv vals q x0 x1 x2 x3, code ops tc tidx tv vals q lin_branch_generic [x0; x1; x2; x3] = model ops tc tidx tv vals q false [x0; x1; x2; x3]).
Proof. exact (conj branch_1_refines (conj branch_2_refines (conj branch_3_refines branch_generic_refines_4))). Qed.

(* the nearest-neighbour layer: one query at the rounded coordinate (the model layer's, StackProofs.nearest_law) *)
Theorem C02_nearest_layer_is_the_source : forall ops tc tidx tv vals q x0 x1 x2,
  Refine_NearestAt.nn_query ops tc tidx tv vals q [x0; x1; x2] = Refine_NearestAt.nn_model ops tc tidx [x0; x1; x2].
Proof. exact Refine_NearestAt.nearest_at_refines_3. Qed.

Print Assumptions C02_eval_cons.
Print Assumptions C02_linear_layer_is_the_source.
Print Assumptions C02_clamp_is_the_source.
Print Assumptions C02_cast_is_the_source.
Print Assumptions C02_layer_parametric.
Print Assumptions C02_eval_depends_only_on_backend.
Print Assumptions C02_shuffle_shuffle.
