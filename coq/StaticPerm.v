(* StaticPerm.v -- model of utility/static_permutation.hpp:20-177 and the theorems of C20.
   The metaprogram is mirrored equation by equation: filter_lt / filter_geq are the two
   filter_index_sequence templates, sort is sort_index_sequence (head pivot), is_perm is
   is_permutation (std::is_same of the two sorted sequences). *)
From Coq Require Import List Arith NArith Lia Sorted Permutation Bool.
Import ListNotations.

Fixpoint filter_lt (n : N) (l : list N) : list N :=
  match l with
  | [] => []
  | v :: vs => (if (v <? n)%N then [v] else []) ++ filter_lt n vs
  end.

Fixpoint filter_geq (n : N) (l : list N) : list N :=
  match l with
  | [] => []
  | v :: vs => (if (n <=? v)%N then [v] else []) ++ filter_geq n vs
  end.

Fixpoint sort_fuel (fuel : nat) (l : list N) : list N :=
  match fuel with
  | O => []
  | S f =>
      match l with
      | [] => []
      | n :: ns => sort_fuel f (filter_lt n ns) ++ ([n] ++ sort_fuel f (filter_geq n ns))
      end
  end.

Definition sort (l : list N) : list N := sort_fuel (length l) l.

Definition is_perm (a b : list N) : bool :=
  if list_eq_dec N.eq_dec (sort a) (sort b) then true else false.

(* ---------- facts ---------- *)
Lemma filter_lt_spec n l : filter_lt n l = filter (fun v => (v <? n)%N) l.
Proof. induction l as [|v vs IH]; [reflexivity|]. cbn [filter_lt filter]. destruct (v <? n)%N; cbn [app]; now rewrite IH. Qed.

Lemma filter_geq_spec n l : filter_geq n l = filter (fun v => (n <=? v)%N) l.
Proof. induction l as [|v vs IH]; [reflexivity|]. cbn [filter_geq filter]. destruct (n <=? v)%N; cbn [app]; now rewrite IH. Qed.

Lemma filter_len {A} (f : A -> bool) l : length (filter f l) <= length l.
Proof. induction l as [|a l IH]; [constructor|]. cbn [filter]. destruct (f a); cbn [length]; lia. Qed.

Lemma filter_lt_length n l : length (filter_lt n l) <= length l.
Proof. rewrite filter_lt_spec. apply filter_len. Qed.

Lemma filter_geq_length n l : length (filter_geq n l) <= length l.
Proof. rewrite filter_geq_spec. apply filter_len. Qed.

Lemma partition_perm n l : Permutation l (filter_lt n l ++ filter_geq n l).
Proof.
  induction l as [|v vs IH]; [constructor|]. cbn [filter_lt filter_geq].
  destruct (v <? n)%N eqn:E1; destruct (n <=? v)%N eqn:E2.
  - apply N.ltb_lt in E1. apply N.leb_le in E2. lia.
  - cbn. now constructor.
  - cbn. apply Permutation_cons_app. exact IH.
  - apply N.ltb_ge in E1. apply N.leb_gt in E2. lia.
Qed.

Lemma sort_fuel_perm fuel : forall l, length l <= fuel -> Permutation l (sort_fuel fuel l).
Proof.
  induction fuel as [|f IH]; intros l Hl.
  - destruct l; [constructor|cbn in Hl; lia].
  - destruct l as [|n ns]; [constructor|]. cbn [sort_fuel]. cbn in Hl.
    apply Permutation_cons_app.
    etransitivity; [apply (partition_perm n)|].
    apply Permutation_app; apply IH.
    + pose proof (filter_lt_length n ns). lia.
    + pose proof (filter_geq_length n ns). lia.
Qed.

Theorem sort_perm l : Permutation l (sort l).
Proof. apply sort_fuel_perm. lia. Qed.

Lemma sort_fuel_sorted fuel : forall l, length l <= fuel -> StronglySorted N.le (sort_fuel fuel l).
Proof.
  induction fuel as [|f IH]; intros l Hl.
  - constructor.
  - destruct l as [|n ns]; [constructor|]. cbn [sort_fuel]. cbn in Hl.
    assert (H1 : length (filter_lt n ns) <= f) by (pose proof (filter_lt_length n ns); lia).
    assert (H2 : length (filter_geq n ns) <= f) by (pose proof (filter_geq_length n ns); lia).
    assert (Hlt : forall x, In x (sort_fuel f (filter_lt n ns)) -> (x < n)%N).
    { intros x Hx. apply (Permutation_in x (Permutation_sym (sort_fuel_perm f _ H1))) in Hx.
      rewrite filter_lt_spec in Hx. apply filter_In in Hx. destruct Hx as [_ Hx]. now apply N.ltb_lt. }
    assert (Hge : forall x, In x (sort_fuel f (filter_geq n ns)) -> (n <= x)%N).
    { intros x Hx. apply (Permutation_in x (Permutation_sym (sort_fuel_perm f _ H2))) in Hx.
      rewrite filter_geq_spec in Hx. apply filter_In in Hx. destruct Hx as [_ Hx]. now apply N.leb_le. }
    pose proof (IH _ H1) as S1. pose proof (IH _ H2) as S2.
    remember (sort_fuel f (filter_lt n ns)) as L1 eqn:E1. clear E1.
    remember (sort_fuel f (filter_geq n ns)) as L2 eqn:E2. clear E2.
    revert Hlt. induction S1 as [|a L Hs IHs Hall]; intros Hlt; cbn [app].
    + constructor; [assumption|]. rewrite Forall_forall. exact Hge.
    + constructor.
      * apply IHs. intros x Hx. apply Hlt. now right.
      * rewrite Forall_forall in *. intros x Hx. apply in_app_or in Hx. destruct Hx as [Hx|Hx].
        -- now apply Hall.
        -- assert (a < n)%N by (apply Hlt; now left). destruct Hx as [<-|Hx]; [lia|].
           specialize (Hge x Hx). lia.
Qed.

Theorem sort_sorted l : StronglySorted N.le (sort l).
Proof. apply sort_fuel_sorted. lia. Qed.

(* a sorted list is determined by its multiset *)
Lemma sorted_perm_eq : forall l1 l2,
  StronglySorted N.le l1 -> StronglySorted N.le l2 -> Permutation l1 l2 -> l1 = l2.
Proof.
  induction l1 as [|a l1 IH]; intros l2 S1 S2 P.
  - apply Permutation_nil in P. now subst.
  - destruct l2 as [|b l2]; [apply Permutation_sym, Permutation_nil in P; discriminate|].
    inversion S1 as [|? ? S1' A1]; subst. inversion S2 as [|? ? S2' A2]; subst.
    rewrite Forall_forall in A1, A2.
    assert (a = b).
    { assert (Ha : In a (b :: l2)) by (apply (Permutation_in a P); now left).
      assert (Hb : In b (a :: l1)) by (apply (Permutation_in b (Permutation_sym P)); now left).
      destruct Ha as [->|Ha]; [reflexivity|]. destruct Hb as [->|Hb]; [reflexivity|].
      specialize (A1 b Hb). specialize (A2 a Ha). lia. }
    subst b. f_equal. apply IH; try assumption. now apply Permutation_cons_inv in P.
Qed.

Theorem is_perm_iff a b : is_perm a b = true <-> Permutation a b.
Proof.
  unfold is_perm. destruct (list_eq_dec N.eq_dec (sort a) (sort b)) as [E|E]; split; intros H.
  - etransitivity; [apply sort_perm|]. rewrite E. apply Permutation_sym, sort_perm.
  - reflexivity.
  - discriminate.
  - exfalso. apply E. apply sorted_perm_eq; try apply sort_sorted.
    etransitivity; [apply Permutation_sym, sort_perm|]. etransitivity; [exact H|apply sort_perm].
Qed.

(* the sorted result is THE ascending rearrangement: any sorted permutation of l equals it *)
Theorem sort_unique l s : StronglySorted N.le s -> Permutation l s -> sort l = s.
Proof.
  intros Hs Hp. apply sorted_perm_eq; [apply sort_sorted|assumption|].
  etransitivity; [apply Permutation_sym, sort_perm|exact Hp].
Qed.

Example sort_example : sort [3; 1; 4; 1; 5; 9; 2; 6]%N = [1; 1; 2; 3; 4; 5; 6; 9]%N.
Proof. reflexivity. Qed.
Example is_perm_example : is_perm [2; 0; 1]%N [0; 1; 2]%N = true /\ is_perm [0; 0; 1]%N [0; 1; 1]%N = false.
Proof. split; reflexivity. Qed.
