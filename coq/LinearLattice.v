(* LinearLattice.v -- C03, "at lattice points it returns the stored value exactly (after conversion to
   the coordinate precision when that is the narrower one)", for ROUNDED arithmetic.

   The statement is about Stack.linear_comp, the executable per-component function that is compared bit
   for bit with linear.hpp, instantiated with scalar operations that are NOT exact.  All that is used of
   them are the laws below, which hold of IEEE 754 arithmetic (LinearLatticeFloat.v proves them of
   [flocq_ops]): multiplying by 1 and adding a zero do not round, a zero times a finite value is a zero,
   1 - 0 = 1, conversions keep zeros and respect "same real value".  [Veq t x y] is "x and y are finite
   and have the same real value" (they may differ in the sign of a zero: -0 stored, +0 returned is what
   the code does, 1 * -0 + 0 * w = +0).

   At a lattice point every per-axis fraction a_k is a zero, so neighbour 0 has weight 1 * 1 * ... and
   every other neighbour has a zero factor; every term but the first is then a zero and each addition
   returns its other argument.  Both branches (N <= 3 specialised, N >= 4 generic) are covered, any N. *)
From Coq Require Import ZArith List Bool Lia Arith.
From Covfie Require Import LinearCore Stack.
Import ListNotations.

Lemma Forall2_mono {A B} (P Q : A -> B -> Prop) (l : list A) (r : list B) :
  (forall x y, P x y -> Q x y) -> Forall2 P l r -> Forall2 Q l r.
Proof. intros H F. induction F; constructor; auto. Qed.

Section Lattice.
  Variable ops : sops.
  Variable Zr : sty -> Z -> Prop.      (* a zero of either sign *)
  Variable Fin : sty -> Z -> Prop.     (* finite *)
  Variable Veq : sty -> Z -> Z -> Prop.

  Definition isf (t : sty) : Prop := t = F32 \/ t = F64.
  Notation one t := (f_of_Z ops t 1%Z).
  Notation zero t := (f_of_Z ops t 0%Z).

  Hypothesis zero_zr : forall t, isf t -> Zr t (zero t).
  Hypothesis zr_fin : forall t x, isf t -> Zr t x -> Fin t x.
  Hypothesis one_fin : forall t, isf t -> Fin t (one t).
  Hypothesis veq_refl : forall t x, isf t -> Fin t x -> Veq t x x.
  Hypothesis veq_trans : forall t x y z, isf t -> Veq t x y -> Veq t y z -> Veq t x z.
  Hypothesis veq_fin : forall t x y, isf t -> Veq t x y -> Fin t x /\ Fin t y.
  Hypothesis veq_zr : forall t x y, isf t -> Veq t x y -> Zr t y -> Zr t x.
  Hypothesis sub_one : forall t z, isf t -> Zr t z -> Veq t (f_sub ops t (one t) z) (one t).
  Hypothesis mul_one : forall t f u, isf t -> Veq t f (one t) -> Fin t u -> Veq t (f_mul ops t f u) u.
  Hypothesis mul_zr_l : forall t z u, isf t -> Zr t z -> Fin t u -> Zr t (f_mul ops t z u).
  Hypothesis mul_zr_r : forall t z u, isf t -> Fin t u -> Zr t z -> Zr t (f_mul ops t u z).
  Hypothesis add_zz : forall t x y, isf t -> Zr t x -> Zr t y -> Zr t (f_add ops t x y).
  Hypothesis add_zl : forall t z u, isf t -> Zr t z -> Fin t u -> Veq t (f_add ops t z u) u.
  Hypothesis add_zr : forall t z u, isf t -> Fin t u -> Zr t z -> Veq t (f_add ops t u z) u.
  Hypothesis conv_id : forall t x, isf t -> s_conv ops t t x = x.
  Hypothesis conv_zr : forall t t' x, isf t -> isf t' -> Zr t x -> Zr t' (s_conv ops t t' x).
  Hypothesis conv_veq : forall t t' x y, isf t -> isf t' -> Veq t x y -> Fin t' (s_conv ops t t' y) ->
                                         Veq t' (s_conv ops t t' x) (s_conv ops t t' y).
  Hypothesis widen_fin : forall x, Fin F32 x -> Fin F64 (s_conv ops F32 F64 x).
  Hypothesis roundtrip : forall x, Fin F32 x -> Veq F32 (s_conv ops F64 F32 (s_conv ops F32 F64 x)) x.

  (* ---- weights at a lattice point ---- *)
  Definition W1 t x := Veq t x (one t).
  Definition lattice_fracs t (a ra : list Z) := Forall (Zr t) a /\ Forall (W1 t) ra /\ length ra = length a.

  Lemma lattice_of_compl t a : isf t -> Forall (Zr t) a ->
    lattice_fracs t a (map (fun x => f_sub ops t (one t) x) a).
  Proof.
    intros Ht Ha. split; [exact Ha|]. split; [|now rewrite map_length].
    induction Ha as [|x a Hx Ha IH]; cbn; constructor; [now apply sub_one|exact IH].
  Qed.

  Lemma one_W1 t : isf t -> W1 t (one t).
  Proof. intros Ht. apply veq_refl; [exact Ht|now apply one_fin]. Qed.

  Lemma W1_fin t x : isf t -> W1 t x -> Fin t x.
  Proof. intros Ht H. now destruct (veq_fin t _ _ Ht H). Qed.

  (* multiplying a weight-so-far by the factor of one axis *)
  Lemma step_one t f s : isf t -> W1 t f -> W1 t s -> W1 t (f_mul ops t f s).
  Proof.
    intros Ht Hf Hs. unfold W1 in *. apply (veq_trans t _ s); [exact Ht| |exact Hs].
    apply mul_one; [exact Ht|exact Hf|now apply (W1_fin t s)].
  Qed.

  Lemma weight_from_zr t : isf t -> forall a ra m n f, Forall (Zr t) a -> Forall (W1 t) ra -> Zr t f ->
    Zr t (weight_from (f_mul ops t) m a ra n f).
  Proof.
    intros Ht a. induction a as [|x a IH]; intros [|r ra] m n f Ha Hra Hf; cbn; try exact Hf.
    inversion Ha; subst. inversion Hra; subst. apply IH; try assumption.
    apply mul_zr_l; [exact Ht|exact Hf|]. unfold sel. destruct (Nat.testbit n m).
    - now apply zr_fin.
    - now apply W1_fin.
  Qed.

  (* some axis in [m, m + length a) has its bit set: the weight is a zero; none: it is 1 *)
  Lemma weight_from_spec t : isf t -> forall a ra m n f, Forall (Zr t) a -> Forall (W1 t) ra -> length ra = length a -> W1 t f ->
    (if forallb (fun k => negb (Nat.testbit n k)) (seq m (length a))
     then W1 t (weight_from (f_mul ops t) m a ra n f)
     else Zr t (weight_from (f_mul ops t) m a ra n f)).
  Proof.
    intros Ht a. induction a as [|x a IH]; intros [|r ra] m n f Ha Hra Hl Hf; cbn [length seq forallb weight_from]; try discriminate; try exact Hf.
    inversion Ha; subst. inversion Hra; subst. cbn in Hl. injection Hl as Hl.
    destruct (Nat.testbit n m) eqn:B; cbn [negb andb sel].
    - apply weight_from_zr; try assumption. apply mul_zr_r; [exact Ht|now apply (W1_fin t f)|assumption].
    - apply IH; try assumption. now apply step_one.
  Qed.

  Lemma low_bits_zero N : forall n, (n < 2 ^ N)%nat ->
    forallb (fun k => negb (Nat.testbit n k)) (seq 0 N) = true -> n = O.
  Proof.
    intros n Hn Hb. destruct n as [|n']; [reflexivity|exfalso].
    set (n := S n') in *.
    assert (Hlog : (Nat.log2 n < N)%nat) by (apply Nat.log2_lt_pow2; [unfold n; lia|exact Hn]).
    rewrite forallb_forall in Hb. specialize (Hb (Nat.log2 n)).
    rewrite Nat.bit_log2 in Hb by (unfold n; lia).
    assert (In (Nat.log2 n) (seq 0 N)) by (apply in_seq; lia). specialize (Hb H). discriminate.
  Qed.

  Lemma weight_generic_lattice t a ra n : isf t -> lattice_fracs t a ra -> (n < 2 ^ length a)%nat ->
    (n = O -> W1 t (LinearCore.weight_generic (one t) (f_mul ops t) a ra n)) /\
    (n <> O -> Zr t (LinearCore.weight_generic (one t) (f_mul ops t) a ra n)).
  Proof.
    intros Ht [Ha [Hra Hl]] Hn. unfold LinearCore.weight_generic.
    pose proof (weight_from_spec t Ht a ra O n (one t) Ha Hra Hl (one_W1 t Ht)) as S.
    destruct (forallb _ _) eqn:E.
    - pose proof (low_bits_zero _ n Hn E) as Z0. split; [intros _; exact S|intros C; contradiction].
    - split; [|intros _; exact S]. intros ->. exfalso.
      assert (forallb (fun k => negb (Nat.testbit 0 k)) (seq 0 (length a)) = true).
      { apply forallb_forall. intros k _. now rewrite Nat.bits_0. }
      congruence.
  Qed.

  (* the specialised order: axis k reads bit N-1-k *)
  Lemma weight_rev_from_zr t : isf t -> forall a ra N k n f, Forall (Zr t) a -> Forall (W1 t) ra -> Zr t f ->
    Zr t (weight_rev_from (f_mul ops t) N k a ra n f).
  Proof.
    intros Ht a. induction a as [|x a IH]; intros [|r ra] N k n f Ha Hra Hf; cbn; try exact Hf.
    inversion Ha; subst. inversion Hra; subst. apply IH; try assumption.
    apply mul_zr_l; [exact Ht|exact Hf|]. unfold sel. destruct (Nat.testbit n (N - 1 - k)).
    - now apply zr_fin.
    - now apply W1_fin.
  Qed.

  Lemma weight_rev_from_spec t : isf t -> forall a ra N k n f, Forall (Zr t) a -> Forall (W1 t) ra -> length ra = length a -> W1 t f ->
    (if forallb (fun j => negb (Nat.testbit n (N - 1 - j))) (seq k (length a))
     then W1 t (weight_rev_from (f_mul ops t) N k a ra n f)
     else Zr t (weight_rev_from (f_mul ops t) N k a ra n f)).
  Proof.
    intros Ht a. induction a as [|x a IH]; intros [|r ra] N k n f Ha Hra Hl Hf; cbn [length seq forallb weight_rev_from]; try discriminate; try exact Hf.
    inversion Ha; subst. inversion Hra; subst. cbn in Hl. injection Hl as Hl.
    destruct (Nat.testbit n (N - 1 - k)) eqn:B; cbn [negb andb sel].
    - apply weight_rev_from_zr; try assumption. apply mul_zr_r; [exact Ht|now apply (W1_fin t f)|assumption].
    - apply IH; try assumption. now apply step_one.
  Qed.

  Lemma rev_bits_zero N n : (n < 2 ^ N)%nat ->
    forallb (fun j => negb (Nat.testbit n (N - 1 - j))) (seq 0 N) = true -> n = O.
  Proof.
    intros Hn Hb. apply (low_bits_zero N n Hn). apply forallb_forall. intros k Hk. apply in_seq in Hk.
    rewrite forallb_forall in Hb. specialize (Hb (N - 1 - k)%nat).
    replace (N - 1 - (N - 1 - k))%nat with k in Hb by lia. apply Hb. apply in_seq. lia.
  Qed.

  Lemma weight_special_lattice t a ra n : isf t -> lattice_fracs t a ra -> a <> [] -> (n < 2 ^ length a)%nat ->
    (n = O -> W1 t (LinearCore.weight_special (one t) (f_mul ops t) a ra n)) /\
    (n <> O -> Zr t (LinearCore.weight_special (one t) (f_mul ops t) a ra n)).
  Proof.
    intros Ht [Ha [Hra Hl]] Hne Hn. unfold LinearCore.weight_special.
    destruct a as [|a0 a']; [contradiction|]. destruct ra as [|r0 ra']; [discriminate|].
    apply Forall_cons_iff in Ha as [Ha0 Ha']. apply Forall_cons_iff in Hra as [Hr0 Hra']. cbn in Hl. injection Hl as Hl.
    set (N := length (a0 :: a')) in *.
    assert (E0 : forallb (fun j => negb (Nat.testbit n (N - 1 - j))) (seq 0 N) =
                 negb (Nat.testbit n (N - 1)) && forallb (fun j => negb (Nat.testbit n (N - 1 - j))) (seq 1 (length a'))).
    { unfold N. cbn [length seq forallb]. now rewrite Nat.sub_0_r. }
    destruct (Nat.testbit n (N - 1)) eqn:B; cbn [sel].
    - split.
      + intros ->. rewrite Nat.bits_0 in B. discriminate.
      + intros _. apply weight_rev_from_zr; assumption.
    - pose proof (weight_rev_from_spec t Ht a' ra' N 1%nat n r0 Ha' Hra' Hl Hr0) as S.
      cbn [negb andb] in E0. rewrite <- E0 in S.
      destruct (forallb _ (seq 0 N)) eqn:E.
      + pose proof (rev_bits_zero N n Hn E) as Z0. split; [intros _; exact S|intros C; contradiction].
      + split; [|intros _; exact S]. intros ->. exfalso.
        assert (forallb (fun j => negb (Nat.testbit 0 (N - 1 - j))) (seq 0 N) = true).
        { apply forallb_forall. intros k _. now rewrite Nat.bits_0. }
        congruence.
  Qed.

  (* ---- the terms: the first is the (converted) value of neighbour 0, the others are zeros ---- *)
  Definition comp_fin tc tv q (vals : list (list Z)) := Forall (fun v => Fin tc (s_conv ops tv tc (nth q v 0%Z))) vals.

  Lemma terms_lattice tc tv q (wf : nat -> Z) : isf tc ->
    forall (vals : list (list Z)) (m : nat), comp_fin tc tv q vals ->
    (forall n, (m <= n < m + length vals)%nat -> (n = O -> W1 tc (wf n)) /\ (n <> O -> Zr tc (wf n))) ->
    Forall2 (fun n term => (n = O -> Veq tc term (s_conv ops tv tc (nth q (nth O vals []) 0%Z)) /\ m = O) /\ (n <> O -> Zr tc term))
            (seq m (length vals))
            (map (fun '(wn, v) => f_mul ops tc wn (s_conv ops tv tc (nth q v 0%Z))) (combine (map wf (seq m (length vals))) vals)).
  Proof.
    intros Ht vals. induction vals as [|v vals IH]; intros m Hf Hw; cbn [length seq map combine]; [constructor|].
    inversion Hf; subst. constructor.
    - destruct (Hw m ltac:(cbn; lia)) as [W0 Wn]. split.
      + intros ->. split; [|reflexivity]. cbn [nth]. apply mul_one; [exact Ht|now apply W0|assumption].
      + intros Hm. apply mul_zr_l; [exact Ht|now apply Wn|assumption].
    - specialize (IH (S m) H2).
      assert (Hw' : forall n, (S m <= n < S m + length vals)%nat -> (n = O -> W1 tc (wf n)) /\ (n <> O -> Zr tc (wf n))).
      { intros n Hn. apply Hw. cbn. lia. }
      specialize (IH Hw'). eapply Forall2_mono; [|exact IH]. cbn beta. intros n term [A B]. split; [|exact B].
      intros ->. destruct (A eq_refl) as [_ C]. discriminate.
  Qed.

  (* all remaining terms are zeros *)
  Lemma tail_zeros tc (ns : list nat) (terms : list Z) (P0 : nat -> Z -> Prop) :
    Forall2 (fun n term => P0 n term /\ (n <> O -> Zr tc term)) ns terms -> ~ In O ns -> Forall (Zr tc) terms.
  Proof.
    induction 1 as [|n term ns terms [_ Hz] _ IH]; intros Hn; constructor.
    - apply Hz. intros ->. apply Hn. now left.
    - apply IH. intros C. apply Hn. now right.
  Qed.

  Lemma fold_add_zeros t (zs : list Z) : isf t -> Forall (Zr t) zs -> forall acc u, Veq t acc u ->
    Veq t (fold_left (f_add ops t) zs acc) u.
  Proof.
    intros Ht Hz. induction Hz as [|z zs Hzz _ IH]; intros acc u Hacc; cbn [fold_left]; [exact Hacc|].
    apply IH. apply (veq_trans t _ acc); [exact Ht| |exact Hacc].
    apply add_zr; [exact Ht| |exact Hzz]. now destruct (veq_fin t _ _ Ht Hacc).
  Qed.

  (* ---- the two branches ---- *)
  Definition stored tc tv (v : Z) : Z := s_conv ops tc tv (s_conv ops tv tc v).

  Lemma stored_fin tc tv v : isf tc -> isf tv -> Fin tv v -> Fin tc (s_conv ops tv tc v) -> Fin tv (stored tc tv v).
  Proof.
    intros [->| ->] [->| ->] Hv Hc; unfold stored.
    - now rewrite !conv_id by (now left).
    - pose proof (roundtrip v) as R. (* tc = F32, tv = F64: v : double narrowed then widened *)
      apply widen_fin. exact Hc.
    - destruct (veq_fin F32 _ _ (or_introl eq_refl) (roundtrip v Hv)) as [A _]. exact A.
    - now rewrite !conv_id by (now right).
  Qed.

  Theorem lattice_exact_special tc tv (a : list Z) (vals : list (list Z)) q :
    isf tc -> isf tv -> a <> [] -> Forall (Zr tc) a -> length vals = (2 ^ length a)%nat ->
    comp_fin tc tv q vals -> Fin tv (nth q (nth O vals []) 0%Z) ->
    Veq tv (linear_comp ops tc tv true a (map (fun x => f_sub ops tc (one tc) x) a) vals q)
           (stored tc tv (nth q (nth O vals []) 0%Z)).
  Proof.
    intros Htc Htv Hne Ha Hl Hf Hv0.
    pose proof (lattice_of_compl tc a Htc Ha) as HL.
    set (ra := map (fun x => f_sub ops tc (one tc) x) a) in *.
    unfold linear_comp. cbv zeta.
    pose proof (terms_lattice tc tv q (Stack.weight_special ops tc a ra) Htc vals O Hf) as T.
    rewrite Hl in T.
    assert (Hw : forall n, (0 <= n < 0 + 2 ^ length a)%nat ->
              (n = O -> W1 tc (Stack.weight_special ops tc a ra n)) /\ (n <> O -> Zr tc (Stack.weight_special ops tc a ra n))).
    { intros n Hn. apply weight_special_lattice; try assumption. lia. }
    specialize (T Hw). clear Hw.
    set (terms := map _ (combine _ vals)) in *.
    assert (P : (2 ^ length a = S (2 ^ length a - 1))%nat).
    { assert (2 ^ length a <> 0)%nat by (apply Nat.pow_nonzero; lia). lia. }
    rewrite P in T. cbn [seq] in T. inversion T as [|n0 t0 ns rest [T0 _] Trest E1 E2]; subst.
    unfold sum_special. destruct (T0 eq_refl) as [T0' _].
    assert (Z : Forall (Zr tc) rest).
    { eapply tail_zeros; [exact Trest|]. intros C. apply in_seq in C. lia. }
    pose proof (fold_add_zeros tc rest Htc Z t0 _ T0') as S.
    unfold stored. apply conv_veq; try assumption.
    apply stored_fin; assumption || (unfold comp_fin in Hf; rewrite Forall_forall in Hf; apply Hf; destruct vals as [|v0 vs]; [cbn in Hl; lia|now left]).
  Qed.

  (* generic branch: accumulator of the stored type, each addition at the wider type *)
  Definition common tc tv := if sty_eqb tc F64 || sty_eqb tv F64 then F64 else F32.

  Lemma common_cases tc tv : isf tc -> isf tv ->
    (tc = F32 /\ tv = F32 /\ common tc tv = F32) \/ (tc = F32 /\ tv = F64 /\ common tc tv = F64) \/
    (tc = F64 /\ tv = F32 /\ common tc tv = F64) \/ (tc = F64 /\ tv = F64 /\ common tc tv = F64).
  Proof. intros [->| ->] [->| ->]; cbn; tauto. Qed.

  Definition gstep tc tv (acc term : Z) : Z :=
    s_conv ops (common tc tv) tv (f_add ops (common tc tv) (s_conv ops tv (common tc tv) acc) (s_conv ops tc (common tc tv) term)).

  Lemma isf_common tc tv : isf (common tc tv).
  Proof. unfold common. destruct (_ || _); [now right|now left]. Qed.

  (* accumulator zero + the value term *)
  Lemma gstep_first tc tv acc term u : isf tc -> isf tv -> Zr tv acc -> Veq tc term u -> Fin tv (s_conv ops tc tv u) ->
    Veq tv (gstep tc tv acc term) (s_conv ops tc tv u).
  Proof.
    intros Htc Htv Hacc Ht Hu. unfold gstep.
    pose proof (isf_common tc tv) as Hc.
    destruct (common_cases tc tv Htc Htv) as [[-> [-> ->]]|[[-> [-> ->]]|[[-> [-> ->]]|[-> [-> ->]]]]];
      rewrite ?conv_id by assumption.
    - rewrite conv_id in Hu by assumption. apply (veq_trans F32 _ term); [assumption| |exact Ht].
      apply add_zl; [assumption|assumption|now destruct (veq_fin F32 _ _ Htc Ht)].
    - assert (V : Veq F64 (s_conv ops F32 F64 term) (s_conv ops F32 F64 u)) by (apply conv_veq; assumption).
      apply (veq_trans F64 _ (s_conv ops F32 F64 term)); [assumption| |exact V].
      apply add_zl; [assumption|assumption|now destruct (veq_fin F64 _ _ Htv V)].
    - apply conv_veq; try assumption.
      apply (veq_trans F64 _ term); [assumption| |exact Ht].
      apply add_zl; [assumption| |now destruct (veq_fin F64 _ _ Htc Ht)].
      apply conv_zr; assumption.
    - rewrite conv_id in Hu by assumption. apply (veq_trans F64 _ term); [assumption| |exact Ht].
      apply add_zl; [assumption|assumption|now destruct (veq_fin F64 _ _ Htc Ht)].
  Qed.

  (* accumulator zero + a zero term *)
  Lemma gstep_zz tc tv acc term : isf tc -> isf tv -> Zr tv acc -> Zr tc term -> Zr tv (gstep tc tv acc term).
  Proof.
    intros Htc Htv Hacc Ht. unfold gstep. pose proof (isf_common tc tv) as Hc.
    apply conv_zr; try assumption. apply add_zz; try assumption; apply conv_zr; assumption.
  Qed.

  (* accumulator with the value + a zero term: unchanged *)
  Lemma gstep_keep tc tv acc term w : isf tc -> isf tv -> Veq tv acc w -> Zr tc term ->
    Veq tv (gstep tc tv acc term) w.
  Proof.
    intros Htc Htv Hacc Ht. unfold gstep. pose proof (isf_common tc tv) as Hc.
    destruct (veq_fin tv _ _ Htv Hacc) as [Fa Fw].
    assert (Zt : Zr (common tc tv) (s_conv ops tc (common tc tv) term)) by (apply conv_zr; assumption).
    destruct (common_cases tc tv Htc Htv) as [[-> [-> E]]|[[-> [-> E]]|[[-> [-> E]]|[-> [-> E]]]]];
      rewrite E in *; rewrite ?conv_id by assumption; rewrite ?conv_id in Zt by assumption.
    - apply (veq_trans F32 _ acc); [assumption| |exact Hacc]. apply add_zr; assumption.
    - apply (veq_trans F64 _ acc); [assumption| |exact Hacc]. apply add_zr; assumption.
    - (* tv = F32 accumulates through double: widen, add a zero, narrow *)
      apply (veq_trans F32 _ acc); [assumption| |exact Hacc].
      apply (veq_trans F32 _ (s_conv ops F64 F32 (s_conv ops F32 F64 acc))); [assumption| |now apply roundtrip].
      apply conv_veq; try assumption.
      + apply add_zr; [assumption|now apply widen_fin|assumption].
      + now destruct (veq_fin F32 _ _ Htv (roundtrip acc Fa)).
    - apply (veq_trans F64 _ acc); [assumption| |exact Hacc]. apply add_zr; assumption.
  Qed.

  Lemma gfold_keep tc tv (zs : list Z) : isf tc -> isf tv -> Forall (Zr tc) zs -> forall acc w, Veq tv acc w ->
    Veq tv (fold_left (gstep tc tv) zs acc) w.
  Proof.
    intros Htc Htv Hz. induction Hz as [|z zs Hzz _ IH]; intros acc w Hacc; cbn [fold_left]; [exact Hacc|].
    apply IH. now apply gstep_keep.
  Qed.

  Theorem lattice_exact_generic tc tv (a : list Z) (vals : list (list Z)) q :
    isf tc -> isf tv -> Forall (Zr tc) a -> length vals = (2 ^ length a)%nat ->
    comp_fin tc tv q vals -> Fin tv (nth q (nth O vals []) 0%Z) ->
    Veq tv (linear_comp ops tc tv false a (map (fun x => f_sub ops tc (one tc) x) a) vals q)
           (stored tc tv (nth q (nth O vals []) 0%Z)).
  Proof.
    intros Htc Htv Ha Hl Hf Hv0.
    pose proof (lattice_of_compl tc a Htc Ha) as HL.
    set (ra := map (fun x => f_sub ops tc (one tc) x) a) in *.
    unfold linear_comp. cbv zeta.
    pose proof (terms_lattice tc tv q (Stack.weight_generic ops tc a ra) Htc vals O Hf) as T.
    rewrite Hl in T.
    assert (Hw : forall n, (0 <= n < 0 + 2 ^ length a)%nat ->
              (n = O -> W1 tc (Stack.weight_generic ops tc a ra n)) /\ (n <> O -> Zr tc (Stack.weight_generic ops tc a ra n))).
    { intros n Hn. apply weight_generic_lattice; try assumption. lia. }
    specialize (T Hw). clear Hw.
    set (terms := map _ (combine _ vals)) in *.
    assert (P : (2 ^ length a = S (2 ^ length a - 1))%nat).
    { assert (2 ^ length a <> 0)%nat by (apply Nat.pow_nonzero; lia). lia. }
    rewrite P in T. cbn [seq] in T. inversion T as [|n0 t0 ns rest [T0 _] Trest E1 E2]; subst.
    destruct (T0 eq_refl) as [T0' _].
    assert (Z : Forall (Zr tc) rest).
    { eapply tail_zeros; [exact Trest|]. intros C. apply in_seq in C. lia. }
    change (fold_left _ (t0 :: rest) (zero tv)) with (fold_left (gstep tc tv) rest (gstep tc tv (zero tv) t0)).
    apply gfold_keep; try assumption. unfold stored.
    apply gstep_first; try assumption.
    - now apply zero_zr.
    - apply stored_fin; try assumption. unfold comp_fin in Hf. rewrite Forall_forall in Hf. apply Hf. destruct vals as [|v0 vs]; [cbn in Hl; lia|now left].
  Qed.

  (* when the coordinate type is at least as wide as the stored one, "stored" is the stored value itself *)
  Lemma stored_same tc tv v : isf tc -> isf tv -> ~ (tc = F32 /\ tv = F64) -> Fin tv v -> Veq tv (stored tc tv v) v.
  Proof.
    intros [->| ->] [->| ->] Hn Hv; unfold stored.
    - rewrite !conv_id by (now left). apply veq_refl; [now left|exact Hv].
    - exfalso. now apply Hn.
    - now apply roundtrip.
    - rewrite !conv_id by (now right). apply veq_refl; [now right|exact Hv].
  Qed.
End Lattice.
