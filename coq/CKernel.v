(* CKernel.v -- semantics of the C++ subset that tools/cxx2coq.py emits.

   This file is TRUSTED: it is my reading of the C++20 standard for
   - integer types (width, signedness), integral promotion, the usual
     arithmetic conversions, modular conversion to any integer type (C++20),
   - + - * / % & | ^ << >> and the six comparisons on integers,
     unsigned arithmetic modulo 2^w, signed overflow / division by zero /
     out-of-range shift counts as undefined behaviour,
   - fixed-size array subscripts with the bound checked,
   - while loops (with fuel) and canonical counted loops,
   - assert.
   It contains definitions only; facts about them live in CKernelFacts.v. *)
From Coq Require Import ZArith List Bool.
Import ListNotations.
Local Open Scope Z_scope.

Inductive ubk := SignedOverflow | ShiftRange | DivZero | IndexRange | Indeterminate | FellOffEnd.

Inductive res (A : Type) := Ok (a : A) | UB (why : ubk) | AssertFail | OutOfFuel.
Arguments Ok {A} a. Arguments UB {A} why. Arguments AssertFail {A}. Arguments OutOfFuel {A}.

Definition bind {A B} (m : res A) (f : A -> res B) : res B :=
  match m with Ok a => f a | UB w => UB w | AssertFail => AssertFail | OutOfFuel => OutOfFuel end.

Declare Scope ck_scope.
Delimit Scope ck_scope with ck.
Notation "x <- m ;; f" := (bind m (fun x => f))
  (at level 61, m at next level, right associativity) : ck_scope.
Notation "' p <- m ;; f" := (bind m (fun p => f))
  (at level 61, p pattern, m at next level, right associativity) : ck_scope.
Open Scope ck_scope.

(* integer types *)
Record cty := { csigned : bool; cwidth : Z }.
Definition I8 := {| csigned := true; cwidth := 8 |}.
Definition I16 := {| csigned := true; cwidth := 16 |}.
Definition I32 := {| csigned := true; cwidth := 32 |}.
Definition I64 := {| csigned := true; cwidth := 64 |}.
Definition U8 := {| csigned := false; cwidth := 8 |}.
Definition U16 := {| csigned := false; cwidth := 16 |}.
Definition U32 := {| csigned := false; cwidth := 32 |}.
Definition U64 := {| csigned := false; cwidth := 64 |}.
Definition CBool := {| csigned := false; cwidth := 1 |}.

Definition cmin (t : cty) := if csigned t then - 2 ^ (cwidth t - 1) else 0.
Definition cmax (t : cty) := if csigned t then 2 ^ (cwidth t - 1) - 1 else 2 ^ cwidth t - 1.

(* conversion to an integer type: the unique value congruent modulo 2^w (C++20 [conv.integral]) *)
Definition wrap (t : cty) (z : Z) : Z :=
  if csigned t then (z + 2 ^ (cwidth t - 1)) mod 2 ^ cwidth t - 2 ^ (cwidth t - 1)
  else z mod 2 ^ cwidth t.

(* a typed value; [indet] marks a variable declared without initialiser *)
Record tv := { ty : cty; val : Z }.
Definition lit t z := {| ty := t; val := z |}.

(* integral promotion and usual arithmetic conversions ([conv.prom], [expr.arith.conv]);
   int is 32 bits, long / size_t 64 bits (LP64) *)
Definition promote (t : cty) : cty := if cwidth t <? 32 then I32 else t.
Definition common (a b : cty) : cty :=
  let a := promote a in let b := promote b in
  if Bool.eqb (csigned a) (csigned b) then (if cwidth a <? cwidth b then b else a)
  else let u := if csigned a then b else a in let s := if csigned a then a else b in
       if cwidth s <=? cwidth u then u else s.

Definition cast (t : cty) (v : tv) : tv := lit t (wrap t (val v)).
Definition fits (t : cty) (r : Z) : bool := (cmin t <=? r) && (r <=? cmax t).

Inductive aop := Add | Sub | Mul | Div | Rem | And | Or | Xor.

Definition arith (o : aop) (a b : tv) : res tv :=
  let t := common (ty a) (ty b) in
  let x := val (cast t a) in let y := val (cast t b) in
  match o with
  | Div => if y =? 0 then UB DivZero else
           let r := Z.quot x y in if fits t r then Ok (lit t r) else UB SignedOverflow
  | Rem => if y =? 0 then UB DivZero else
           if fits t (Z.quot x y) then Ok (lit t (Z.rem x y)) else UB SignedOverflow
  | And => Ok (lit t (wrap t (Z.land x y)))
  | Or => Ok (lit t (wrap t (Z.lor x y)))
  | Xor => Ok (lit t (wrap t (Z.lxor x y)))
  | Add | Sub | Mul =>
      let r := match o with Add => x + y | Sub => x - y | _ => x * y end in
      if csigned t then (if fits t r then Ok (lit t r) else UB SignedOverflow)
      else Ok (lit t (wrap t r))
  end.

(* shifts: the result type is the promoted left operand; C++20: E1 << E2 is the value
   congruent to E1 * 2^E2 modulo 2^w, E1 >> E2 is floor (E1 / 2^E2); the count must be
   in [0, w) *)
Definition shl (a s : tv) : res tv :=
  let t := promote (ty a) in let x := val (cast t a) in
  let n := val (cast (promote (ty s)) s) in
  if (n <? 0) || (cwidth t <=? n) then UB ShiftRange else Ok (lit t (wrap t (x * 2 ^ n))).
Definition shr (a s : tv) : res tv :=
  let t := promote (ty a) in let x := val (cast t a) in
  let n := val (cast (promote (ty s)) s) in
  if (n <? 0) || (cwidth t <=? n) then UB ShiftRange else Ok (lit t (Z.shiftr x n)).

Inductive cop := Lt | Le | Gt | Ge | Eq | Ne.
Definition cmp (o : cop) (a b : tv) : res tv :=
  let t := common (ty a) (ty b) in let x := val (cast t a) in let y := val (cast t b) in
  Ok (lit CBool (if match o with
                    | Lt => x <? y | Le => x <=? y | Gt => y <? x | Ge => y <=? x
                    | Eq => x =? y | Ne => negb (x =? y) end then 1 else 0)).

Definition truthy (v : tv) : bool := negb (val v =? 0).
Definition to_bool (v : tv) : tv := lit CBool (if truthy v then 1 else 0).
Definition lnot (v : tv) : tv := lit CBool (if truthy v then 0 else 1).

(* what a layer's lookup does in the end: query the backend at a coordinate, or return a
   value without querying it *)
Inductive outcome := Query (c : list tv) | Value (v : list tv).

(* subscript of a fixed-size array: covfie::array asserts n < dimensions, and without
   the assertion an out-of-range subscript is undefined *)
Definition nth_tv (l : list tv) (i : tv) : res tv :=
  if val i <? 0 then UB IndexRange else
  match nth_error l (Z.to_nat (val i)) with Some v => Ok v | None => UB IndexRange end.

Definition assert_ (v : tv) : res unit := if truthy v then Ok tt else AssertFail.

(* general loop, with fuel *)
Fixpoint while_ {S} (fuel : nat) (c : S -> res bool) (body : S -> res S) (s : S) : res S :=
  match fuel with
  | O => OutOfFuel
  | Datatypes.S f => b <- c s ;; if b then (s' <- body s ;; while_ f c body s') else Ok s
  end.

(* canonical counted loop  for (T i = lo; i < hi; ++i) body  where [hi] is loop-invariant
   and the body does not assign [i]; CKernelFacts.for_up_is_while relates it to [while_] *)
Fixpoint for_aux {S} (n : nat) (T : cty) (i : Z) (body : tv -> S -> res S) (s : S) : res S :=
  match n with
  | O => Ok s
  | Datatypes.S n' => s' <- body (lit T i) s ;; for_aux n' T (i + 1) body s'
  end.
Definition for_up {S} (T : cty) (lo hi : tv) (body : tv -> S -> res S) (s : S) : res S :=
  for_aux (Z.to_nat (val hi - val lo)) T (val lo) body s.

(* the same with an early [return] in the body: [inr r] leaves the loop (and the function) *)
Fixpoint for_ret_aux {S R} (n : nat) (T : cty) (i : Z) (body : tv -> S -> res (S + R)) (s : S)
  : res (S + R) :=
  match n with
  | O => Ok (inl s)
  | Datatypes.S n' =>
      r <- body (lit T i) s ;;
      match r with inl s' => for_ret_aux n' T (i + 1) body s' | inr v => Ok (inr v) end
  end.
Definition for_up_ret {S R} (T : cty) (lo hi : tv) (body : tv -> S -> res (S + R)) (s : S)
  : res (S + R) :=
  for_ret_aux (Z.to_nat (val hi - val lo)) T (val lo) body s.
