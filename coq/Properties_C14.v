(* Properties_C14.v -- C14: storage orders follow their published curves.
   Only the property theorems, closed by [exact]. *)
From Coq Require Import ZArith List Bool.
From Covfie Require Import CKernel Layout Hilbert LayoutMem PdepModel Refine_Strided Refine_Morton Refine_Hilbert Refine_Pdep.
From Covfie.gen Require Import Gen_Strided Gen_Morton Gen_Hilbert.
Import ListNotations.
Local Open Scope Z_scope.

(* ---- row-major (spec level; the generated kernels are tied to [rowmajor] in
        Properties_C14_refine.v once the refinement proofs are in) *)
Theorem C14_rowmajor_is_horner : forall sizes c, length sizes = length c ->
  rowmajor sizes c = horner sizes c 0.
Proof. exact rowmajor_horner. Qed.

(* ---- Morton: bit p of the position is bit (p / N) of coordinate (p mod N); coordinate 0 is
        in the least significant position of every group of N bits *)
Theorem C14_morton_is_interleave : forall (N b : nat) c p, (0 < N)%nat -> 0 <= p ->
  Z.testbit (morton N b c) p
  = (p / Z.of_nat N <? Z.of_nat b) && Z.testbit (nth (Z.to_nat (p mod Z.of_nat N)) c 0) (p / Z.of_nat N).
Proof. exact morton_bits. Qed.

(* ---- Hilbert: a bijection of the 2^k x 2^k square onto [0, 4^k), starting at the origin,
        consecutive positions in edge-adjacent cells; for ALL k *)
Theorem C14_hilbert_range : forall k x y, 0 <= x < 2 ^ Z.of_nat k -> 0 <= y < 2 ^ Z.of_nat k ->
  0 <= Hl k x y < sq k.
Proof. exact Hl_range. Qed.
Theorem C14_hilbert_injective : forall k x y x2 y2,
  0 <= x < 2 ^ Z.of_nat k -> 0 <= y < 2 ^ Z.of_nat k ->
  0 <= x2 < 2 ^ Z.of_nat k -> 0 <= y2 < 2 ^ Z.of_nat k ->
  Hl k x y = Hl k x2 y2 -> x = x2 /\ y = y2.
Proof. exact Hl_inj. Qed.
Theorem C14_hilbert_surjective : forall k d, 0 <= d < sq k ->
  exists x y, 0 <= x < 2 ^ Z.of_nat k /\ 0 <= y < 2 ^ Z.of_nat k /\ Hl k x y = d.
Proof. exact Hl_surj. Qed.
Theorem C14_hilbert_origin : forall k, Hl k 0 0 = 0.
Proof. exact Hl_origin. Qed.
Theorem C14_hilbert_adjacent : forall k x y x2 y2,
  0 <= x < 2 ^ Z.of_nat k -> 0 <= y < 2 ^ Z.of_nat k ->
  0 <= x2 < 2 ^ Z.of_nat k -> 0 <= y2 < 2 ^ Z.of_nat k ->
  Hl k x2 y2 = Hl k x y + 1 -> Z.abs (x - x2) + Z.abs (y - y2) = 1.
Proof. exact Hl_adjacent. Qed.
(* the loop form of hilbert.hpp (flips with the full side n) is the recursion *)
Theorem C14_hilbert_loop_is_recursion : forall n k x y, (2 ^ Z.of_nat k | n) -> 0 <= x < n -> 0 <= y < n ->
  Hn n k x y = Hl k (x mod 2 ^ Z.of_nat k) (y mod 2 ^ Z.of_nat k).
Proof. exact Hn_is_Hl. Qed.

(* ---- tie to the code: the kernels GENERATED from strided.hpp and morton.hpp on this run compute
        exactly rowmajor / the interleave (no wrap-around, no UB) on the documented domain *)
Theorem C14_strided_kernel_is_rowmajor : forall (S : cty) (sizes c : list Z),
  coord_ty S -> Z.of_nat (length sizes) < 2 ^ 64 ->
  length sizes = length c -> in_box sizes c ->
  Forall (fun s => s < 2 ^ 64) sizes -> zprod sizes <= cmax S ->
  gen_strided_at S (Z.of_nat (length sizes)) (map (lit U64) sizes) (map (lit S) c)
  = Ok (lit S (rowmajor sizes c)).
Proof. exact strided_at_refines. Qed.
Theorem C14_morton_kernel_is_interleave : forall c : list tv,
  (1 <= length c <= 64)%nat -> Forall coord_ok c ->
  gen_morton_index (Z.of_nat (length c)) 8 c
  = Ok (lit U64 (morton (length c) (mbits (length c)) (map val c))).
Proof. exact morton_index_refines. Qed.
Theorem C14_morton_kernel_bmi2_flag_off_is_interleave : forall c : list tv,
  (1 <= length c <= 64)%nat -> Forall coord_ok c ->
  gen_morton_index_bmi2 false (Z.of_nat (length c)) 8 c
  = Ok (lit U64 (morton (length c) (mbits (length c)) (map val c))).
Proof. exact morton_index_bmi2_off_refines. Qed.

Print Assumptions C14_strided_kernel_is_rowmajor.
Print Assumptions C14_morton_kernel_is_interleave.
Print Assumptions C14_morton_kernel_bmi2_flag_off_is_interleave.
(* BMI2 path (hand model of _pdep_u64 and of the mask metaprogram) = portable loop on the domain *)
Theorem C14_morton_bmi2_equals_portable : forall c : list Z,
  (1 <= length c <= 64)%nat -> coords_below (64 / Z.of_nat (length c)) c ->
  pdep_compute (Z.of_nat (length c)) (map (lit U64) c)
  = Ok (lit U64 (morton (length c) (Z.to_nat (64 / Z.of_nat (length c))) c)).
Proof. exact morton_pdep_eq_portable. Qed.
(* the generated Hilbert kernel (with its calls to rot and round_pow2) is the recursion for the
   smallest power-of-two square covering the extents *)
Theorem C14_hilbert_kernel_is_curve : forall (sx sy x y : Z) (fuel : nat),
  1 <= sx <= 2 ^ 31 -> 1 <= sy <= 2 ^ 31 -> 0 <= x < sx -> 0 <= y < sy -> (66 < fuel)%nat ->
  gen_hilbert_index fuel [lit U64 x; lit U64 y] [lit U64 sx; lit U64 sy]
  = Ok (lit U64 (Hl (Z.to_nat (curve_bits [sx; sy])) x y)).
Proof. exact hilbert_index_refines. Qed.

Print Assumptions C14_morton_bmi2_equals_portable.
Print Assumptions C14_hilbert_kernel_is_curve.
Print Assumptions C14_rowmajor_is_horner.
Print Assumptions C14_morton_is_interleave.
Print Assumptions C14_hilbert_range.
Print Assumptions C14_hilbert_injective.
Print Assumptions C14_hilbert_surjective.
Print Assumptions C14_hilbert_origin.
Print Assumptions C14_hilbert_adjacent.
Print Assumptions C14_hilbert_loop_is_recursion.
