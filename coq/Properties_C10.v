(* Properties_C10.v -- C10: clamping makes every coordinate safe.
   Only the property theorems, closed by [exact]. *)
From Coq Require Import ZArith List Bool.
From Covfie Require Import Layout Stack StackProofs FloatOps StackFloat StackSafe.
Import ListNotations.
Local Open Scope Z_scope.

(* for EVERY coordinate value whatsoever (the theorem has no hypothesis on c beyond its length): the
   backend is queried at a point inside the box; all the order must satisfy is irreflexivity *)
Theorem C10_clamp_in_box : forall ops, (forall t v, s_lt ops t v v = false) ->
  forall t lo hi (b : query) c, length lo = length c -> length hi = length c ->
  Forall2 (fun l h => s_lt ops t h l = false) lo hi ->
  exists c', clamp_at ops t lo hi b c = b c' /\ length c' = length c /\
             Forall2 (fun x l => s_lt ops t x l = false) c' lo /\ Forall2 (fun h x => s_lt ops t h x = false) hi c'.
Proof. exact clamp_in_box. Qed.
(* ... which the IEEE order on float / double (infinities and signed zeros included; NaN compares
   false with everything) and the integer orders satisfy *)
Theorem C10_order_irreflexive : forall t v, s_lt flocq_ops t v v = false.
Proof. exact flocq_lt_irrefl. Qed.
Theorem C10_clamp_identity_inside : forall ops t v lo hi,
  s_lt ops t v lo = false -> s_lt ops t hi v = false -> clamp1 ops t v lo hi = v.
Proof. exact clamp1_id_inside. Qed.

(* a clamp over row-major array storage with a box inside the extents: whatever the coordinate, the
   flat position is inside the storage *)
Theorem C10_clamp_safe_over_array : forall t tc sizes lo hi (b : query) c, is_float t = false ->
  length lo = length c -> length hi = length c -> length sizes = length c ->
  Forall2 (fun l h => 0 <= l <= h) lo hi -> Forall2 (fun h s => h < s) hi sizes ->
  exists c', clamp_at flocq_ops t lo hi (strided_at tc sizes b) c = b [wrap_sty tc (rowmajor sizes c')] /\
             0 <= rowmajor sizes c' < zprod sizes.
Proof. exact clamp_safe_over_array. Qed.

Print Assumptions C10_clamp_in_box.
Print Assumptions C10_order_irreflexive.
Print Assumptions C10_clamp_safe_over_array.
