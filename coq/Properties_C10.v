(* Properties_C10.v -- C10: clamping makes every coordinate safe.
   Only the property theorems, closed by [exact]. *)
From Coq Require Import ZArith List Bool.
From Coq Require Import Reals.
From Covfie Require Import Numeric Layout Hilbert LayoutMem Stack StackProofs FloatOps StackFloat StackSafe ClampAbove.
Import ListNotations.
Local Open Scope Z_scope.

(* for EVERY coordinate value whatsoever (the theorem has no hypothesis on c beyond its length): the
   backend is queried at a point inside the box; all the order must satisfy is irreflexivity *)
Theorem C10_clamp_in_box : forall ops, (forall t v, s_lt ops t v v = false) ->
  forall t lo hi (b : query) c, length lo = length c -> length hi = length c ->
  Forall2 (fun l h => s_lt ops t h l = false) lo hi ->
  exists c', clamp_at ops t lo hi b c = b c' /\ length c' = length c /\
             Forall2 (fun x l => s_lt ops t x l = false) c' lo /\ Forall2 (fun h x => s_lt ops t h x = false) hi c'.
Proof. exact clamp_in_box. Qed.
(* ... which the IEEE order on float / double (infinities and signed zeros included; NaN compares
   false with everything) and the integer orders satisfy *)
Theorem C10_order_irreflexive : forall t v, s_lt flocq_ops t v v = false.
Proof. exact flocq_lt_irrefl. Qed.
Theorem C10_clamp_identity_inside : forall ops t v lo hi,
  s_lt ops t v lo = false -> s_lt ops t hi v = false -> clamp1 ops t v lo hi = v.
Proof. exact clamp1_id_inside. Qed.

(* a clamp over row-major array storage with a box inside the extents: whatever the coordinate, the
   flat position is inside the storage *)
Theorem C10_clamp_safe_over_array : forall t tc sizes lo hi (b : query) c, is_float t = false ->
  length lo = length c -> length hi = length c -> length sizes = length c ->
  Forall2 (fun l h => 0 <= l <= h) lo hi -> Forall2 (fun h s => h < s) hi sizes ->
  exists c', clamp_at flocq_ops t lo hi (strided_at tc sizes b) c = b [wrap_sty tc (rowmajor sizes c')] /\
             0 <= rowmajor sizes c' < zprod sizes.
Proof. exact clamp_safe_over_array. Qed.

(* the same over Morton and Hilbert storage: the position of the clamped coordinate lies inside the padded storage the
   library allocates for those layers (curve_cap = ipow(round_pow2(max extent), N)), whatever the coordinate *)
Theorem C10_clamp_safe_over_morton : forall t (sizes lo hi : list Z) (b : query) c, is_float t = false ->
  length lo = length c -> length hi = length c -> length sizes = length c -> (0 < length sizes)%nat ->
  Forall2 (fun l h => 0 <= l <= h) lo hi -> Forall2 (fun h s => h < s) hi sizes ->
  curve_bits sizes <= 64 / Z.of_nat (length sizes) ->
  exists c', clamp_at flocq_ops t lo hi (morton_at (length sizes) sizes b) c
               = b [morton (length sizes) (Z.to_nat (64 / Z.of_nat (length sizes))) c'] /\
             0 <= morton (length sizes) (Z.to_nat (64 / Z.of_nat (length sizes))) c' < curve_cap sizes.
Proof. exact clamp_safe_over_morton. Qed.
Theorem C10_clamp_safe_over_hilbert : forall t (sx sy : Z) (lo hi : list Z) (b : query) c, is_float t = false ->
  length lo = length c -> length hi = length c -> length c = 2%nat ->
  Forall2 (fun l h => 0 <= l <= h) lo hi -> Forall2 (fun h s => h < s) hi [sx; sy] ->
  exists x y, clamp_at flocq_ops t lo hi (hilbert_at [sx; sy] b) c = b [Hl (Z.to_nat (curve_bits [sx; sy])) x y] /\
              0 <= Hl (Z.to_nat (curve_bits [sx; sy])) x y < curve_cap [sx; sy].
Proof. exact clamp_safe_over_hilbert. Qed.

(* "clamp placed below an interpolator": with the clamp directly over row-major array storage, a box inside
   the extents and storage addressable by the index type, EVERY coordinate the interpolator can convert to
   the index type is answered, and each of the 2^N (linear) / the one (nearest neighbour) storage cells
   read lies inside the storage *)
Theorem C10_linear_over_clamp_safe : forall (t tc : sty) (sizes lo hi : list Z) (m : nat) (data : list Z),
  is_float t = false -> length lo = length sizes -> length hi = length sizes ->
  Forall2 (fun l h => 0 <= l <= h) lo hi -> Forall2 (fun h s => h < s) hi sizes ->
  (forall z, 0 <= z < zprod sizes -> wrap_sty tc z = z) ->
  forall tcoord tv (c : list Z), length c = length sizes -> forallb (conv_defined flocq_ops tcoord t) c = true ->
  exists tr vs, linear_at flocq_ops tcoord t tv (clamped_storage t tc sizes lo hi m data) c = Some (tr, vs) /\
                Forall (in_storage sizes) tr.
Proof. exact linear_over_clamp_safe. Qed.
Theorem C10_nearest_over_clamp_safe : forall (t tc : sty) (sizes lo hi : list Z) (m : nat) (data : list Z),
  is_float t = false -> length lo = length sizes -> length hi = length sizes ->
  Forall2 (fun l h => 0 <= l <= h) lo hi -> Forall2 (fun h s => h < s) hi sizes ->
  (forall z, 0 <= z < zprod sizes -> wrap_sty tc z = z) ->
  forall tcoord (c : list Z), length c = length sizes ->
  forallb (fun x => s_finite flocq_ops tcoord x && sty_range I64 (f_lrint flocq_ops tcoord x)) c = true ->
  exists i v, nearest_at flocq_ops tcoord t (clamped_storage t tc sizes lo hi m data) c = Some ([i], v) /\ in_storage sizes i.
Proof. exact nearest_over_clamp_safe. Qed.

(* "clamp placed above an interpolator": clamp< linear< strided< array > > > with a floating box
   0 <= lo_k <= hi_k < extent_k - 1 (finite bounds): EVERY coordinate that is not NaN, infinities included,
   is answered, and each of the 2^N cells read lies inside the storage *)
Theorem C10_clamp_over_linear_safe : forall (tcf tidx : sty) (sizes lo hi : list Z) (m : nat) (data : list Z),
  isfl tcf -> is_float tidx = false -> length lo = length sizes -> length hi = length sizes ->
  Forall2 (fun '(l, h) s => ffin tcf l /\ ffin tcf h /\ (0 <= fval tcf l <= fval tcf h)%R /\ (fval tcf h < IZR s - 1)%R)
          (combine lo hi) sizes ->
  (forall s z, In s sizes -> 0 <= z < s -> sty_range tidx z = true /\ wrap_sty tidx z = z) ->
  (forall z, 0 <= z < zprod sizes -> wrap_sty tidx z = z) ->
  forall tv (c : list Z), length c = length sizes -> Forall (notnan tcf) c ->
  exists tr vs, clamp_at flocq_ops tcf lo hi (interpolated tcf tidx sizes m data tv) c = Some (tr, vs) /\
                Forall (in_storage sizes) tr.
Proof. exact clamp_over_linear_safe. Qed.
(* what the float side rests on: std::clamp under the IEEE order lands in [lo, hi] for every non-NaN argument *)
Theorem C10_clamp_float_range : forall t v lo hi, isfl t -> notnan t v -> ffin t lo -> ffin t hi -> (fval t lo <= fval t hi)%R ->
  ffin t (clamp1 flocq_ops t v lo hi) /\ (fval t lo <= fval t (clamp1 flocq_ops t v lo hi) <= fval t hi)%R.
Proof. exact clamp1_float. Qed.

(* non-vacuity: +infinity and -infinity as coordinates of a 3 x 4 float field, box [0,1.5] x [0,2.75] *)
Example C10_clamp_over_linear_runs :
  exists vs, clamp_at flocq_ops F32 [0; 0] [1069547520; 1076887552] (interpolated F32 U64 [3; 4] 1 (map Z.of_nat (seq 0 12)) F32) [2139095040; 4286578688]
             = Some ([4; 5; 8; 9], vs).
Proof. eexists. vm_compute. reflexivity. Qed.

(* non-vacuity: a 3 x 4 field of floats, box [0,2] x [0,3], the coordinate (1e6, 2.5): far outside on the first axis;
   the four neighbour queries (1e6|1e6+1, 2|3) are clamped to (2, 2|3), i.e. cells 10, 11, 10, 11 of the 12 *)
Example C10_linear_over_clamp_runs :
  exists vs, linear_at flocq_ops F32 U64 F32 (clamped_storage U64 U64 [3; 4] [0; 0] [2; 3] 1 (map Z.of_nat (seq 0 12))) [1232348160; 1075838976]
             = Some ([10; 11; 10; 11], vs).
Proof. eexists. vm_compute. reflexivity. Qed.

Print Assumptions C10_clamp_in_box.
Print Assumptions C10_linear_over_clamp_safe.
Print Assumptions C10_clamp_safe_over_morton.
Print Assumptions C10_clamp_over_linear_safe.
Print Assumptions C10_order_irreflexive.
Print Assumptions C10_clamp_safe_over_array.
