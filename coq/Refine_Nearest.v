(* Refine_Nearest.v -- tie of C04 to the code: the rounding call named in
   nearest_neighbour<...>::non_owning_data_t::at (read from the AST into gen/Gen_Nearest.v on every
   run) computes lrint at the coordinate's own precision. *)
From Coq Require Import ZArith Reals Lra List Bool.
From Flocq Require Import Core.Core IEEE754.Binary IEEE754.Bits.
From Covfie Require Import Stack FloatOps Nearest.
From Covfie.gen Require Import Gen_Nearest.
Local Open Scope Z_scope.

(* what the call computes, given the callee and the type of the coordinate scalar *)
Definition nn_round (callee : rounding) (tc : sty) (x : Z) : option Z :=
  match callee with
  | Lrint => Some (flrint tc x)                       (* overload resolution picks the argument's type *)
  | Lrintf => Some (flrint F32 (conv tc F32 x))       (* long lrintf(float): the argument is converted first *)
  | OtherRounding => None
  end.

(* narrowing first is NOT rounding to a nearest lattice point: x = 2.5 + 2^-33 (double) narrows to
   2.5f, which ties to 2, more than one half away from x *)
Theorem lrintf_on_double_refuted :
  exists x, nn_round Lrintf F64 x = Some 2 /\ flrint F64 x = 3 /\
            (Rabs (IZR 2 - realval F64 x) > / 2)%R.
Proof.
  exists 4612811918334492672. split; [vm_compute; reflexivity|]. split; [vm_compute; reflexivity|].
  unfold realval. 
  replace (B2R 53 1024 (of64 4612811918334492672)) with (IZR 21474836481 * / IZR 8589934592)%R.
  - rewrite Rabs_left; lra.
  - vm_compute of64. unfold B2R, F2R, Fnum, Fexp, cond_Zopp. simpl bpow. lra.
Qed.

(* THE obligation tied to the source: with the callee the code names, every coordinate type rounds
   at its own precision.  Closed by computation on Gen_Nearest.nn_callee. *)
Theorem nn_round_refines : forall tc x, is_float tc = true -> nn_round nn_callee tc x = Some (f_lrint flocq_ops tc x).
Proof. intros tc x H. destruct tc; try discriminate; reflexivity. Qed.
