(* MatLang.v -- a small imperative language for the loop programs of covfie::algebra (matrix.hpp,
   affine.hpp), the target of tools/cxx_algebra.py, and its semantics over ARBITRARY scalar operations.

   A program is what the C++ function body says, statement by statement: counted loops
   `for (I i = 0; i < BOUND; ++i)` with BOUND an expression in the template parameters, element
   assignments `X(i, j) = e`, scalar locals `T t = e`, accumulation `t += e`, `if (i == j) .. else ..`,
   the conditional expression `(i == j) ? a : b`, and calls of the other translated functions
   (matrix product, identity, affine * vector).  A coordinate array is a one-column matrix too (`c[i]` is `c(i, 0)`).  A vector is a one-column matrix, as in vector.hpp (`v(i)` is `v(i, 0)`).

   Matrices are total functions nat -> nat -> T (elements outside the declared shape are never read by the
   programs; [tab] cuts out the declared shape when a result is compared with AlgebraCore's lists). *)
From Coq Require Import String List Arith Bool.
Import ListNotations.
Local Open Scope string_scope.

Inductive dexp := DV (x : string) | DL (n : nat) | DPlus (a b : dexp).
Inductive iexp := IV (x : string) | ID (d : dexp).
Inductive sexp :=
| SLit (one : bool)                       (* static_cast<T>(0) / static_cast<T>(1), 0.f / 1.f *)
| SLoc (x : string)
| SEl (m : string) (i j : iexp)           (* m(i, j); "this" is the object *)
| SArr (a : string) (i : iexp)            (* a[i] : an array::array of scalars *)
| SMul (a b : sexp) | SAdd (a b : sexp)
| SCond (i j : iexp) (a b : sexp).        (* (i == j) ? a : b *)
Inductive stmt :=
| For (v : string) (bound : dexp) (body : list stmt)
| SetEl (m : string) (i j : iexp) (e : sexp)
| Decl (x : string) (e : sexp)
| Accum (x : string) (e : sexp)            (* x += e *)
| IfEq (i j : iexp) (a b : list stmt)
| DeclMat (m : string)
| CallMul (dst a b : string) (n m p : dexp)    (* dst = a * b with a : n x m, b : m x p *)
| CallIdentity (dst : string) (n m : dexp)     (* dst = matrix<n, m>::identity() *)
| CallApply (dst a v : string) (n : dexp).     (* dst = a * v with a : affine<n>, v : vector<n> (affine::operator*(vector)) *)

Record func := { f_name : string; f_body : list stmt; f_ret : string }.

Section Sem.
  Variable T : Type.
  Variables (zero one : T) (add mul : T -> T -> T).
  Definition mat := nat -> nat -> T.

  Record state := { mats : string -> mat; arrs : string -> nat -> T; locs : string -> T; ivars : string -> nat; dims : string -> nat }.

  Definition upd {A} (f : string -> A) (x : string) (v : A) : string -> A := fun y => if String.eqb x y then v else f y.
  Definition set_mat st m v := {| mats := upd (mats st) m v; arrs := arrs st; locs := locs st; ivars := ivars st; dims := dims st |}.
  Definition set_loc st x v := {| mats := mats st; arrs := arrs st; locs := upd (locs st) x v; ivars := ivars st; dims := dims st |}.
  Definition set_ivar st x v := {| mats := mats st; arrs := arrs st; locs := locs st; ivars := upd (ivars st) x v; dims := dims st |}.

  Fixpoint deval (st : state) (d : dexp) : nat :=
    match d with DV x => dims st x | DL n => n | DPlus a b => deval st a + deval st b end.
  Definition ieval (st : state) (i : iexp) : nat := match i with IV x => ivars st x | ID d => deval st d end.
  Fixpoint seval (st : state) (e : sexp) : T :=
    match e with
    | SLit b => if b then one else zero
    | SLoc x => locs st x
    | SEl m i j => mats st m (ieval st i) (ieval st j)
    | SArr a i => arrs st a (ieval st i)
    | SMul a b => mul (seval st a) (seval st b)
    | SAdd a b => add (seval st a) (seval st b)
    | SCond i j a b => if Nat.eqb (ieval st i) (ieval st j) then seval st a else seval st b
    end.

  Definition set_el (f : mat) (i j : nat) (v : T) : mat := fun a b => if Nat.eqb a i && Nat.eqb b j then v else f a b.

  (* the two callees, given as functions of the shapes and the argument matrices *)
  Variable mulsem : nat -> nat -> nat -> mat -> mat -> mat.
  Variable idsem : nat -> nat -> mat.
  Variable applysem : nat -> mat -> mat -> mat.

  Fixpoint exec (s : stmt) (st : state) {struct s} : state :=
    let run := fix run (l : list stmt) (st : state) {struct l} : state :=
                 match l with [] => st | x :: r => run r (exec x st) end in
    match s with
    | For v b body => fold_left (fun st i => run body (set_ivar st v i)) (seq 0 (deval st b)) st
    | SetEl m i j e => set_mat st m (set_el (mats st m) (ieval st i) (ieval st j) (seval st e))
    | Decl x e => set_loc st x (seval st e)
    | Accum x e => set_loc st x (add (locs st x) (seval st e))
    | IfEq i j a b => if Nat.eqb (ieval st i) (ieval st j) then run a st else run b st
    | DeclMat m => st
    | CallMul dst a b n m p => set_mat st dst (mulsem (deval st n) (deval st m) (deval st p) (mats st a) (mats st b))
    | CallIdentity dst n m => set_mat st dst (idsem (deval st n) (deval st m))
    | CallApply dst a v n => set_mat st dst (applysem (deval st n) (mats st a) (mats st v))
    end.
  Fixpoint exec_list (l : list stmt) (st : state) : state :=
    match l with [] => st | x :: r => exec_list r (exec x st) end.

  Definition run_func (f : func) (st : state) : mat := mats (exec_list (f_body f) st) (f_ret f).

  Definition tab (n m : nat) (f : mat) : list (list T) := map (fun i => map (fun j => f i j) (seq 0 m)) (seq 0 n).
  Definition tabv (n : nat) (f : mat) : list T := map (fun i => f i 0) (seq 0 n).
End Sem.
Arguments mats {T}. Arguments arrs {T}. Arguments locs {T}. Arguments ivars {T}. Arguments dims {T}.
Arguments Build_state {T}. Arguments exec {T}. Arguments exec_list {T}. Arguments run_func {T}. Arguments tab {T}. Arguments tabv {T}.
Arguments upd {A}. Arguments set_mat {T}. Arguments set_el {T}.
