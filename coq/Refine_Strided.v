(* Refine_Strided.v -- the kernels GENERATED from strided.hpp (lookup, lookup with assertions,
   index computation of the re-layout copy) equal the textbook row-major position, with no
   wrap-around, no undefined behaviour and no assertion failure, on the documented domain. *)
From Coq Require Import ZArith List Lia Bool ZifyBool ZifyNat.
From Covfie Require Import CKernel CKernelFacts Layout.
From Covfie.gen Require Import Gen_Strided.
Import ListNotations.
Local Open Scope Z_scope.
Local Open Scope ck_scope.

(* coordinate scalar types: int, unsigned, long, size_t, ... : not promoted, at most 64 bits *)
Definition coord_ty (S : cty) : Prop := 32 <= cwidth S <= 64.

(* ------------------------------------------------------------------ list helpers *)
Lemma skipn_cons {A} : forall i (l : list A) x r,
  skipn i l = x :: r -> nth_error l i = Some x /\ skipn (Datatypes.S i) l = r.
Proof.
  induction i as [|i IH]; intros [|y l] x r H; cbn in *; try discriminate.
  - inversion H; auto.
  - apply IH in H. exact H.
Qed.

Lemma skipn_Forall {A} (P : A -> Prop) : forall i (l : list A), Forall P l -> Forall P (skipn i l).
Proof.
  induction i as [|i IH]; intros l H; [exact H|].
  destruct H as [|y l Hy Hl]; cbn [skipn]; [constructor|]. now apply IH.
Qed.

Lemma nth_tv_map T l (i : nat) x :
  nth_error l i = Some x -> nth_tv (map (lit T) l) (lit U64 (Z.of_nat i)) = Ok (lit T x).
Proof.
  intros H. unfold nth_tv. cbn [val lit]. destruct (Z.of_nat i <? 0) eqn:E; [lia|].
  rewrite Nat2Z.id, nth_error_map, H. reflexivity.
Qed.

Lemma zprod_cons s l : zprod (s :: l) = s * zprod l.
Proof. reflexivity. Qed.

Lemma zprod_ge1 l : Forall (fun s => 0 < s) l -> 1 <= zprod l.
Proof. intros H. pose proof (zprod_pos l H). lia. Qed.

(* with all factors >= 1, every factor is at most the product *)
Lemma le_zprod l : Forall (fun s => 0 < s) l -> Forall (fun s => 1 <= s <= zprod l) l.
Proof.
  induction 1 as [|s ss Hs Hss IH]; [constructor|].
  rewrite zprod_cons. pose proof (zprod_ge1 ss Hss) as Hp. constructor; [nia|].
  eapply Forall_impl; [|exact IH]. cbv beta. intros y Hy. nia.
Qed.

Lemma succ_U64 k : 0 <= k -> k + 1 < 2 ^ 64 ->
  arith Add (lit U64 k) (cast U64 (lit I32 1)) = Ok (lit U64 (k + 1)).
Proof.
  intros H0 H1. rewrite cast_U64_i32 by (split; [lia|reflexivity]).
  rewrite arith_U64 by (unfold in_u64; lia). rewrite Z.mod_small by lia. reflexivity.
Qed.

(* ------------------------------------------------------------------ arithmetic in S *)
Section Typed.
  Variable S : cty.
  Hypothesis HS : coord_ty S.

  Lemma pow_w : 2 ^ cwidth S = 2 * 2 ^ (cwidth S - 1).
  Proof. unfold coord_ty in HS. rewrite <- Z.pow_succ_r by lia. f_equal. lia. Qed.

  Lemma cmax_u64 : cmax S < 2 ^ 64.
  Proof.
    unfold coord_ty in HS. unfold cmax. destruct (csigned S).
    - assert (2 ^ (cwidth S - 1) <= 2 ^ 64) by (apply Z.pow_le_mono_r; lia). lia.
    - assert (2 ^ cwidth S <= 2 ^ 64) by (apply Z.pow_le_mono_r; lia). lia.
  Qed.

  Lemma wrap_id z : 0 <= z <= cmax S -> wrap S z = z.
  Proof.
    intros Hz. unfold wrap. unfold cmax in Hz. destruct (csigned S) eqn:E.
    - rewrite pow_w. rewrite Z.mod_small; lia.
    - apply Z.mod_small. lia.
  Qed.

  Lemma fits_ok z : 0 <= z <= cmax S -> fits S z = true.
  Proof.
    intros Hz. unfold fits. unfold cmin. unfold coord_ty in HS.
    destruct (csigned S); [pose proof (pow2_pos (cwidth S - 1) ltac:(lia))|]; lia.
  Qed.

  Lemma cast_S T z : 0 <= z <= cmax S -> cast S (lit T z) = lit S z.
  Proof. intros Hz. unfold cast; cbn [val lit]. now rewrite wrap_id. Qed.

  Lemma add_S a b : 0 <= a -> 0 <= b -> a + b <= cmax S ->
    arith Add (lit S a) (lit S b) = Ok (lit S (a + b)).
  Proof.
    intros Ha Hb Hab. unfold arith. cbn [ty lit].
    rewrite common_self_wide by (unfold coord_ty in HS; lia).
    unfold cast; cbn [val lit]. rewrite (wrap_id a), (wrap_id b) by lia.
    destruct (csigned S) eqn:E.
    - rewrite fits_ok by lia. reflexivity.
    - rewrite wrap_id by lia. reflexivity.
  Qed.

  Lemma mul_S a b : 0 <= a <= cmax S -> 0 <= b <= cmax S -> a * b <= cmax S ->
    arith Mul (lit S a) (lit S b) = Ok (lit S (a * b)).
  Proof.
    intros Ha Hb Hab. unfold arith. cbn [ty lit].
    rewrite common_self_wide by (unfold coord_ty in HS; lia).
    unfold cast; cbn [val lit]. rewrite (wrap_id a), (wrap_id b) by lia.
    destruct (csigned S) eqn:E.
    - rewrite fits_ok by nia. reflexivity.
    - rewrite wrap_id by nia. reflexivity.
  Qed.

  Lemma mul_SU a b : 0 <= a <= cmax S -> 0 <= b <= cmax S -> a * b <= cmax S ->
    arith Mul (lit S a) (lit U64 b) = Ok (lit U64 (a * b)).
  Proof.
    intros Ha Hb Hab. pose proof cmax_u64 as Hc. unfold arith. cbn [ty lit].
    rewrite common_any_U64 by (unfold coord_ty in HS; lia).
    unfold cast; cbn [val lit]. cbn [csigned U64].
    rewrite (wrap_U64_small a), (wrap_U64_small b) by lia.
    rewrite wrap_U64_small by nia. reflexivity.
  Qed.

  Lemma lt_SU a b : 0 <= a <= cmax S -> 0 <= b < 2 ^ 64 ->
    cmp Lt (lit S a) (lit U64 b) = Ok (lit CBool (if a <? b then 1 else 0)).
  Proof.
    intros Ha Hb. pose proof cmax_u64 as Hc. unfold cmp. cbn [ty lit].
    rewrite common_any_U64 by (unfold coord_ty in HS; lia).
    unfold cast; cbn [val lit].
    rewrite (wrap_U64_small a), (wrap_U64_small b) by lia. reflexivity.
  Qed.

  (* ---------------------------------------------------------------- the loops *)
  Variable sizes : list Z.
  Hypothesis Hsz : Forall (fun s => 1 <= s <= cmax S) sizes.
  Hypothesis Hlen : Z.of_nat (length sizes) < 2 ^ 64.
  Let n := Z.of_nat (length sizes).

  Lemma suffix_pos i : Forall (fun s => 0 < s) (skipn i sizes).
  Proof. apply skipn_Forall. eapply Forall_impl; [|exact Hsz]. cbv beta. intros; lia. Qed.

  (* specification of an inner loop: multiplies the accumulator by the remaining extents *)
  Definition inner_spec (ib : tv -> tv -> res tv) : Prop :=
    forall suf i a, skipn i sizes = suf -> 0 <= a -> a * zprod suf <= cmax S ->
      for_aux (length suf) U64 (Z.of_nat i) ib (lit S a) = Ok (lit S (a * zprod suf)).

  Definition ib_at : tv -> tv -> res tv := fun l tmp =>
    t7 <- nth_tv (map (lit U64) sizes) l ;;
    t8 <- arith Mul tmp (cast S t7) ;;
    let tmp := cast S t8 in
    Ok tmp.

  Definition ib_copy : tv -> tv -> res tv := fun l tmp =>
    t7 <- nth_tv (map (lit U64) sizes) l ;;
    t8 <- arith Mul tmp t7 ;;
    let tmp := cast S t8 in
    Ok tmp.

  Lemma inner_step_facts s suf i a :
    skipn i sizes = s :: suf -> 0 <= a -> a * zprod (s :: suf) <= cmax S ->
    nth_error sizes i = Some s /\ skipn (Datatypes.S i) sizes = suf /\
    1 <= s <= cmax S /\ 0 <= a <= cmax S /\ 0 <= a * s <= cmax S /\
    a * s * zprod suf <= cmax S.
  Proof.
    intros Hsk Ha Hb. destruct (skipn_cons _ _ _ _ Hsk) as [Hn Hsk'].
    assert (Hs : 1 <= s <= cmax S).
    { exact (proj1 (Forall_forall _ _) Hsz s (nth_error_In _ _ Hn)). }
    assert (Hp : 1 <= zprod suf).
    { apply zprod_ge1. rewrite <- Hsk'. apply suffix_pos. }
    rewrite zprod_cons in Hb. set (p := zprod suf) in *. clearbody p.
    assert (H1 : a * s <= a * s * p) by nia.
    assert (H2 : a <= a * s) by nia.
    assert (H3 : a * s * p = a * (s * p)) by ring.
    repeat split; try assumption; try lia; nia.
  Qed.

  Lemma inner_at : inner_spec ib_at.
  Proof.
    intros suf. induction suf as [|s suf IH]; intros i a Hsk Ha Hb.
    - cbn [length for_aux zprod fold_right]. f_equal. f_equal. lia.
    - destruct (inner_step_facts s suf i a Hsk Ha Hb) as (Hn & Hsk' & Hs & Ha' & Has & Hb').
      cbn [length for_aux]. unfold ib_at at 1.
      rewrite (nth_tv_map U64 _ _ _ Hn). cbn [bind].
      rewrite (cast_S U64 s) by lia. rewrite mul_S by lia. cbn [bind]. cbv zeta.
      rewrite cast_S by lia.
      replace (Z.of_nat i + 1) with (Z.of_nat (Datatypes.S i)) by lia.
      rewrite (IH _ _ Hsk') by lia. rewrite zprod_cons. f_equal. f_equal. ring.
  Qed.

  Lemma inner_copy : inner_spec ib_copy.
  Proof.
    intros suf. induction suf as [|s suf IH]; intros i a Hsk Ha Hb.
    - cbn [length for_aux zprod fold_right]. f_equal. f_equal. lia.
    - destruct (inner_step_facts s suf i a Hsk Ha Hb) as (Hn & Hsk' & Hs & Ha' & Has & Hb').
      cbn [length for_aux]. unfold ib_copy at 1.
      rewrite (nth_tv_map U64 _ _ _ Hn). cbn [bind].
      rewrite mul_SU by lia. cbn [bind]. cbv zeta.
      rewrite cast_S by lia.
      replace (Z.of_nat i + 1) with (Z.of_nat (Datatypes.S i)) by lia.
      rewrite (IH _ _ Hsk') by lia. rewrite zprod_cons. f_equal. f_equal. ring.
  Qed.

  (* the outer loop, for any inner loop body meeting inner_spec and any element type Tc of
     the coordinate array *)
  Variable ib : tv -> tv -> res tv.
  Hypothesis Hib : inner_spec ib.
  Variable Tc : cty.
  Variable c : list Z.

  Definition ob : tv -> tv -> res tv := fun k idx =>
    t3 <- nth_tv (map (lit Tc) c) k ;;
    let tmp := cast S t3 in
    t4 <- arith Add k (cast U64 (lit I32 1)) ;;
    let t5 := cast U64 t4 in
    let t6 := cast U64 (lit U64 n) in
    tmp <- for_up U64 t5 t6 ib tmp ;;
    t9 <- arith Add idx tmp ;;
    let idx := cast S t9 in
    Ok idx.

  Lemma outer : forall ssuf csuf i acc,
    skipn i sizes = ssuf -> skipn i c = csuf -> in_box ssuf csuf ->
    0 <= acc -> acc + rowmajor ssuf csuf <= cmax S ->
    for_aux (length ssuf) U64 (Z.of_nat i) ob (lit S acc) = Ok (lit S (acc + rowmajor ssuf csuf)).
  Proof.
    intros ssuf csuf i acc Hs Hc Hbox. revert i acc Hs Hc.
    induction Hbox as [|x s cs ss Hx Hrest IH]; intros i acc Hs Hc Hacc Hb.
    - cbn [length for_aux rowmajor]. f_equal. f_equal. lia.
    - destruct (skipn_cons _ _ _ _ Hs) as [Hns Hs'].
      destruct (skipn_cons _ _ _ _ Hc) as [Hnc Hc'].
      assert (Hsb : 1 <= s <= cmax S).
      { exact (proj1 (Forall_forall _ _) Hsz s (nth_error_In _ _ Hns)). }
      assert (Hi : Z.of_nat i + 1 + Z.of_nat (length ss) = n).
      { pose proof (f_equal (@length Z) Hs) as HL. rewrite skipn_length in HL.
        cbn [length] in HL. unfold n. lia. }
      pose proof (rowmajor_range ss cs Hrest) as Hr.
      cbn [rowmajor] in Hb.
      assert (Hxp : 0 <= x * zprod ss) by (pose proof (zprod_ge1 ss ltac:(rewrite <- Hs'; apply suffix_pos)); nia).
      cbn [length for_aux]. unfold ob at 1.
      rewrite (nth_tv_map Tc _ _ _ Hnc). cbn [bind]. cbv zeta.
      rewrite (cast_S Tc x) by lia.
      rewrite succ_U64 by lia. cbn [bind].
      rewrite !cast_U64_u64 by (unfold in_u64; lia).
      unfold for_up. cbn [val lit].
      replace (Z.to_nat (n - (Z.of_nat i + 1))) with (length ss) by lia.
      replace (Z.of_nat i + 1) with (Z.of_nat (Datatypes.S i)) by lia.
      rewrite (Hib ss (Datatypes.S i) x Hs') by lia. cbn [bind].
      rewrite add_S by lia. cbn [bind]. rewrite cast_S by lia.
      rewrite (IH _ _ Hs' Hc') by lia. cbn [rowmajor]. f_equal. f_equal. ring.
  Qed.

  (* the assertion loop of the debug build *)
  Definition chk : tv -> unit -> res unit := fun i _ =>
    t3 <- nth_tv (map (lit S) c) i ;;
    t4 <- nth_tv (map (lit U64) sizes) i ;;
    t5 <- cmp Lt t3 t4 ;;
    _ <- assert_ (to_bool t5) ;;
    Ok tt.

  Lemma chk_ok : forall ssuf csuf i,
    skipn i sizes = ssuf -> skipn i c = csuf -> in_box ssuf csuf ->
    for_aux (length ssuf) U64 (Z.of_nat i) chk tt = Ok tt.
  Proof.
    intros ssuf csuf i Hs Hc Hbox. revert i Hs Hc.
    induction Hbox as [|x s cs ss Hx Hrest IH]; intros i Hs Hc.
    - reflexivity.
    - destruct (skipn_cons _ _ _ _ Hs) as [Hns Hs'].
      destruct (skipn_cons _ _ _ _ Hc) as [Hnc Hc'].
      assert (Hsb : 1 <= s <= cmax S).
      { exact (proj1 (Forall_forall _ _) Hsz s (nth_error_In _ _ Hns)). }
      pose proof cmax_u64 as Hcm.
      cbn [length for_aux]. unfold chk at 1.
      rewrite (nth_tv_map S _ _ _ Hnc). cbn [bind].
      rewrite (nth_tv_map U64 _ _ _ Hns). cbn [bind].
      rewrite lt_SU by lia. cbn [bind].
      unfold assert_, to_bool. rewrite !truthy_bool.
      destruct (x <? s) eqn:E; [|lia]. cbn [bind].
      replace (Z.of_nat i + 1) with (Z.of_nat (Datatypes.S i)) by lia.
      exact (IH _ Hs' Hc').
  Qed.

  Hypothesis Hlc : length sizes = length c.
  Hypothesis Hbox : in_box sizes c.
  Hypothesis Hprod : zprod sizes <= cmax S.

  Lemma outer_top :
    for_up U64 (cast U64 (cast U64 (lit I32 0))) (cast U64 (lit U64 n)) ob (cast S (lit I32 0))
    = Ok (lit S (rowmajor sizes c)).
  Proof.
    pose proof (rowmajor_range sizes c Hbox) as Hr.
    change (cast U64 (cast U64 (lit I32 0))) with (lit U64 0).
    rewrite cast_U64_u64 by (unfold in_u64, n; lia).
    rewrite (cast_S I32 0) by lia.
    unfold for_up. cbn [val lit].
    replace (Z.to_nat (n - 0)) with (length sizes) by (unfold n; lia).
    change 0 with (Z.of_nat 0) at 1.
    rewrite (outer sizes c 0%nat 0 eq_refl eq_refl Hbox) by lia.
    f_equal.
  Qed.

  Lemma chk_top :
    for_up U64 (cast U64 (cast U64 (lit I32 0))) (cast U64 (lit U64 n)) chk tt = Ok tt.
  Proof.
    change (cast U64 (cast U64 (lit I32 0))) with (lit U64 0).
    rewrite cast_U64_u64 by (unfold in_u64, n; lia).
    unfold for_up. cbn [val lit].
    replace (Z.to_nat (n - 0)) with (length sizes) by (unfold n; lia).
    change 0 with (Z.of_nat 0).
    exact (chk_ok sizes c 0%nat eq_refl eq_refl Hbox).
  Qed.
End Typed.

Lemma sizes_bounded S sizes c :
  in_box sizes c -> zprod sizes <= cmax S -> Forall (fun s => 1 <= s <= cmax S) sizes.
Proof.
  intros Hbox Hp. eapply Forall_impl; [|exact (le_zprod sizes (in_box_pos _ _ Hbox))].
  cbv beta. intros; lia.
Qed.

(* S: the coordinate scalar type; sizes are std::size_t; N = dimensions.
   Side condition: the number of cells fits the coordinate type (otherwise the accumulation
   wraps for unsigned S -- aliasing -- or overflows for signed S, see the two examples below).
   The dimension count itself must fit std::size_t: the loop bound is `cast U64 (lit U64 N)`, and
   without N < 2^64 the statement is false (sizes = repeat 1 (2^64) ++ [2],
   c = repeat 0 (2^64) ++ [1]: the bound wraps to 1, the kernel returns 0, rowmajor is 1). *)
Theorem strided_at_refines (S : cty) (sizes c : list Z) :
  coord_ty S -> Z.of_nat (length sizes) < 2 ^ 64 ->
  length sizes = length c -> in_box sizes c ->
  Forall (fun s => s < 2 ^ 64) sizes -> zprod sizes <= cmax S ->
  gen_strided_at S (Z.of_nat (length sizes)) (map (lit U64) sizes) (map (lit S) c)
  = Ok (lit S (rowmajor sizes c)).
Proof.
  intros HS Hlen Hlc Hbox _ Hprod.
  pose proof (sizes_bounded S sizes c Hbox Hprod) as Hsz.
  unfold gen_strided_at. cbv zeta.
  change (idx <- for_up U64 (cast U64 (cast U64 (lit I32 0)))
                   (cast U64 (lit U64 (Z.of_nat (length sizes))))
                   (ob S sizes (ib_at S sizes) S c) (cast S (lit I32 0)) ;; Ok idx
          = Ok (lit S (rowmajor sizes c))).
  rewrite (outer_top S HS sizes Hsz Hlen _ (inner_at S HS sizes Hsz) S c Hlc Hbox Hprod).
  reflexivity.
Qed.

(* the assertion-enabled translation gives the same result: debug and NDEBUG builds agree *)
Theorem strided_at_dbg_refines (S : cty) (sizes c : list Z) :
  coord_ty S -> Z.of_nat (length sizes) < 2 ^ 64 ->
  length sizes = length c -> in_box sizes c ->
  Forall (fun s => s < 2 ^ 64) sizes -> zprod sizes <= cmax S ->
  gen_strided_at_dbg S (Z.of_nat (length sizes)) (map (lit U64) sizes) (map (lit S) c)
  = Ok (lit S (rowmajor sizes c)).
Proof.
  intros HS Hlen Hlc Hbox _ Hprod.
  pose proof (sizes_bounded S sizes c Hbox Hprod) as Hsz.
  unfold gen_strided_at_dbg. cbv zeta.
  change (_ <- for_up U64 (cast U64 (cast U64 (lit I32 0)))
                 (cast U64 (lit U64 (Z.of_nat (length sizes))))
                 (chk S sizes c) tt ;;
          idx <- for_up U64 (cast U64 (cast U64 (lit I32 0)))
                   (cast U64 (lit U64 (Z.of_nat (length sizes))))
                   (ob S sizes (ib_at S sizes) S c) (cast S (lit I32 0)) ;; Ok idx
          = Ok (lit S (rowmajor sizes c))).
  rewrite (chk_top S HS sizes Hsz Hlen c Hlc Hbox). cbn [bind].
  rewrite (outer_top S HS sizes Hsz Hlen _ (inner_at S HS sizes Hsz) S c Hlc Hbox Hprod).
  reflexivity.
Qed.

(* the index lambda of make_strided_copy: t and sizes are both nd_size (std::size_t) *)
Theorem strided_copy_index_refines (S : cty) (sizes t : list Z) :
  coord_ty S -> Z.of_nat (length sizes) < 2 ^ 64 ->
  length sizes = length t -> in_box sizes t ->
  Forall (fun s => s < 2 ^ 64) sizes -> zprod sizes <= cmax S ->
  gen_strided_copy_index S (Z.of_nat (length sizes)) (map (lit U64) t) (map (lit U64) sizes)
  = Ok (lit S (rowmajor sizes t)).
Proof.
  intros HS Hlen Hlc Hbox _ Hprod.
  pose proof (sizes_bounded S sizes t Hbox Hprod) as Hsz.
  unfold gen_strided_copy_index. cbv zeta.
  change (idx <- for_up U64 (cast U64 (cast U64 (lit I32 0)))
                   (cast U64 (lit U64 (Z.of_nat (length sizes))))
                   (ob S sizes (ib_copy S sizes) U64 t) (cast S (lit I32 0)) ;; Ok idx
          = Ok (lit S (rowmajor sizes t))).
  rewrite (outer_top S HS sizes Hsz Hlen _ (inner_copy S HS sizes Hsz) U64 t Hlc Hbox Hprod).
  reflexivity.
Qed.

(* the side condition is needed: 65537 x 65537 cells with unsigned coordinates alias, with int
   coordinates the accumulation is undefined behaviour *)
Example strided_u32_wraps :
  gen_strided_at U32 2 (map (lit U64) [65537; 65537]) (map (lit U32) [65536; 65536]) = Ok (lit U32 131072)
  /\ rowmajor [65537; 65537] [65536; 65536] = 4295098368.
Proof. split; vm_compute; reflexivity. Qed.
Example strided_i32_overflows :
  gen_strided_at I32 2 (map (lit U64) [65537; 65537]) (map (lit I32) [65536; 65536]) = UB SignedOverflow.
Proof. vm_compute. reflexivity. Qed.
Example strided_example :
  gen_strided_at I32 3 (map (lit U64) [4; 5; 6]) (map (lit I32) [1; 2; 3]) = Ok (lit I32 45).
Proof. vm_compute. reflexivity. Qed.
