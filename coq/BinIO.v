(* BinIO.v -- byte-level model of covfie's binary format: writer (field::dump and every layer's
   write_binary) and reader (field(std::istream&) and every read_binary), over the layer grammar of
   Stack.v.  Bytes are [Z] in 0..255, little endian (the only platform the library's raw
   reinterpret_cast IO is defined for here: x86-64).

   Format:  H t = magic_header ++ u32 t            F t = magic_footer ++ u32 (t + 0x20000000)
     field            : H AB000000 ++ backend ++ F AB000000
     array            : H AB010000 ++ u32 width(4|8) ++ u64 count ++ count*M scalars ++ F
     constant         : H AB010001 ++ M scalars ++ F          identity : H AB010002 ++ F
     strided/morton/hilbert : H tag ++ N x u64 ++ backend ++ F     (tags AB020010 / AB020006 / AB020004)
     clamp            : H AB020002 ++ min ++ max ++ backend ++ F
     backup           : H AB020001 ++ min ++ max ++ default ++ backend ++ F
     affine           : H AB020000 ++ N*(N+1) scalars ++ backend ++ F
     linear, nearest, shuffle, cast, dereference : backend only (no footprint). *)
From Coq Require Import ZArith List Bool Lia.
From Covfie Require Import Stack.
Import ListNotations.
Local Open Scope Z_scope.

Definition MAGIC_HEADER : Z := 3226410667.   (* 0xC04F1EAB *)
Definition MAGIC_FOOTER : Z := 3226410608.   (* 0xC04F1E70 *)
Definition TAG_FIELD : Z := 2868903936.      (* 0xAB000000 *)
Definition TAG_ARRAY : Z := 2868969472.      (* 0xAB010000 *)
Definition TAG_CONSTANT : Z := 2868969473.   (* 0xAB010001 *)
Definition TAG_IDENTITY : Z := 2868969474.   (* 0xAB010002 *)
Definition TAG_AFFINE : Z := 2869035008.     (* 0xAB020000 *)
Definition TAG_BACKUP : Z := 2869035009.     (* 0xAB020001 *)
Definition TAG_CLAMP : Z := 2869035010.      (* 0xAB020002 *)
Definition TAG_HILBERT : Z := 2869035012.    (* 0xAB020004 *)
Definition TAG_MORTON : Z := 2869035014.     (* 0xAB020006 *)
Definition TAG_STRIDED : Z := 2869035024.    (* 0xAB020010 *)

Fixpoint le_bytes (n : nat) (v : Z) : list Z :=
  match n with O => [] | S k => (v mod 256) :: le_bytes k (v / 256) end.
Fixpoint le_value (l : list Z) : Z :=
  match l with [] => 0 | b :: r => b + 256 * le_value r end.

Definition u32 (v : Z) : list Z := le_bytes 4 (v mod 2 ^ 32).
Definition u64 (v : Z) : list Z := le_bytes 8 (v mod 2 ^ 64).
Definition hdr (t : Z) : list Z := u32 MAGIC_HEADER ++ u32 t.
Definition ftr (t : Z) : list Z := u32 MAGIC_FOOTER ++ u32 (t + 536870912).

Definition sty_signed (t : sty) : bool := match t with I32 | I64 => true | _ => false end.
Definition sty_nbytes (t : sty) : nat := match t with F32 | I32 | U32 => 4%nat | _ => 8%nat end.
(* scalar <-> bytes: floats are their bit pattern, signed integers two's complement *)
Definition enc (t : sty) (v : Z) : list Z := le_bytes (sty_nbytes t) (v mod 2 ^ (8 * Z.of_nat (sty_nbytes t))).
Definition dec (t : sty) (bs : list Z) : Z :=
  let u := le_value bs in
  if sty_signed t && (2 ^ (8 * Z.of_nat (sty_nbytes t) - 1) <=? u) then u - 2 ^ (8 * Z.of_nat (sty_nbytes t)) else u.
Definition encs (t : sty) (vs : list Z) : list Z := flat_map (enc t) vs.

Definition float_width (t : sty) : option Z := match t with F32 => Some 4 | F64 => Some 8 | _ => None end.

(* ------------------------------------------------------------------ writer *)
Definition dump_prim (p : prim) (d : pdat) : option (list Z) :=
  match p, d with
  | PArray m t, DArray len data =>
      match float_width t with
      | Some w => Some (hdr TAG_ARRAY ++ u32 w ++ u64 len ++ encs t data ++ ftr TAG_ARRAY)
      | None => None
      end
  | PConstant _ _ _ tv, DConst v => Some (hdr TAG_CONSTANT ++ encs tv v ++ ftr TAG_CONSTANT)
  | PIdentity _ _, DIdent => Some (hdr TAG_IDENTITY ++ ftr TAG_IDENTITY)
  | _, _ => None
  end.

Definition wrap_tag (t : Z) (payload inner : list Z) : list Z := hdr t ++ payload ++ inner ++ ftr t.

Definition dump_layer (l : layer) (k : kind) (g : cfg) (inner : list Z) : option (list Z) :=
  match l, g with
  | LStrided _ _, CSizes s => Some (wrap_tag TAG_STRIDED (flat_map u64 s) inner)
  | LMorton _ _ _, CSizes s => Some (wrap_tag TAG_MORTON (flat_map u64 s) inner)
  | LHilbert _, CSizes s => Some (wrap_tag TAG_HILBERT (flat_map u64 s) inner)
  | LClamp, CBox lo hi => Some (wrap_tag TAG_CLAMP (encs (k_tc k) lo ++ encs (k_tc k) hi) inner)
  | LBackup, CBackup lo hi d =>
      Some (wrap_tag TAG_BACKUP (encs (k_tc k) lo ++ encs (k_tc k) hi ++ encs (k_tv k) d) inner)
  | LAffine, CAffine m => Some (wrap_tag TAG_AFFINE (encs (k_tc k) m) inner)
  | LShuffle _, CUnit | LCast _, CUnit | LDeref, CUnit | LLinear _, CUnit | LNearest _, CUnit => Some inner
  | _, _ => None
  end.

Fixpoint dump_layers (ls : list layer) (p : prim) (gs : list cfg) (d : pdat) : option (list Z) :=
  match ls, gs with
  | [], _ => dump_prim p d
  | l :: ls', g :: gs' =>
      match kind_of_layers ls' p, dump_layers ls' p gs' d with
      | Some k, Some inner => dump_layer l k g inner
      | _, _ => None
      end
  | _ :: _, [] => None
  end.

Definition dump (s : stack) (f : fld) : option (list Z) :=
  match dump_layers (fst s) (snd s) (f_cfgs f) (f_prim f) with
  | Some b => Some (hdr TAG_FIELD ++ b ++ ftr TAG_FIELD)
  | None => None
  end.

(* ------------------------------------------------------------------ reader *)
Inductive ioerr := ShortRead | BadMagic | BadTag | BadWidth | BadStack.
Inductive result (A : Type) := Good (a : A) | Bad (e : ioerr).
Arguments Good {A} a. Arguments Bad {A} e.

Definition rbind {A B} (m : result A) (f : A -> result B) : result B :=
  match m with Good a => f a | Bad e => Bad e end.

(* read n bytes; a short read is an error (the reader throws) *)
Definition take (n : nat) (bs : list Z) : result (list Z * list Z) :=
  if (n <=? length bs)%nat then Good (firstn n bs, skipn n bs) else Bad ShortRead.

Definition read_u32 (bs : list Z) : result (Z * list Z) :=
  rbind (take 4 bs) (fun '(h, r) => Good (le_value h, r)).
Definition read_u64 (bs : list Z) : result (Z * list Z) :=
  rbind (take 8 bs) (fun '(h, r) => Good (le_value h, r)).

Definition read_hdr (t : Z) (bs : list Z) : result (list Z) :=
  rbind (read_u32 bs) (fun '(m, r1) =>
  rbind (read_u32 r1) (fun '(g, r2) =>
  if negb (m =? MAGIC_HEADER) then Bad BadMagic else
  if negb (g =? t) then Bad BadTag else Good r2)).
Definition read_ftr (t : Z) (bs : list Z) : result (list Z) :=
  rbind (read_u32 bs) (fun '(m, r1) =>
  rbind (read_u32 r1) (fun '(g, r2) =>
  if negb (m =? MAGIC_FOOTER) then Bad BadMagic else
  if negb (g =? (t + 536870912) mod 2 ^ 32) then Bad BadTag else Good r2)).

Fixpoint read_scalars (t : sty) (n : nat) (bs : list Z) : result (list Z * list Z) :=
  match n with
  | O => Good ([], bs)
  | S k => rbind (take (sty_nbytes t) bs) (fun '(h, r) =>
           rbind (read_scalars t k r) (fun '(vs, r') => Good (dec t h :: vs, r')))
  end.
Fixpoint read_u64s (n : nat) (bs : list Z) : result (list Z * list Z) :=
  match n with
  | O => Good ([], bs)
  | S k => rbind (read_u64 bs) (fun '(v, r) =>
           rbind (read_u64s k r) (fun '(vs, r') => Good (v :: vs, r')))
  end.

Section Load.
  Variable ops : sops.

  (* the element count comes from the stream; [Z.to_nat] of it bounds the reads, and a count the
     remaining bytes cannot satisfy ends in ShortRead *)
  Definition load_prim (p : prim) (bs : list Z) : result (pdat * list Z) :=
    match p with
    | PArray m t =>
        rbind (read_hdr TAG_ARRAY bs) (fun r0 =>
        rbind (read_u32 r0) (fun '(w, r1) =>
        if negb ((w =? 4) || (w =? 8)) then Bad BadWidth else
        let ft := if w =? 4 then F32 else F64 in
        rbind (read_u64 r1) (fun '(len, r2) =>
        (* guard: do not even try to materialise more scalars than bytes remain *)
        if (Z.of_nat (length r2) <? len * Z.of_nat m * w) then Bad ShortRead else
        rbind (read_scalars ft (Z.to_nat len * m) r2) (fun '(vs, r3) =>
        rbind (read_ftr TAG_ARRAY r3) (fun r4 =>
        Good (DArray len (map (s_conv ops ft t) vs), r4))))))
    | PConstant _ _ m tv =>
        rbind (read_hdr TAG_CONSTANT bs) (fun r0 =>
        rbind (read_scalars tv m r0) (fun '(vs, r1) =>
        rbind (read_ftr TAG_CONSTANT r1) (fun r2 => Good (DConst vs, r2))))
    | PIdentity _ _ =>
        rbind (read_hdr TAG_IDENTITY bs) (fun r0 =>
        rbind (read_ftr TAG_IDENTITY r0) (fun r1 => Good (DIdent, r1)))
    | PProbe _ _ _ _ => Bad BadStack
    end.

  Definition layer_tag (l : layer) : option Z :=
    match l with
    | LStrided _ _ => Some TAG_STRIDED | LMorton _ _ _ => Some TAG_MORTON | LHilbert _ => Some TAG_HILBERT
    | LClamp => Some TAG_CLAMP | LBackup => Some TAG_BACKUP | LAffine => Some TAG_AFFINE
    | _ => None
    end.

  (* the configuration part of a tagged layer *)
  Definition load_cfg (l : layer) (k : kind) (bs : list Z) : result (cfg * list Z) :=
    match l with
    | LStrided n _ | LMorton n _ _ => rbind (read_u64s n bs) (fun '(s, r) => Good (CSizes s, r))
    | LHilbert _ => rbind (read_u64s 2 bs) (fun '(s, r) => Good (CSizes s, r))
    | LClamp =>
        rbind (read_scalars (k_tc k) (k_n k) bs) (fun '(lo, r1) =>
        rbind (read_scalars (k_tc k) (k_n k) r1) (fun '(hi, r2) => Good (CBox lo hi, r2)))
    | LBackup =>
        rbind (read_scalars (k_tc k) (k_n k) bs) (fun '(lo, r1) =>
        rbind (read_scalars (k_tc k) (k_n k) r1) (fun '(hi, r2) =>
        rbind (read_scalars (k_tv k) (k_m k) r2) (fun '(d, r3) => Good (CBackup lo hi d, r3))))
    | LAffine =>
        rbind (read_scalars (k_tc k) (k_n k * S (k_n k)) bs) (fun '(m, r) => Good (CAffine m, r))
    | _ => Good (CUnit, bs)
    end.

  Fixpoint load_layers (ls : list layer) (p : prim) (bs : list Z) : result (list cfg * pdat * list Z) :=
    match ls with
    | [] => rbind (load_prim p bs) (fun '(d, r) => Good ([], d, r))
    | l :: ls' =>
        match kind_of_layers ls' p with
        | None => Bad BadStack
        | Some k =>
            match layer_tag l with
            | Some t =>
                rbind (read_hdr t bs) (fun r0 =>
                rbind (load_cfg l k r0) (fun '(g, r1) =>
                rbind (load_layers ls' p r1) (fun '(gs, d, r2) =>
                rbind (read_ftr t r2) (fun r3 => Good (g :: gs, d, r3)))))
            | None =>
                rbind (load_layers ls' p bs) (fun '(gs, d, r) => Good (CUnit :: gs, d, r))
            end
        end
    end.

  (* field(std::istream&): header, backend, footer; returns the field and the unread rest *)
  Definition load (s : stack) (bs : list Z) : result (fld * list Z) :=
    rbind (read_hdr TAG_FIELD bs) (fun r0 =>
    rbind (load_layers (fst s) (snd s) r0) (fun '(gs, d, r1) =>
    rbind (read_ftr TAG_FIELD r1) (fun r2 => Good ({| f_cfgs := gs; f_prim := d |}, r2)))).
End Load.
