(* LinLang.v -- the statement forms linear.hpp's lookup is written in, as the target of tools/cxx_linear.py,
   with a semantics over the SAME scalar operations record (Stack.sops) and type tags the reference
   interpreter uses, so that a translated branch can be compared with Stack.linear_at's ingredients
   (the neighbour coordinates it queries, and Stack.linear_comp for one output component) term by term.

   One run of a branch is for one output component q (the code's loop over q repeats the same statements
   for every component); the backend's answers are given ([vals n] = the value vector of neighbour n). *)
From Coq Require Import String List Arith ZArith Bool.
From Covfie Require Import Stack.
Import ListNotations.
Local Open Scope string_scope.

Inductive nexp := NL (n : nat) | NV (x : string) | NDim | NShl1 (e : nexp).      (* size_t(1) << e *)
Inductive fexp :=
| FCoord (k : nexp) | FTrunc (e : fexp) | FSub (a b : fexp) | FMul (a b : fexp) | FAdd (a b : fexp)
| FLit (one : bool) | FVar (x : string) | FArr (a : string) (k : nexp)
| FPc (n : nexp).                                (* static_cast<input_scalar_type>(pc[n][q]) *)
Inductive ibase := IVar (x : string) | IArr (a : string) (k : nexp).
Inductive cexp := CPlusBit (base : ibase) (n mask : nexp).   (* static_cast<index>(base + ((n & mask) ? 1 : 0)) *)
Inductive stmt :=
| LDeclI (x : string) (k : nexp)                 (* index x = static_cast<index>(coord[k]) *)
| LDeclF (x : string) (e : fexp)
| LMulF (x : string) (e : fexp)                  (* x *= e *)
| LSetI (a : string) (k src : nexp)              (* a[k] = static_cast<index>(coord[src]) *)
| LSetF (a : string) (k : nexp) (e : fexp)
| LSetIRound (a : string) (k src : nexp)         (* a[k] = static_cast<index>(std::lrint(coord[src])) *)
| LQuery (a : string)                            (* return m_backend.at(a): the layer's single query (recorded as neighbour 0) *)
| LFetch (n : nexp) (cs : list cexp)             (* pc[n] = m_backend.at({cs...}) *)
| LFetchHelper (n : nexp) (a : string)           (* pc[n] = m_backend.at(_backend_index_helper(a, n, make_index_sequence<N>{})) *)
| LSetRv (e : fexp)                              (* rv[q] = e      (an expression of the coordinate type, stored) *)
| LSetRvLit (one : bool)                         (* rv[q] = 0.f / 1.f *)
| LAccRv (e : fexp)                              (* rv[q] += e *)
| LFor (v : string) (bound : nexp) (body : list stmt)
| LForQ (body : list stmt)                       (* for (q < output dimensions): run for the component under study *)
| LIfBit (n mask : nexp) (a b : list stmt).      (* if (n & mask) *)

Record branch := { br_body : list stmt; br_helper : option cexp }.

Section Sem.
  Variable ops : sops.
  Variables tc tidx tv : sty.
  Variable N : nat.
  Variable coord : nat -> Z.
  Variable vals : nat -> list Z.
  Variable q : nat.

  Record state := { nvars : string -> nat; ivars : string -> Z; fvars : string -> Z; iarrs : string -> nat -> Z;
                    farrs : string -> nat -> Z; fetched : nat -> list Z; rv : Z }.
  Definition upd {A} (f : string -> A) (x : string) (v : A) : string -> A := fun y => if String.eqb x y then v else f y.
  Definition updn {A} (f : nat -> A) (k : nat) (v : A) : nat -> A := fun j => if Nat.eqb k j then v else f j.

  Fixpoint neval (st : state) (e : nexp) : nat :=
    match e with NL n => n | NV x => nvars st x | NDim => N | NShl1 e' => 2 ^ neval st e' end.
  Definition bit_and (st : state) (a b : nexp) : bool := negb (Nat.eqb (Nat.land (neval st a) (neval st b)) 0).
  Fixpoint feval (st : state) (e : fexp) : Z :=
    match e with
    | FCoord k => coord (neval st k)
    | FTrunc a => f_trunc ops tc (feval st a)
    | FSub a b => f_sub ops tc (feval st a) (feval st b)
    | FMul a b => f_mul ops tc (feval st a) (feval st b)
    | FAdd a b => f_add ops tc (feval st a) (feval st b)
    | FLit b => f_of_Z ops tc (if b then 1%Z else 0%Z)
    | FVar x => fvars st x
    | FArr a k => farrs st a (neval st k)
    | FPc n => s_conv ops tv tc (nth q (vals (neval st n)) 0%Z)
    end.
  Definition ibeval (st : state) (b : ibase) : Z := match b with IVar x => ivars st x | IArr a k => iarrs st a (neval st k) end.
  Definition ceval (st : state) (c : cexp) : Z :=
    match c with CPlusBit b n m => wrap_sty tidx (ibeval st b + (if bit_and st n m then 1 else 0))%Z end.

  Variable helper : option cexp.

  Definition set_n st x v := {| nvars := upd (nvars st) x v; ivars := ivars st; fvars := fvars st; iarrs := iarrs st; farrs := farrs st; fetched := fetched st; rv := rv st |}.
  Definition set_i st x v := {| nvars := nvars st; ivars := upd (ivars st) x v; fvars := fvars st; iarrs := iarrs st; farrs := farrs st; fetched := fetched st; rv := rv st |}.
  Definition set_f st x v := {| nvars := nvars st; ivars := ivars st; fvars := upd (fvars st) x v; iarrs := iarrs st; farrs := farrs st; fetched := fetched st; rv := rv st |}.
  Definition set_ia st a k v := {| nvars := nvars st; ivars := ivars st; fvars := fvars st; iarrs := upd (iarrs st) a (updn (iarrs st a) k v); farrs := farrs st; fetched := fetched st; rv := rv st |}.
  Definition set_fa st a k v := {| nvars := nvars st; ivars := ivars st; fvars := fvars st; iarrs := iarrs st; farrs := upd (farrs st) a (updn (farrs st a) k v); fetched := fetched st; rv := rv st |}.
  Definition set_fetch st k v := {| nvars := nvars st; ivars := ivars st; fvars := fvars st; iarrs := iarrs st; farrs := farrs st; fetched := updn (fetched st) k v; rv := rv st |}.
  Definition set_rv st v := {| nvars := nvars st; ivars := ivars st; fvars := fvars st; iarrs := iarrs st; farrs := farrs st; fetched := fetched st; rv := v |}.

  (* rv[q] += e : rv has the STORED type, e the coordinate type; the addition is done at the wider of the two *)
  Definition common : sty := if sty_eqb tc F64 || sty_eqb tv F64 then F64 else F32.

  Fixpoint exec (s : stmt) (st : state) {struct s} : state :=
    let run := fix run (l : list stmt) (st : state) {struct l} : state :=
                 match l with [] => st | x :: r => run r (exec x st) end in
    match s with
    | LDeclI x k => set_i st x (s_conv ops tc tidx (coord (neval st k)))
    | LDeclF x e => set_f st x (feval st e)
    | LMulF x e => set_f st x (f_mul ops tc (fvars st x) (feval st e))
    | LSetI a k src => set_ia st a (neval st k) (s_conv ops tc tidx (coord (neval st src)))
    | LSetF a k e => set_fa st a (neval st k) (feval st e)
    | LSetIRound a k src => set_ia st a (neval st k) (s_conv ops I64 tidx (f_lrint ops tc (coord (neval st src))))
    | LQuery a => set_fetch st 0 (map (iarrs st a) (seq 0 N))
    | LFetch n cs => set_fetch st (neval st n) (map (ceval st) cs)
    | LFetchHelper n a =>
        match helper with
        | Some h => set_fetch st (neval st n)
                      (map (fun k => ceval (set_n (set_ia (set_n st "n" (neval st n)) "coord" k (iarrs st a k)) "Is" k) h) (seq 0 N))
        | None => st
        end
    | LSetRv e => set_rv st (s_conv ops tc tv (feval st e))
    | LSetRvLit b => set_rv st (f_of_Z ops tv (if b then 1%Z else 0%Z))
    | LAccRv e => set_rv st (s_conv ops common tv (f_add ops common (s_conv ops tv common (rv st)) (s_conv ops tc common (feval st e))))
    | LFor v b body => fold_left (fun st i => run body (set_n st v i)) (seq 0 (neval st b)) st
    | LForQ body => run body st
    | LIfBit n m a b => if bit_and st n m then run a st else run b st
    end.
  Fixpoint exec_list (l : list stmt) (st : state) : state :=
    match l with [] => st | x :: r => exec_list r (exec x st) end.

  Definition st0 : state := {| nvars := fun _ => O; ivars := fun _ => 0%Z; fvars := fun _ => 0%Z; iarrs := fun _ _ => 0%Z;
                               farrs := fun _ _ => 0%Z; fetched := fun _ => []; rv := 0%Z |}.
End Sem.

Definition run_branch (ops : sops) (tc tidx tv : sty) (N : nat) (coord : nat -> Z) (vals : nat -> list Z) (q : nat) (b : branch) : list (list Z) * Z :=
  let st := exec_list ops tc tidx tv N coord vals q (br_helper b) (br_body b) st0 in
  (map (fetched st) (seq 0 (2 ^ N)), rv st).
