(* Properties_C18.v -- C18: power-of-two rounding and integer power are exact.
   This file contains only the property theorems, each closed by [exact] of a lemma proved
   elsewhere, and the axiom report.  The statements are about the kernels GENERATED from
   /repo's utility/numeric.hpp on this run (coq/gen/Gen_Numeric.v). *)
From Coq Require Import ZArith.
From Covfie Require Import CKernel CKernelFacts Numeric Refine_Numeric.
From Covfie.gen Require Import Gen_Numeric.
Local Open Scope Z_scope.

(* round_pow2<T>(i), for every unsigned T of width w in 1..16 or >= 32 and every
   1 <= i <= 2^(w-1), returns the least power of two not below i (and neither UB nor
   non-termination occurs). *)
Theorem C18_round_pow2 : forall T i (fuel : nat),
  unsigned_std T -> 1 <= i <= 2 ^ (cwidth T - 1) -> (Z.to_nat (cwidth T) < fuel)%nat ->
  gen_round_pow2 T fuel (lit T i) = Ok (lit T (pow2_ceil i)).
Proof. exact round_pow2_refines. Qed.

Theorem C18_pow2_ceil_is_least_power_of_two : forall i, 1 <= i ->
  (exists k, 0 <= k /\ pow2_ceil i = 2 ^ k) /\ i <= pow2_ceil i /\
  (forall k, 0 <= k -> i <= 2 ^ k -> pow2_ceil i <= 2 ^ k).
Proof.
  exact (fun i Hi => conj (pow2_ceil_is_pow2 i)
                    (conj (pow2_ceil_ge i Hi) (fun k => pow2_ceil_least i k Hi))).
Qed.

(* the stated domain is tight: just above 2^(w-1) the loop never terminates *)
Theorem C18_round_pow2_domain_tight : forall T i,
  unsigned_std T -> 2 ^ (cwidth T - 1) < i < 2 ^ cwidth T ->
  forall fuel, gen_round_pow2 T fuel (lit T i) = OutOfFuel.
Proof. exact round_pow2_diverges. Qed.

(* ipow<T>(b, e) = b^e mod 2^w for all b, e, for every unsigned T of width 1..15 or >= 32 *)
Theorem C18_ipow : forall T b e (fuel : nat),
  nice_unsigned T -> 0 <= b < 2 ^ cwidth T -> 0 <= e < 2 ^ cwidth T ->
  (Z.to_nat (cwidth T) < fuel)%nat ->
  gen_ipow T fuel (lit T b) (lit T e) = Ok (lit T (b ^ e mod 2 ^ cwidth T)).
Proof. exact ipow_refines. Qed.

(* at 16 bits the full statement is false of the C++ semantics: promoted-int overflow *)
Theorem C18_ipow_u16_refuted : gen_ipow U16 20 (lit U16 65535) (lit U16 2) = UB SignedOverflow.
Proof. exact ipow_u16_refuted. Qed.

Print Assumptions C18_round_pow2.
Print Assumptions C18_pow2_ceil_is_least_power_of_two.
Print Assumptions C18_round_pow2_domain_tight.
Print Assumptions C18_ipow.
Print Assumptions C18_ipow_u16_refuted.
