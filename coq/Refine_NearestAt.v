(* Refine_NearestAt.v -- C04 / C02: nearest_neighbour::non_owning_data_t::at, as translated from the source on this
   run (gen/Gen_NearestAt.v, LinLang semantics), issues exactly one backend query, at the component-wise
   static_cast<index>(std::lrint(c_k)) -- the coordinate Stack.nearest_at hands to its backend
   (StackProofs.nearest_law) -- for arbitrary scalar operations and type tags, N = 1..4. *)
From Coq Require Import String List Arith ZArith Bool.
From Covfie Require Import Stack LinLang.
From Covfie.gen Require Import Gen_NearestAt.
Import ListNotations.

Section Refine.
  Variable ops : sops.
  Variables tc tidx tv : sty.
  Variable vals : nat -> list Z.
  Variable q : nat.
  Definition coord_of (c : list Z) : nat -> Z := fun k => nth k c 0%Z.
  Definition code (b : branch) (c : list Z) : list (list Z) * Z :=
    run_branch ops tc tidx tv (length c) (coord_of c) vals q b.

    Definition nn_query (c : list Z) : list Z := hd [] (fst (code nn_at c)).
  Definition nn_model (c : list Z) : list Z := map (fun x => s_conv ops I64 tidx (f_lrint ops tc x)) c.
  Theorem nearest_at_refines_1 x0 : nn_query [x0] = nn_model [x0].
  Proof. cbv -[wrap_sty Z.add]. reflexivity. Qed.
  Theorem nearest_at_refines_2 x0 x1 : nn_query [x0; x1] = nn_model [x0; x1].
  Proof. cbv -[wrap_sty Z.add]. reflexivity. Qed.
  Theorem nearest_at_refines_3 x0 x1 x2 : nn_query [x0; x1; x2] = nn_model [x0; x1; x2].
  Proof. cbv -[wrap_sty Z.add]. reflexivity. Qed.
  Theorem nearest_at_refines_4 x0 x1 x2 x3 : nn_query [x0; x1; x2; x3] = nn_model [x0; x1; x2; x3].
  Proof. cbv -[wrap_sty Z.add]. reflexivity. Qed.
End Refine.
