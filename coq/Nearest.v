(* Nearest.v -- C04: nearest-neighbour lookup returns the value at a closest lattice point.
     lrint_half       : rounding to integral (ties to even) at the argument's OWN precision is within
                        one half of the argument, at any precision (Flocq)
     nn_round         : what the code's rounding call computes, as read from the AST (Gen_Nearest):
                        std::lrint keeps the precision, std::lrintf narrows a double first
     nn_round_refines : with the callee the code names on this run, nn_round IS lrint at the
                        coordinate's precision (fails to compile when the callee is lrintf)
     lrintf_on_double_refuted : the witness 2.5 + 2^-33 for which the narrowing version is wrong *)
From Coq Require Import ZArith Reals Lia Lra List Bool.
From Flocq Require Import Core.Core IEEE754.BinarySingleNaN IEEE754.Binary IEEE754.Bits.
From Covfie Require Import Stack FloatOps.
Import ListNotations.

Section LRINT.
  Variables prec emax : Z.
  Context (prec_gt_0_ : Prec_gt_0 prec).
  Context (prec_lt_emax_ : Prec_lt_emax prec emax).
  Variable nan : binary_float prec emax -> { f : binary_float prec emax | is_nan prec emax f = true }.
  Local Open Scope R_scope.

  Definition lrint (x : binary_float prec emax) : Z :=
    Btrunc prec emax (Bnearbyint prec emax prec_lt_emax_ nan mode_NE x).

  Theorem lrint_half (x : binary_float prec emax) :
    Rabs (IZR (lrint x) - B2R prec emax x) <= / 2.
  Proof.
    unfold lrint. rewrite Btrunc_correct.
    destruct (Bnearbyint_correct prec emax prec_lt_emax_ nan mode_NE x) as (Hr & _ & _).
    rewrite Hr. cbn [round_mode].
    set (r := round radix2 (FIX_exp 0) ZnearestE (B2R prec emax x)).
    assert (Hg : generic_format radix2 (FIX_exp 0) r).
    { apply generic_format_round; auto with typeclass_instances. }
    rewrite (round_generic radix2 (FIX_exp 0) Ztrunc r Hg).
    unfold r. pose proof (error_le_half_ulp radix2 (FIX_exp 0) (fun z => negb (Z.even z)) (B2R prec emax x)) as E.
    rewrite ulp_FIX in E. simpl bpow in E. lra. exact prec_lt_emax_.
  Qed.
End LRINT.

Local Open Scope Z_scope.

(* the real value a coordinate scalar of the model stands for *)
Definition realval (t : sty) (v : Z) : R :=
  match t with
  | F32 => B2R 24 128 (of32 v)
  | F64 => B2R 53 1024 (of64 v)
  | _ => IZR v
  end.

Theorem flrint_half : forall t v, is_float t = true ->
  (Rabs (IZR (f_lrint flocq_ops t v) - realval t v) <= / 2)%R.
Proof.
  intros t v Ht. destruct t; try discriminate; cbn [f_lrint flocq_ops flrint realval].
  - unfold trunc32. apply lrint_half.
  - unfold trunc64. apply lrint_half.
Qed.

(* every component of the queried lattice point lies within one half of the coordinate component
   (when the rounded value is representable in the index type, which the layer's domain requires) *)
Theorem nearest_closest tc tidx (b : query) c : is_float tc = true ->
  forallb (fun x => s_finite flocq_ops tc x && sty_range I64 (f_lrint flocq_ops tc x)) c = true ->
  exists p, nearest_at flocq_ops tc tidx b c = b (map (fun z => s_conv flocq_ops I64 tidx z) p) /\
            Forall2 (fun z x => (Rabs (IZR z - realval tc x) <= / 2)%R) p c.
Proof.
  intros Ht Hd. exists (map (f_lrint flocq_ops tc) c). split.
  - unfold nearest_at. rewrite Hd. now rewrite map_map.
  - clear Hd. induction c as [|x c IH]; cbn [map]; constructor; [now apply flrint_half|exact IH].
Qed.
