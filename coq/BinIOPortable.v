(* BinIOPortable.v -- C07: which differences between stack types the byte format does not see.
     interp_blind : stacks that differ only in WHICH interpolation layer sits at a position
                    (linear <-> nearest neighbour, same coordinate type) have the same writer and the
                    same reader
     load_cross   : a dump of a stack over array<t> loads into the same stack over array<t'> with
                    every stored scalar converted by s_conv t t' and everything else unchanged
                    (stacks without an out-of-range-default layer, whose default value is stored at
                    the OUTPUT scalar type and therefore changes width with the storage) *)
From Coq Require Import ZArith List Bool Lia ZifyBool ZifyNat.
From Covfie Require Import Stack BinIO BinIOProofs.
Import ListNotations.
Local Open Scope Z_scope.

Definition erase (l : layer) : layer := match l with LLinear tc => LNearest tc | _ => l end.

(* equal up to what only the interpolation method decides (whether the result is a reference) *)
Definition kind_sim (k k' : kind) : Prop :=
  k_n k = k_n k' /\ k_tc k = k_tc k' /\ k_m k = k_m k' /\ k_tv k = k_tv k' /\ k_scalar k = k_scalar k'.

Lemma kind_sim_refl k : kind_sim k k. Proof. repeat split. Qed.

Lemma layer_kind_erase l k k' k1 : kind_sim k k' -> layer_kind l k = Some k1 ->
  exists k1', layer_kind (erase l) k' = Some k1' /\ kind_sim k1 k1'.
Proof.
  intros [Hn [Htc [Hm [Htv Hs]]]] E.
  destruct l; cbn [erase layer_kind] in *; rewrite <- ?Hn, <- ?Htc, <- ?Hm, <- ?Htv, <- ?Hs;
    repeat match type of E with context [if ?b then _ else _] => destruct b eqn:?; try discriminate end;
    try (injection E as <-); try (eexists; split; [reflexivity|repeat split; cbn; congruence]).
  - (* linear -> nearest: the weaker side condition *)
    apply andb_prop in Heqb. destruct Heqb as [H1 _]. rewrite H1.
    eexists; split; [reflexivity|repeat split; cbn; congruence].
Qed.

Lemma kind_of_layers_erase ls p k : kind_of_layers ls p = Some k ->
  exists k', kind_of_layers (map erase ls) p = Some k' /\ kind_sim k k'.
Proof.
  revert k. induction ls as [|l ls IH]; intros k E; cbn [kind_of_layers map] in *.
  - eexists; split; [eassumption|apply kind_sim_refl].
  - destruct (kind_of_layers ls p) as [k0|]; [|discriminate].
    destruct (IH _ eq_refl) as [k0' [-> S]]. exact (layer_kind_erase _ _ _ _ S E).
Qed.

Lemma dump_layer_erase l k k' g inner : kind_sim k k' -> dump_layer l k g inner = dump_layer (erase l) k' g inner.
Proof.
  intros [Hn [Htc [Hm [Htv Hs]]]]. destruct l; destruct g; cbn [erase dump_layer]; rewrite <- ?Htc, <- ?Htv; reflexivity.
Qed.
Lemma load_cfg_erase l k k' bs : kind_sim k k' -> load_cfg l k bs = load_cfg (erase l) k' bs.
Proof.
  intros [Hn [Htc [Hm [Htv Hs]]]]. destruct l; cbn [erase load_cfg]; rewrite <- ?Htc, <- ?Htv, <- ?Hn, <- ?Hm; reflexivity.
Qed.
Lemma layer_tag_erase l : layer_tag (erase l) = layer_tag l.
Proof. destruct l; reflexivity. Qed.

Lemma dump_layers_erase ls p : forall gs d k, kind_of_layers ls p = Some k ->
  dump_layers ls p gs d = dump_layers (map erase ls) p gs d.
Proof.
  induction ls as [|l ls IH]; intros gs d k E; cbn [dump_layers map kind_of_layers] in *; [reflexivity|].
  destruct gs as [|g gs]; [reflexivity|].
  destruct (kind_of_layers ls p) as [k0|] eqn:E0; [|discriminate].
  destruct (kind_of_layers_erase _ _ _ E0) as [k0' [-> S]].
  rewrite <- (IH gs d k0 eq_refl). destruct (dump_layers ls p gs d); [|reflexivity].
  now apply dump_layer_erase.
Qed.

Section Blind.
  Variable ops : sops.

  Lemma load_layers_erase ls p : forall bs k, kind_of_layers ls p = Some k ->
    load_layers ops ls p bs = load_layers ops (map erase ls) p bs.
  Proof.
    induction ls as [|l ls IH]; intros bs k E; cbn [load_layers map kind_of_layers] in *; [reflexivity|].
    destruct (kind_of_layers ls p) as [k0|] eqn:E0; [|discriminate].
    destruct (kind_of_layers_erase _ _ _ E0) as [k0' [-> S]].
    rewrite layer_tag_erase. destruct (layer_tag l) as [t|].
    - destruct (read_hdr t bs) as [r0|e]; cbn [rbind]; [|reflexivity].
      rewrite <- (load_cfg_erase l k0 k0' r0 S). destruct (load_cfg l k0 r0) as [[g r1]|e]; cbn [rbind]; [|reflexivity].
      now rewrite <- (IH r1 k0 eq_refl).
    - now rewrite <- (IH bs k0 eq_refl).
  Qed.

  (* two well-kinded stacks with the same layers up to the interpolation method *)
  Theorem interp_blind ls ls' p k k' : map erase ls = map erase ls' ->
    kind_of_layers ls p = Some k -> kind_of_layers ls' p = Some k' ->
    (forall f, dump (ls, p) f = dump (ls', p) f) /\ (forall bs, load ops (ls, p) bs = load ops (ls', p) bs).
  Proof.
    intros E K K'. split.
    - intros f. unfold dump. cbn [fst snd].
      now rewrite (dump_layers_erase ls p _ _ k K), (dump_layers_erase ls' p _ _ k' K'), E.
    - intros bs. unfold load. cbn [fst snd]. destruct (read_hdr TAG_FIELD bs) as [r0|e]; cbn [rbind]; [|reflexivity].
      now rewrite (load_layers_erase ls p _ k K), (load_layers_erase ls' p _ k' K'), E.
  Qed.
End Blind.

(* ------------------------------------------------------------------ storage precision *)
Definition tv_rel (a b : sty) : Prop := a = b \/ (is_float a = true /\ is_float b = true).
Definition kind_simtv (k k' : kind) : Prop :=
  k_n k = k_n k' /\ k_tc k = k_tc k' /\ k_m k = k_m k' /\ tv_rel (k_tv k) (k_tv k') /\ k_scalar k = k_scalar k' /\ k_ref k = k_ref k'.

Definition no_backup (ls : list layer) : bool := forallb (fun l => match l with LBackup => false | _ => true end) ls.

Lemma layer_kind_simtv l k k' k1 : kind_simtv k k' -> layer_kind l k = Some k1 ->
  exists k1', layer_kind l k' = Some k1' /\ kind_simtv k1 k1'.
Proof.
  intros [Hn [Htc [Hm [Htv [Hs Hr]]]]] E.
  destruct l; cbn [layer_kind] in *; rewrite <- ?Hn, <- ?Htc, <- ?Hm, <- ?Hs, <- ?Hr;
    try (repeat match type of E with context [if ?b then _ else _] => destruct b eqn:?; try discriminate end;
         injection E as <-; eexists; split; [reflexivity|repeat split; cbn; try congruence; try (left; reflexivity); assumption]).
  - (* linear: needs a floating stored scalar on both sides *)
    destruct (negb (k_scalar k) && negb (is_float (k_tc k)) && is_float tc && is_float (k_tv k)) eqn:B; [|discriminate].
    injection E as <-. apply andb_prop in B. destruct B as [B Hf].
    assert (Hf' : is_float (k_tv k') = true) by (destruct Htv as [<-|[_ H]]; assumption).
    rewrite B, Hf'. eexists; split; [reflexivity|repeat split; cbn; try congruence; assumption].
Qed.

Lemma cfg_simtv l k k' : kind_simtv k k' -> l <> LBackup ->
  (forall g, wf_cfg l k g = wf_cfg l k' g) /\ (forall g, cfg_bytes l k g = cfg_bytes l k' g) /\
  (forall bs, load_cfg l k bs = load_cfg l k' bs) /\ (forall g inner, dump_layer l k g inner = dump_layer l k' g inner).
Proof.
  intros [Hn [Htc [Hm [Htv [Hs Hr]]]]] NB.
  destruct l; try congruence; repeat split; intros; try destruct g; cbn [wf_cfg cfg_bytes load_cfg dump_layer];
    rewrite <- ?Hn, <- ?Htc, <- ?Hm; reflexivity.
Qed.

Local Opaque hdr ftr u32 u64 encs Z.pow.

Section Cross.
  Variable ops : sops.

  Lemma load_prim_cross m t t' len data bs tl :
    wf_prim (PArray m t) (DArray len data) = true -> is_float t' = true ->
    dump_prim (PArray m t) (DArray len data) = Some bs ->
    load_prim ops (PArray m t') (bs ++ tl) = Good (DArray len (map (s_conv ops t t') data), tl).
  Proof.
    destruct tags_ok as [_ [Ta _]].
    cbn [wf_prim dump_prim]. intros W _ E. repeat (apply andb_prop in W; destruct W as [W ?]).
    destruct (all_in_spec _ _ _ H) as [Hl Hr].
    assert (Hw : exists w, float_width t = Some w /\ (w = 4 /\ t = F32 \/ w = 8 /\ t = F64)).
    { destruct t; try discriminate; cbn; eauto. }
    destruct Hw as [w [Ew Hw]]. rewrite Ew in E. injection E as <-.
    unfold load_prim. rewrite <- !app_assoc, read_hdr_hdr by assumption. cbn [rbind].
    rewrite read_u32_u32. cbn [rbind]. rewrite read_u64_u64.
    rewrite (Z.mod_small w) by lia. rewrite (Z.mod_small len) by lia.
    assert (Eft : (if w =? 4 then F32 else F64) = t) by (destruct Hw as [[-> ->]|[-> ->]]; reflexivity).
    replace (negb ((w =? 4) || (w =? 8))) with false by (destruct Hw as [[-> _]|[-> _]]; reflexivity).
    cbn [rbind]. rewrite Eft.
    assert (Hlen : Z.of_nat (length (encs t data ++ ftr TAG_ARRAY ++ tl)) <? len * Z.of_nat m * w = false).
    { rewrite app_length, encs_length, Hl.
      assert (Z.of_nat (sty_nbytes t) = w) by (destruct Hw as [[-> ->]|[-> ->]]; reflexivity). nia. }
    rewrite Hlen. rewrite <- Hl, read_scalars_encs by assumption. cbn [rbind].
    rewrite read_ftr_ftr. reflexivity.
  Qed.

  Lemma prim_kind_cross m t t' k : prim_kind (PArray m t) = Some k -> is_float t' = true ->
    exists k', prim_kind (PArray m t') = Some k' /\ kind_simtv k k'.
  Proof.
    cbn [prim_kind]. intros E Ht'. destruct (is_float t && (0 <? m)%nat) eqn:B; [|discriminate].
    apply andb_prop in B. destruct B as [Ht Hm]. rewrite Ht', Hm. injection E as <-.
    eexists; split; [reflexivity|]. repeat split; cbn; try reflexivity. right. split; assumption.
  Qed.

  Lemma kind_of_layers_cross ls m t t' k : kind_of_layers ls (PArray m t) = Some k -> is_float t' = true ->
    exists k', kind_of_layers ls (PArray m t') = Some k' /\ kind_simtv k k'.
  Proof.
    revert k. induction ls as [|l ls IH]; intros k E Ht'; cbn [kind_of_layers] in *.
    - now apply prim_kind_cross with (t := t).
    - destruct (kind_of_layers ls (PArray m t)) as [k0|]; [|discriminate].
      destruct (IH _ eq_refl Ht') as [k0' [-> S]]. exact (layer_kind_simtv _ _ _ _ S E).
  Qed.

  Lemma load_layers_cross ls m t t' : forall gs len data bs tl,
    no_backup ls = true -> is_float t' = true ->
    wf_layers ls (PArray m t) gs (DArray len data) = true ->
    dump_layers ls (PArray m t) gs (DArray len data) = Some bs ->
    load_layers ops ls (PArray m t') (bs ++ tl) = Good (gs, DArray len (map (s_conv ops t t') data), tl).
  Proof.
    induction ls as [|l ls IH]; intros gs len data bs tl NB Ht' W E.
    - destruct gs; [|discriminate]. cbn [wf_layers dump_layers load_layers] in *.
      now rewrite (load_prim_cross m t t' len data bs tl W Ht' E).
    - destruct gs as [|g gs]; [discriminate|]. cbn [wf_layers dump_layers load_layers no_backup forallb] in *.
      apply andb_prop in NB. destruct NB as [NBl NB].
      destruct (kind_of_layers ls (PArray m t)) as [k|] eqn:K; [|discriminate].
      destruct (kind_of_layers_cross _ _ _ _ _ K Ht') as [k' [-> S]].
      apply andb_prop in W. destruct W as [Wg Wr].
      destruct (dump_layers ls (PArray m t) gs (DArray len data)) as [inner|] eqn:Ei; [|discriminate].
      assert (Hl : l <> LBackup) by (intros ->; discriminate).
      destruct (cfg_simtv l k k' S Hl) as [Hwf [Hcb [Hlc Hdl]]].
      rewrite (dump_layer_shape l k g inner Wg) in E. injection E as <-.
      destruct (layer_tag l) as [tg|] eqn:Et.
      + rewrite <- !app_assoc, read_hdr_hdr by (eapply layer_tag_is_tag; eassumption). cbn [rbind].
        rewrite <- Hlc, load_cfg_bytes by assumption. cbn [rbind].
        rewrite (IH gs len data inner _ NB Ht' Wr Ei). cbn [rbind]. rewrite read_ftr_ftr. reflexivity.
      + rewrite (IH gs len data inner _ NB Ht' Wr Ei). cbn [rbind].
        destruct l; try discriminate; destruct g; try discriminate; reflexivity.
  Qed.

  (* a file written from a stack over array<t> loaded into the same stack over array<t'> *)
  Theorem load_cross ls m t t' f len data bs tl :
    no_backup ls = true -> is_float t' = true -> f_prim f = DArray len data ->
    wf_fld (ls, PArray m t) f = true -> dump (ls, PArray m t) f = Some bs ->
    load ops (ls, PArray m t') (bs ++ tl) =
      Good ({| f_cfgs := f_cfgs f; f_prim := DArray len (map (s_conv ops t t') data) |}, tl).
  Proof.
    unfold wf_fld, dump, load. cbn [fst snd]. intros NB Ht' Ef W E. rewrite Ef in *.
    destruct (dump_layers ls (PArray m t) (f_cfgs f) (DArray len data)) as [b|] eqn:Eb; [|discriminate].
    injection E as <-. destruct tags_ok as [Tf _].
    rewrite <- !app_assoc, read_hdr_hdr by assumption. cbn [rbind].
    rewrite (load_layers_cross _ _ _ _ _ _ _ _ _ NB Ht' W Eb). cbn [rbind]. rewrite read_ftr_ftr. reflexivity.
  Qed.
End Cross.
