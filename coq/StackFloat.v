(* StackFloat.v -- facts about the Flocq instance [flocq_ops] that the stack-level theorems need:
   the order is irreflexive (all clamping needs), it is the integer order on integer types, and the
   out-of-box test of the model is the one the kernel generated from backup.hpp computes. *)
From Coq Require Import ZArith List Bool Lia.
From Flocq Require Import Core.Core IEEE754.BinarySingleNaN IEEE754.Binary IEEE754.Bits.
From Covfie Require Import Stack FloatOps Refine_Backup.
Import ListNotations.
Local Open Scope Z_scope.

Lemma Bcompare_refl_not_Lt prec emax (x : binary_float prec emax) : Bcompare prec emax x x <> Some Lt.
Proof.
  destruct x as [s|s|s pl H|s m e H]; cbn.
  - discriminate.
  - destruct s; discriminate.
  - discriminate.
  - destruct s; rewrite Z.compare_refl, Pos.compare_cont_refl; discriminate.
Qed.

Lemma flocq_lt_irrefl : forall t v, s_lt flocq_ops t v v = false.
Proof.
  intros t v. cbn [s_lt flocq_ops]. unfold lt. destruct t; try apply Z.ltb_irrefl.
  - unfold b32_compare. pose proof (Bcompare_refl_not_Lt 24 128 (of32 v)) as H.
    destruct (Bcompare 24 128 (of32 v) (of32 v)) as [[| |]|]; congruence.
  - unfold b64_compare. pose proof (Bcompare_refl_not_Lt 53 1024 (of64 v)) as H.
    destruct (Bcompare 53 1024 (of64 v) (of64 v)) as [[| |]|]; congruence.
Qed.

Lemma flocq_lt_int : forall t a b, is_float t = false -> s_lt flocq_ops t a b = (a <? b).
Proof. intros t a b H. destruct t; try discriminate; reflexivity. Qed.

Lemma outside_is_outsideZ t : is_float t = false -> forall c lo hi, outside flocq_ops t c lo hi = outsideZ c lo hi.
Proof.
  intros Ht. induction c as [|x c IH]; intros [|l lo] [|h hi]; cbn [outside outsideZ]; try reflexivity.
  now rewrite !(flocq_lt_int t) by assumption; rewrite IH.
Qed.
