(* Properties_C13.v -- C13 (partial): every well-kinded composition supports the whole field API.
   What is PROVED is about the model: kinds compose layer by layer, and the reference interpreter is
   kind-sound (no lookup through a well-kinded stack of any depth ever produces a value of the wrong
   dimension).  That g++ accepts exactly the well-kinded programs is OBSERVED by compiling the
   enumerated programs (props/c13.py); C++ template semantics is not formalised here. *)
From Coq Require Import ZArith List Bool.
From Covfie Require Import Stack StackGlue StackGlueProofs StackSound Refine_Asserts.
From Covfie.gen Require Import Gen_Asserts.
Import ListNotations.
Local Open Scope Z_scope.

Theorem C13_kind_compositional : forall l ls p,
  kind_of_layers (l :: ls) p = match kind_of_layers ls p with Some k => layer_kind l k | None => None end.
Proof. exact (fun l ls p => eq_refl). Qed.

Theorem C13_eval_kind_sound : forall ops ls p gs d k, kind_of_layers ls p = Some k -> shapes ls p gs d = true ->
  forall c tr v, length c = k_n k -> eval_layers ops ls p gs d c = Some (tr, v) -> length v = k_m k.
Proof. exact eval_kind_sound. Qed.

(* the stated kinds: compositions the model rejects *)
Example C13_ill_kinded_rejected :
  forallb (fun s => match kind_of s with None => true | Some _ => false end)
    [ ([LLinear I32; LStrided 2 U64], PArray 1 F32);           (* interpolator with an integer coordinate type *)
      ([LLinear F32; LStrided 2 U64], PArray 1 I32);           (* linear over a non-floating stored scalar *)
      ([LNearest U64; LStrided 2 U64], PArray 1 F32);
      ([LStrided 2 U64], PIdentity 2 U64);                     (* storage order over a backend that is not indexed by one number *)
      ([LAffine], PIdentity 2 I32);                            (* affine map over integer coordinates *)
      ([LShuffle [0; 0]%nat], PIdentity 2 F32);                (* not a permutation *)
      ([LShuffle [0; 1; 2]%nat], PIdentity 2 F32);
      ([LClamp], PArray 1 F32) ] = true.
Proof. vm_compute. reflexivity. Qed.
(* non-vacuity of the soundness theorem: a five-layer stack is well-kinded, 3 coordinates in, 3 values out *)
Example C13_example :
  kind_of ([LAffine; LLinear F32; LClamp; LShuffle [2; 0; 1]%nat; LStrided 3 U64], PArray 3 F64) =
  Some {| k_n := 3; k_tc := F32; k_m := 3; k_tv := F64; k_ref := false; k_scalar := false |}.
Proof. vm_compute. reflexivity. Qed.

(* the statements of kind in the source: the class-scope static_asserts of the layer and view templates, as they stand on
   this run, are exactly the ten the model's layer_kind / prim_kind carry (a weakened, dropped or added one changes the list) *)
Theorem C13_kind_asserts_are_the_sources : kind_asserts = model_kind_asserts /\ kind_assert_problems = O.
Proof. exact kind_asserts_are_the_models. Qed.

Print Assumptions C13_eval_kind_sound.
