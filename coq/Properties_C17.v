(* Properties_C17.v -- C17: a field's configuration can be read back and used to rebuild it.
   Only the property theorems, closed by [exact].  The model of construction is StackGlue.parse_layers
   (one configuration consumed per layer, outermost first, then the primitive's), of reading back
   fld_cfg_groups / fld_tokens; both are what the harness does through the real constructors,
   get_configuration() and the get_backend() chain, and what make_parameter_pack_for forwards. *)
From Coq Require Import ZArith List Bool.
From Covfie Require Import Stack StackGlue StackGlueProofs Refine_Ppf.
From Covfie.gen Require Import Gen_Ppf.
Import ListNotations.
Local Open Scope Z_scope.

(* the configurations (and storage) reported by a constructed field are the ones it was constructed
   with, layer by layer, for a stack of any depth *)
Theorem C17_configs_of_constructed : forall ls p ts gs d r, parse_layers ls p ts = Some (gs, d, r) ->
  ts = fld_tokens gs d ++ r /\ length gs = length ls.
Proof. exact configs_of_constructed. Qed.
(* rebuilding from what is reported gives the same field (hence the same value at every coordinate) *)
Theorem C17_rebuild_from_configs : forall ls p gs d r, shapes ls p gs d = true ->
  parse_layers ls p (fld_tokens gs d ++ r) = Some (gs, d, r).
Proof. exact rebuild_from_configs. Qed.
(* the i-th group belongs to the i-th layer counted from the outside; the groups cover everything *)
Theorem C17_config_positions : forall f i, (i < length (f_cfgs f))%nat ->
  nth i (fld_cfg_groups f) [] = cfg_tokens (nth i (f_cfgs f) CUnit).
Proof. exact config_positions. Qed.
Theorem C17_config_groups_cover : forall f,
  concat (fld_cfg_groups f) = concat (map cfg_tokens (f_cfgs f)) ++ prim_cfg_tokens (f_prim f).
Proof. exact config_groups_cover. Qed.

Example C17_example :
  let ls := [LClamp; LBackup; LStrided 2 U64] in let p := PArray 1 F32 in
  parse_layers ls p [0; 0; 1; 2;  0; 0; 1; 1; 7;  2; 3;  6; 1; 2; 3; 4; 5; 6]
  = Some ([CBox [0; 0] [1; 2]; CBackup [0; 0] [1; 1] [7]; CSizes [2; 3]], DArray 6 [1; 2; 3; 4; 5; 6], []).
Proof. vm_compute. reflexivity. Qed.

(* the positional construction helper, from the source of this run (gen/Gen_Ppf.v): one make_parameter_pack_for overload
   for every stack depth 1..10; the overload for depth d has d parameters, the k-th typed as the configuration of layer
   level k and handed to make_parameter_pack as the k-th argument at that level; parameter_pack keeps head then tail *)
Theorem C17_helper_table_is_positional :
  ppf_overloads = map (fun d => (d, seq 0 d, map (fun k => (k, k)) (seq 0 d))) (seq 1 10) /\
  ppf_pack_shape = HeadThenTail /\ ppf_problems = O.
Proof. exact (conj ppf_table (conj ppf_pack_head_then_tail ppf_all_read)). Qed.

Print Assumptions C17_configs_of_constructed.
Print Assumptions C17_helper_table_is_positional.
Print Assumptions C17_rebuild_from_configs.
Print Assumptions C17_config_positions.
