(* StackGlueProofs.v -- C17: constructing a field from per-layer configurations (outermost first,
   then the primitive's) and reading the configurations back are inverse to each other, for every
   stack of the grammar; the i-th configuration belongs to the i-th layer counted from the outside. *)
From Coq Require Import ZArith List Bool Lia ZifyNat.
From Covfie Require Import Stack StackGlue.
Import ListNotations.
Local Open Scope Z_scope.

Definition prim_tokens (d : pdat) : list Z :=
  match d with DArray len data => len :: data | DConst v => v | DIdent => [] end.
Definition fld_tokens (gs : list cfg) (d : pdat) : list Z := concat (map cfg_tokens gs) ++ prim_tokens d.

Lemma takeN_spec n l a r : takeN n l = Some (a, r) -> l = a ++ r /\ length a = n.
Proof.
  unfold takeN. destruct (Nat.leb_spec n (length l)); [|discriminate]. intros E. injection E as <- <-.
  split; [symmetry; apply firstn_skipn|now apply firstn_length_le].
Qed.
Lemma takeN_app n a r : length a = n -> takeN n (a ++ r) = Some (a, r).
Proof.
  intros <-. unfold takeN. rewrite app_length. destruct (Nat.leb_spec (length a) (length a + length r)); [|lia].
  now rewrite firstn_app, firstn_all, Nat.sub_diag, app_nil_r, skipn_app, skipn_all, Nat.sub_diag.
Qed.

(* reading back what was parsed gives the tokens that were consumed *)
Lemma parse_cfg_tokens l k ts g r : parse_cfg l k ts = Some (g, r) -> ts = cfg_tokens g ++ r.
Proof.
  destruct l; cbn [parse_cfg]; intros E;
    repeat match type of E with
           | match takeN ?n ?x with _ => _ end = _ => let H := fresh "T" in destruct (takeN n x) as [[? ?]|] eqn:H; [apply takeN_spec in H; destruct H as [-> _]|discriminate]
           end;
    injection E as <- <-; cbn [cfg_tokens]; rewrite <- ?app_assoc; reflexivity.
Qed.
Lemma parse_prim_tokens p ts d r : parse_prim p ts = Some (d, r) -> ts = prim_tokens d ++ r.
Proof.
  destruct p; cbn [parse_prim]; intros E.
  - destruct ts as [|len ts]; [discriminate|].
    destruct (takeN (Z.to_nat len * m) ts) as [[a b]|] eqn:T; [|discriminate]. apply takeN_spec in T. destruct T as [-> _].
    injection E as <- <-. reflexivity.
  - destruct (takeN m ts) as [[a b]|] eqn:T; [|discriminate]. apply takeN_spec in T. destruct T as [-> _].
    injection E as <- <-. reflexivity.
  - injection E as <- <-. reflexivity.
  - injection E as <- <-. reflexivity.
Qed.

Theorem configs_of_constructed ls p : forall ts gs d r, parse_layers ls p ts = Some (gs, d, r) ->
  ts = fld_tokens gs d ++ r /\ length gs = length ls.
Proof.
  induction ls as [|l ls IH]; intros ts gs d r E; cbn [parse_layers] in E.
  - destruct (parse_prim p ts) as [[d0 r0]|] eqn:P; [|discriminate]. injection E as <- <- <-.
    split; [exact (parse_prim_tokens _ _ _ _ P)|reflexivity].
  - destruct (kind_of_layers ls p) as [k|]; [|discriminate].
    destruct (parse_cfg l k ts) as [[g r0]|] eqn:C; [|discriminate].
    destruct (parse_layers ls p r0) as [[[gs0 d0] r1]|] eqn:R; [|discriminate]. injection E as <- <- <-.
    destruct (IH _ _ _ _ R) as [-> Hl]. rewrite (parse_cfg_tokens _ _ _ _ _ C).
    unfold fld_tokens. cbn [map concat length]. rewrite <- !app_assoc. split; [reflexivity|now rewrite Hl].
Qed.

(* the i-th configuration group read back is the one given for the i-th layer from the outside *)
Theorem config_positions f i : (i < length (f_cfgs f))%nat ->
  nth i (fld_cfg_groups f) [] = cfg_tokens (nth i (f_cfgs f) CUnit).
Proof.
  intros H. unfold fld_cfg_groups. rewrite app_nth1 by (now rewrite map_length).
  rewrite (nth_indep _ [] (cfg_tokens CUnit)) by (now rewrite map_length). apply map_nth.
Qed.
Theorem config_groups_cover f : concat (fld_cfg_groups f) = concat (map cfg_tokens (f_cfgs f)) ++ prim_cfg_tokens (f_prim f).
Proof. unfold fld_cfg_groups. rewrite concat_app. cbn [concat]. now rewrite app_nil_r. Qed.

(* shapes: what makes a configuration list acceptable to a stack *)
Definition cfg_shape (l : layer) (k : kind) (g : cfg) : bool :=
  match l, g with
  | LStrided n _, CSizes s | LMorton n _ _, CSizes s => (length s =? n)%nat
  | LHilbert _, CSizes s => (length s =? 2)%nat
  | LClamp, CBox lo hi => (length lo =? k_n k)%nat && (length hi =? k_n k)%nat
  | LBackup, CBackup lo hi d => (length lo =? k_n k)%nat && (length hi =? k_n k)%nat && (length d =? k_m k)%nat
  | LAffine, CAffine m => (length m =? k_n k * S (k_n k))%nat
  | LShuffle _, CUnit | LCast _, CUnit | LDeref, CUnit | LLinear _, CUnit | LNearest _, CUnit => true
  | _, _ => false
  end.
Definition prim_shape (p : prim) (d : pdat) : bool :=
  match p, d with
  | PArray m _, DArray len data => (0 <=? len) && (length data =? Z.to_nat len * m)%nat
  | PConstant _ _ m _, DConst v => (length v =? m)%nat
  | PIdentity _ _, DIdent | PProbe _ _ _ _, DIdent => true
  | _, _ => false
  end.
Fixpoint shapes (ls : list layer) (p : prim) (gs : list cfg) (d : pdat) : bool :=
  match ls, gs with
  | [], [] => prim_shape p d
  | l :: ls', g :: gs' => match kind_of_layers ls' p with Some k => cfg_shape l k g && shapes ls' p gs' d | None => false end
  | _, _ => false
  end.

Lemma parse_cfg_of_tokens l k g r : cfg_shape l k g = true -> parse_cfg l k (cfg_tokens g ++ r) = Some (g, r).
Proof.
  destruct l; destruct g; cbn [cfg_shape parse_cfg cfg_tokens]; try discriminate; intros H;
    repeat match goal with H : _ && _ = true |- _ => apply andb_prop in H; destruct H end;
    rewrite <- ?app_assoc;
    repeat (rewrite takeN_app by (apply Nat.eqb_eq; assumption)); reflexivity.
Qed.
Lemma parse_prim_of_tokens p d r : prim_shape p d = true -> parse_prim p (prim_tokens d ++ r) = Some (d, r).
Proof.
  destruct p; destruct d; cbn [prim_shape parse_prim prim_tokens app]; try discriminate; intros H; try reflexivity.
  - apply andb_prop in H. destruct H as [_ H]. rewrite takeN_app by (apply Nat.eqb_eq; assumption). reflexivity.
  - rewrite takeN_app by (apply Nat.eqb_eq; assumption). reflexivity.
Qed.

(* a field rebuilt from the configurations (and storage) read back IS the original field *)
Theorem rebuild_from_configs ls p : forall gs d r, shapes ls p gs d = true ->
  parse_layers ls p (fld_tokens gs d ++ r) = Some (gs, d, r).
Proof.
  induction ls as [|l ls IH]; intros gs d r H.
  - destruct gs; [|discriminate]. cbn [shapes parse_layers fld_tokens map concat app] in *.
    now rewrite parse_prim_of_tokens.
  - destruct gs as [|g gs]; [discriminate|]. cbn [shapes parse_layers] in *.
    destruct (kind_of_layers ls p) as [k|]; [|discriminate]. apply andb_prop in H. destruct H as [Hg Hr].
    unfold fld_tokens. cbn [map concat]. rewrite <- !app_assoc. rewrite parse_cfg_of_tokens by assumption.
    fold (fld_tokens gs d). rewrite app_assoc. fold (fld_tokens gs d). rewrite (IH gs d r Hr). reflexivity.
Qed.
