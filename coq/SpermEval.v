(* SpermEval.v -- C20: an evaluator for the little type language of gen/Gen_StaticPerm.v, giving the equations read from
   static_permutation.hpp an executable meaning (template instantiation by first matching specialisation, pattern variables
   bound in declaration order), and a BOUNDED validation -- a test, not a theorem -- that evaluating
   sort_index_sequence<...> with the source's equations yields StaticPerm.sort on every sequence over {0..3} of length <= 5.
   The unbounded statements of C20 are about StaticPerm.v; Refine_StaticPerm ties its equations to the source's one for one;
   this file checks that the reading of the type language used there computes what the model computes. *)
From Coq Require Import String List Arith NArith Bool.
From Covfie Require Import StaticPerm.
From Covfie.gen Require Import Gen_StaticPerm.
Import ListNotations.
Local Open Scope string_scope.

Inductive value := VS (n : N) | VL (l : list N).
Definition env := list (string * value).
Fixpoint lookup (e : env) (x : string) : option value :=
  match e with [] => None | (y, v) :: r => if String.eqb x y then Some v else lookup r x end.

(* bind the pattern variables of one specialisation, in declaration order, against the argument values *)
Fixpoint bind (pats : list pat) (names : list string) (args : list value) : option env :=
  match pats, args with
  | [], [] => Some []
  | PConst :: ps, VS n :: vs =>
      match names with x :: ns => option_map (cons (x, VS n)) (bind ps ns vs) | [] => None end
  | PNil :: ps, VL [] :: vs => bind ps names vs
  | PCons 1 :: ps, VL (h :: t) :: vs =>
      match names with x :: xs :: ns => option_map (fun e => (x, VS h) :: (xs, VL t) :: e) (bind ps ns vs) | _ => None end
  | PAny :: ps, VL l :: vs =>
      match names with xs :: ns => option_map (cons (xs, VL l)) (bind ps ns vs) | [] => None end
  | _, _ => None
  end.

Definition cmp (op : string) (a b : N) : bool :=
  if String.eqb op "<" then N.ltb a b else if String.eqb op ">=" then N.leb b a
  else if String.eqb op "<=" then N.leb a b else N.ltb b a.

Section Eval.
  Variable eqs : list (string * list pat * ty * list string).

  Fixpoint eval (fuel : nat) (e : env) (t : ty) : option (list N) :=
    match fuel with
    | O => None
    | S f =>
        match t with
        | TSeq els =>
            fold_right (fun x acc => match lookup e x, acc with
                                     | Some (VS n), Some l => Some (n :: l)
                                     | Some (VL l'), Some l => Some (l' ++ l)%list
                                     | _, _ => None end) (Some []) els
        | TConst _ => None
        | TConcat a b => match eval f e a, eval f e b with Some x, Some y => Some (x ++ y)%list | _, _ => None end
        | TCond op a b t1 t2 =>
            match lookup e a, lookup e b with
            | Some (VS x), Some (VS y) => if cmp op x y then eval f e t1 else eval f e t2
            | _, _ => None
            end
        | TCall fn args =>
            let vals := map (fun a => match a with
                                      | TConst n => lookup e n
                                      | _ => option_map VL (eval f e a) end) args in
            if forallb (fun v => match v with Some _ => true | None => false end) vals then
              let vs := flat_map (fun v => match v with Some x => [x] | None => [] end) vals in
              (fix pick (l : list (string * list pat * ty * list string)) : option (list N) :=
                 match l with
                 | [] => None
                 | (g, ps, rhs, names) :: r =>
                     if String.eqb g fn then
                       match bind ps names vs with Some e' => eval f e' rhs | None => pick r end
                     else pick r
                 end) eqs
            else None
        end
    end.
End Eval.

Definition source_eqs : list (string * list pat * ty * list string) :=
  map (fun '((g, ps, rhs), names) => (g, ps, rhs, names)) (combine sp_equations sp_params).

Definition sort_by_source (l : list N) : option (list N) :=
  eval source_eqs (40 + 12 * length l * length l) [("X...", VL l)] (TCall "sort_index_sequence" [TSeq ["X..."]]).

Fixpoint all_seqs (alphabet : list N) (len : nat) : list (list N) :=
  match len with O => [[]] | S k => flat_map (fun s => map (fun a => a :: s) alphabet) (all_seqs alphabet k) end.
Definition up_to (alphabet : list N) (len : nat) : list (list N) := flat_map (all_seqs alphabet) (seq 0 (S len)).

(* a TEST over a finite domain: every sequence over {0,1,2,3} of length <= 5 (1365 sequences) *)
Example source_equations_compute_the_model_sort_bounded :
  forallb (fun l => match sort_by_source l with Some r => if list_eq_dec N.eq_dec r (sort l) then true else false | None => false end)
          (up_to [0; 1; 2; 3]%N 5) = true.
Proof. vm_compute. reflexivity. Qed.
