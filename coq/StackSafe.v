(* StackSafe.v -- clamping in front of array storage (C10's second clause). *)
From Coq Require Import ZArith List Bool Lia ZifyBool.
From Covfie Require Import Layout Stack StackProofs FloatOps StackFloat.
Import ListNotations.
Local Open Scope Z_scope.

Lemma clamp1_int t v lo hi : is_float t = false -> lo <= hi ->
  lo <= clamp1 flocq_ops t v lo hi <= hi.
Proof.
  intros Ht H. unfold clamp1. rewrite !(flocq_lt_int t) by assumption.
  destruct (Z.ltb_spec v lo); [lia|]. destruct (Z.ltb_spec hi v); lia.
Qed.

Lemma clamped_in_box t : is_float t = false -> forall c lo hi sizes,
  length lo = length c -> length hi = length c -> length sizes = length c ->
  Forall2 (fun l h => 0 <= l <= h) lo hi -> Forall2 (fun h s => h < s) hi sizes ->
  in_boxb (map3 (clamp1 flocq_ops t) c lo hi) sizes = true /\ in_box sizes (map3 (clamp1 flocq_ops t) c lo hi).
Proof.
  intros Ht. induction c as [|x c IH]; intros [|l lo] [|h hi] [|s sizes] Hl Hh Hs B1 B2; cbn [length] in *; try lia.
  - cbn. split; [reflexivity|constructor].
  - inversion B1 as [|? ? ? ? P1 R1]; subst. inversion B2 as [|? ? ? ? P2 R2]; subst.
    destruct (IH lo hi sizes) as [I1 I2]; try lia; try assumption.
    pose proof (clamp1_int t x l h Ht ltac:(lia)) as C.
    cbn [map3 in_boxb]. split.
    + rewrite I1. lia.
    + constructor; [lia|exact I2].
Qed.

Theorem clamp_safe_over_array t tc sizes lo hi (b : query) c : is_float t = false ->
  length lo = length c -> length hi = length c -> length sizes = length c ->
  Forall2 (fun l h => 0 <= l <= h) lo hi -> Forall2 (fun h s => h < s) hi sizes ->
  exists c', clamp_at flocq_ops t lo hi (strided_at tc sizes b) c = b [wrap_sty tc (rowmajor sizes c')] /\
             0 <= rowmajor sizes c' < zprod sizes.
Proof.
  intros Ht Hl Hh Hs B1 B2. exists (map3 (clamp1 flocq_ops t) c lo hi).
  destruct (clamped_in_box t Ht c lo hi sizes Hl Hh Hs B1 B2) as [I1 I2].
  split; [|now apply rowmajor_range]. unfold clamp_at, strided_at. now rewrite I1.
Qed.
