(* StackSafe.v -- clamping in front of array storage (C10's second clause). *)
From Coq Require Import ZArith List Bool Lia ZifyBool.
From Covfie Require Import Numeric Layout Hilbert LayoutMem Stack StackProofs FloatOps StackFloat.
Import ListNotations.
Local Open Scope Z_scope.

Lemma clamp1_int t v lo hi : is_float t = false -> lo <= hi ->
  lo <= clamp1 flocq_ops t v lo hi <= hi.
Proof.
  intros Ht H. unfold clamp1. rewrite !(flocq_lt_int t) by assumption.
  destruct (Z.ltb_spec v lo); [lia|]. destruct (Z.ltb_spec hi v); lia.
Qed.

Lemma clamped_in_box t : is_float t = false -> forall c lo hi sizes,
  length lo = length c -> length hi = length c -> length sizes = length c ->
  Forall2 (fun l h => 0 <= l <= h) lo hi -> Forall2 (fun h s => h < s) hi sizes ->
  in_boxb (map3 (clamp1 flocq_ops t) c lo hi) sizes = true /\ in_box sizes (map3 (clamp1 flocq_ops t) c lo hi).
Proof.
  intros Ht. induction c as [|x c IH]; intros [|l lo] [|h hi] [|s sizes] Hl Hh Hs B1 B2; cbn [length] in *; try lia.
  - cbn. split; [reflexivity|constructor].
  - inversion B1 as [|? ? ? ? P1 R1]; subst. inversion B2 as [|? ? ? ? P2 R2]; subst.
    destruct (IH lo hi sizes) as [I1 I2]; try lia; try assumption.
    pose proof (clamp1_int t x l h Ht ltac:(lia)) as C.
    cbn [map3 in_boxb]. split.
    + rewrite I1. lia.
    + constructor; [lia|exact I2].
Qed.

Theorem clamp_safe_over_array t tc sizes lo hi (b : query) c : is_float t = false ->
  length lo = length c -> length hi = length c -> length sizes = length c ->
  Forall2 (fun l h => 0 <= l <= h) lo hi -> Forall2 (fun h s => h < s) hi sizes ->
  exists c', clamp_at flocq_ops t lo hi (strided_at tc sizes b) c = b [wrap_sty tc (rowmajor sizes c')] /\
             0 <= rowmajor sizes c' < zprod sizes.
Proof.
  intros Ht Hl Hh Hs B1 B2. exists (map3 (clamp1 flocq_ops t) c lo hi).
  destruct (clamped_in_box t Ht c lo hi sizes Hl Hh Hs B1 B2) as [I1 I2].
  split; [|now apply rowmajor_range]. unfold clamp_at, strided_at. now rewrite I1.
Qed.

(* ---- an interpolator ABOVE the clamp: every one of its 2^N (resp. one) neighbour queries is answered from
   inside the storage, for EVERY coordinate the interpolator can convert to the index type ---- *)
Section Beneath.
  Variables (t tc : sty) (sizes lo hi : list Z) (m : nat) (data : list Z).
  Hypothesis Ht : is_float t = false.
  Hypothesis Hlo : length lo = length sizes.
  Hypothesis Hhi : length hi = length sizes.
  Hypothesis B1 : Forall2 (fun l h => 0 <= l <= h) lo hi.
  Hypothesis B2 : Forall2 (fun h s => h < s) hi sizes.
  (* the storage is addressable by the index type of the row-major layer *)
  Hypothesis Haddr : forall z, 0 <= z < zprod sizes -> wrap_sty tc z = z.

  Definition storage : query := array_at m (zprod sizes) data.
  Definition clamped_storage : query := clamp_at flocq_ops t lo hi (strided_at tc sizes storage).
  Definition in_storage (i : Z) : Prop := 0 <= i < zprod sizes.

  Lemma clamped_cell c : length c = length sizes ->
    exists i v, clamped_storage c = Some ([i], v) /\ in_storage i.
  Proof.
    intros Hc. destruct (clamp_safe_over_array t tc sizes lo hi storage c Ht) as [c' [E R]]; try congruence; try assumption.
    exists (rowmajor sizes c'), (firstn m (skipn (Z.to_nat (rowmajor sizes c') * m) data)).
    split; [|exact R]. unfold clamped_storage. rewrite E, (Haddr _ R). unfold storage, array_at.
    destruct (Z.leb_spec 0 (rowmajor sizes c')); [|lia]. destruct (Z.ltb_spec (rowmajor sizes c') (zprod sizes)); [|lia]. reflexivity.
  Qed.

  Lemma gather_cells (cs : list (list Z)) : Forall (fun c => length c = length sizes) cs ->
    exists tr vals, gather clamped_storage cs = Some (tr, vals) /\ Forall in_storage tr.
  Proof.
    induction 1 as [|c cs Hc _ [tr [vals [G F]]]]; cbn [gather].
    - exists [], []. split; [reflexivity|constructor].
    - destruct (clamped_cell c Hc) as [i [v [E R]]]. rewrite E, G.
      exists ([i] ++ tr), (v :: vals). split; [reflexivity|]. constructor; assumption.
  Qed.

  Lemma corner_lengths (special : bool) tidx (is_ : list Z) (ns : list nat) :
    Forall (fun c => length c = length is_) (map (if special then corner_special tidx is_ else corner_generic tidx is_) ns).
  Proof.
    apply Forall_forall. intros c Hin. apply in_map_iff in Hin as [n [<- _]].
    destruct special; unfold corner_special, corner_generic; now rewrite map_length, combine_length, seq_length, Nat.min_id.
  Qed.

  Theorem linear_over_clamp_safe tcoord tv (c : list Z) : length c = length sizes ->
    forallb (conv_defined flocq_ops tcoord t) c = true ->
    exists tr vs, linear_at flocq_ops tcoord t tv clamped_storage c = Some (tr, vs) /\ Forall in_storage tr.
  Proof.
    intros Hc Hd. unfold linear_at. cbv zeta. rewrite Hd. cbn [negb].
    match goal with |- context [gather clamped_storage ?cs] => set (corners := cs) end.
    assert (L : Forall (fun c0 => length c0 = length sizes) corners).
    { unfold corners. eapply Forall_impl; [|apply corner_lengths]. cbn beta. intros a E. now rewrite E, map_length. }
    destruct (gather_cells corners L) as [tr [vals [G F]]]. rewrite G. eexists; eexists. split; [reflexivity|exact F].
  Qed.

  Theorem nearest_over_clamp_safe tcoord (c : list Z) : length c = length sizes ->
    forallb (fun x => s_finite flocq_ops tcoord x && sty_range I64 (f_lrint flocq_ops tcoord x)) c = true ->
    exists i v, nearest_at flocq_ops tcoord t clamped_storage c = Some ([i], v) /\ in_storage i.
  Proof.
    intros Hc Hd. unfold nearest_at. rewrite Hd. apply clamped_cell. now rewrite map_length.
  Qed.
End Beneath.

(* ---- the same over Morton and Hilbert storage: the clamped coordinate lies in the box, hence its curve position lies in
   the padded storage the library allocates for that layer (curve_cap = ipow(round_pow2(max extent), N)) ---- *)
Lemma map_mod_id_in_box (sizes c : list Z) : in_box sizes c -> (forall s, In s sizes -> s <= 2 ^ 64) ->
  map (fun x => x mod 2 ^ 64) c = c.
Proof.
  intros H. induction H as [|x s c ss [Hx0 Hxs] _ IH]; intros Hs; cbn [map]; [reflexivity|].
  rewrite Z.mod_small by (specialize (Hs s (or_introl eq_refl)); lia).
  f_equal. apply IH. intros s' Hin. apply Hs. now right.
Qed.

Theorem clamp_safe_over_morton t (sizes lo hi : list Z) (b : query) c : is_float t = false ->
  length lo = length c -> length hi = length c -> length sizes = length c -> (0 < length sizes)%nat ->
  Forall2 (fun l h => 0 <= l <= h) lo hi -> Forall2 (fun h s => h < s) hi sizes ->
  curve_bits sizes <= 64 / Z.of_nat (length sizes) ->
  exists c', clamp_at flocq_ops t lo hi (morton_at (length sizes) sizes b) c
               = b [morton (length sizes) (Z.to_nat (64 / Z.of_nat (length sizes))) c'] /\
             0 <= morton (length sizes) (Z.to_nat (64 / Z.of_nat (length sizes))) c' < curve_cap sizes.
Proof.
  intros Ht Hl Hh Hs HN B1 B2 Hfit. exists (map3 (clamp1 flocq_ops t) c lo hi).
  destruct (clamped_in_box t Ht c lo hi sizes Hl Hh Hs B1 B2) as [I1 I2].
  assert (Hb : curve_bits sizes <= Z.of_nat (Z.to_nat (64 / Z.of_nat (length sizes)))).
  { rewrite Z2Nat.id; [exact Hfit|]. apply Z.div_pos; lia. }
  split.
  - unfold clamp_at, morton_at. rewrite I1. f_equal. f_equal. f_equal.
    apply (map_mod_id_in_box sizes); [exact I2|].
    intros s Hin. pose proof (zmax_ge sizes s Hin) as Hm.
    assert (zmax sizes <= 2 ^ curve_bits sizes).
    { unfold curve_bits. destruct (Z.le_gt_cases (zmax sizes) 1) as [Hz|Hz].
      - assert (0 < 2 ^ Z.log2_up (zmax sizes)) by (apply Z.pow_pos_nonneg; [lia|apply Z.log2_up_nonneg]). lia.
      - apply Z.log2_up_spec in Hz. lia. }
    assert (2 ^ curve_bits sizes <= 2 ^ 64).
    { apply Z.pow_le_mono_r; [lia|]. apply Z.le_trans with (64 / Z.of_nat (length sizes)); [exact Hfit|].
      apply Z.div_le_upper_bound; lia. }
    lia.
  - apply (morton_layout_range sizes _ HN Hb). exact I2.
Qed.

Theorem clamp_safe_over_hilbert t (sx sy : Z) (lo hi : list Z) (b : query) c : is_float t = false ->
  length lo = length c -> length hi = length c -> length c = 2%nat ->
  Forall2 (fun l h => 0 <= l <= h) lo hi -> Forall2 (fun h s => h < s) hi [sx; sy] ->
  exists x y, clamp_at flocq_ops t lo hi (hilbert_at [sx; sy] b) c = b [Hl (Z.to_nat (curve_bits [sx; sy])) x y] /\
              0 <= Hl (Z.to_nat (curve_bits [sx; sy])) x y < curve_cap [sx; sy].
Proof.
  intros Ht Hl Hh Hc B1 B2.
  destruct (clamped_in_box t Ht c lo hi [sx; sy] Hl Hh (eq_sym Hc) B1 B2) as [I1 I2].
  destruct (hilbert_dom sx sy _ I2) as (x & y & E & _ & _).
  pose proof (hilbert_layout_range sx sy _ I2) as R. rewrite E in R. cbn [hidx] in R.
  exists x, y. split; [|exact R].
  unfold clamp_at, hilbert_at. rewrite E in *. now rewrite I1.
Qed.
