(* Stack.v -- deep embedding of covfie's layer grammar and a reference interpreter.

   A stack is a list of layers (outermost first) over a primitive backend.  Scalars are [Z]:
   integer types hold their value, float / double hold the unsigned value of their IEEE bit
   pattern; what the arithmetic on them means is a parameter ([sops]) so that everything that
   does not compute in floating point is independent of Flocq (FloatOps.v instantiates it).

   [eval] returns the list of storage cells the lookup reads (its footprint, used by C11 and C16)
   together with the output vector; [None] stands for "outside the documented domain"
   (out-of-range storage access, dimension mismatch). *)
From Coq Require Import ZArith List Bool Lia.
From Covfie Require Import Numeric Layout Hilbert LayoutMem LinearCore AlgebraCore.
Import ListNotations.
Local Open Scope Z_scope.

Inductive sty := F32 | F64 | I32 | U32 | I64 | U64.
Definition is_float (t : sty) : bool := match t with F32 | F64 => true | _ => false end.
Definition sty_eqb (a b : sty) : bool :=
  match a, b with
  | F32, F32 | F64, F64 | I32, I32 | U32, U32 | I64, I64 | U64, U64 => true
  | _, _ => false
  end.
Definition sty_bytes (t : sty) : Z := match t with F32 | I32 | U32 => 4 | _ => 8 end.

Inductive prim :=
| PArray (m : nat) (t : sty)                          (* array<vector_d<t,m>> : one flat index -> m x t, by reference *)
| PConstant (n : nat) (tc : sty) (m : nat) (tv : sty)  (* constant<vector_d<tc,n>, vector_d<tv,m>> *)
| PIdentity (n : nat) (t : sty)                       (* identity<vector_d<t,n>> *)
| PProbe (n : nat) (tc : sty) (m : nat) (tv : sty).   (* harness probe backend: records every coordinate it is asked for, returns a hash of it *)

Inductive layer :=
| LStrided (n : nat) (tc : sty)
| LMorton (n : nat) (tc : sty) (bmi : bool)
| LHilbert (tc : sty)
| LClamp | LBackup | LShuffle (p : list nat) | LAffine | LCast (t : sty) | LDeref
| LLinear (tc : sty) | LNearest (tc : sty).

Definition stack := (list layer * prim)%type.

(* ------------------------------------------------------------------ kinds *)
Record kind := { k_n : nat; k_tc : sty; k_m : nat; k_tv : sty; k_ref : bool; k_scalar : bool }.

Definition prim_kind (p : prim) : option kind :=
  match p with
  | PArray m t => if is_float t && (0 <? m)%nat then Some {| k_n := 1; k_tc := U64; k_m := m; k_tv := t; k_ref := true; k_scalar := true |} else None
  | PConstant n tc m tv => if (0 <? n)%nat && (0 <? m)%nat then Some {| k_n := n; k_tc := tc; k_m := m; k_tv := tv; k_ref := false; k_scalar := false |} else None
  | PIdentity n t => if (0 <? n)%nat then Some {| k_n := n; k_tc := t; k_m := n; k_tv := t; k_ref := false; k_scalar := false |} else None
  | PProbe n tc m tv => if (0 <? n)%nat && (0 <? m)%nat then Some {| k_n := n; k_tc := tc; k_m := m; k_tv := tv; k_ref := false; k_scalar := false |} else None
  end.

Definition is_perm_of_range (p : list nat) (n : nat) : bool :=
  (length p =? n)%nat && forallb (fun i => existsb (Nat.eqb i) p) (seq 0 n).

Definition layer_kind (l : layer) (k : kind) : option kind :=
  match l with
  | LStrided n tc | LMorton n tc _ =>
      if (k_n k =? 1)%nat && negb (is_float tc) && (0 <? n)%nat
      then Some {| k_n := n; k_tc := tc; k_m := k_m k; k_tv := k_tv k; k_ref := k_ref k; k_scalar := false |} else None
  | LHilbert tc =>
      if (k_n k =? 1)%nat && negb (is_float tc)
      then Some {| k_n := 2; k_tc := tc; k_m := k_m k; k_tv := k_tv k; k_ref := k_ref k; k_scalar := false |} else None
  | LClamp => if k_scalar k then None else Some k
  | LBackup => if k_scalar k then None else Some {| k_n := k_n k; k_tc := k_tc k; k_m := k_m k; k_tv := k_tv k; k_ref := false; k_scalar := false |}
  | LShuffle p => if negb (k_scalar k) && is_perm_of_range p (k_n k) then Some k else None
  | LAffine => if negb (k_scalar k) && is_float (k_tc k) then Some k else None
  | LCast t => Some {| k_n := k_n k; k_tc := k_tc k; k_m := k_m k; k_tv := t; k_ref := false; k_scalar := k_scalar k |}
  | LDeref => Some {| k_n := k_n k; k_tc := k_tc k; k_m := k_m k; k_tv := k_tv k; k_ref := false; k_scalar := k_scalar k |}
  | LLinear tc =>
      if negb (k_scalar k) && negb (is_float (k_tc k)) && is_float tc && is_float (k_tv k)
      then Some {| k_n := k_n k; k_tc := tc; k_m := k_m k; k_tv := k_tv k; k_ref := false; k_scalar := false |} else None
  | LNearest tc =>
      if negb (k_scalar k) && negb (is_float (k_tc k)) && is_float tc
      then Some {| k_n := k_n k; k_tc := tc; k_m := k_m k; k_tv := k_tv k; k_ref := k_ref k; k_scalar := false |} else None
  end.

Fixpoint kind_of_layers (ls : list layer) (p : prim) : option kind :=
  match ls with
  | [] => prim_kind p
  | l :: r => match kind_of_layers r p with Some k => layer_kind l k | None => None end
  end.
Definition kind_of (s : stack) : option kind := kind_of_layers (fst s) (snd s).

(* ------------------------------------------------------------------ configurations and data *)
Inductive cfg :=
| CSizes (s : list Z)
| CBox (lo hi : list Z)
| CBackup (lo hi dflt : list Z)
| CAffine (m : list Z)            (* N x (N+1), row-major *)
| CUnit.

Inductive pdat :=
| DArray (len : Z) (data : list Z)   (* len cells of m scalars, flat, storage order *)
| DConst (v : list Z)
| DIdent.

Record fld := { f_cfgs : list cfg; f_prim : pdat }.

(* ------------------------------------------------------------------ scalar operations *)
Record sops := {
  s_lt : sty -> Z -> Z -> bool;          (* a < b at type t; floats: IEEE order, NaN excluded *)
  s_conv : sty -> sty -> Z -> Z;         (* static_cast<to>(v : from) *)
  f_add : sty -> Z -> Z -> Z;
  f_sub : sty -> Z -> Z -> Z;
  f_mul : sty -> Z -> Z -> Z;
  f_trunc : sty -> Z -> Z;               (* std::trunc *)
  f_lrint : sty -> Z -> Z;               (* std::lrint at the argument's own precision -> long *)
  f_of_Z : sty -> Z -> Z;                (* the float with that integer value (small integers) *)
  s_finite : sty -> Z -> bool;           (* neither infinite nor NaN (integers: always) *)
  f_toZ : sty -> Z -> Z                  (* the value truncated toward zero, as an unbounded integer *)
}.

(* representable in an integer type *)
Definition sty_range (t : sty) (z : Z) : bool :=
  match t with
  | U64 => (0 <=? z) && (z <? 2 ^ 64) | U32 => (0 <=? z) && (z <? 2 ^ 32)
  | I64 => (- 2 ^ 63 <=? z) && (z <? 2 ^ 63) | I32 => (- 2 ^ 31 <=? z) && (z <? 2 ^ 31)
  | _ => true
  end.

(* every coordinate inside the extents: the documented domain of the storage-order layers (their
   assert(c[i] < m_sizes[i]), with a negative signed coordinate converting to a huge unsigned one) *)
Fixpoint in_boxb (c sizes : list Z) : bool :=
  match c, sizes with
  | x :: c', s :: ss => (0 <=? x) && (x <? s) && in_boxb c' ss
  | [], [] => true
  | _, _ => false
  end.

Section Eval.
  Variable ops : sops.

  Definition query := list Z -> option (list Z * list Z).   (* coordinate -> (cells read, value) *)

  (* std::clamp(v, lo, hi) = (v < lo) ? lo : (hi < v) ? hi : v *)
  Definition clamp1 (t : sty) (v lo hi : Z) : Z :=
    if s_lt ops t v lo then lo else if s_lt ops t hi v then hi else v.

  Fixpoint map3 {A} (f : Z -> Z -> Z -> A) (a b c : list Z) : list A :=
    match a, b, c with
    | x :: a', y :: b', z :: c' => f x y z :: map3 f a' b' c'
    | _, _, _ => []
    end.

  Fixpoint outside (t : sty) (c lo hi : list Z) : bool :=
    match c, lo, hi with
    | x :: c', l :: lo', h :: hi' => s_lt ops t x l || s_lt ops t h x || outside t c' lo' hi'
    | _, _, _ => false
    end.

  Definition wrap_sty (t : sty) (z : Z) : Z :=
    match t with
    | U64 => z mod 2 ^ 64 | U32 => z mod 2 ^ 32
    | I64 => (z + 2 ^ 63) mod 2 ^ 64 - 2 ^ 63 | I32 => (z + 2 ^ 31) mod 2 ^ 32 - 2 ^ 31
    | _ => z
    end.

  (* ---- layers, each a function of an arbitrary backend [b] ---- *)
  Definition strided_at (tc : sty) (sizes : list Z) (b : query) : query :=
    fun c => if in_boxb c sizes then b [wrap_sty tc (rowmajor sizes c)] else None.
  Definition morton_at (n : nat) (sizes : list Z) (b : query) : query :=
    fun c => if in_boxb c sizes
             then b [morton n (Z.to_nat (64 / Z.of_nat n)) (map (fun x => x mod 2 ^ 64) c)] else None.
  Definition hilbert_at (sizes : list Z) (b : query) : query :=
    fun c => match c with
             | [x; y] => if in_boxb c sizes then b [Hl (Z.to_nat (curve_bits sizes)) x y] else None
             | _ => None
             end.
  Definition clamp_at (t : sty) (lo hi : list Z) (b : query) : query :=
    fun c => b (map3 (clamp1 t) c lo hi).
  Definition backup_at (t : sty) (lo hi dflt : list Z) (b : query) : query :=
    fun c => if outside t c lo hi then Some ([], dflt) else b c.
  Definition shuffle_at (p : list nat) (b : query) : query :=
    fun c => b (map (fun i => nth i c 0) p).
  Definition deref_at (b : query) : query := b.
  (* a float -> integer static_cast is defined only when the truncated value is representable *)
  Definition conv_defined (from to : sty) (v : Z) : bool :=
    if is_float from && negb (is_float to) then s_finite ops from v && sty_range to (f_toZ ops from v) else true.
  (* covariant_cast::at evaluates m_backend.at(c)[Is] once PER OUTPUT COMPONENT *)
  Definition cast_at (from to : sty) (b : query) : query :=
    fun c => match b c with
             | Some (tr, v) => if forallb (conv_defined from to) v
                               then Some (concat (map (fun _ => tr) v), map (s_conv ops from to) v) else None
             | None => None
             end.

  (* affine: v' = A * (v ++ [1]) with the summation order of algebra/matrix.hpp:
     t = 0; for k: t += A(i,k) * r(k) *)
  (* the dot product of matrix.hpp (t = 0; t += a * x), shared with AlgebraProofs.v through AlgebraCore *)
  Definition dot (t : sty) (acc : Z) (row r : list Z) : Z := AlgebraCore.dot (f_add ops t) (f_mul ops t) acc row r.
  Fixpoint rows (n : nat) (w : nat) (m : list Z) : list (list Z) :=
    match n with O => [] | S n' => firstn w m :: rows n' w (skipn w m) end.
  Definition affine_apply (t : sty) (m : list Z) (c : list Z) : list Z :=
    let n := length c in
    let r := c ++ [f_of_Z ops t 1] in
    map (fun row => dot t (f_of_Z ops t 0) row r) (rows n (S n) m).
  Definition affine_at (t : sty) (m : list Z) (b : query) : query :=
    fun c => b (affine_apply t m c).

  (* nearest neighbour: each component rounded with lrint at the coordinate's precision, then
     converted to the backend's index type *)
  Definition nearest_at (tc tidx : sty) (b : query) : query :=
    fun c => if forallb (fun x => s_finite ops tc x && sty_range I64 (f_lrint ops tc x)) c
             then b (map (fun x => s_conv ops I64 tidx (f_lrint ops tc x)) c) else None.

  (* linear interpolation.  Cell: i_k = static_cast<index>(x_k) (truncation), a_k = x_k - trunc x_k,
     ra_k = 1 - a_k.  Neighbours n in [0, 2^N).  Specialised branches (N = 1,2,3) enumerate with the
     FIRST axis on the most significant bit and sum  w_0*v_0 + w_1*v_1 + ... left to right with
     weights (ra|a)_0 * (ra|a)_1 * ... left to right; the generic branch uses bit k of n for axis k,
     starts from 0 and accumulates f * v with f = 1 * w_0 * w_1 ... *)

  Fixpoint gather (b : query) (cs : list (list Z)) : option (list Z * list (list Z)) :=
    match cs with
    | [] => Some ([], [])
    | c :: r => match b c, gather b r with
                | Some (t, v), Some (ts, vs) => Some (t ++ ts, v :: vs)
                | _, _ => None
                end
    end.

  (* bit [k] of [n], axes numbered from 0 *)
  Definition bitof (n k : nat) : bool := Nat.testbit n k.

  Definition corner_generic (tidx : sty) (is_ : list Z) (n : nat) : list Z :=
    map (fun '(k, i) => wrap_sty tidx (i + (if bitof n k then 1 else 0))) (combine (seq 0 (length is_)) is_).
  Definition corner_special (tidx : sty) (is_ : list Z) (n : nat) : list Z :=
    let N := length is_ in
    map (fun '(k, i) => wrap_sty tidx (i + (if bitof n (N - 1 - k) then 1 else 0))) (combine (seq 0 N) is_).

  (* the weights are LinearCore's, instantiated with the arithmetic of the coordinate type *)
  Definition weight_special (t : sty) (a ra : list Z) (n : nat) : Z :=
    LinearCore.weight_special (f_of_Z ops t 1) (f_mul ops t) a ra n.
  Definition weight_generic (t : sty) (a ra : list Z) (n : nat) : Z :=
    LinearCore.weight_generic (f_of_Z ops t 1) (f_mul ops t) a ra n.

  (* output component q from the 2^N corner values [vals] (each a vector of stored scalars) *)
  Definition linear_comp (tc tv : sty) (special : bool) (a ra : list Z) (vals : list (list Z)) (q : nat) : Z :=
    let ns := seq 0 (2 ^ length a) in
    let w := map (if special then weight_special tc a ra else weight_generic tc a ra) ns in
    let terms := map (fun '(wn, v) => f_mul ops tc wn (s_conv ops tv tc (nth q v 0))) (combine w vals) in
    if special then
      (* the whole expression is evaluated at the coordinate precision, then stored *)
      s_conv ops tc tv (LinearCore.sum_special (f_of_Z ops tc 0) (f_add ops tc) terms)
    else
      (* rv[q] = 0.f; rv[q] += f * v : the accumulator has the STORED type, each addition is done
         at the wider of the two types (usual arithmetic conversions) and stored back *)
      let common := if sty_eqb tc F64 || sty_eqb tv F64 then F64 else F32 in
      fold_left (fun acc term => s_conv ops common tv (f_add ops common (s_conv ops tv common acc) (s_conv ops tc common term)))
                terms (f_of_Z ops tv 0).

  Definition linear_at (tc tidx tv : sty) (b : query) : query :=
    fun c =>
      let N := length c in
      let is_ := map (s_conv ops tc tidx) c in
      let a := map (fun x => f_sub ops tc x (f_trunc ops tc x)) c in
      let ra := map (fun x => f_sub ops tc (f_of_Z ops tc 1) x) a in
      let special := (N <=? 3)%nat in
      let ns := seq 0 (2 ^ N) in
      let corners := map (if special then corner_special tidx is_ else corner_generic tidx is_) ns in
      if negb (forallb (conv_defined tc tidx) c) then None else
      match gather b corners with
      | None => None
      | Some (tr, vals) =>
          let M := match vals with v :: _ => length v | [] => O end in
          Some (tr, map (linear_comp tc tv special a ra vals) (seq 0 M))
      end.

  (* ---- primitives ---- *)
  Definition array_at (m : nat) (len : Z) (data : list Z) : query :=
    fun c => match c with
             | [i] => if (0 <=? i) && (i <? len)
                      then Some ([i], firstn m (skipn (Z.to_nat i * m) data)) else None
             | _ => None
             end.
  Definition constant_at (v : list Z) : query := fun _ => Some ([], v).
  Definition identity_at : query := fun c => Some ([], c).
  (* the probe: the trace is the coordinate itself (scalars as the case files carry them), the value a
     small hash of it, converted to the output scalar type *)
  Definition probe_hash (c : list Z) (j : nat) : Z :=
    (fold_left (fun acc '(k, x) => acc + (x mod 1009) * (2 * Z.of_nat k + 7)) (combine (seq 0 (length c)) c) 0
     + 5 * Z.of_nat j) mod 97.
  Definition probe_at (m : nat) (tv : sty) : query :=
    fun c => Some (c, map (fun j => f_of_Z ops tv (probe_hash c j)) (seq 0 m)).

  Definition prim_at (p : prim) (d : pdat) : query :=
    match p, d with
    | PArray m _, DArray len data => array_at m len data
    | PConstant _ _ _ _, DConst v => constant_at v
    | PIdentity _ _, DIdent => identity_at
    | PProbe _ _ m tv, DIdent => probe_at m tv
    | _, _ => fun _ => None
    end.

  (* one layer over a backend of kind [k] *)
  Definition layer_at (l : layer) (k : kind) (g : cfg) (b : query) : query :=
    match l, g with
    | LStrided _ tc, CSizes s => strided_at tc s b
    | LMorton n _ _, CSizes s => morton_at n s b
    | LHilbert _, CSizes s => hilbert_at s b
    | LClamp, CBox lo hi => clamp_at (k_tc k) lo hi b
    | LBackup, CBackup lo hi d => backup_at (k_tc k) lo hi d b
    | LShuffle p, CUnit => shuffle_at p b
    | LAffine, CAffine m => affine_at (k_tc k) m b
    | LCast t, CUnit => cast_at (k_tv k) t b
    | LDeref, CUnit => deref_at b
    | LLinear tc, CUnit => linear_at tc (k_tc k) (k_tv k) b
    | LNearest tc, CUnit => nearest_at tc (k_tc k) b
    | _, _ => fun _ => None
    end.

  (* the whole stack: layers outermost first, configurations in the same order *)
  Fixpoint eval_layers (ls : list layer) (p : prim) (gs : list cfg) (d : pdat) : query :=
    match ls, gs with
    | [], _ => prim_at p d
    | l :: ls', g :: gs' =>
        match kind_of_layers ls' p with
        | Some k => layer_at l k g (eval_layers ls' p gs' d)
        | None => fun _ => None
        end
    | _ :: _, [] => fun _ => None
    end.
  Definition eval (s : stack) (f : fld) : query := eval_layers (fst s) (snd s) (f_cfgs f) (f_prim f).
End Eval.
