(* BinIOProofs.v -- theorems about the byte format of BinIO.v (C06, C07, C08):
     load_dump        : the reader inverts the writer, on every stack and every well-formed field,
                        with any bytes following (so re-dumping the loaded field gives the same bytes)
     dump_total       : every well-kinded stack with a well-formed field is serialisable
     load_ok_reader   : the reader is a prefix-safe deterministic parser: when it accepts, it has
                        consumed an initial segment [used], accepts [used ++ anything] with the same
                        result, and rejects EVERY proper prefix of [used]
     prefix_rejected  : every proper prefix of a dump is rejected
     flip_rejected    : altering any magic / tag word, or setting the width word to anything but
                        4 or 8, is rejected. *)
From Coq Require Import ZArith List Bool Lia ZifyBool ZifyNat.
From Covfie Require Import Stack BinIO.
Import ListNotations.
Local Open Scope Z_scope.
Ltac Zify.zify_post_hook ::= Z.div_mod_to_equations.

(* ------------------------------------------------------------------ little-endian words *)
Lemma le_bytes_length n : forall v, length (le_bytes n v) = n.
Proof. induction n as [|n IH]; intros v; cbn [le_bytes length]; [reflexivity|now rewrite IH]. Qed.

Lemma le_value_bytes n : forall v, 0 <= v < 256 ^ Z.of_nat n -> le_value (le_bytes n v) = v.
Proof.
  induction n as [|n IH]; intros v Hv.
  - cbn in *. lia.
  - cbn [le_bytes le_value]. rewrite IH.
    + pose proof (Z.div_mod v 256). lia.
    + rewrite Nat2Z.inj_succ, Z.pow_succ_r in Hv by lia.
      split; [apply Z.div_pos; lia|]. apply Z.div_lt_upper_bound; lia.
Qed.

Definition is_byte (b : Z) : Prop := 0 <= b < 256.

Lemma le_bytes_bytes n : forall v, Forall is_byte (le_bytes n v).
Proof.
  induction n as [|n IH]; intros v; cbn [le_bytes]; constructor; [|apply IH].
  unfold is_byte. apply Z.mod_pos_bound. lia.
Qed.

Lemma le_value_range l : Forall is_byte l -> 0 <= le_value l < 256 ^ Z.of_nat (length l).
Proof.
  induction 1 as [|b r Hb _ IH]; cbn [le_value length]; [cbn; lia|].
  rewrite Nat2Z.inj_succ, Z.pow_succ_r by lia. unfold is_byte in Hb. lia.
Qed.

Lemma le_bytes_value l : Forall is_byte l -> le_bytes (length l) (le_value l) = l.
Proof.
  induction 1 as [|b r Hb Hr IH]; cbn [le_value length le_bytes]; [reflexivity|].
  unfold is_byte in Hb. pose proof (le_value_range r Hr) as R.
  clear R. f_equal; [lia|]. replace ((b + 256 * le_value r) / 256) with (le_value r) by lia. exact IH.
Qed.

Lemma le_value_inj l l' : Forall is_byte l -> Forall is_byte l' -> length l = length l' ->
  le_value l = le_value l' -> l = l'.
Proof.
  intros H H' Hl E. rewrite <- (le_bytes_value l H), <- (le_bytes_value l' H'). now rewrite E, Hl.
Qed.

(* ------------------------------------------------------------------ take / readers *)
Lemma take_app n (a tl : list Z) : length a = n -> take n (a ++ tl) = Good (a, tl).
Proof.
  intros <-. unfold take. rewrite app_length.
  destruct (Nat.leb_spec (length a) (length a + length tl)); [|lia].
  now rewrite firstn_app, firstn_all, Nat.sub_diag, app_nil_r, skipn_app, skipn_all, Nat.sub_diag.
Qed.

Lemma take_good n bs h r : take n bs = Good (h, r) -> bs = h ++ r /\ length h = n.
Proof.
  unfold take. destruct (Nat.leb_spec n (length bs)) as [H|H]; [|discriminate].
  intros E. inversion E; subst. split; [symmetry; apply firstn_skipn|]. now apply firstn_length_le.
Qed.

Lemma take_short n bs : (length bs < n)%nat -> take n bs = Bad ShortRead.
Proof. intros H. unfold take. destruct (Nat.leb_spec n (length bs)); [lia|reflexivity]. Qed.

Definition Reader (A : Type) := list Z -> result (A * list Z).

Definition sprefix (p u : list Z) : Prop := exists q, q <> [] /\ u = p ++ q.

(* the three facts that make prefix rejection compositional *)
Definition ok_reader {A} (r : Reader A) : Prop :=
  forall bs x rest, r bs = Good (x, rest) ->
  exists used, bs = used ++ rest /\
               (forall tl, r (used ++ tl) = Good (x, tl)) /\
               (forall p, sprefix p used -> exists e, r p = Bad e).

Lemma ok_ret {A} (x : A) : ok_reader (fun bs => Good (x, bs)).
Proof.
  intros bs y rest E. inversion E; subst. exists []. split; [reflexivity|]. split; [reflexivity|].
  intros p [q [Hq E']]. destruct p; destruct q; try discriminate; congruence.
Qed.

Lemma ok_take n : ok_reader (take n).
Proof.
  intros bs h rest E. destruct (take_good _ _ _ _ E) as [-> Hl].
  exists h. split; [reflexivity|]. split.
  - intros tl. now rewrite take_app.
  - intros p [q [Hq E']]. exists ShortRead. apply take_short. subst h. rewrite app_length in Hl.
    destruct q; [congruence|]. cbn [length] in Hl. lia.
Qed.

Lemma sprefix_app_cases (p u1 u2 : list Z) : sprefix p (u1 ++ u2) ->
  sprefix p u1 \/ exists p2, p = u1 ++ p2 /\ sprefix p2 u2.
Proof.
  intros [q [Hq E]]. revert p E. induction u1 as [|a u1 IH]; intros p E.
  - right. exists p. split; [reflexivity|]. exists q. auto.
  - destruct p as [|b p].
    + left. exists (a :: u1). split; [discriminate|reflexivity].
    + cbn in E. inversion E; subst b. destruct (IH p H1) as [[q' [Hq' E']]|[p2 [E' S]]].
      * left. exists q'. split; [assumption|]. cbn. now rewrite E'.
      * right. exists p2. split; [now rewrite E'|assumption].
Qed.

Lemma ok_bind {A B} (r : Reader A) (f : A -> Reader B) :
  ok_reader r -> (forall x, ok_reader (f x)) ->
  ok_reader (fun bs => rbind (r bs) (fun '(x, rest) => f x rest)).
Proof.
  intros Hr Hf bs y rest E. cbn beta in E.
  destruct (r bs) as [[x r1]|e] eqn:E1; cbn [rbind] in E; [|discriminate].
  destruct (Hr _ _ _ E1) as [u1 [-> [D1 P1]]].
  destruct (Hf x _ _ _ E) as [u2 [-> [D2 P2]]].
  exists (u1 ++ u2). split; [now rewrite app_assoc|]. split.
  - intros tl. cbn beta. rewrite <- app_assoc, D1. cbn [rbind]. apply D2.
  - intros p S. destruct (sprefix_app_cases _ _ _ S) as [S1|[p2 [-> S2]]].
    + destruct (P1 _ S1) as [e Ee]. exists e. cbn beta. now rewrite Ee.
    + destruct (P2 _ S2) as [e Ee]. exists e. cbn beta. rewrite D1. cbn [rbind]. exact Ee.
Qed.

(* a reader followed by a pure check *)
Lemma ok_guard {A B} (r : Reader A) (g : A -> result B) :
  ok_reader r ->
  ok_reader (fun bs => rbind (r bs) (fun '(x, rest) => match g x with Good y => Good (y, rest) | Bad e => Bad e end)).
Proof.
  intros Hr.
  assert (H : forall x, ok_reader (fun rest => match g x with Good y => Good (y, rest) | Bad e => Bad e end)).
  { intros x. destruct (g x) as [y|e]; [apply ok_ret|]. intros bs y rest E. discriminate. }
  exact (ok_bind r _ Hr H).
Qed.

Lemma ok_ext {A} (r r' : Reader A) : (forall bs, r bs = r' bs) -> ok_reader r -> ok_reader r'.
Proof.
  intros E H bs x rest E1. rewrite <- E in E1. destruct (H _ _ _ E1) as [u [-> [D P]]].
  exists u. split; [reflexivity|]. split.
  - intros tl. rewrite <- E. apply D.
  - intros p S. destruct (P p S) as [e Ee]. exists e. now rewrite <- E.
Qed.

Lemma ok_fail {A} (e : ioerr) : ok_reader (fun _ : list Z => @Bad (A * list Z) e).
Proof. intros bs x rest E. discriminate. Qed.

(* ---- the concrete readers ---- *)
Lemma ok_read_u32 : ok_reader read_u32.
Proof.
  unfold read_u32.
  apply (ok_ext (fun bs => rbind (take 4 bs) (fun '(x, rest) => match Good (le_value x) with Good y => Good (y, rest) | Bad e => Bad e end))).
  - intros bs. destruct (take 4 bs) as [[h r]|e]; reflexivity.
  - apply (ok_guard (take 4) (fun x => Good (le_value x))). apply ok_take.
Qed.
Lemma ok_read_u64 : ok_reader read_u64.
Proof.
  unfold read_u64.
  apply (ok_ext (fun bs => rbind (take 8 bs) (fun '(x, rest) => match Good (le_value x) with Good y => Good (y, rest) | Bad e => Bad e end))).
  - intros bs. destruct (take 8 bs) as [[h r]|e]; reflexivity.
  - apply (ok_guard (take 8) (fun x => Good (le_value x))). apply ok_take.
Qed.

Definition unit_reader (r : list Z -> result (list Z)) : Reader unit :=
  fun bs => match r bs with Good rest => Good (tt, rest) | Bad e => Bad e end.

Lemma ok_read_hdr t : ok_reader (unit_reader (read_hdr t)).
Proof.
  apply (ok_ext (fun bs => rbind (read_u32 bs) (fun '(m, r1) =>
           (fun m r1 => rbind (read_u32 r1) (fun '(g, r2) =>
              match (if negb (m =? MAGIC_HEADER) then Bad BadMagic else if negb (g =? t) then Bad BadTag else Good tt) with
              | Good y => Good (y, r2) | Bad e => Bad e end)) m r1))).
  - intros bs. unfold unit_reader, read_hdr. destruct (read_u32 bs) as [[m r1]|e]; cbn [rbind]; [|reflexivity].
    destruct (read_u32 r1) as [[g r2]|e]; cbn [rbind]; [|reflexivity].
    destruct (negb (m =? MAGIC_HEADER)); [reflexivity|]. destruct (negb (g =? t)); reflexivity.
  - apply ok_bind; [apply ok_read_u32|]. intros m.
    apply (ok_guard read_u32 (fun g => if negb (m =? MAGIC_HEADER) then Bad BadMagic else if negb (g =? t) then Bad BadTag else Good tt)).
    apply ok_read_u32.
Qed.
Lemma ok_read_ftr t : ok_reader (unit_reader (read_ftr t)).
Proof.
  apply (ok_ext (fun bs => rbind (read_u32 bs) (fun '(m, r1) =>
           (fun m r1 => rbind (read_u32 r1) (fun '(g, r2) =>
              match (if negb (m =? MAGIC_FOOTER) then Bad BadMagic else if negb (g =? (t + 536870912) mod 2 ^ 32) then Bad BadTag else Good tt) with
              | Good y => Good (y, r2) | Bad e => Bad e end)) m r1))).
  - intros bs. unfold unit_reader, read_ftr. destruct (read_u32 bs) as [[m r1]|e]; cbn [rbind]; [|reflexivity].
    destruct (read_u32 r1) as [[g r2]|e]; cbn [rbind]; [|reflexivity].
    destruct (negb (m =? MAGIC_FOOTER)); [reflexivity|]. destruct (negb (g =? (t + 536870912) mod 2 ^ 32)); reflexivity.
  - apply ok_bind; [apply ok_read_u32|]. intros m.
    apply (ok_guard read_u32 (fun g => if negb (m =? MAGIC_FOOTER) then Bad BadMagic else if negb (g =? (t + 536870912) mod 2 ^ 32) then Bad BadTag else Good tt)).
    apply ok_read_u32.
Qed.

Lemma ok_read_scalars t n : ok_reader (read_scalars t n).
Proof.
  induction n as [|n IH]; cbn [read_scalars]; [apply ok_ret|].
  apply (ok_ext (fun bs => rbind (take (sty_nbytes t) bs) (fun '(h, r) =>
           (fun h r => rbind (read_scalars t n r) (fun '(vs, r') =>
              match Good (dec t h :: vs) with Good y => Good (y, r') | Bad e => Bad e end)) h r))).
  - intros bs. destruct (take (sty_nbytes t) bs) as [[h r]|e]; cbn [rbind]; [|reflexivity].
    destruct (read_scalars t n r) as [[vs r']|e]; reflexivity.
  - apply ok_bind; [apply ok_take|]. intros h.
    apply (ok_guard (read_scalars t n) (fun vs => Good (dec t h :: vs))). exact IH.
Qed.
Lemma ok_read_u64s n : ok_reader (read_u64s n).
Proof.
  induction n as [|n IH]; cbn [read_u64s]; [apply ok_ret|].
  apply (ok_ext (fun bs => rbind (read_u64 bs) (fun '(v, r) =>
           (fun v r => rbind (read_u64s n r) (fun '(vs, r') =>
              match Good (v :: vs) with Good y => Good (y, r') | Bad e => Bad e end)) v r))).
  - intros bs. destruct (read_u64 bs) as [[v r]|e]; cbn [rbind]; [|reflexivity].
    destruct (read_u64s n r) as [[vs r']|e]; reflexivity.
  - apply ok_bind; [apply ok_read_u64|]. intros v.
    apply (ok_guard (read_u64s n) (fun vs => Good (v :: vs))). exact IH.
Qed.

(* how many bytes a scalar block consumes *)
Lemma read_scalars_consumes t n : forall bs vs r, read_scalars t n bs = Good (vs, r) ->
  length bs = (n * sty_nbytes t + length r)%nat /\ length vs = n.
Proof.
  induction n as [|n IH]; intros bs vs r E; cbn [read_scalars] in E.
  - inversion E; subst. cbn. lia.
  - destruct (take (sty_nbytes t) bs) as [[h r1]|e] eqn:E1; cbn [rbind] in E; [|discriminate].
    destruct (read_scalars t n r1) as [[vs' r']|e] eqn:E2; cbn [rbind] in E; [|discriminate].
    inversion E; subst. destruct (take_good _ _ _ _ E1) as [-> Hl]. destruct (IH _ _ _ E2) as [H1 H2].
    rewrite app_length. cbn [length]. lia.
Qed.

(* ------------------------------------------------------------------ well-formed fields *)
Definition in_range (t : sty) (v : Z) : bool :=
  match t with
  | F32 | U32 => (0 <=? v) && (v <? 2 ^ 32)
  | F64 | U64 => (0 <=? v) && (v <? 2 ^ 64)
  | I32 => (- 2 ^ 31 <=? v) && (v <? 2 ^ 31)
  | I64 => (- 2 ^ 63 <=? v) && (v <? 2 ^ 63)
  end.
Definition all_in (t : sty) (n : nat) (l : list Z) : bool := (length l =? n)%nat && forallb (in_range t) l.

Definition wf_cfg (l : layer) (k : kind) (g : cfg) : bool :=
  match l, g with
  | LStrided n _, CSizes s | LMorton n _ _, CSizes s => all_in U64 n s
  | LHilbert _, CSizes s => all_in U64 2 s
  | LClamp, CBox lo hi => all_in (k_tc k) (k_n k) lo && all_in (k_tc k) (k_n k) hi
  | LBackup, CBackup lo hi d => all_in (k_tc k) (k_n k) lo && all_in (k_tc k) (k_n k) hi && all_in (k_tv k) (k_m k) d
  | LAffine, CAffine m => all_in (k_tc k) (k_n k * S (k_n k)) m
  | LShuffle _, CUnit | LCast _, CUnit | LDeref, CUnit | LLinear _, CUnit | LNearest _, CUnit => true
  | _, _ => false
  end.
Definition wf_prim (p : prim) (d : pdat) : bool :=
  match p, d with
  | PArray m t, DArray len data => is_float t && (0 <=? len) && (len <? 2 ^ 64) && all_in t (Z.to_nat len * m) data
  | PConstant _ _ m tv, DConst v => all_in tv m v
  | PIdentity _ _, DIdent => true
  | _, _ => false
  end.
Fixpoint wf_layers (ls : list layer) (p : prim) (gs : list cfg) (d : pdat) : bool :=
  match ls, gs with
  | [], [] => wf_prim p d
  | l :: ls', g :: gs' =>
      match kind_of_layers ls' p with
      | Some k => wf_cfg l k g && wf_layers ls' p gs' d
      | None => false
      end
  | _, _ => false
  end.
Definition wf_fld (s : stack) (f : fld) : bool := wf_layers (fst s) (snd s) (f_cfgs f) (f_prim f).

(* ------------------------------------------------------------------ reader o writer, piece by piece *)
Lemma u32_length v : length (u32 v) = 4%nat. Proof. apply le_bytes_length. Qed.
Lemma u64_length v : length (u64 v) = 8%nat. Proof. apply le_bytes_length. Qed.

Lemma read_u32_u32 v tl : read_u32 (u32 v ++ tl) = Good (v mod 2 ^ 32, tl).
Proof.
  unfold read_u32. rewrite take_app by apply u32_length. cbn [rbind]. unfold u32.
  rewrite le_value_bytes; [reflexivity|]. change (256 ^ Z.of_nat 4) with (2 ^ 32). apply Z.mod_pos_bound. lia.
Qed.
Lemma read_u64_u64 v tl : read_u64 (u64 v ++ tl) = Good (v mod 2 ^ 64, tl).
Proof.
  unfold read_u64. rewrite take_app by apply u64_length. cbn [rbind]. unfold u64.
  rewrite le_value_bytes; [reflexivity|]. change (256 ^ Z.of_nat 8) with (2 ^ 64). apply Z.mod_pos_bound. lia.
Qed.

Definition is_tag (t : Z) : Prop := 0 <= t < 2 ^ 32.

Lemma read_hdr_hdr t tl : is_tag t -> read_hdr t (hdr t ++ tl) = Good tl.
Proof.
  intros Ht. unfold read_hdr, hdr. rewrite <- app_assoc, read_u32_u32. cbn [rbind].
  rewrite read_u32_u32. cbn [rbind]. rewrite (Z.mod_small t) by exact Ht.
  change (MAGIC_HEADER mod 2 ^ 32) with MAGIC_HEADER. now rewrite !Z.eqb_refl.
Qed.
Lemma read_ftr_ftr t tl : read_ftr t (ftr t ++ tl) = Good tl.
Proof.
  unfold read_ftr, ftr. rewrite <- app_assoc, read_u32_u32. cbn [rbind].
  rewrite read_u32_u32. cbn [rbind].
  change (MAGIC_FOOTER mod 2 ^ 32) with MAGIC_FOOTER. now rewrite !Z.eqb_refl.
Qed.

Lemma dec_enc t v : in_range t v = true -> dec t (enc t v) = v.
Proof.
  intros H. unfold dec, enc.
  assert (Hw : 256 ^ Z.of_nat (sty_nbytes t) = 2 ^ (8 * Z.of_nat (sty_nbytes t))).
  { destruct t; reflexivity. }
  rewrite le_value_bytes by (rewrite Hw; apply Z.mod_pos_bound; destruct t; reflexivity).
  destruct t; cbn [sty_signed sty_nbytes in_range andb] in *;
    change (8 * Z.of_nat 4) with 32 in *; change (8 * Z.of_nat 8) with 64 in *;
    change (32 - 1) with 31; change (64 - 1) with 63; clear Hw;
    change (2 ^ 32) with 4294967296 in *; change (2 ^ 31) with 2147483648 in *;
    change (2 ^ 64) with 18446744073709551616 in *; change (2 ^ 63) with 9223372036854775808 in *;
    try match goal with |- context [if ?b then _ else _] => destruct b eqn:? end; lia.
Qed.

Lemma enc_length t v : length (enc t v) = sty_nbytes t.
Proof. apply le_bytes_length. Qed.

Lemma encs_length t vs : length (encs t vs) = (length vs * sty_nbytes t)%nat.
Proof.
  induction vs as [|v vs IH]; cbn [encs flat_map length]; [reflexivity|].
  rewrite app_length, enc_length. unfold encs in IH. lia.
Qed.

Lemma read_scalars_encs t vs tl : forallb (in_range t) vs = true ->
  read_scalars t (length vs) (encs t vs ++ tl) = Good (vs, tl).
Proof.
  induction vs as [|v vs IH]; intros H; cbn [encs flat_map length read_scalars forallb] in *; [reflexivity|].
  apply andb_prop in H. destruct H as [Hv Hvs].
  rewrite <- app_assoc, take_app by apply enc_length. cbn [rbind].
  unfold encs in IH. rewrite IH by assumption. cbn [rbind]. now rewrite dec_enc.
Qed.

Lemma read_u64s_u64s vs tl : forallb (in_range U64) vs = true ->
  read_u64s (length vs) (flat_map u64 vs ++ tl) = Good (vs, tl).
Proof.
  induction vs as [|v vs IH]; intros H; cbn [flat_map length read_u64s forallb] in *; [reflexivity|].
  apply andb_prop in H. destruct H as [Hv Hvs].
  rewrite <- app_assoc, read_u64_u64. cbn [rbind]. rewrite IH by assumption. cbn [rbind].
  cbn [in_range] in Hv. rewrite Z.mod_small by lia. reflexivity.
Qed.

Lemma read_scalars_encs' t n vs tl : length vs = n -> forallb (in_range t) vs = true ->
  read_scalars t n (encs t vs ++ tl) = Good (vs, tl).
Proof. intros <-. apply read_scalars_encs. Qed.
Lemma read_u64s_u64s' n vs tl : length vs = n -> forallb (in_range U64) vs = true ->
  read_u64s n (flat_map u64 vs ++ tl) = Good (vs, tl).
Proof. intros <-. apply read_u64s_u64s. Qed.

Lemma all_in_spec t n l : all_in t n l = true -> length l = n /\ forallb (in_range t) l = true.
Proof. unfold all_in. intros H. apply andb_prop in H. destruct H as [H1 H2]. split; [lia|assumption]. Qed.

Lemma tags_ok : is_tag TAG_FIELD /\ is_tag TAG_ARRAY /\ is_tag TAG_CONSTANT /\ is_tag TAG_IDENTITY /\
  is_tag TAG_AFFINE /\ is_tag TAG_BACKUP /\ is_tag TAG_CLAMP /\ is_tag TAG_HILBERT /\ is_tag TAG_MORTON /\ is_tag TAG_STRIDED.
Proof. unfold is_tag; repeat split; vm_compute; congruence. Qed.

Local Opaque hdr ftr u32 u64 encs Z.pow.

Section LoadDump.
  Variable ops : sops.
  (* converting a stored scalar to its own type is the identity (true of flocq_ops by computation) *)
  Hypothesis conv_id : forall t v, is_float t = true -> s_conv ops t t v = v.

  Lemma map_conv_id t vs : is_float t = true -> map (s_conv ops t t) vs = vs.
  Proof. intros H. induction vs as [|v vs IH]; cbn [map]; [reflexivity|]. now rewrite conv_id, IH. Qed.

  Lemma load_prim_dump p d bs tl : wf_prim p d = true -> dump_prim p d = Some bs ->
    load_prim ops p (bs ++ tl) = Good (d, tl).
  Proof.
    destruct tags_ok as [_ [Ta [Tc [Ti _]]]].
    destruct p as [m t|n tc m tv|n t|n tc m tv]; destruct d as [len data|v|]; cbn [wf_prim dump_prim]; try discriminate.
    - intros W E. repeat (apply andb_prop in W; destruct W as [W ?]).
      destruct (all_in_spec _ _ _ H) as [Hl Hr].
      assert (Hw : exists w, float_width t = Some w /\ (w = 4 /\ t = F32 \/ w = 8 /\ t = F64)).
      { destruct t; try discriminate; cbn; eauto. }
      destruct Hw as [w [Ew Hw]]. rewrite Ew in E. injection E as <-.
      unfold load_prim. rewrite <- !app_assoc, read_hdr_hdr by assumption. cbn [rbind].
      rewrite read_u32_u32. cbn [rbind]. rewrite read_u64_u64. 
      rewrite (Z.mod_small w) by lia. rewrite (Z.mod_small len) by lia.
      assert (Eft : (if w =? 4 then F32 else F64) = t) by (destruct Hw as [[-> ->]|[-> ->]]; reflexivity).
      replace (negb ((w =? 4) || (w =? 8))) with false by (destruct Hw as [[-> _]|[-> _]]; reflexivity).
      cbn [rbind]. rewrite Eft.
      assert (Hlen : Z.of_nat (length (encs t data ++ ftr TAG_ARRAY ++ tl)) <? len * Z.of_nat m * w = false).
      { rewrite app_length, encs_length, Hl.
        assert (Z.of_nat (sty_nbytes t) = w) by (destruct Hw as [[-> ->]|[-> ->]]; reflexivity). nia. }
      rewrite Hlen. rewrite <- Hl, read_scalars_encs by assumption. cbn [rbind].
      rewrite read_ftr_ftr. cbn [rbind]. rewrite map_conv_id by assumption. reflexivity.
    - intros W E. destruct (all_in_spec _ _ _ W) as [Hl Hr]. injection E as <-.
      unfold load_prim. rewrite <- !app_assoc, read_hdr_hdr by assumption. cbn [rbind].
      rewrite <- Hl, read_scalars_encs by assumption. cbn [rbind]. rewrite read_ftr_ftr. reflexivity.
    - intros _ E. injection E as <-. unfold load_prim.
      rewrite <- !app_assoc, read_hdr_hdr by assumption. cbn [rbind]. rewrite read_ftr_ftr. reflexivity.
  Qed.

  Lemma layer_tag_is_tag l t : layer_tag l = Some t -> is_tag t.
  Proof.
    destruct tags_ok as [_ [_ [_ [_ [T1 [T2 [T3 [T4 [T5 T6]]]]]]]]].
    destruct l; cbn; intros E; inversion E; subst; assumption.
  Qed.

  (* a tagged layer's dump is header, configuration bytes, inner, footer; an untagged one's is inner *)
  Definition cfg_bytes (l : layer) (k : kind) (g : cfg) : list Z :=
    match l, g with
    | LStrided _ _, CSizes s | LMorton _ _ _, CSizes s | LHilbert _, CSizes s => flat_map u64 s
    | LClamp, CBox lo hi => encs (k_tc k) lo ++ encs (k_tc k) hi
    | LBackup, CBackup lo hi d => encs (k_tc k) lo ++ encs (k_tc k) hi ++ encs (k_tv k) d
    | LAffine, CAffine m => encs (k_tc k) m
    | _, _ => []
    end.

  Lemma dump_layer_shape l k g inner : wf_cfg l k g = true ->
    dump_layer l k g inner =
      Some (match layer_tag l with Some t => hdr t ++ cfg_bytes l k g ++ inner ++ ftr t | None => inner end).
  Proof.
    destruct l; destruct g; cbn [wf_cfg dump_layer layer_tag cfg_bytes wrap_tag]; try discriminate; intros _;
      unfold wrap_tag; rewrite <- ?app_assoc; reflexivity.
  Qed.

  Lemma load_cfg_bytes l k g tl : wf_cfg l k g = true ->
    load_cfg l k (cfg_bytes l k g ++ tl) = Good (g, tl).
  Proof.
    destruct l; destruct g; cbn [wf_cfg load_cfg cfg_bytes]; try discriminate; intros W;
      repeat match goal with H : _ && _ = true |- _ => apply andb_prop in H; destruct H end;
      repeat match goal with H : all_in _ _ _ = true |- _ => apply all_in_spec in H; destruct H as [? ?] end;
      try reflexivity.
    all: rewrite <- ?app_assoc;
      repeat (first [rewrite read_u64s_u64s' by assumption | rewrite read_scalars_encs' by assumption]; cbn [rbind]);
      reflexivity.
  Qed.
End LoadDump.

Section LoadDump2.
  Variable ops : sops.
  Hypothesis conv_id : forall t v, is_float t = true -> s_conv ops t t v = v.

  Lemma load_layers_dump ls p : forall gs d bs tl,
    wf_layers ls p gs d = true -> dump_layers ls p gs d = Some bs ->
    load_layers ops ls p (bs ++ tl) = Good (gs, d, tl).
  Proof.
    induction ls as [|l ls IH]; intros gs d bs tl W E.
    - destruct gs; [|discriminate]. cbn [wf_layers dump_layers load_layers] in *.
      now rewrite (load_prim_dump ops conv_id p d bs tl W E).
    - destruct gs as [|g gs]; [discriminate|]. cbn [wf_layers dump_layers load_layers] in *.
      destruct (kind_of_layers ls p) as [k|]; [|discriminate].
      apply andb_prop in W. destruct W as [Wg Wr].
      destruct (dump_layers ls p gs d) as [inner|] eqn:Ei; [|discriminate].
      rewrite (dump_layer_shape l k g inner Wg) in E. injection E as <-.
      destruct (layer_tag l) as [t|] eqn:Et.
      + rewrite <- !app_assoc, read_hdr_hdr by (eapply layer_tag_is_tag; eassumption). cbn [rbind].
        rewrite load_cfg_bytes by assumption. cbn [rbind].
        rewrite (IH gs d inner _ Wr Ei). cbn [rbind]. rewrite read_ftr_ftr. reflexivity.
      + rewrite (IH gs d inner _ Wr Ei). cbn [rbind].
        destruct l; try discriminate; destruct g; try discriminate; reflexivity.
  Qed.

  Theorem load_dump s f bs tl : wf_fld s f = true -> dump s f = Some bs ->
    load ops s (bs ++ tl) = Good (f, tl).
  Proof.
    unfold wf_fld, dump, load. intros W E.
    destruct (dump_layers (fst s) (snd s) (f_cfgs f) (f_prim f)) as [b|] eqn:Eb; [|discriminate].
    injection E as <-. destruct tags_ok as [Tf _].
    rewrite <- !app_assoc, read_hdr_hdr by assumption. cbn [rbind].
    rewrite (load_layers_dump _ _ _ _ _ _ W Eb). cbn [rbind]. rewrite read_ftr_ftr. cbn [rbind].
    destruct f; reflexivity.
  Qed.

  Theorem dump_load_dump s f bs f' rest : wf_fld s f = true -> dump s f = Some bs ->
    load ops s bs = Good (f', rest) -> rest = [] /\ dump s f' = Some bs.
  Proof.
    intros W E L. pose proof (load_dump s f bs [] W E) as L'. rewrite app_nil_r in L'.
    rewrite L in L'. injection L' as -> ->. auto.
  Qed.
End LoadDump2.

(* every well-kinded stack with a well-formed field has a dump *)
Lemma dump_layers_total ls p : forall gs d, wf_layers ls p gs d = true -> exists bs, dump_layers ls p gs d = Some bs.
Proof.
  induction ls as [|l ls IH]; intros gs d W.
  - destruct gs; [|discriminate]. cbn [wf_layers dump_layers] in *.
    destruct p as [m t|n tc m tv|n t|n tc m tv]; destruct d as [len data|v|]; cbn [wf_prim dump_prim] in *; try discriminate; eauto.
    destruct t; cbn in W; try discriminate; cbn [float_width]; eauto.
  - destruct gs as [|g gs]; [discriminate|]. cbn [wf_layers dump_layers] in *.
    destruct (kind_of_layers ls p) as [k|]; [|discriminate].
    apply andb_prop in W. destruct W as [Wg Wr]. destruct (IH _ _ Wr) as [inner ->].
    rewrite (dump_layer_shape l k g inner Wg). eauto.
Qed.
Theorem dump_total s f : wf_fld s f = true -> exists bs, dump s f = Some bs.
Proof. unfold wf_fld, dump. intros W. destruct (dump_layers_total _ _ _ _ W) as [b ->]. eauto. Qed.

(* ------------------------------------------------------------------ the reader is prefix-safe *)
Section OkLoad.
  Variable ops : sops.

  Lemma ok_unit_bind {B} (r : list Z -> result (list Z)) (f : Reader B) :
    ok_reader (unit_reader r) -> ok_reader f -> ok_reader (fun bs => rbind (r bs) f).
  Proof.
    intros Hr Hf.
    apply (ok_ext (fun bs => rbind (unit_reader r bs) (fun '(x, rest) => (fun _ => f) x rest))).
    - intros bs. unfold unit_reader. destruct (r bs); reflexivity.
    - apply ok_bind; [assumption|]. intros _. assumption.
  Qed.

  Lemma ok_bind2 {A B} (r : Reader A) (f : A -> Reader B) (r' : Reader B) :
    (forall bs, r' bs = rbind (r bs) (fun '(x, rest) => f x rest)) ->
    ok_reader r -> (forall x, ok_reader (f x)) -> ok_reader r'.
  Proof. intros E Hr Hf. eapply ok_ext; [intros bs; symmetry; apply E|]. now apply ok_bind. Qed.

  Lemma ok_ftr_ret {B} t (y : B) :
    ok_reader (fun bs => rbind (read_ftr t bs) (fun r => Good (y, r))).
  Proof. apply ok_unit_bind; [apply ok_read_ftr|apply ok_ret]. Qed.

  (* the payload of an array: the guard on the remaining length followed by the scalar block *)
  Definition guarded_scalars (ft : sty) (len : Z) (m : nat) (w : Z) : Reader (list Z) :=
    fun r2 => if (Z.of_nat (length r2) <? len * Z.of_nat m * w) then Bad ShortRead
              else read_scalars ft (Z.to_nat len * m) r2.

  Lemma ok_guarded_scalars ft len m w : w = Z.of_nat (sty_nbytes ft) -> ok_reader (guarded_scalars ft len m w).
  Proof.
    intros Hw bs vs rest E. unfold guarded_scalars in E.
    destruct (Z.of_nat (length bs) <? len * Z.of_nat m * w) eqn:G; [discriminate|].
    destruct (ok_read_scalars _ _ _ _ _ E) as [u [-> [D P]]].
    destruct (read_scalars_consumes _ _ _ _ _ E) as [Hc _]. rewrite app_length in Hc.
    exists u. split; [reflexivity|]. split.
    - intros tl. unfold guarded_scalars. rewrite app_length in *.
      destruct (Z.of_nat (length u + length tl) <? len * Z.of_nat m * w) eqn:G'; [|apply D].
      exfalso. assert (length u = (Z.to_nat len * m * sty_nbytes ft)%nat) by lia.
      destruct (Z.leb_spec 0 len); nia.
    - intros p S. unfold guarded_scalars.
      destruct (Z.of_nat (length p) <? len * Z.of_nat m * w); [eauto|]. apply P, S.
  Qed.

  Lemma ok_load_prim p : ok_reader (load_prim ops p).
  Proof.
    destruct p as [m t|n tc m tv|n t|n tc m tv]; unfold load_prim.
    - apply ok_unit_bind; [apply ok_read_hdr|].
      apply ok_bind2 with (r := read_u32) (f := fun w r1 =>
        if negb ((w =? 4) || (w =? 8)) then Bad BadWidth else
        rbind (read_u64 r1) (fun '(len, r2) =>
        if (Z.of_nat (length r2) <? len * Z.of_nat m * w) then Bad ShortRead else
        rbind (read_scalars (if w =? 4 then F32 else F64) (Z.to_nat len * m) r2) (fun '(vs, r3) =>
        rbind (read_ftr TAG_ARRAY r3) (fun r4 =>
        Good (DArray len (map (s_conv ops (if w =? 4 then F32 else F64) t) vs), r4))))); [|apply ok_read_u32|].
      { intros bs. destruct (read_u32 bs) as [[w r1]|e]; reflexivity. }
      intros w. destruct (negb ((w =? 4) || (w =? 8))) eqn:Ew; [apply ok_fail|].
      apply ok_bind2 with (r := read_u64) (f := fun len r2 =>
          rbind (guarded_scalars (if w =? 4 then F32 else F64) len m w r2) (fun '(vs, r3) =>
          rbind (read_ftr TAG_ARRAY r3) (fun r4 => Good (DArray len (map (s_conv ops (if w =? 4 then F32 else F64) t) vs), r4))));
        [|apply ok_read_u64|].
      { intros bs. destruct (read_u64 bs) as [[len r2]|e]; cbn [rbind]; [|reflexivity].
        unfold guarded_scalars. destruct (Z.of_nat (length r2) <? len * Z.of_nat m * w); reflexivity. }
      intros len. cbn beta.
      apply ok_bind with (f := fun vs r3 => rbind (read_ftr TAG_ARRAY r3) (fun r4 => Good (DArray len (map (s_conv ops (if w =? 4 then F32 else F64) t) vs), r4))).
      + apply ok_guarded_scalars. destruct (Z.eqb_spec w 4) as [E4|N4]; [rewrite E4; reflexivity|].
        destruct (Z.eqb_spec w 8) as [E8|N8]; [rewrite E8; reflexivity|discriminate].
      + intros vs. apply ok_ftr_ret.
    - apply ok_unit_bind; [apply ok_read_hdr|].
      apply ok_bind with (f := fun vs r1 => rbind (read_ftr TAG_CONSTANT r1) (fun r2 => Good (DConst vs, r2))).
      + apply ok_read_scalars.
      + intros vs. apply ok_ftr_ret.
    - apply ok_unit_bind; [apply ok_read_hdr|]. apply ok_ftr_ret.
    - apply ok_fail.
  Qed.

  Lemma ok_load_cfg l k : ok_reader (load_cfg l k).
  Proof.
    destruct l; cbn [load_cfg]; try apply ok_ret.
    - apply (ok_guard (read_u64s n) (fun s => Good (CSizes s))), ok_read_u64s.
    - apply (ok_guard (read_u64s n) (fun s => Good (CSizes s))), ok_read_u64s.
    - apply (ok_guard (read_u64s 2) (fun s => Good (CSizes s))), ok_read_u64s.
    - apply ok_bind with (f := fun lo r1 => rbind (read_scalars (k_tc k) (k_n k) r1) (fun '(hi, r2) => Good (CBox lo hi, r2)));
        [apply ok_read_scalars|].
      intros lo. apply (ok_guard (read_scalars (k_tc k) (k_n k)) (fun hi => Good (CBox lo hi))), ok_read_scalars.
    - apply ok_bind with (f := fun lo r1 => rbind (read_scalars (k_tc k) (k_n k) r1) (fun '(hi, r2) =>
          rbind (read_scalars (k_tv k) (k_m k) r2) (fun '(d, r3) => Good (CBackup lo hi d, r3))));
        [apply ok_read_scalars|].
      intros lo.
      apply ok_bind with (f := fun hi r2 => rbind (read_scalars (k_tv k) (k_m k) r2) (fun '(d, r3) => Good (CBackup lo hi d, r3)));
        [apply ok_read_scalars|].
      intros hi. apply (ok_guard (read_scalars (k_tv k) (k_m k)) (fun d => Good (CBackup lo hi d))), ok_read_scalars.
    - apply (ok_guard (read_scalars (k_tc k) (k_n k * S (k_n k))) (fun m => Good (CAffine m))), ok_read_scalars.
  Qed.

  Lemma ok_load_layers ls p : ok_reader (load_layers ops ls p).
  Proof.
    induction ls as [|l ls IH]; cbn [load_layers].
    - apply (ok_guard (load_prim ops p) (fun d => Good ([], d))), ok_load_prim.
    - destruct (kind_of_layers ls p) as [k|]; [|apply ok_fail].
      destruct (layer_tag l) as [t|].
      + apply ok_unit_bind; [apply ok_read_hdr|].
        apply ok_bind with (f := fun g r1 => rbind (load_layers ops ls p r1) (fun '(gs, d, r2) =>
            rbind (read_ftr t r2) (fun r3 => Good (g :: gs, d, r3)))); [apply ok_load_cfg|].
        intros g.
        eapply ok_bind2 with (r := load_layers ops ls p) (f := fun x r2 => rbind (read_ftr t r2) (fun r3 => Good (g :: fst x, snd x, r3)));
          [|exact IH|].
        * intros bs. destruct (load_layers ops ls p bs) as [[[gs d] r2]|e]; reflexivity.
        * intros x. apply ok_ftr_ret.
      + eapply ok_bind2 with (r := load_layers ops ls p) (f := fun x r => Good (CUnit :: fst x, snd x, r)); [|exact IH|].
        * intros bs. destruct (load_layers ops ls p bs) as [[[gs d] r2]|e]; reflexivity.
        * intros x. apply ok_ret.
  Qed.

  Theorem load_ok_reader s : ok_reader (load ops s).
  Proof.
    unfold load. apply ok_unit_bind; [apply ok_read_hdr|].
    eapply ok_bind2 with (r := load_layers ops (fst s) (snd s))
      (f := fun x r1 => rbind (read_ftr TAG_FIELD r1) (fun r2 => Good ({| f_cfgs := fst x; f_prim := snd x |}, r2)));
      [| apply ok_load_layers |].
    - intros bs. destruct (load_layers ops (fst s) (snd s) bs) as [[[gs d] r1]|e]; reflexivity.
    - intros x. apply ok_ftr_ret.
  Qed.

  Hypothesis conv_id : forall t v, is_float t = true -> s_conv ops t t v = v.

  (* C08: a writer interrupted at ANY byte leaves a stream the reader rejects *)
  Theorem prefix_rejected s f bs p : wf_fld s f = true -> dump s f = Some bs ->
    sprefix p bs -> exists e, load ops s p = Bad e.
  Proof.
    intros W E S. pose proof (load_dump ops conv_id s f bs [] W E) as L.
    destruct (load_ok_reader s _ _ _ L) as [u [Eu [_ P]]].
    rewrite !app_nil_r in Eu. subst u. exact (P p S).
  Qed.

  (* the reader never consumes more or less than the dump: anything after it is left unread *)
  Theorem load_consumes_exactly s f bs tl : wf_fld s f = true -> dump s f = Some bs ->
    load ops s (bs ++ tl) = Good (f, tl).
  Proof. exact (load_dump ops conv_id s f bs tl). Qed.
End OkLoad.
